package main

import (
	"bufio"
	"bytes"
	"fmt"
	"strconv"
	"strings"
	"time"

	"github.com/ozontech/file.d/decoder"
	"github.com/ozontech/file.d/pipeline"
	"github.com/ozontech/file.d/plugin/input/fake"
	"github.com/ozontech/file.d/plugin/output/devnull"
	"github.com/prometheus/client_golang/prometheus"
	"go.uber.org/zap"

	"verifharness/internal/hx"
	"verifharness/internal/jt"
)

// c12.in: the real Pipeline.In (checkInputBytes, decoder selection, event building) on a line that
// is a sub-slice of a larger buffer, the way the file worker hands `readBuf[:pos+1]` to the
// pipeline: the buffer is `line ++ following`, In gets buf[:len(line)] whose capacity covers
// `following`.
//
//	c12.in <max_event_size> <cut_off> <following> <inner cmd> <inner args… line>
//
// inner cmd: c12.cri | c12.pg | c12.nginx | c12.s3164 | c12.s5424 | c12.csv | c12.raw | c12.jsonl,
// with the arguments of the scanner case (oracle columns evaluated on the bytes the decoder will
// get, i.e. after a cut-off). Result: `ok <event, keys sorted> L <line after> A <following after>`
// | `refused L … A …`.

func init() { execs["c12.in"] = execC12In }

type c12Pipe struct {
	p   *pipeline.Pipeline
	out chan string
	off int64
}

var c12Pipes = map[string]*c12Pipe{}

func c12PipeFor(dec string, params decoder.Params, max int, cutOff bool) *c12Pipe {
	key := fmt.Sprintf("%s %v %d %v", dec, params, max, cutOff)
	if pp, ok := c12Pipes[key]; ok {
		return pp
	}
	settings := &pipeline.Settings{
		Capacity:                16,
		MaintenanceInterval:     time.Second * 5,
		EventTimeout:            pipeline.DefaultEventTimeout,
		Antispam:                pipeline.AntispamSettings{Threshold: pipeline.DefaultAntispamThreshold},
		AvgEventSize:            2048,
		MetaCacheSize:           32,
		StreamField:             "stream",
		Decoder:                 dec,
		DecoderParams:           params,
		MaxEventSize:            max,
		CutOffEventByLimit:      cutOff,
		CutOffEventByLimitField: "cut",
		Metric: &pipeline.MetricSettings{
			HoldDuration:        pipeline.DefaultMetricHoldDuration,
			MaxLabelValueLength: pipeline.DefaultMetricMaxLabelValueLength,
		},
	}
	p := pipeline.New("c12_in_"+strconv.Itoa(len(c12Pipes)), settings, prometheus.NewRegistry(), zap.NewNop())
	p.DisableParallelism()
	in, _ := fake.Factory()
	p.SetInput(&pipeline.InputPluginInfo{
		PluginStaticInfo:  &pipeline.PluginStaticInfo{Type: "fake"},
		PluginRuntimeInfo: &pipeline.PluginRuntimeInfo{Plugin: in.(*fake.Plugin)},
	})
	out, _ := devnull.Factory()
	outPlugin := out.(*devnull.Plugin)
	pp := &c12Pipe{p: p, out: make(chan string, 4)}
	outPlugin.SetOutFn(func(e *pipeline.Event) {
		t := jt.FromNode(e.Root.Node)
		sortTree(t)
		pp.out <- "ok " + t.Tok()
	})
	p.SetOutput(&pipeline.OutputPluginInfo{
		PluginStaticInfo:  &pipeline.PluginStaticInfo{Type: "devnull"},
		PluginRuntimeInfo: &pipeline.PluginRuntimeInfo{Plugin: outPlugin},
	})
	p.Start()
	c12Pipes[key] = pp
	return pp
}

// c12InConfig reads the inner case: decoder name, decoder params, the line.
func c12InConfig(cmd string, t *hx.Toks) (dec string, params decoder.Params, line []byte, ok bool) {
	params = decoder.Params{}
	switch cmd {
	case "c12.cri":
		dec = "cri"
	case "c12.pg":
		dec = "postgres"
	case "c12.raw":
		dec = "raw"
	case "c12.jsonl":
		dec = "json"
	case "c12.nginx":
		dec = "nginx_error"
		params["nginx_with_custom_fields"] = t.Bool()
		n := t.Int()
		for i := 0; i < n; i++ {
			_ = t.Bytes()
			_ = t.Bool()
		}
	case "c12.s3164", "c12.s5424":
		dec = "syslog_rfc3164"
		if cmd == "c12.s5424" {
			dec = "syslog_rfc5424"
		}
		params["syslog_facility_format"] = spf(t.Bool())
		params["syslog_severity_format"] = spf(t.Bool())
	case "c12.csv":
		dec = "csv"
		delim := t.Int()
		mode := "default"
		if t.Bool() {
			mode = "continue"
		}
		prefix := t.Bytes()
		nc := t.Int()
		cols := make([]any, 0, nc)
		for i := 0; i < nc && t.Err == nil; i++ {
			cols = append(cols, string(t.Bytes()))
		}
		_ = t.Bytes()
		if delim < 1 || delim > 255 {
			return "", nil, nil, false
		}
		params["columns"] = cols
		params["prefix"] = string(prefix)
		params["delimiter"] = string([]byte{byte(delim)})
		params["invalid_line_mode"] = mode
	default:
		return "", nil, nil, false
	}
	line = t.Bytes()
	return dec, params, line, t.Err == nil && t.Done()
}

func execC12In(t *hx.Toks) string {
	max := t.Int()
	cutOff := t.Bool()
	following := t.Bytes()
	cmd := t.Next()
	if t.Err != nil || max < 0 {
		return "bad-case"
	}
	dec, params, line, ok := c12InConfig(cmd, t)
	if !ok {
		return "bad-case"
	}
	pp := c12PipeFor(dec, params, max, cutOff)
	// guard | line | following | guard ; the slice handed to In has capacity up to the end of `following`
	n, m := len(line), len(following)
	full := make([]byte, 0, n+m+2*c12Guard)
	full = append(full, bytes.Repeat([]byte{0xA5}, c12Guard)...)
	full = append(full, line...)
	full = append(full, following...)
	full = append(full, bytes.Repeat([]byte{0x5A}, c12Guard)...)
	view := full[c12Guard : c12Guard+n : c12Guard+n+m]
	tail := func() string {
		for i := 0; i < c12Guard; i++ {
			if full[i] != 0xA5 || full[c12Guard+n+m+i] != 0x5A {
				return "frame-violated"
			}
		}
		return " L " + hx.Enc(full[c12Guard:c12Guard+n]) + " A " + hx.Enc(full[c12Guard+n:c12Guard+n+m])
	}
	pp.off += int64(n) + 1
	seq := pp.p.In(1, "c12", pipeline.NewOffsets(pp.off, nil), view, false, nil)
	if seq == pipeline.EventSeqIDError {
		tl := tail()
		if tl == "frame-violated" {
			return tl
		}
		return "refused" + tl
	}
	select {
	case r := <-pp.out:
		tl := tail()
		if tl == "frame-violated" {
			return tl
		}
		return r + tl
	case <-time.After(10 * time.Second):
		return "timeout"
	}
}

// effective replicates what checkInputBytes passes on (only to evaluate the oracle columns of the
// inner case on the bytes the decoder will really get).
func c12Effective(line []byte, max int, cutOff bool) []byte {
	if max != 0 && len(line) > max && cutOff {
		e := append([]byte(nil), line[:max]...)
		if line[len(line)-1] == '\n' {
			e = append(e, '\n')
		}
		return e
	}
	return line
}

func c12In(w *bufio.Writer, max int, cutOff bool, following []byte, kind string, line []byte) {
	eff := c12Effective(line, max, cutOff)
	var inner string
	switch kind {
	case "cri", "pg", "raw", "jsonl":
		inner = "c12." + kind + " " + hx.Enc(line)
	case "nginx":
		inner = fmt.Sprintf("c12.nginx 1 %s %s", c12NginxLetters(eff), hx.Enc(line))
	case "s3164":
		inner = "c12.s3164 0 1 " + hx.Enc(line)
	case "s5424":
		inner = "c12.s5424 1 0 " + hx.Enc(line)
	case "csv":
		inner = fmt.Sprintf("c12.csv 44 1 %s 2 %s %s %s %s", hx.Enc([]byte("c_")), hx.Enc([]byte("x")), hx.Enc([]byte("y")),
			hx.Enc(c12CSVTrimmed(',', eff)), hx.Enc(line))
	}
	fmt.Fprintf(w, "c12.in %d %s %s %s\n", max, hx.B(cutOff), hx.Enc(following), inner)
}

// padTo makes body exactly n bytes long (padding with 'x', or truncating).
func padTo(body []byte, n int) []byte {
	if n < 0 {
		n = 0
	}
	if len(body) >= n {
		return append([]byte(nil), body[:n]...)
	}
	return append(append([]byte(nil), body...), bytes.Repeat([]byte{'x'}, n-len(body))...)
}

func genC12In(w *bufio.Writer, r *hx.Rng, thorough bool) {
	bodies := map[string]func() []byte{
		"cri":   func() []byte { return []byte("2016-10-06T00:17:09Z stdout " + []string{"F", "P"}[r.Intn(2)] + " " + string(word(r, "\n"))) },
		"pg":    func() []byte { return pgLine(r) },
		"nginx": func() []byte { return nginxLine(r) },
		"s3164": func() []byte { return []byte("<34>" + validStamp3164(r) + " h a[1]: " + string(word(r, "\n"))) },
		"s5424": func() []byte { return []byte("<34>1 - h a - - - " + string(word(r, "\n"))) },
		"csv":   func() []byte { return csvLine(r, ',') },
		"raw":   func() []byte { return word(r, "\n") },
		"jsonl": func() []byte {
			return []byte(`{"k":"` + strings.Repeat("v", r.Range(0, 40)) + `","a":` + strconv.Itoa(r.Intn(100)) + `,"cut":"c"}`)
		},
	}
	kinds := []string{"cri", "pg", "nginx", "s3164", "s5424", "csv", "raw", "jsonl"}
	followings := [][]byte{[]byte("{\"next\":1}\n"), nil, []byte("N")}
	rounds := 2
	if thorough {
		rounds = 12
	}
	for round := 0; round < rounds; round++ {
		for _, kind := range kinds {
			for _, max := range []int{0, 16, 40, 120} {
				for _, cutOff := range []bool{false, true} {
					// total line lengths (newline included) around the limit, and one far above
					for _, d := range []int{-2, -1, 0, 1, 2, 9} {
						total := max + d
						if max == 0 {
							total = 30 + d
						}
						for _, nl := range []bool{true, false} {
							body := bodies[kind]()
							var line []byte
							if kind == "jsonl" && total-2 >= 20 {
								// keep the document valid at every length: pad the value of "k"
								pad := total - len(`{"k":"","a":1}`)
								if nl {
									pad--
								}
								line = []byte(`{"k":"` + strings.Repeat("v", pad) + `","a":1}`)
								if nl {
									line = append(line, '\n')
								}
							} else if nl {
								line = append(padTo(body, total-1), '\n')
							} else {
								line = padTo(body, total)
							}
							if len(line) == 0 {
								continue
							}
							c12In(w, max, cutOff, followings[r.Intn(len(followings))], kind, line)
						}
					}
					// the line as generated, whatever its length
					c12In(w, max, cutOff, followings[r.Intn(len(followings))], kind, withNL(r, bodies[kind]()))
				}
			}
		}
	}
	// small exhaustive scope: every line over {a, \n} up to length 5 × limits 0..4 × cut-off, raw decoder
	exhaustive([]string{"a", "\n"}, 5, func(s []byte) {
		if len(s) == 0 {
			return
		}
		for _, cutOff := range []bool{false, true} {
			c12In(w, len(s)%5, cutOff, []byte("N"), "raw", s)
		}
	})
}
