package main

// C04 — stress of the real streamer with the REAL heartbeat goroutine (streamer.start): many streams whose
// owners loop in blockGet, several putters; the heartbeat walks the blocked list every 200 ms while owners are
// woken by puts and leave / re-enter the list.
//
// case:   c04.hbstress <nstreams> <nputters> <run ms>
// result: progress <1 iff events kept being taken> stalled <0|1> taken <0|1: at least nstreams events taken>
//   Progress based, not throughput based: the run FAILS only if no event at all is taken for two whole seconds
//   while puts are pending or blocked.

import (
	"fmt"
	"sync"
	"sync/atomic"
	"time"

	"github.com/ozontech/file.d/pipeline"

	"verifharness/internal/hx"
)

func init() {
	execs["c04.hbstress"] = execHbStress
}

func execHbStress(t *hx.Toks) string {
	ns := t.Int()
	np := t.Int()
	ms := t.Int()
	if t.Err != nil || ns < 1 || ns > 5000 || np < 1 || np > 32 || ms < 200 || ms > 10000 {
		return "bad-case"
	}
	pipeline.VerifSetTrace(nil)
	pipeline.VerifSetGate(nil)
	v := pipeline.VerifNewStreamer(time.Hour)
	var taken, put atomic.Int64
	var stop atomic.Bool
	var owners sync.WaitGroup
	// one event per stream, one owner per stream
	for s := 0; s < ns; s++ {
		v.Put(uint64(s), "", int64(s+1))
	}
	attached := make(chan struct{}, ns)
	for s := 0; s < ns; s++ {
		owners.Add(1)
		go func() {
			defer owners.Done()
			st := v.Join()
			if st == nil {
				attached <- struct{}{}
				return
			}
			off, _, _, ok := st.InstantGet()
			if ok {
				v.Commit(off)
				taken.Add(1)
			}
			attached <- struct{}{}
			for {
				off, _, kind := st.BlockGet()
				if kind == 0 {
					v.Commit(off)
					taken.Add(1)
				}
				if stop.Load() {
					return
				}
			}
		}()
	}
	for s := 0; s < ns; s++ {
		<-attached
	}
	v.StartHeartbeat()
	var putters sync.WaitGroup
	next := atomic.Int64{}
	next.Store(int64(ns) + 1)
	for q := 0; q < np; q++ {
		putters.Add(1)
		go func(q int) {
			defer putters.Done()
			rng := hx.NewRng(uint64(q) + 77)
			for !stop.Load() {
				if put.Load()-taken.Load() > int64(4*ns) {
					time.Sleep(50 * time.Microsecond)
					continue
				}
				put.Add(1)
				v.Put(uint64(rng.Intn(ns)), "", next.Add(1))
			}
		}(q)
	}
	// watchdog
	stalled := false
	last, lastAt := taken.Load(), time.Now()
	deadline := time.Now().Add(time.Duration(ms) * time.Millisecond)
	for time.Now().Before(deadline) {
		time.Sleep(10 * time.Millisecond)
		if n := taken.Load(); n != last {
			last, lastAt = n, time.Now()
		} else if time.Since(lastAt) > 2*time.Second {
			stalled = true
			break
		}
	}
	stop.Store(true)
	got := taken.Load()
	if !stalled {
		// bring everybody home: putters finish, every owner gets one more event and returns
		pd := make(chan struct{})
		go func() { putters.Wait(); close(pd) }()
		select {
		case <-pd:
		case <-time.After(2 * time.Second):
			stalled = true
		}
		if !stalled {
			for s := 0; s < ns; s++ {
				v.Put(uint64(s), "", next.Add(1))
			}
			od := make(chan struct{})
			go func() { owners.Wait(); close(od) }()
			select {
			case <-od:
			case <-time.After(3 * time.Second):
				stalled = true
			}
		}
	}
	v.Release()
	b := func(x bool) int {
		if x {
			return 1
		}
		return 0
	}
	return fmt.Sprintf("progress %d stalled %d taken %d", b(!stalled), b(stalled), b(got >= int64(ns)))
}
