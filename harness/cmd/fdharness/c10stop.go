package main

import (
	"bufio"
	"encoding/binary"
	"fmt"
	"hash/crc32"
	"io"
	"net"
	"sort"
	"strconv"
	"strings"
	"sync"
	"time"

	"github.com/ozontech/file.d/cfg"
	"github.com/ozontech/file.d/metric"
	"github.com/ozontech/file.d/pipeline"
	"github.com/ozontech/file.d/plugin/input/kafka"
	"github.com/prometheus/client_golang/prometheus"
	"github.com/twmb/franz-go/pkg/kmsg"
	"go.uber.org/zap"
	"go.uber.org/zap/zapcore"

	"verifharness/internal/hx"
)

// c10.stop <ntopics> <name>… <nrec> (<name> <part> <offset> <epoch>)… <nfinish> <i>…
//
// The real plugin end to end against an in-process broker that speaks the minimum consumer-group
// protocol for one member (ApiVersions, Metadata, FindCoordinator, JoinGroup, SyncGroup, Heartbeat,
// OffsetFetch, ListOffsets, Fetch, OffsetCommit, LeaveGroup, OffsetForLeaderEpoch): the REAL
// Plugin.Start, franz-go joins the group and calls the real Assigned callback, the real poll loop
// fetches the case's records from the broker, the real consume loops hand them to In; the records of
// the finish list are acknowledged through the real Commit; then the REAL Plugin.Stop (final
// synchronous commit, leave group). Result: what In received per record, a flag whether any
// OffsetCommit the broker saw was later lowered, and the committed offset per topic/partition the
// broker holds at the end:  <nrec> (<sourceID> <offset>)… <regress> <k> (<name> <part> <epoch> <offset>)*k
// The autocommit interval is one hour, so the commits are Stop's (and the revoke's) only.

func init() {
	execs["c10.stop"] = execC10Stop
}

type c10LogRec struct {
	off   int64
	epoch int32
	value []byte
}

type c10TP struct {
	t string
	p int32
}

type c10Commit struct {
	epoch int32
	off   int64
}

type c10Broker struct {
	ln   net.Listener
	host string
	port int32

	mu         sync.Mutex
	topics     []string // distinct, in first-appearance order
	log        map[c10TP][]c10LogRec
	parts      map[string][]int32
	assignment []byte
	committed  map[c10TP]c10Commit
	ncommits   int
	regress    bool
	unhandled  []int16
}

func newC10Broker(topics []string, log map[c10TP][]c10LogRec) (*c10Broker, error) {
	ln, err := net.Listen("tcp", "127.0.0.1:0")
	if err != nil {
		return nil, err
	}
	b := &c10Broker{ln: ln, host: "127.0.0.1", port: int32(ln.Addr().(*net.TCPAddr).Port),
		log: log, parts: map[string][]int32{}, committed: map[c10TP]c10Commit{}}
	seen := map[string]bool{}
	for _, t := range topics {
		if !seen[t] {
			seen[t] = true
			b.topics = append(b.topics, t)
		}
	}
	// partitions of a topic are 0..max used (franz-go's balancers assign by partition count)
	maxPart := map[string]int32{}
	for k := range log {
		if k.p > maxPart[k.t] {
			maxPart[k.t] = k.p
		}
	}
	for _, t := range b.topics {
		for p := int32(0); p <= maxPart[t]; p++ {
			b.parts[t] = append(b.parts[t], p)
		}
	}
	go func() {
		for {
			c, err := ln.Accept()
			if err != nil {
				return
			}
			go b.serve(c)
		}
	}()
	return b, nil
}

func (b *c10Broker) serve(c net.Conn) {
	defer c.Close()
	for {
		var sizeBuf [4]byte
		if _, err := io.ReadFull(c, sizeBuf[:]); err != nil {
			return
		}
		n := binary.BigEndian.Uint32(sizeBuf[:])
		if n < 10 || n > 1<<24 {
			return
		}
		body := make([]byte, n)
		if _, err := io.ReadFull(c, body); err != nil {
			return
		}
		key := int16(binary.BigEndian.Uint16(body[0:]))
		version := int16(binary.BigEndian.Uint16(body[2:]))
		corrID := body[4:8]
		rest := body[8:]
		clientIDLen := int16(binary.BigEndian.Uint16(rest))
		rest = rest[2:]
		if clientIDLen > 0 {
			if int(clientIDLen) > len(rest) {
				return
			}
			rest = rest[clientIDLen:]
		}
		req := kmsg.RequestForKey(key)
		if req == nil {
			return
		}
		req.SetVersion(version)
		if req.IsFlexible() {
			if len(rest) == 0 {
				return
			}
			rest = rest[1:] // header tagged fields: the client sends none
		}
		if err := req.ReadFrom(rest); err != nil {
			return
		}
		resp := b.handle(req)
		if resp == nil {
			return
		}
		out := make([]byte, 4, 256)
		out = append(out, corrID...)
		if resp.IsFlexible() && resp.Key() != 18 {
			out = append(out, 0)
		}
		out = resp.AppendTo(out)
		binary.BigEndian.PutUint32(out, uint32(len(out)-4))
		if _, err := c.Write(out); err != nil {
			return
		}
	}
}

var c10MaxVersions = map[int16]int16{
	1: 11, 2: 5, 3: 8, 8: 7, 9: 5, 10: 2, 11: 5, 12: 3, 13: 3, 14: 3, 18: 3, 23: 3,
}

const c10Member = "verif-member"

func (b *c10Broker) bounds(k c10TP) (first, next int64, epoch int32) {
	l := b.log[k]
	if len(l) == 0 {
		return 0, 0, 0
	}
	return l[0].off, l[len(l)-1].off + 1, l[len(l)-1].epoch
}

func (b *c10Broker) handle(kreq kmsg.Request) kmsg.Response {
	b.mu.Lock()
	defer b.mu.Unlock()
	switch req := kreq.(type) {
	case *kmsg.ApiVersionsRequest:
		resp := req.ResponseKind().(*kmsg.ApiVersionsResponse)
		if req.Version > c10MaxVersions[18] {
			resp.Version = 0
			resp.ErrorCode = 35 // UNSUPPORTED_VERSION: the client retries with a version we have
		}
		var keys []int
		for k := range c10MaxVersions {
			keys = append(keys, int(k))
		}
		sort.Ints(keys)
		for _, k := range keys {
			resp.ApiKeys = append(resp.ApiKeys, kmsg.ApiVersionsResponseApiKey{ApiKey: int16(k), MinVersion: 0, MaxVersion: c10MaxVersions[int16(k)]})
		}
		return resp
	case *kmsg.MetadataRequest:
		resp := req.ResponseKind().(*kmsg.MetadataResponse)
		resp.Brokers = []kmsg.MetadataResponseBroker{{NodeID: 0, Host: b.host, Port: b.port}}
		cluster := "verif-cluster"
		resp.ClusterID = &cluster
		resp.ControllerID = 0
		want := b.topics
		if req.Topics != nil {
			want = nil
			for _, rt := range req.Topics {
				if rt.Topic != nil {
					want = append(want, *rt.Topic)
				}
			}
		}
		for _, name := range want {
			topic := name
			mt := kmsg.MetadataResponseTopic{Topic: &topic}
			ps, ok := b.parts[name]
			if !ok {
				mt.ErrorCode = 3
			}
			for _, p := range ps {
				_, _, ep := b.bounds(c10TP{name, p})
				mt.Partitions = append(mt.Partitions, kmsg.MetadataResponseTopicPartition{
					Partition: p, Leader: 0, LeaderEpoch: ep, Replicas: []int32{0}, ISR: []int32{0},
				})
			}
			resp.Topics = append(resp.Topics, mt)
		}
		return resp
	case *kmsg.FindCoordinatorRequest:
		resp := req.ResponseKind().(*kmsg.FindCoordinatorResponse)
		resp.NodeID, resp.Host, resp.Port = 0, b.host, b.port
		return resp
	case *kmsg.JoinGroupRequest:
		resp := req.ResponseKind().(*kmsg.JoinGroupResponse)
		if len(req.Protocols) == 0 {
			resp.ErrorCode = 23
			return resp
		}
		resp.Generation = 1
		proto := req.Protocols[0].Name
		resp.Protocol = &proto
		resp.LeaderID, resp.MemberID = c10Member, c10Member
		resp.Members = []kmsg.JoinGroupResponseMember{{MemberID: c10Member, ProtocolMetadata: req.Protocols[0].Metadata}}
		return resp
	case *kmsg.SyncGroupRequest:
		resp := req.ResponseKind().(*kmsg.SyncGroupResponse)
		for _, a := range req.GroupAssignment {
			if a.MemberID == c10Member {
				b.assignment = a.MemberAssignment
			}
		}
		resp.MemberAssignment = b.assignment
		return resp
	case *kmsg.HeartbeatRequest:
		return req.ResponseKind()
	case *kmsg.LeaveGroupRequest:
		return req.ResponseKind()
	case *kmsg.OffsetFetchRequest:
		resp := req.ResponseKind().(*kmsg.OffsetFetchResponse)
		for _, rt := range req.Topics {
			st := kmsg.OffsetFetchResponseTopic{Topic: rt.Topic}
			for _, p := range rt.Partitions {
				st.Partitions = append(st.Partitions, kmsg.OffsetFetchResponseTopicPartition{Partition: p, Offset: -1, LeaderEpoch: -1})
			}
			resp.Topics = append(resp.Topics, st)
		}
		return resp
	case *kmsg.ListOffsetsRequest:
		resp := req.ResponseKind().(*kmsg.ListOffsetsResponse)
		for _, rt := range req.Topics {
			st := kmsg.ListOffsetsResponseTopic{Topic: rt.Topic}
			for _, p := range rt.Partitions {
				first, next, ep := b.bounds(c10TP{rt.Topic, p.Partition})
				sp := kmsg.ListOffsetsResponseTopicPartition{Partition: p.Partition, Timestamp: -1, LeaderEpoch: ep, Offset: next}
				if p.Timestamp == -2 {
					sp.Offset = first
				}
				st.Partitions = append(st.Partitions, sp)
			}
			resp.Topics = append(resp.Topics, st)
		}
		return resp
	case *kmsg.OffsetForLeaderEpochRequest:
		resp := req.ResponseKind().(*kmsg.OffsetForLeaderEpochResponse)
		for _, rt := range req.Topics {
			st := kmsg.OffsetForLeaderEpochResponseTopic{Topic: rt.Topic}
			for _, p := range rt.Partitions {
				_, next, _ := b.bounds(c10TP{rt.Topic, p.Partition})
				st.Partitions = append(st.Partitions, kmsg.OffsetForLeaderEpochResponseTopicPartition{
					Partition: p.Partition, LeaderEpoch: p.LeaderEpoch, EndOffset: next, // nothing was truncated
				})
			}
			resp.Topics = append(resp.Topics, st)
		}
		return resp
	case *kmsg.FetchRequest:
		resp := req.ResponseKind().(*kmsg.FetchResponse)
		empty := true
		for _, rt := range req.Topics {
			st := kmsg.FetchResponseTopic{Topic: rt.Topic}
			for _, p := range rt.Partitions {
				k := c10TP{rt.Topic, p.Partition}
				first, next, _ := b.bounds(k)
				sp := kmsg.FetchResponseTopicPartition{
					Partition: p.Partition, HighWatermark: next, LastStableOffset: next,
					LogStartOffset: first, PreferredReadReplica: -1,
				}
				for _, r := range b.log[k] {
					if r.off >= p.FetchOffset {
						sp.RecordBatches = append(sp.RecordBatches, c10Batch(r)...)
						empty = false
					}
				}
				st.Partitions = append(st.Partitions, sp)
			}
			resp.Topics = append(resp.Topics, st)
		}
		if empty { // long poll without holding the lock
			b.mu.Unlock()
			time.Sleep(15 * time.Millisecond)
			b.mu.Lock()
		}
		return resp
	case *kmsg.OffsetCommitRequest:
		resp := req.ResponseKind().(*kmsg.OffsetCommitResponse)
		for _, rt := range req.Topics {
			st := kmsg.OffsetCommitResponseTopic{Topic: rt.Topic}
			for _, p := range rt.Partitions {
				k := c10TP{rt.Topic, p.Partition}
				if old, ok := b.committed[k]; ok && p.Offset < old.off {
					b.regress = true
				}
				b.committed[k] = c10Commit{p.LeaderEpoch, p.Offset}
				b.ncommits++
				st.Partitions = append(st.Partitions, kmsg.OffsetCommitResponseTopicPartition{Partition: p.Partition})
			}
			resp.Topics = append(resp.Topics, st)
		}
		return resp
	}
	b.unhandled = append(b.unhandled, kreq.Key())
	return nil
}

// c10Batch encodes one record as a v2 record batch of its own (offset and partition leader epoch
// are per batch, so gaps between offsets and epoch changes are expressible).
func c10Batch(r c10LogRec) []byte {
	rec := kmsg.Record{OffsetDelta: 0, Value: r.value}
	rec.Length = int32(len(rec.AppendTo(nil)) - 1) // the zero length itself is one varint byte
	now := time.Now().UnixMilli()
	batch := kmsg.RecordBatch{
		FirstOffset: r.off, PartitionLeaderEpoch: r.epoch, Magic: 2, LastOffsetDelta: 0,
		FirstTimestamp: now, MaxTimestamp: now, ProducerID: -1, ProducerEpoch: -1, FirstSequence: -1,
		NumRecords: 1, Records: rec.AppendTo(nil),
	}
	batch.Length = int32(len(batch.AppendTo(nil)) - 12)
	raw := batch.AppendTo(nil)
	batch.CRC = int32(crc32.Checksum(raw[21:], crc32.MakeTable(crc32.Castagnoli)))
	return batch.AppendTo(nil)
}

func execC10Stop(t *hx.Toks) string {
	nt := t.Int()
	if t.Err != nil || nt < 1 || nt > 64 {
		return "bad-case"
	}
	var names []int
	for i := 0; i < nt && t.Err == nil; i++ {
		names = append(names, t.Int())
	}
	nrec := t.Int()
	if t.Err != nil || nrec < 0 || nrec > 1000 {
		return "bad-case"
	}
	recs := c10ParseRecs(t, nrec, false) // .topic is the name id
	nf := t.Int()
	var finish []int
	for i := 0; i < nf && t.Err == nil; i++ {
		finish = append(finish, t.Int())
	}
	if t.Err != nil || !t.Done() {
		return "bad-case"
	}
	configured := map[int]bool{}
	var topics []string
	for _, n := range names {
		if n < 0 || n > 1000 {
			return "bad-case"
		}
		configured[n] = true
		topics = append(topics, "t"+strconv.Itoa(n))
	}
	log := map[c10TP][]c10LogRec{}
	for i, r := range recs {
		k := c10TP{"t" + strconv.Itoa(r.topic), r.part}
		// a broker log: configured topic, valid partition, offsets strictly increasing
		if !configured[r.topic] || r.part < 0 || r.part > 63 || r.off < 0 || r.epoch < 0 ||
			(len(log[k]) > 0 && log[k][len(log[k])-1].off >= r.off) {
			return "bad-case"
		}
		log[k] = append(log[k], c10LogRec{r.off, r.epoch, []byte(strconv.Itoa(i))})
	}
	seenF := map[int]bool{}
	for _, i := range finish {
		if i < 0 || i >= len(recs) || seenF[i] {
			return "bad-case"
		}
		seenF[i] = true
	}

	broker, err := newC10Broker(topics, log)
	if err != nil {
		return "err-listen"
	}
	defer broker.ln.Close()

	config := &kafka.Config{Brokers: []string{broker.ln.Addr().String()}, Topics: topics, ConsumerGroup: "verif-c10",
		Offset: "oldest", AutoCommitInterval: "1h"}
	if err := cfg.SetDefaultValues(config); err != nil {
		return "err-config"
	}
	if err := cfg.Parse(config, nil); err != nil {
		return "err-config"
	}
	lg := zap.New(zapcore.NewNopCore(), zap.WithFatalHook(zapcore.WriteThenPanic))
	ctl := &c10StartCtl{seen: make([]c10Seen, len(recs))}
	p := &kafka.Plugin{}
	p.Start(config, &pipeline.InputPluginParams{
		PluginDefaultParams: pipeline.PluginDefaultParams{
			PipelineName:     "c10stop",
			PipelineSettings: &pipeline.Settings{},
			MetricCtl:        metric.NewCtl("c10stop", prometheus.NewRegistry(), time.Minute, 0),
		},
		Controller: ctl,
		Logger:     lg.Sugar(),
	})
	stopped := false
	stop := func() {
		if !stopped {
			stopped = true
			p.Stop() // the real Stop: final synchronous commit, close (leave group), cancel
		}
	}
	defer stop()

	deadline := time.Now().Add(30 * time.Second)
	for {
		ctl.mu.Lock()
		n := ctl.n
		ctl.mu.Unlock()
		if n == len(recs) {
			break
		}
		if time.Now().After(deadline) {
			broker.mu.Lock()
			u := fmt.Sprint(broker.unhandled)
			broker.mu.Unlock()
			return "stuck-consume:" + strconv.Itoa(n) + ":" + strings.ReplaceAll(u, " ", ",")
		}
		time.Sleep(100 * time.Microsecond)
	}
	var sb strings.Builder
	sb.WriteString(strconv.Itoa(len(recs)))
	for _, s := range ctl.seen {
		fmt.Fprintf(&sb, " %d %d", s.sid, s.off)
	}
	for _, i := range finish {
		s := ctl.seen[i]
		p.Commit(&pipeline.Event{SourceID: pipeline.SourceID(s.sid), Offset: s.off})
	}
	stop()

	broker.mu.Lock()
	defer broker.mu.Unlock()
	type row struct {
		t int
		p int32
		e int32
		o int64
	}
	var rows []row
	for k, c := range broker.committed {
		ti := -1
		if v, err := strconv.Atoi(strings.TrimPrefix(k.t, "t")); err == nil {
			ti = v
		}
		rows = append(rows, row{ti, k.p, c.epoch, c.off})
	}
	sort.Slice(rows, func(i, j int) bool {
		if rows[i].t != rows[j].t {
			return rows[i].t < rows[j].t
		}
		return rows[i].p < rows[j].p
	})
	fmt.Fprintf(&sb, " %s %d", hx.B(broker.regress), len(rows))
	for _, r := range rows {
		fmt.Fprintf(&sb, " %d %d %d %d", r.t, r.p, r.e, r.o)
	}
	return sb.String()
}

func c10StopLine(w *bufio.Writer, names []int, recs []c10Rec, finish []int) {
	fmt.Fprintf(w, "c10.stop %d", len(names))
	for _, n := range names {
		fmt.Fprintf(w, " %d", n)
	}
	fmt.Fprintf(w, " %d", len(recs))
	for _, r := range recs {
		fmt.Fprintf(w, " %d %d %d %d", r.topic, r.part, r.off, r.epoch)
	}
	fmt.Fprintf(w, " %d", len(finish))
	for _, i := range finish {
		fmt.Fprintf(w, " %d", i)
	}
	w.WriteByte('\n')
}

// genC10Stop: one partition with n records and every prefix finished (the stop happens while the
// rest is still in the pipeline), every subset for small n, then random record sets over several
// topics / partitions with a prefix, a subset or everything finished.
func genC10Stop(w *bufio.Writer, rng *hx.Rng, thorough bool) {
	maxN := 4
	if thorough {
		maxN = 6
	}
	for n := 1; n <= maxN; n++ {
		recs := make([]c10Rec, n)
		for i := range recs {
			recs[i] = c10Rec{topic: 0, part: 0, off: int64(i), epoch: 0}
		}
		for k := 0; k <= n; k++ { // prefix 0..k-1 finished
			fin := make([]int, k)
			for i := range fin {
				fin[i] = i
			}
			c10StopLine(w, []int{0}, recs, fin)
		}
		if n <= 3 {
			for mask := 0; mask < 1<<n; mask++ { // every subset, in consumption order
				var fin []int
				for i := 0; i < n; i++ {
					if mask&(1<<i) != 0 {
						fin = append(fin, i)
					}
				}
				c10StopLine(w, []int{0}, recs, fin)
			}
		}
	}
	nrand := 120
	if thorough {
		nrand = 1500
	}
	for i := 0; i < nrand; i++ {
		nnames := rng.Range(1, 3)
		names := make([]int, nnames)
		for j := range names {
			names[j] = j
		}
		if rng.Chance(1, 4) { // a duplicate somewhere
			names = append(names, rng.Intn(nnames))
			k := rng.Intn(len(names))
			names[k], names[len(names)-1] = names[len(names)-1], names[k]
		}
		recs := c10GenRecs(rng, nnames, rng.Range(1, 3), rng.Range(1, 12), false)
		for j := range recs { // small contiguous partition ids (the group assigns by partition count)
			recs[j].part %= 3
		}
		recs = c10FixOrder(recs)
		var fin []int
		switch rng.Intn(4) {
		case 0: // everything finished: drained pipeline
			for j := range recs {
				fin = append(fin, j)
			}
		case 1: // a prefix in consumption order
			for j := 0; j < rng.Intn(len(recs)+1); j++ {
				fin = append(fin, j)
			}
		case 2: // nothing
		default: // a subset in consumption order
			for j := range recs {
				if rng.Bool() {
					fin = append(fin, j)
				}
			}
		}
		c10StopLine(w, names, recs, fin)
	}
}

// c10FixOrder re-numbers offsets so that they strictly increase per topic/partition (after
// partitions were folded together) while epochs do not decrease.
func c10FixOrder(recs []c10Rec) []c10Rec {
	type k struct {
		t int
		p int32
	}
	lastOff := map[k]int64{}
	lastEp := map[k]int32{}
	for i := range recs {
		key := k{recs[i].topic, recs[i].part}
		if o, ok := lastOff[key]; ok {
			if recs[i].off <= o {
				recs[i].off = o + 1
			}
			if recs[i].epoch < lastEp[key] {
				recs[i].epoch = lastEp[key]
			}
		}
		lastOff[key], lastEp[key] = recs[i].off, recs[i].epoch
	}
	return recs
}
