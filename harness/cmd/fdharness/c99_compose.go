package main

import (
	"bufio"

	"verifharness/internal/hx"
)

// Compositions across properties (this file's init runs after every cNN.go: files are
// initialised in name order).
//
// C04 (no wedge) additionally runs whole-pipeline traces: the same cases as C01/C02 (real
// streams, processors, join / split plugins, batcher with failing sends) under the command
// c04.run, whose oracle is liveness only: the run went idle and no accepted event was left
// without a commit or a drop.

func init() {
	execs["c04.run"] = execC01
	if old, ok := gens["C04"]; ok {
		gens["C04"] = func(w *bufio.Writer, rng *hx.Rng, tier string) {
			old(w, rng, tier)
			n := 160
			if tier == "thorough" {
				n = 800
			}
			r2 := hx.NewRng(rng.U64())
			for i := 0; i < n; i++ {
				genC01Case(r2, false).write(w, "c04.run")
			}
		}
	}
}
