package main

import (
	"bufio"
	"strconv"
	"strings"

	"verifharness/internal/hx"
)

// Compositions across properties (this file's init runs after every cNN.go: files are
// initialised in name order).
//
// C04 (no wedge) additionally runs whole-pipeline traces: the same cases as C01/C02 (real
// streams, processors, join / split plugins, batcher with failing sends) under the command
// c04.run, whose oracle is liveness only: the run went idle and no accepted event was left
// without a commit or a drop.

// C13 (no event content can crash an action plugin) additionally runs chains of the real join and
// split plugins in a real pipeline (c13.chain): Propagate and Spawn call into each other's actions
// (join.Do <- Spawn's time-out events, split.Do <- Propagate), which the per-action cases of c13.go
// cannot exercise. Same case format and execution as c01.run; the oracle is the liveness one
// (the run goes idle, nothing lost, no crash).
func genC13Chain(r *hx.Rng) *c01Gen {
	g := genC01Case(r, false)
	g.failpat = ""
	g.retry = 0
	chains := []string{"j0,p1", "v0,j0,p2", "j0,v1,p2", "p0,j0", "j0,j1,p2", "j0,p1,j1", "j0:c,p1", "j0,p1:c"}
	g.chain = chains[r.Intn(len(chains))]
	nact := len(strings.Split(g.chain, ","))
	g.events = g.events[:0]
	g.nsrc = 1
	nev := r.Range(2, 10)
	nstreams := r.Range(1, 2)
	for i := 0; i < nev; i++ {
		stream := "s" + strconv.Itoa(r.Intn(nstreams))
		v := []byte(strings.Repeat("P", nact))
		if r.Chance(1, 8) {
			v[r.Intn(nact)] = 'D'
		}
		ms := make([]string, 2)
		for f := range ms {
			switch r.Intn(6) {
			case 5:
				ms[f] = "#" + strconv.Itoa(3000+i)
			case 0, 1:
				ms[f] = "S" + strconv.Itoa(i)
			case 2:
				ms[f] = "C" + strconv.Itoa(i)
			case 3:
				ms[f] = "x" + strconv.Itoa(i)
			}
		}
		kids := 0
		if r.Chance(1, 2) {
			kids = r.Range(1, 2)
		}
		spec := c01SpecKids(stream, string(v), ms, kids)
		spec = append(spec[:len(spec)-1], []byte(`,"k0":"y","k1":"y","k2":"y"}`)...)
		g.events = append(g.events, c01Event{src: 0, stream: stream, spec: spec})
	}
	return g
}

func init() {
	execs["c13.chain"] = execC01
	if old, ok := gens["C13"]; ok {
		gens["C13"] = func(w *bufio.Writer, rng *hx.Rng, tier string) {
			old(w, rng, tier)
			n := 60
			if tier == "thorough" {
				n = 400
			}
			r2 := hx.NewRng(rng.U64())
			for i := 0; i < n; i++ {
				genC13Chain(r2).write(w, "c13.chain")
			}
		}
	}
	// C01 also runs the stream-level family "put immediately followed by a heartbeat round" (c04stream.go):
	// a time-out event installed over a queued event loses that event, and later events of the stream are
	// committed past it (seeded change C01-f); handled by the C04 stream driver (Drv/All.lean)
	execs["c01.stream"] = execStream
	// ... and the retry family "Stop while a failing batch sits in its back-off pause" (c09.go): a batch abandoned
	// by Stop and then committed passes events that were neither acknowledged nor given up (seeded change C01-g);
	// handled by the C09 trace driver (Drv/All.lean)
	execs["c01.retry"] = ExecC09StopInBackoff
	if old, ok := gens["C01"]; ok {
		gens["C01"] = func(w *bufio.Writer, rng *hx.Rng, tier string) {
			old(w, rng, tier)
			genC04PutHeartbeat(w, hx.NewRng(rng.U64()), tier, "c01.stream")
			genC09StopInBackoff(w, hx.NewRng(rng.U64()), tier, "c01.retry")
		}
	}
	execs["c04.run"] = execC01
	if old, ok := gens["C04"]; ok {
		gens["C04"] = func(w *bufio.Writer, rng *hx.Rng, tier string) {
			old(w, rng, tier)
			n := 160
			if tier == "thorough" {
				n = 800
			}
			r2 := hx.NewRng(rng.U64())
			for i := 0; i < n; i++ {
				genC01Case(r2, false).write(w, "c04.run")
			}
		}
	}
}
