package main

import (
	"bufio"
	"context"
	"errors"
	"fmt"
	"os"
	"runtime"
	"strconv"
	"strings"
	"sync"
	"time"

	"github.com/ozontech/file.d/cfg"
	"github.com/ozontech/file.d/fd"
	"github.com/ozontech/file.d/pipeline"
	"github.com/ozontech/file.d/plugin/action/join"
	"github.com/ozontech/file.d/plugin/action/split"
	"github.com/ozontech/file.d/plugin/input/fake"
	"github.com/prometheus/client_golang/prometheus"
	"go.uber.org/zap"

	"verifharness/internal/hx"
)

// C01 / C02: the real pipeline (streams, processors, batcher, retry, dead queue) under a
// harness-owned input, scripted actions (+ the real join plugin) and a harness output built on
// the real RetriableBatcher. The implementation result is the boundary trace logged through the
// verif trace points of /repo/pipeline (each inside the lock that serialises the step).
//
// case: c01.run <procs> <capacity> <lowmem> <bcount> <workers> <retry> <dq> <failpat> <dqfailpat>
//               <chain> <jitter> <nsrc> <nevents> (<src> <stream> <specjson-hex>)…
//   procs     1 | 2 | 4 | 8            (1 = DisableParallelism, else GOMAXPROCS(procs/2))
//   failpat   string over {0,1}: send attempt i of the main output fails iff failpat[i % len] == '1'
//   chain     comma list: v<i> (scripted verdict action reading field "v", char i) | j<i> (real join on field m<i>)
//             | c<i> (scripted collapse-only action: ActionCollapse when char i of "v" is 'C', discards the time-out)
//             | p<i> (real split on field "arr": children are spawned, the parent breaks); suffix ":c" = the action
//             has the match condition k<position> = "y" (a busy action still gets every event of its stream)
//   event spec: JSON object text with "stream", "v", "m0", "m1" … fields
// Events of source k get offsets k*100000 + 10*(index within source + 1); SourceID = k+1.
//
// result: <trace tokens…> <idle|stuck>
//   icm:off (input.Commit called)
//   put:off:seq get:off:seq gtm:S (time-out event taken) scm:off:seq att:S lv:S det:S tmo:S chg:S pop:S   (S = src.stream)
//   out:off:proc prop:off:proc fin:off:flags add:off:B seal:seq:B bcm:seq:B   (B = M | D)
//   send:B:seq:ok|fail:id,id,…   giveup:B:seq:id,id,…   spk:c<parentoff>.<k>:proc   (id = off | c<parentoff>.<k>)

func init() {
	execs["c01.run"] = execC01
	gens["C01"] = genC01
	gens["C02"] = func(w *bufio.Writer, rng *hx.Rng, tier string) { genC01Cmd(w, rng, tier, "c02.run") }
	execs["c02.run"] = execC01
}

type c01Event struct {
	src    int
	stream string
	spec   []byte
	off    int64
}

type c01Trace struct {
	mu     sync.Mutex
	toks   []string
	stKeys map[[2]uint64]string // (streamID, fnv(name)) -> "src.stream"
	bIDs   map[uint64]string    // batcher id -> M | D
	fin    map[int64]int        // offset -> number of terminal finalizations (commit or drop)
	jit    *c01Jitter
}

// evID renders an event id of a trace line: the offset, or c<parentOffset>.<index> for a child of Spawn
func evID(id uint64) string {
	if id&pipeline.VerifChildBit != 0 {
		return fmt.Sprintf("c%d.%d", (id&^pipeline.VerifChildBit)>>12, id&0xfff)
	}
	return strconv.FormatUint(id, 10)
}

func fnv1a(s string) uint64 {
	h := uint64(14695981039346656037)
	for i := 0; i < len(s); i++ {
		h ^= uint64(s[i])
		h *= 1099511628211
	}
	return h
}

func (t *c01Trace) add(s string) {
	t.mu.Lock()
	t.toks = append(t.toks, s)
	t.mu.Unlock()
}

func (t *c01Trace) sink(kind string, a, b uint64) {
	// the trace points of stream.go run inside the stream's critical section: an occasional pause
	// here keeps that lock held while other goroutines (batch workers committing, processors
	// finalizing) pile up on it, which diversifies the order in which they get it
	if t.jit != nil && (kind == "s.put" || kind == "s.get" || kind == "s.leave") {
		t.jit.hold()
	}
	t.mu.Lock()
	defer t.mu.Unlock()
	stream := func() string {
		if s, ok := t.stKeys[[2]uint64{a, b}]; ok {
			return s
		}
		return fmt.Sprintf("?%d.%d", a, b)
	}
	batcher := func() string {
		if s, ok := t.bIDs[b]; ok {
			return s
		}
		return "?"
	}
	switch kind {
	case "s.put":
		t.toks = append(t.toks, fmt.Sprintf("put:%d:%d", a, b))
	case "s.get":
		t.toks = append(t.toks, fmt.Sprintf("get:%d:%d", a, b))
	case "s.gettmo":
		t.toks = append(t.toks, "gtm:"+stream())
	case "s.commit":
		t.toks = append(t.toks, fmt.Sprintf("scm:%d:%d", a, b))
	case "s.attach":
		t.toks = append(t.toks, "att:"+stream())
	case "s.leave":
		t.toks = append(t.toks, "lv:"+stream())
	case "s.detach":
		t.toks = append(t.toks, "det:"+stream())
	case "s.timeout":
		t.toks = append(t.toks, "tmo:"+stream())
	case "st.charge":
		t.toks = append(t.toks, "chg:"+stream())
	case "st.pop":
		t.toks = append(t.toks, "pop:"+stream())
	case "p.out":
		t.toks = append(t.toks, fmt.Sprintf("out:%d:%d", a, b))
	case "p.propagate":
		t.toks = append(t.toks, fmt.Sprintf("prop:%d:%d", a, b))
	case "pl.finalize":
		t.toks = append(t.toks, fmt.Sprintf("fin:%d:%d", a, b))
		if b != 0 {
			t.fin[int64(a)]++
		}
	case "b.add":
		t.toks = append(t.toks, fmt.Sprintf("add:%s:%s", evID(a), batcher()))
	case "p.spawnkid":
		t.toks = append(t.toks, fmt.Sprintf("spk:%s:%d", evID(a), b))
	case "b.seal":
		t.toks = append(t.toks, fmt.Sprintf("seal:%d:%s", a, batcher()))
	case "b.commit":
		t.toks = append(t.toks, fmt.Sprintf("bcm:%d:%s", a, batcher()))
	}
}

// ---- scripted verdict action ------------------------------------------------------------

type c01VerdictAction struct {
	idx    int
	jitter *c01Jitter
}

type c01VerdictConfig struct{ Idx int }

func (a *c01VerdictAction) Start(config pipeline.AnyConfig, _ *pipeline.ActionPluginParams) {
	a.idx = config.(*c01VerdictConfig).Idx
}
func (a *c01VerdictAction) Stop() {}
func (a *c01VerdictAction) Do(event *pipeline.Event) pipeline.ActionResult {
	a.jitter.pause()
	if event.IsTimeoutKind() {
		return pipeline.ActionDiscard
	}
	n := event.Root.Dig("v")
	if n == nil {
		return pipeline.ActionPass
	}
	v := n.AsString()
	if a.idx >= len(v) {
		return pipeline.ActionPass
	}
	switch v[a.idx] {
	case 'D':
		return pipeline.ActionDiscard
	case 'B':
		return pipeline.ActionBreak
	default:
		return pipeline.ActionPass
	}
}

// ---- scripted collapse-only action ---------------------------------------------------------

type c01CollapseAction struct {
	idx    int
	jitter *c01Jitter
}

func (a *c01CollapseAction) Start(config pipeline.AnyConfig, _ *pipeline.ActionPluginParams) {
	a.idx = config.(*c01VerdictConfig).Idx
}
func (a *c01CollapseAction) Stop() {}
func (a *c01CollapseAction) Do(event *pipeline.Event) pipeline.ActionResult {
	a.jitter.pause()
	if event.IsTimeoutKind() {
		return pipeline.ActionDiscard
	}
	n := event.Root.Dig("v")
	if n == nil {
		return pipeline.ActionPass
	}
	v := n.AsString()
	if a.idx < len(v) && v[a.idx] == 'C' {
		return pipeline.ActionCollapse
	}
	return pipeline.ActionPass
}

// ---- jitter: tiny PRNG-driven pauses that diversify interleavings -------------------------

type c01Jitter struct {
	mu  sync.Mutex
	rng *hx.Rng
	on  bool
}

// hold: a longer pause for code that runs inside one of the pipeline's critical sections
func (j *c01Jitter) hold() {
	if j == nil || !j.on {
		return
	}
	j.mu.Lock()
	k := j.rng.Intn(6)
	d := 100 + j.rng.Intn(300)
	j.mu.Unlock()
	if k == 0 {
		time.Sleep(time.Duration(d) * time.Microsecond)
	}
}

func (j *c01Jitter) pause() {
	if j == nil || !j.on {
		return
	}
	j.mu.Lock()
	k := j.rng.Intn(8)
	d := j.rng.Intn(300)
	j.mu.Unlock()
	switch {
	case k == 0:
		time.Sleep(time.Duration(d) * time.Microsecond)
	case k < 3:
		runtime.Gosched()
	}
}

// ---- harness output on the real RetriableBatcher -------------------------------------------

type c01Output struct {
	tag      string // M | D
	tr       *c01Trace
	jitter   *c01Jitter
	bcount   int
	workers  int
	retry    int
	hasDQ    bool // a dead queue is configured behind this (main) output
	failpat  string
	attempts int
	lastSeq  map[*pipeline.Event]int64 // first event of a batch -> its seq at the last send attempt
	amu      sync.Mutex
	batcher  *pipeline.RetriableBatcher
	router   *pipeline.Router
	cancel   context.CancelFunc
}

func (o *c01Output) Start(_ pipeline.AnyConfig, params *pipeline.OutputPluginParams) {
	o.router = params.Router
	opts := &pipeline.BatcherOptions{
		PipelineName:   params.PipelineName,
		OutputType:     "verif-" + o.tag,
		Controller:     params.Controller,
		Workers:        o.workers,
		BatchSizeCount: o.bcount,
		FlushTimeout:   5 * time.Millisecond,
		MetricCtl:      params.MetricCtl,
	}
	bo := pipeline.BackoffOpts{
		MinRetention:         200 * time.Microsecond,
		Multiplier:           1.2,
		AttemptNum:           o.retry,
		IsDeadQueueAvailable: o.hasDQ,
	}
	onError := func(_ error, events []*pipeline.Event) {
		offs := make([]string, 0, len(events))
		for _, e := range events {
			offs = append(offs, evID(pipeline.VerifEventID(e)))
		}
		seq := int64(-1)
		if len(events) > 0 {
			o.amu.Lock()
			seq = o.lastSeq[events[0]]
			o.amu.Unlock()
		}
		o.tr.add(fmt.Sprintf("giveup:%s:%d:%s", o.tag, seq, strings.Join(offs, ",")))
		for i := range events {
			o.router.Fail(events[i])
		}
	}
	o.batcher = pipeline.NewRetriableBatcher(opts, o.out, bo, onError)
	o.tr.mu.Lock()
	o.tr.bIDs[pipeline.VerifBatcherID(o.batcher.VerifBatcher())] = o.tag
	o.tr.mu.Unlock()
	ctx, cancel := context.WithCancel(context.Background())
	o.cancel = cancel
	o.batcher.Start(ctx)
}

func (o *c01Output) Stop() {
	if o.cancel != nil {
		o.cancel()
	}
	o.batcher.Stop()
}

func (o *c01Output) Out(event *pipeline.Event) { o.batcher.Add(event) }

func (o *c01Output) out(_ *pipeline.WorkerData, batch *pipeline.Batch) error {
	o.jitter.pause()
	o.amu.Lock()
	i := o.attempts
	o.attempts++
	if first := pipeline.VerifBatchFirst(batch); first != nil {
		if o.lastSeq == nil {
			o.lastSeq = map[*pipeline.Event]int64{}
		}
		o.lastSeq[first] = pipeline.VerifBatchSeq(batch)
	}
	o.amu.Unlock()
	fail := len(o.failpat) > 0 && o.failpat[i%len(o.failpat)] == '1'
	var offs []string
	batch.ForEach(func(e *pipeline.Event) { offs = append(offs, evID(pipeline.VerifEventID(e))) })
	res := "ok"
	if fail {
		res = "fail"
	}
	o.tr.add(fmt.Sprintf("send:%s:%d:%s:%s", o.tag, pipeline.VerifBatchSeq(batch), res, strings.Join(offs, ",")))
	if fail {
		return errors.New("scripted failure")
	}
	return nil
}

// ---- exec -------------------------------------------------------------------------------------

var c01Mu sync.Mutex // one pipeline at a time: the trace sink and GOMAXPROCS are process-global

func execC01(t *hx.Toks) string {
	procs := t.Int()
	capacity := t.Int()
	lowmem := t.Bool()
	bcount := t.Int()
	workers := t.Int()
	retry := t.Int()
	dq := t.Bool()
	failpat := t.Next()
	dqfailpat := t.Next()
	chain := t.Next()
	jitterSeed := t.Uint64()
	nsrc := t.Int()
	nev := t.Int()
	var events []c01Event
	perSrc := map[int]int{}
	for i := 0; i < nev; i++ {
		src := t.Int()
		stream := t.Next()
		spec := t.Bytes()
		perSrc[src]++
		events = append(events, c01Event{src: src, stream: stream, spec: spec, off: int64(src)*100000 + int64(perSrc[src])*10})
	}
	if t.Err != nil || !t.Done() || procs < 1 || workers < 1 || bcount < 1 || capacity < 1 || nsrc < 1 {
		return "bad-case"
	}
	if failpat == "-" {
		failpat = ""
	}
	if dqfailpat == "-" {
		dqfailpat = ""
	}
	c01Mu.Lock()
	defer c01Mu.Unlock()

	tr := &c01Trace{stKeys: map[[2]uint64]string{}, bIDs: map[uint64]string{}, fin: map[int64]int{}}
	for _, e := range events {
		tr.stKeys[[2]uint64{uint64(e.src + 1), fnv1a(e.stream)}] = fmt.Sprintf("%d.%s", e.src, e.stream)
	}
	jit := &c01Jitter{rng: hx.NewRng(jitterSeed), on: jitterSeed != 0}
	tr.jit = jit

	settings := &pipeline.Settings{
		Capacity:            capacity,
		MaintenanceInterval: time.Second * 5,
		EventTimeout:        15 * time.Millisecond,
		Antispam:            pipeline.AntispamSettings{Threshold: -1},
		AvgEventSize:        256,
		MetaCacheSize:       32,
		StreamField:         "stream",
		Decoder:             "json",
		Metric: &pipeline.MetricSettings{
			HoldDuration:        pipeline.DefaultMetricHoldDuration,
			MaxLabelValueLength: pipeline.DefaultMetricMaxLabelValueLength,
		},
	}
	if lowmem {
		settings.Pool = pipeline.PoolTypeLowMem
	}
	oldProcs := runtime.GOMAXPROCS(0)
	if procs > 1 {
		runtime.GOMAXPROCS(procs / 2)
	}
	lg := zap.NewNop()
	if os.Getenv("VERIF_DEBUG") != "" {
		lg, _ = zap.NewDevelopment()
	}
	p := pipeline.New("verif_c01", settings, prometheus.NewRegistry(), lg)
	if procs == 1 {
		p.DisableParallelism()
	}

	inAny, _ := fake.Factory()
	in := inAny.(*fake.Plugin)
	// icm:off = the input plugin's Commit was called for the event (finalize must do this before it releases the stream)
	in.SetCommitFn(func(e *pipeline.Event) { tr.add(fmt.Sprintf("icm:%d", e.Offset)) })
	p.SetInput(&pipeline.InputPluginInfo{
		PluginStaticInfo:  &pipeline.PluginStaticInfo{Type: "fake"},
		PluginRuntimeInfo: &pipeline.PluginRuntimeInfo{Plugin: in},
	})
	mainOut := &c01Output{tag: "M", tr: tr, jitter: jit, bcount: bcount, workers: workers, retry: retry, hasDQ: dq, failpat: failpat}
	p.SetOutput(&pipeline.OutputPluginInfo{
		PluginStaticInfo:  &pipeline.PluginStaticInfo{Type: "verif-main"},
		PluginRuntimeInfo: &pipeline.PluginRuntimeInfo{Plugin: mainOut},
	})
	if dq {
		dqOut := &c01Output{tag: "D", tr: tr, jitter: jit, bcount: bcount, workers: 1, retry: 0, hasDQ: false, failpat: dqfailpat}
		p.SetDeadQueueOutput(&pipeline.OutputPluginInfo{
			PluginStaticInfo:  &pipeline.PluginStaticInfo{Type: "verif-dq"},
			PluginRuntimeInfo: &pipeline.PluginRuntimeInfo{Plugin: dqOut},
		})
	}
	if chain != "-" {
		for pos, a := range strings.Split(chain, ",") {
			if len(a) < 2 {
				runtime.GOMAXPROCS(oldProcs)
				return "bad-case"
			}
			// suffix ":c": the action carries the match condition k<position> = "y" (MatchModeAnd)
			var conds pipeline.MatchConditions
			if strings.HasSuffix(a, ":c") {
				a = strings.TrimSuffix(a, ":c")
				conds = pipeline.MatchConditions{{Field: []string{"k" + strconv.Itoa(pos)}, Values: []string{"y"}}}
			}
			idx, err := strconv.Atoi(a[1:])
			if err != nil || len(a) < 2 {
				runtime.GOMAXPROCS(oldProcs)
				return "bad-case"
			}
			switch a[0] {
			case 'v':
				i := idx
				p.AddAction(&pipeline.ActionPluginStaticInfo{
					PluginStaticInfo: &pipeline.PluginStaticInfo{
						Type: "verif-verdict",
						Factory: func() (pipeline.AnyPlugin, pipeline.AnyConfig) {
							return &c01VerdictAction{jitter: jit}, &c01VerdictConfig{Idx: i}
						},
						Config: &c01VerdictConfig{Idx: i},
					},
					MetricName:      "verif_v" + a[1:],
					MatchMode:       pipeline.MatchModeAnd,
					MatchConditions: conds,
				})
			case 'c':
				// scripted collapse-only action (like k8s multi-line / parse_es): ActionCollapse when char i of
				// field "v" is 'C', ActionDiscard for the time-out event, ActionPass otherwise
				i := idx
				p.AddAction(&pipeline.ActionPluginStaticInfo{
					PluginStaticInfo: &pipeline.PluginStaticInfo{
						Type: "verif-collapse",
						Factory: func() (pipeline.AnyPlugin, pipeline.AnyConfig) {
							return &c01CollapseAction{jitter: jit}, &c01VerdictConfig{Idx: i}
						},
						Config: &c01VerdictConfig{Idx: i},
					},
					MetricName:      "verif_c" + a[1:],
					MatchMode:       pipeline.MatchModeAnd,
					MatchConditions: conds,
				})
			case 'j':
				jc := &join.Config{
					Field:    cfg.FieldSelector("m" + a[1:]),
					Start:    cfg.Regexp("/^S/"),
					Continue: cfg.Regexp("/^C/"),
				}
				if err := cfg.SetDefaultValues(jc); err != nil {
					runtime.GOMAXPROCS(oldProcs)
					return "err-config"
				}
				if err := cfg.Parse(jc, nil); err != nil {
					runtime.GOMAXPROCS(oldProcs)
					return "err-config"
				}
				jinfo, err := fd.DefaultPluginRegistry.GetActionByType("join")
				if err != nil {
					runtime.GOMAXPROCS(oldProcs)
					return "err-config"
				}
				p.AddAction(&pipeline.ActionPluginStaticInfo{
					PluginStaticInfo: &pipeline.PluginStaticInfo{Type: "join", Factory: jinfo.Factory, Config: jc},
					MetricName:       "verif_j" + a[1:],
					MatchMode:        pipeline.MatchModeAnd,
					MatchConditions:  conds,
				})
			case 'p':
				// the real split plugin on field "arr" (array of objects -> child events, parent breaks)
				sinfo, err := fd.DefaultPluginRegistry.GetActionByType("split")
				if err != nil {
					runtime.GOMAXPROCS(oldProcs)
					return "err-config"
				}
				_, scfg := sinfo.Factory()
				sc := scfg.(*split.Config)
				sc.Field = cfg.FieldSelector("arr")
				if err := cfg.Parse(sc, nil); err != nil {
					runtime.GOMAXPROCS(oldProcs)
					return "err-config"
				}
				p.AddAction(&pipeline.ActionPluginStaticInfo{
					PluginStaticInfo: &pipeline.PluginStaticInfo{Type: "split", Factory: sinfo.Factory, Config: sc},
					MetricName:       "verif_p" + a[1:],
					MatchMode:        pipeline.MatchModeAnd,
					MatchConditions:  conds,
				})
			default:
				runtime.GOMAXPROCS(oldProcs)
				return "bad-case"
			}
		}
	}

	pipeline.VerifForgetChildren()
	pipeline.VerifSetTrace(tr.sink)
	p.Start()

	// feed: one goroutine per source, events of a source in order
	var wg sync.WaitGroup
	for s := 0; s < nsrc; s++ {
		wg.Add(1)
		go func(s int) {
			defer wg.Done()
			for _, e := range events {
				if e.src != s {
					continue
				}
				jit.pause()
				seq := p.In(pipeline.SourceID(e.src+1), "src"+strconv.Itoa(e.src), pipeline.NewOffsets(e.off, nil), e.spec, false, nil)
				if os.Getenv("VERIF_DEBUG") != "" {
					fmt.Fprintf(os.Stderr, "c01: in off=%d seq=%d\n", e.off, seq)
				}
			}
		}(s)
	}
	fed := make(chan struct{})
	go func() { wg.Wait(); close(fed) }()

	// idle = every accepted event was finalized (committed to the input or dropped) exactly… at least once
	deadline := time.Now().Add(20 * time.Second)
	state := "stuck"
	if os.Getenv("VERIF_DEBUG") != "" {
		<-fed
		tr.mu.Lock()
		fmt.Fprintf(os.Stderr, "c01: fed, %d trace tokens\n", len(tr.toks))
		tr.mu.Unlock()
	}
	for time.Now().Before(deadline) {
		select {
		case <-fed:
			tr.mu.Lock()
			done := 0
			puts := 0
			for _, tok := range tr.toks {
				if strings.HasPrefix(tok, "put:") {
					puts++
				}
			}
			for _, n := range tr.fin {
				if n > 0 {
					done++
				}
			}
			// … and no processor is still on a stream: an action may be busy without holding an event
			// (a collapse-only action waits for the stream's time-out), and a processor that never lets
			// go of a silent stream is a wedge (C04)
			attached := 0
			for _, tok := range tr.toks {
				if strings.HasPrefix(tok, "att:") {
					attached++
				} else if strings.HasPrefix(tok, "lv:") {
					attached--
				}
			}
			tr.mu.Unlock()
			if done >= puts && attached <= 0 {
				state = "idle"
			}
		default:
		}
		if state == "idle" {
			break
		}
		time.Sleep(2 * time.Millisecond)
	}
	if state == "idle" {
		// let in-flight stream bookkeeping (detach after the last commit) settle
		time.Sleep(3 * time.Millisecond)
	}
	pipeline.VerifSetTrace(nil)
	if state == "idle" {
		p.Stop()
	}
	runtime.GOMAXPROCS(oldProcs)
	tr.mu.Lock()
	defer tr.mu.Unlock()
	return strings.Join(tr.toks, " ") + " " + state
}

// ---- generator --------------------------------------------------------------------------------

func c01Spec(stream, v string, ms []string) []byte { return c01SpecKids(stream, v, ms, 0) }

func c01SpecKids(stream, v string, ms []string, kids int) []byte {
	var sb strings.Builder
	fmt.Fprintf(&sb, `{"stream":%q,"v":%q`, stream, v)
	if kids > 0 {
		sb.WriteString(`,"arr":[`)
		for k := 0; k < kids; k++ {
			if k > 0 {
				sb.WriteByte(',')
			}
			fmt.Fprintf(&sb, `{"c":%d}`, k)
		}
		sb.WriteString("]")
	}
	for i, m := range ms {
		switch {
		case m == "":
		case m[0] == '#':
			// the join field is present but not a string (join.Do: neither start nor continuation)
			fmt.Fprintf(&sb, `,"m%d":%s`, i, m[1:])
		default:
			fmt.Fprintf(&sb, `,"m%d":%q`, i, m)
		}
	}
	sb.WriteString("}")
	return []byte(sb.String())
}

type c01Gen struct {
	procs, capacity, bcount, workers, retry int
	lowmem, dq                            bool
	failpat, dqfailpat, chain             string
	jitter                                uint64
	nsrc                                  int
	events                                []c01Event
}

func (g *c01Gen) write(w *bufio.Writer, cmd string) {
	fp, dfp, ch := g.failpat, g.dqfailpat, g.chain
	if fp == "" {
		fp = "-"
	}
	if dfp == "" {
		dfp = "-"
	}
	if ch == "" {
		ch = "-"
	}
	fmt.Fprintf(w, "%s %d %d %s %d %d %d %s %s %s %s %d %d %d", cmd, g.procs, g.capacity, hx.B(g.lowmem), g.bcount, g.workers,
		g.retry, hx.B(g.dq), fp, dfp, ch, g.jitter, g.nsrc, len(g.events))
	for _, e := range g.events {
		fmt.Fprintf(w, " %d %s %s", e.src, e.stream, hx.Enc(e.spec))
	}
	w.WriteByte('\n')
}

func genC01Case(rng *hx.Rng, allowDQ bool) *c01Gen {
	g := &c01Gen{}
	g.procs = []int{1, 1, 2, 4, 8}[rng.Intn(5)]
	g.capacity = []int{1, 2, 4, 16, 64}[rng.Intn(5)]
	g.lowmem = rng.Chance(1, 3)
	g.bcount = rng.Range(1, 4)
	g.workers = rng.Range(1, 3)
	g.retry = rng.Range(0, 2)
	g.jitter = rng.U64()%1000000 + 1
	g.nsrc = rng.Range(1, 3)
	// failure pattern of the main output
	switch rng.Intn(4) {
	case 0:
		g.failpat = ""
	case 1:
		g.failpat = "01"
	case 2:
		g.failpat = "0010"
	default:
		n := rng.Range(2, 7)
		b := make([]byte, n)
		for i := range b {
			b[i] = '0'
			if rng.Chance(1, 3) {
				b[i] = '1'
			}
		}
		g.failpat = string(b)
	}
	if allowDQ && rng.Chance(1, 4) {
		g.dq = true
		g.failpat = []string{"0111", "011", "1110"}[rng.Intn(3)]
		g.retry = rng.Range(0, 1)
	}
	// chain: up to 3 actions, one or two joins (two joins were the nested-Propagate finding, repaired by
	// `fix: processor.Propagate`)
	nact := rng.Range(0, 3)
	var chain []string
	joinAt := -1
	if rng.Chance(1, 2) && nact > 0 {
		joinAt = rng.Intn(nact)
	}
	// the real split plugin (children + breaking parent) in a quarter of the chains without a dead queue
	splitAt := -1
	if !g.dq && nact > 0 && rng.Chance(1, 4) {
		splitAt = rng.Intn(nact)
		if splitAt == joinAt {
			splitAt = -1
		}
	}
	join2At := -1
	if joinAt >= 0 && nact >= 2 && rng.Chance(1, 3) {
		join2At = rng.Intn(nact)
		if join2At == joinAt || join2At == splitAt {
			join2At = -1
		}
	}
	lastJoin := joinAt
	if join2At > lastJoin {
		lastJoin = join2At
	}
	// a collapse-only action in a fifth of the chains (busy without holding an event; let go by the time-out)
	colAt := -1
	if nact > 0 && rng.Chance(1, 5) {
		colAt = rng.Intn(nact)
		if colAt == joinAt || colAt == join2At || colAt == splitAt {
			colAt = -1
		}
	}
	if colAt > lastJoin {
		lastJoin = colAt
	}
	for i := 0; i < nact; i++ {
		switch i {
		case join2At:
			chain = append(chain, "j1")
		case joinAt:
			chain = append(chain, "j0")
		case splitAt:
			chain = append(chain, "p"+strconv.Itoa(i))
		case colAt:
			chain = append(chain, "c"+strconv.Itoa(i))
		default:
			chain = append(chain, "v"+strconv.Itoa(i))
		}
	}
	// match conditions on a third of the actions (field k<position> = "y")
	cond := make([]bool, nact)
	for i := range chain {
		if rng.Chance(1, 3) {
			cond[i] = true
			chain[i] += ":c"
		}
	}
	g.chain = strings.Join(chain, ",")
	nstreams := rng.Range(1, 3)
	nev := rng.Range(3, 40)
	for i := 0; i < nev; i++ {
		src := rng.Intn(g.nsrc)
		stream := "s" + strconv.Itoa(rng.Intn(nstreams))
		v := make([]byte, nact)
		for k := range v {
			switch {
			case k == colAt:
				v[k] = 'P'
				if rng.Chance(1, 3) {
					v[k] = 'C'
				}
			case rng.Chance(1, 8):
				v[k] = 'D'
			case rng.Chance(1, 16) && k > lastJoin:
				// ActionBreak skips the rest of the chain: only generated downstream of the holding
				// action (the only shipped plugin that breaks, split, first flushes every busy action
				// through Spawn; a break upstream of a busy holder would let the event overtake it)
				v[k] = 'B'
			default:
				v[k] = 'P'
			}
		}
		m := ""
		if joinAt >= 0 {
			switch rng.Intn(6) {
			case 0:
				m = "S" + strconv.Itoa(i)
			case 1, 2:
				m = "C" + strconv.Itoa(i)
			case 3:
				m = "x" + strconv.Itoa(i)
			case 4:
				m = "#" + strconv.Itoa(1000+i)
			}
		}
		m1 := ""
		if join2At >= 0 {
			switch rng.Intn(6) {
			case 0:
				m1 = "S" + strconv.Itoa(i)
			case 1, 2:
				m1 = "C" + strconv.Itoa(i)
			case 3:
				m1 = "x" + strconv.Itoa(i)
			case 4:
				m1 = "#" + strconv.Itoa(2000+i)
			}
		}
		kids := 0
		if splitAt >= 0 && rng.Chance(1, 3) {
			kids = rng.Range(1, 3)
		}
		spec := c01SpecKids(stream, string(v), []string{m, m1}, kids)
		// three quarters of the events satisfy a given condition
		var ks strings.Builder
		for p, c := range cond {
			if c && !rng.Chance(1, 4) {
				fmt.Fprintf(&ks, `,"k%d":"y"`, p)
			}
		}
		if ks.Len() > 0 {
			spec = append(spec[:len(spec)-1], []byte(ks.String()+"}")...)
		}
		g.events = append(g.events, c01Event{src: src, stream: stream, spec: spec})
	}
	return g
}

func genC01(w *bufio.Writer, rng *hx.Rng, tier string) { genC01Cmd(w, rng, tier, "c01.run") }

func genC01Cmd(w *bufio.Writer, rng *hx.Rng, tier string, cmd string) {
	n := 150
	if tier == "thorough" {
		n = 3000
	}
	for i := 0; i < n; i++ {
		genC01Case(rng, true).write(w, cmd)
	}
}
