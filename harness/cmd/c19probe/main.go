package main

import (
	"fmt"
	"net/http"
	"net/http/httptest"
	"os"
	"runtime/pprof"
	"time"
	"io"

	"github.com/ozontech/file.d/metric"
	"github.com/ozontech/file.d/pipeline"
	"github.com/ozontech/file.d/plugin/output/loki"
	insaneJSON "github.com/ozontech/insane-json"
	"github.com/prometheus/client_golang/prometheus"
	"go.uber.org/zap"
)

type ctl struct{}

func (ctl) Commit(*pipeline.Event) {}
func (ctl) Error(string)           {}

func main() {
	n := 0
	srv := httptest.NewServer(http.HandlerFunc(func(w http.ResponseWriter, r *http.Request) {
		b, _ := io.ReadAll(r.Body)
		n++
		fmt.Printf("REQ %d: %s\n", n, b)
		if n == 1 {
			w.WriteHeader(500)
		} else {
			w.WriteHeader(204)
		}
	}))
	p := &loki.Plugin{}
	p.Start(&loki.Config{Address: srv.URL, MessageField: "message", TimestampField: "ts", RequestTimeout_: time.Second, ConnectionTimeout_: time.Second,
		WorkersCount_: 1, BatchSize_: 4, BatchFlushTimeout_: time.Hour, Retention_: time.Second, RetentionExponentMultiplier: 2, Retry: 1},
		&pipeline.OutputPluginParams{PluginDefaultParams: pipeline.PluginDefaultParams{PipelineName: "x", PipelineSettings: &pipeline.Settings{AvgEventSize: 1, Capacity: 8},
			MetricCtl: metric.NewCtl("x", prometheus.NewRegistry(), 0, 0)}, Controller: ctl{}, Router: pipeline.NewRouter(), Logger: zap.NewNop().Sugar()})
	var evs []*pipeline.Event
	for _, src := range os.Args[1:] {
		root, err := insaneJSON.DecodeString(src)
		if err != nil {
			panic(err)
		}
		evs = append(evs, &pipeline.Event{Root: root})
	}
	ev := evs[0]
	batch := pipeline.NewPreparedBatch(evs)
	go func() {
		time.Sleep(2 * time.Second)
		pprof.Lookup("goroutine").WriteTo(os.Stderr, 2)
		os.Exit(3)
	}()
	wd := pipeline.WorkerData(nil)
	for i := 0; i < 3; i++ {
		err := p.VerifOut(&wd, batch)
		fmt.Printf("attempt %d err=%v\nevent now: %s\n", i, err != nil, ev.Root.EncodeToString())
		if err == nil {
			break
		}
	}
}
