package main

import (
	"fmt"
	"io"
	"net"
	"os"
	"time"

	"github.com/ozontech/file.d/metric"
	"github.com/ozontech/file.d/pipeline"
	"github.com/ozontech/file.d/plugin/output/gelf"
	insaneJSON "github.com/ozontech/insane-json"
	"github.com/prometheus/client_golang/prometheus"
	"go.uber.org/zap"
)

type ctl struct{}

func (ctl) Commit(*pipeline.Event) {}
func (ctl) Error(string)           {}

func main() {
	ln, _ := net.Listen("tcp", "127.0.0.1:0")
	got := make(chan []byte, 4)
	go func() {
		for {
			c, err := ln.Accept()
			if err != nil {
				return
			}
			b, _ := io.ReadAll(c)
			got <- b
		}
	}()
	p := &gelf.Plugin{}
	p.Start(&gelf.Config{Endpoint: ln.Addr().String(), ReconnectInterval_: time.Hour, ConnectionTimeout_: time.Second, WriteTimeout_: time.Second,
		HostField: "host", ShortMessageField: "message", DefaultShortMessageValue: "not set", TimestampField: "time", TimestampFieldFormat: "rfc3339nano", LevelField: "level",
		WorkersCount_: 1, BatchSize_: 4, BatchFlushTimeout_: time.Hour, Retention_: time.Second, RetentionExponentMultiplier: 2, Retry: 1},
		&pipeline.OutputPluginParams{PluginDefaultParams: pipeline.PluginDefaultParams{PipelineName: "x", PipelineSettings: &pipeline.Settings{AvgEventSize: 1, Capacity: 8},
			MetricCtl: metric.NewCtl("x", prometheus.NewRegistry(), 0, 0)}, Controller: ctl{}, Router: pipeline.NewRouter(), Logger: zap.NewNop().Sugar()})
	var evs []*pipeline.Event
	for _, src := range os.Args[1:] {
		root, err := insaneJSON.DecodeString(src)
		if err != nil {
			panic(err)
		}
		evs = append(evs, &pipeline.Event{Root: root})
	}
	batch := pipeline.NewPreparedBatch(evs)
	wd := pipeline.WorkerData(nil)
	for i := 0; i < 2; i++ {
		err := p.VerifOut(&wd, batch)
		p.VerifReconnect(&wd)
		fmt.Printf("attempt %d err=%v payload=%q\n", i, err != nil, <-got)
	}
}
