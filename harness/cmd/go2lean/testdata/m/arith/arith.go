package arith

type Pair struct {
	A    int32
	B    uint16
	ok   bool
	name string
}

const mask = 0x3F
const big = 1<<40 + 3

func F1(a int64, b int32) int64 { return a*3 - int64(b)/7 + int64(b)%7 }

func F2(a uint64, s uint8) uint64 { return a<<s | a>>(s&63) }

func F3(a int32) int64 {
	if a < 0 {
		return -int64(a)
	} else if a > 100 {
		a -= 100
	}
	x := int64(a) &^ mask
	x ^= big
	x++
	return x
}

func F4(a int8, b uint8) (r int16, q bool) {
	r = int16(a) * int16(b)
	q = r >= 0 && (a != 0 || b == 0)
	return
}

func F5(p *Pair, c uint32) Pair {
	var t int32 = p.A >> 3
	u := uint16(c) + p.B
	return Pair{A: t, B: u, ok: !p.ok}
}

func F6(a, b uint16) uint16 {
	x := a / 3
	y := b % 5
	if x > y {
		x, y = y, x
	}
	return x - y
}

func F7(a int64) int32 { return int32(uint8(a)) + int32(int8(a)) + int32(uint32(a>>33)) }

func F8(a int64, n uint32) int64 { return a>>n + F1(a, int32(n)) }

func F9(a int64) int64 { return a/-3 + a%-3 + (-a)/4 + ^a }

func F10(a int32, b int32) int32 {
	var r int32
	if a <= b {
		r = a << 31
		if r == 0 {
			return b * b
		}
	} else {
		r = (a | b) ^ (a & b)
	}
	return r >> 1
}
