module example.com/m

go 1.23
