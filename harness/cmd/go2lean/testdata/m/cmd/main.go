package main

import (
	"fmt"

	"example.com/m/arith"
)

var s uint64 = 12345

func rnd() uint64 {
	s += 0x9E3779B97F4A7C15
	z := s
	z = (z ^ (z >> 30)) * 0xBF58476D1CE4E5B9
	z = (z ^ (z >> 27)) * 0x94D049BB133111EB
	return z ^ (z >> 31)
}

func val() uint64 {
	switch rnd() % 6 {
	case 0:
		return rnd() % 8
	case 1:
		return -(rnd() % 8)
	case 2:
		return []uint64{0x7F, 0x80, 0xFF, 0x7FFF, 0x8000, 0x7FFFFFFF, 0x80000000, 0x7FFFFFFFFFFFFFFF, 0x8000000000000000, 0xFFFFFFFFFFFFFFFF}[rnd()%10]
	}
	return rnd() >> (rnd() % 64)
}

func b2i(b bool) int {
	if b {
		return 1
	}
	return 0
}

func main() {
	mode := "go"
	for i := 0; i < 400; i++ {
		a, b, c := val(), val(), val()
		_ = mode
		fmt.Printf("CASE %d %d %d\n", a, b, c)
		fmt.Printf("f1 %d\n", arith.F1(int64(a), int32(b)))
		fmt.Printf("f2 %d\n", arith.F2(a, uint8(b)))
		fmt.Printf("f3 %d\n", arith.F3(int32(a)))
		r, q := arith.F4(int8(a), uint8(b))
		fmt.Printf("f4 %d %d\n", r, b2i(q))
		p := arith.F5(&arith.Pair{A: int32(a), B: uint16(b)}, uint32(c))
		fmt.Printf("f5 %d %d\n", p.A, p.B)
		fmt.Printf("f6 %d\n", arith.F6(uint16(a), uint16(b)))
		fmt.Printf("f7 %d\n", arith.F7(int64(a)))
		fmt.Printf("f8 %d\n", arith.F8(int64(a), uint32(b)))
		fmt.Printf("f9 %d\n", arith.F9(int64(a)))
		fmt.Printf("f10 %d\n", arith.F10(int32(a), int32(b)))
	}
}
