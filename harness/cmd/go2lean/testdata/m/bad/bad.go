package bad

import "math/bits"

var global int

func B1(a int) int {
	for a < 0 {
		a++
	}
	return a
}
func B2(a int) int {
	if b := a; b < 0 {
		return 0
	}
	return a
}
func B3(a uint) int    { return bits.Len(a) }
func B4(a, b int) int  { return a / b }
func B5(a float64) int { return int(a) }
func B6(a int) int {
	if a > 0 {
		a := 3
		return a
	}
	return a
}
func B7(a int) int      { return a + global }
func B8(a int, s int) int { return a << s }
func B9(a int) (r int) {
	switch a {
	case 1:
		r = 2
	}
	return
}
func B10(a []int) int  { return a[0] }
func B11(a int) int {
	a++
}
func B12(a int32, b int64) int64 { return int64(a) + b + 1<<70 }
