// go2lean: Go-AST → Lean 4 micro-translator for straight-line integer functions (DESIGN §3.2).
//
//	go2lean -repo /repo -file plugin/input/kafka/kafka.go \
//	        -funcs assembleSourceID,disassembleSourceID,assembleOffset,disassembleOffset \
//	        -ns FileD.Gen.KafkaPack -out lean/FileD/Gen/KafkaPack.lean
//
// Every listed function becomes one Lean `def` over `BitVec w` (w = width of the Go integer type;
// int/uint are 64 bit: GOARCH is assumed to be a 64-bit one) with Go's semantics: wrap-around
// + - *, truncating / sign- / zero-extending conversions, arithmetic >> on signed and logical
// >> on unsigned operands, shifts by >= width give 0 / sign fill, signed / and % truncate towards
// zero. Struct types used as parameters or results become Lean structures holding their
// integer / bool fields (a pointer parameter is assumed non-nil).
//
// Supported: parameters and results of integer / bool / struct-of-integers type (named results and
// bare `return` included); statements `x := e`, `x = e`, `x op= e`, `x++`, `var x T [= e]`,
// `if … {…} else {…}`, nested blocks, `return`; expressions + - * / % & | ^ &^ << >> (unary - ^ + !),
// comparisons, && ||, conversions between integer types (named types are resolved through the
// imports of the file, also into third-party modules), field selection on struct parameters,
// keyed struct literals in `return`, calls of other functions of the same -funcs list.
// ANYTHING ELSE IS AN ERROR: the translator exits non-zero and writes no output file.
package main

import (
	"flag"
	"fmt"
	"go/ast"
	"go/constant"
	"go/parser"
	"go/printer"
	"go/token"
	"math/big"
	"os"
	"os/exec"
	"path/filepath"
	"sort"
	"strconv"
	"strings"
)

// ---------------------------------------------------------------------------- types

type kind int

const (
	kInt kind = iota
	kBool
	kStruct
	kUntyped // untyped integer constant
)

type field struct {
	name string
	t    *gtype
}

type gtype struct {
	k      kind
	bits   int
	signed bool
	name   string  // struct: Lean structure name
	fields []field // struct: integer / bool fields in declaration order
	skip   []string
	goName string
}

func (t *gtype) lean() string {
	switch t.k {
	case kInt:
		return fmt.Sprintf("BitVec %d", t.bits)
	case kBool:
		return "Bool"
	case kStruct:
		return t.name
	}
	return "?"
}

func (t *gtype) same(o *gtype) bool {
	if t.k != o.k {
		return false
	}
	switch t.k {
	case kInt:
		return t.bits == o.bits && t.signed == o.signed
	case kStruct:
		return t.name == o.name
	}
	return true
}

func (t *gtype) String() string {
	switch t.k {
	case kInt:
		s := "uint"
		if t.signed {
			s = "int"
		}
		return s + strconv.Itoa(t.bits)
	case kBool:
		return "bool"
	case kStruct:
		return "struct " + t.goName
	}
	return "untyped constant"
}

var basic = map[string]*gtype{
	"int": {k: kInt, bits: 64, signed: true}, "int8": {k: kInt, bits: 8, signed: true},
	"int16": {k: kInt, bits: 16, signed: true}, "int32": {k: kInt, bits: 32, signed: true},
	"int64": {k: kInt, bits: 64, signed: true}, "uint": {k: kInt, bits: 64}, "uint8": {k: kInt, bits: 8},
	"uint16": {k: kInt, bits: 16}, "uint32": {k: kInt, bits: 32}, "uint64": {k: kInt, bits: 64},
	"byte": {k: kInt, bits: 8}, "rune": {k: kInt, bits: 32, signed: true}, "bool": {k: kBool},
}

type errT struct{ msg string }

func fail(pos token.Pos, format string, a ...any) {
	p := ""
	if pos.IsValid() {
		p = fset.Position(pos).String() + ": "
	}
	panic(errT{p + fmt.Sprintf(format, a...)})
}

// ---------------------------------------------------------------------------- packages

var (
	fset        = token.NewFileSet()
	repoDir     string
	repoMod     string
	pkgCache    = map[string]*pkgInfo{}
	structs     = map[string]*gtype{} // Lean structure name → type
	structOrder []string
)

type pkgInfo struct {
	dir   string
	files []*ast.File
}

func loadDir(dir string) *pkgInfo {
	if p, ok := pkgCache[dir]; ok {
		return p
	}
	pkgs, err := parser.ParseDir(fset, dir, func(fi os.FileInfo) bool {
		return !strings.HasSuffix(fi.Name(), "_test.go")
	}, parser.ParseComments)
	if err != nil {
		fail(token.NoPos, "cannot parse %s: %v", dir, err)
	}
	p := &pkgInfo{dir: dir}
	var names []string
	for n := range pkgs {
		names = append(names, n)
	}
	sort.Strings(names)
	for _, n := range names {
		var fns []string
		for fn := range pkgs[n].Files {
			fns = append(fns, fn)
		}
		sort.Strings(fns)
		for _, fn := range fns {
			p.files = append(p.files, pkgs[n].Files[fn])
		}
	}
	pkgCache[dir] = p
	return p
}

func importDir(path string) string {
	if path == repoMod {
		return repoDir
	}
	if strings.HasPrefix(path, repoMod+"/") {
		return filepath.Join(repoDir, strings.TrimPrefix(path, repoMod+"/"))
	}
	cmd := exec.Command("go", "list", "-f", "{{.Dir}}", path)
	cmd.Dir = repoDir
	cmd.Env = append(os.Environ(), "GOFLAGS=-mod=mod", "GOPROXY=off")
	out, err := cmd.Output()
	if err != nil {
		fail(token.NoPos, "cannot locate package %s: %v", path, err)
	}
	return strings.TrimSpace(string(out))
}

// ctx: the file an expression lives in (for resolving package qualifiers) and its package
type ctx struct {
	file *ast.File
	pkg  *pkgInfo
}

func (c ctx) importPath(name string, pos token.Pos) string {
	for _, im := range c.file.Imports {
		p, _ := strconv.Unquote(im.Path.Value)
		local := filepath.Base(p)
		if im.Name != nil {
			local = im.Name.Name
		}
		if local == name {
			return p
		}
	}
	fail(pos, "unknown package qualifier %s", name)
	return ""
}

func findType(p *pkgInfo, name string) (*ast.TypeSpec, *ast.File) {
	for _, f := range p.files {
		for _, d := range f.Decls {
			gd, ok := d.(*ast.GenDecl)
			if !ok || gd.Tok != token.TYPE {
				continue
			}
			for _, s := range gd.Specs {
				ts := s.(*ast.TypeSpec)
				if ts.Name.Name == name {
					return ts, f
				}
			}
		}
	}
	return nil, nil
}

// resolve a type expression; named is the name to give a struct type
func (c ctx) resolve(e ast.Expr, named string, depth int) *gtype {
	if depth > 20 {
		fail(e.Pos(), "type resolution too deep")
	}
	switch t := e.(type) {
	case *ast.ParenExpr:
		return c.resolve(t.X, named, depth+1)
	case *ast.Ident:
		if b, ok := basic[t.Name]; ok {
			return b
		}
		ts, f := findType(c.pkg, t.Name)
		if ts == nil {
			fail(e.Pos(), "unsupported or unknown type %s", t.Name)
		}
		return ctx{f, c.pkg}.resolve(ts.Type, t.Name, depth+1)
	case *ast.SelectorExpr:
		q, ok := t.X.(*ast.Ident)
		if !ok {
			fail(e.Pos(), "unsupported type expression")
		}
		p := loadDir(importDir(c.importPath(q.Name, e.Pos())))
		ts, f := findType(p, t.Sel.Name)
		if ts == nil {
			fail(e.Pos(), "type %s.%s not found", q.Name, t.Sel.Name)
		}
		return ctx{f, p}.resolve(ts.Type, t.Sel.Name, depth+1)
	case *ast.StarExpr:
		st := c.resolve(t.X, named, depth+1)
		if st.k != kStruct {
			fail(e.Pos(), "pointer to a non-struct type is not supported")
		}
		return st
	case *ast.StructType:
		if named == "" {
			fail(e.Pos(), "anonymous struct types are not supported")
		}
		if s, ok := structs[named]; ok {
			if s.goName != c.pkg.dir+"."+named {
				fail(e.Pos(), "two different struct types named %s", named)
			}
			return s
		}
		s := &gtype{k: kStruct, name: named, goName: c.pkg.dir + "." + named}
		structs[named] = s
		for _, fl := range t.Fields.List {
			ft := c.tryResolve(fl.Type)
			for _, n := range fl.Names {
				if ft != nil && (ft.k == kInt || ft.k == kBool) {
					s.fields = append(s.fields, field{n.Name, ft})
				} else {
					s.skip = append(s.skip, n.Name)
				}
			}
			if len(fl.Names) == 0 {
				s.skip = append(s.skip, "(embedded)")
			}
		}
		structOrder = append(structOrder, named)
		return s
	}
	fail(e.Pos(), "unsupported type expression %T", e)
	return nil
}

// tryResolve: nil instead of an error (struct fields of non-integer type are omitted, their use is an error)
func (c ctx) tryResolve(e ast.Expr) (t *gtype) {
	defer func() {
		if r := recover(); r != nil {
			if _, ok := r.(errT); ok {
				t = nil
				return
			}
			panic(r)
		}
	}()
	return c.resolve(e, "", 0)
}

// isType: does the expression denote a type (for conversions)?
func (c ctx) isType(e ast.Expr, env *env) bool {
	switch t := e.(type) {
	case *ast.ParenExpr:
		return c.isType(t.X, env)
	case *ast.Ident:
		if _, ok := env.lookup(t.Name); ok {
			return false
		}
		if _, ok := basic[t.Name]; ok {
			return true
		}
		ts, _ := findType(c.pkg, t.Name)
		return ts != nil
	case *ast.SelectorExpr:
		q, ok := t.X.(*ast.Ident)
		if !ok {
			return false
		}
		if _, ok := env.lookup(q.Name); ok {
			return false
		}
		for _, im := range c.file.Imports {
			p, _ := strconv.Unquote(im.Path.Value)
			local := filepath.Base(p)
			if im.Name != nil {
				local = im.Name.Name
			}
			if local == q.Name {
				return true
			}
		}
	}
	return false
}

// ---------------------------------------------------------------------------- expressions

type val struct {
	s string         // Lean term (typed values)
	t *gtype         // type
	c constant.Value // untyped / folded constant (t.k == kUntyped)
}

var untyped = &gtype{k: kUntyped}

type env struct {
	vars   map[string]*gtype
	parent *env
}

func (e *env) lookup(n string) (*gtype, bool) {
	for x := e; x != nil; x = x.parent {
		if t, ok := x.vars[n]; ok {
			return t, true
		}
	}
	return nil, false
}

type fnSig struct {
	name    string
	params  []field
	results []field
	named   bool
}

type tr struct {
	c    ctx
	sigs map[string]*fnSig
	sig  *fnSig
}

var leanKeywords = map[string]bool{"at": true, "from": true, "end": true, "open": true, "fun": true, "have": true,
	"show": true, "then": true, "do": true, "in": true, "let": true, "if": true, "else": true, "match": true,
	"with": true, "def": true, "theorem": true, "by": true, "where": true, "instance": true, "class": true,
	"structure": true, "namespace": true, "section": true, "variable": true, "universe": true, "import": true,
	"export": true, "mutual": true, "private": true, "protected": true, "partial": true, "unsafe": true,
	"axiom": true, "example": true, "abbrev": true, "inductive": true, "deriving": true, "for": true,
	"return": true, "try": true, "catch": true, "finally": true, "mut": true, "using": true, "calc": true,
	"nomatch": true, "nofun": true, "suffices": true, "obtain": true, "Type": true, "Prop": true, "Sort": true,
	"set_option": true, "attribute": true, "local": true, "scoped": true, "macro": true, "syntax": true,
	"notation": true, "infix": true, "infixl": true, "infixr": true, "prefix": true, "postfix": true,
	"elab": true, "extends": true, "opaque": true, "noncomputable": true, "this": true, "sorry": true, "admit": true}

func ident(n string) string {
	if leanKeywords[n] || strings.HasPrefix(n, "_") {
		return "«" + n + "»"
	}
	return n
}

func lit(v *big.Int, t *gtype, pos token.Pos) string {
	lo, hi := new(big.Int), new(big.Int)
	if t.signed {
		lo.Neg(new(big.Int).Lsh(big.NewInt(1), uint(t.bits-1)))
		hi.Lsh(big.NewInt(1), uint(t.bits-1))
	} else {
		hi.Lsh(big.NewInt(1), uint(t.bits))
	}
	if v.Cmp(lo) < 0 || v.Cmp(hi) >= 0 {
		fail(pos, "constant %s overflows %s", v, t)
	}
	if v.Sign() < 0 {
		return fmt.Sprintf("(BitVec.ofInt %d (%s))", t.bits, v)
	}
	return fmt.Sprintf("%s#%d", v, t.bits)
}

func constInt(c constant.Value, pos token.Pos) *big.Int {
	c = constant.ToInt(c)
	if c.Kind() != constant.Int {
		fail(pos, "non-integer constant")
	}
	v, ok := new(big.Int).SetString(c.ExactString(), 10)
	if !ok {
		fail(pos, "bad constant")
	}
	return v
}

// conv: value as type t (only untyped constants are converted implicitly)
func (x *tr) conv(v val, t *gtype, pos token.Pos) val {
	if v.t.k == kUntyped {
		if t.k != kInt {
			fail(pos, "constant used as %s", t)
		}
		return val{s: lit(constInt(v.c, pos), t, pos), t: t}
	}
	if !v.t.same(t) {
		fail(pos, "type mismatch: %s used as %s", v.t, t)
	}
	return v
}

func (x *tr) expr(e ast.Expr, en *env) val {
	switch t := e.(type) {
	case *ast.ParenExpr:
		return x.expr(t.X, en)
	case *ast.BasicLit:
		if t.Kind != token.INT && t.Kind != token.CHAR {
			fail(e.Pos(), "unsupported literal %s", t.Value)
		}
		return val{t: untyped, c: constant.MakeFromLiteral(t.Value, t.Kind, 0)}
	case *ast.Ident:
		if vt, ok := en.lookup(t.Name); ok {
			return val{s: ident(t.Name), t: vt}
		}
		switch t.Name {
		case "true":
			return val{s: "true", t: basic["bool"]}
		case "false":
			return val{s: "false", t: basic["bool"]}
		}
		if c, ok := x.packageConst(t.Name); ok {
			return c
		}
		fail(e.Pos(), "unknown identifier %s (package-level variables, constants of other packages and closures are not supported)", t.Name)
	case *ast.SelectorExpr:
		b := x.expr(t.X, en)
		if b.t.k != kStruct {
			fail(e.Pos(), "selector on a non-struct value")
		}
		for _, f := range b.t.fields {
			if f.name == t.Sel.Name {
				return val{s: fmt.Sprintf("%s.%s", b.s, ident(f.name)), t: f.t}
			}
		}
		fail(e.Pos(), "field %s of %s is not an integer / bool field", t.Sel.Name, b.t)
	case *ast.UnaryExpr:
		v := x.expr(t.X, en)
		if v.t.k == kUntyped {
			switch t.Op {
			case token.SUB, token.ADD, token.XOR:
				return val{t: untyped, c: constant.UnaryOp(t.Op, v.c, 0)}
			}
			fail(e.Pos(), "unsupported unary operator %s on a constant", t.Op)
		}
		switch {
		case t.Op == token.SUB && v.t.k == kInt:
			return val{s: "(-" + v.s + ")", t: v.t}
		case t.Op == token.ADD && v.t.k == kInt:
			return v
		case t.Op == token.XOR && v.t.k == kInt:
			return val{s: "(~~~" + v.s + ")", t: v.t}
		case t.Op == token.NOT && v.t.k == kBool:
			return val{s: "(!" + v.s + ")", t: v.t}
		}
		fail(e.Pos(), "unsupported unary operator %s on %s", t.Op, v.t)
	case *ast.BinaryExpr:
		return x.binary(t, en)
	case *ast.CallExpr:
		if x.c.isType(t.Fun, en) {
			if len(t.Args) != 1 {
				fail(e.Pos(), "conversion with %d arguments", len(t.Args))
			}
			to := x.c.resolve(t.Fun, "", 0)
			v := x.expr(t.Args[0], en)
			if to.k != kInt {
				fail(e.Pos(), "conversion to %s is not supported", to)
			}
			if v.t.k == kUntyped {
				return x.conv(v, to, e.Pos())
			}
			if v.t.k != kInt {
				fail(e.Pos(), "conversion from %s is not supported", v.t)
			}
			switch {
			case to.bits == v.t.bits:
				return val{s: v.s, t: to}
			case to.bits < v.t.bits:
				return val{s: fmt.Sprintf("(BitVec.setWidth %d %s)", to.bits, v.s), t: to}
			case v.t.signed:
				return val{s: fmt.Sprintf("(BitVec.signExtend %d %s)", to.bits, v.s), t: to}
			default:
				return val{s: fmt.Sprintf("(BitVec.setWidth %d %s)", to.bits, v.s), t: to}
			}
		}
		if id, ok := t.Fun.(*ast.Ident); ok {
			if sg, ok := x.sigs[id.Name]; ok && sg.name != "" {
				if len(sg.results) != 1 {
					fail(e.Pos(), "call of %s with %d results inside an expression", id.Name, len(sg.results))
				}
				if len(t.Args) != len(sg.params) {
					fail(e.Pos(), "wrong argument count for %s", id.Name)
				}
				s := "(" + ident(sg.name)
				for i, a := range t.Args {
					s += " " + x.conv(x.expr(a, en), sg.params[i].t, a.Pos()).s
				}
				return val{s: s + ")", t: sg.results[0].t}
			}
		}
		fail(e.Pos(), "unsupported call (only conversions and calls of translated functions are supported)")
	case *ast.CompositeLit:
		if t.Type == nil {
			fail(e.Pos(), "untyped composite literal")
		}
		st := x.c.resolve(t.Type, "", 0)
		if st.k != kStruct {
			fail(e.Pos(), "composite literal of a non-struct type")
		}
		set := map[string]string{}
		for i, el := range t.Elts {
			var fname string
			var fe ast.Expr
			if kv, ok := el.(*ast.KeyValueExpr); ok {
				k, ok := kv.Key.(*ast.Ident)
				if !ok {
					fail(el.Pos(), "unsupported struct literal key")
				}
				fname, fe = k.Name, kv.Value
			} else {
				if len(st.skip) > 0 || i >= len(st.fields) {
					fail(el.Pos(), "positional struct literal of a struct with omitted fields")
				}
				fname, fe = st.fields[i].name, el
			}
			var ft *gtype
			for _, f := range st.fields {
				if f.name == fname {
					ft = f.t
				}
			}
			if ft == nil {
				fail(el.Pos(), "field %s of %s is not an integer / bool field", fname, st)
			}
			if _, dup := set[fname]; dup {
				fail(el.Pos(), "duplicate field %s", fname)
			}
			set[fname] = x.conv(x.expr(fe, en), ft, el.Pos()).s
		}
		var parts []string
		for _, f := range st.fields {
			v, ok := set[f.name]
			if !ok {
				v = zero(f.t)
			}
			parts = append(parts, fmt.Sprintf("%s := %s", ident(f.name), v))
		}
		return val{s: fmt.Sprintf("({ %s } : %s)", strings.Join(parts, ", "), st.name), t: st}
	}
	fail(e.Pos(), "unsupported expression %T", e)
	return val{}
}

func zero(t *gtype) string {
	switch t.k {
	case kInt:
		return fmt.Sprintf("0#%d", t.bits)
	case kBool:
		return "false"
	}
	return "default"
}

// packageConst: an integer constant declared at package level in the same package (literal initialiser)
func (x *tr) packageConst(name string) (val, bool) {
	for _, f := range x.c.pkg.files {
		for _, d := range f.Decls {
			gd, ok := d.(*ast.GenDecl)
			if !ok || gd.Tok != token.CONST {
				continue
			}
			for _, s := range gd.Specs {
				vs := s.(*ast.ValueSpec)
				for i, n := range vs.Names {
					if n.Name != name {
						continue
					}
					if i >= len(vs.Values) {
						fail(n.Pos(), "constant %s has no literal initialiser (iota constants are not supported)", name)
					}
					v := (&tr{c: ctx{f, x.c.pkg}, sigs: x.sigs}).expr(vs.Values[i], &env{vars: map[string]*gtype{}})
					if vs.Type != nil {
						v = x.conv(v, ctx{f, x.c.pkg}.resolve(vs.Type, "", 0), n.Pos())
					}
					return v, true
				}
			}
		}
	}
	return val{}, false
}

func (x *tr) binary(b *ast.BinaryExpr, en *env) val {
	l, r := x.expr(b.X, en), x.expr(b.Y, en)
	pos := b.Pos()
	switch b.Op {
	case token.SHL, token.SHR:
		// shift count
		var cnt string
		if r.t.k == kUntyped {
			n := constInt(r.c, pos)
			if n.Sign() < 0 || !n.IsUint64() || n.Uint64() > 1<<16 {
				fail(pos, "bad constant shift count %s", n)
			}
			if l.t.k == kUntyped {
				return val{t: untyped, c: constant.Shift(constant.ToInt(l.c), b.Op, uint(n.Uint64()))}
			}
			cnt = n.String()
		} else {
			if r.t.k != kInt || r.t.signed {
				fail(pos, "shift count of type %s: only constants and unsigned counts are supported (a negative signed count panics in Go)", r.t)
			}
			if l.t.k == kUntyped {
				fail(pos, "shift of an untyped constant by a non-constant count is not supported")
			}
			cnt = r.s + ".toNat"
		}
		if l.t.k != kInt {
			fail(pos, "shift of %s", l.t)
		}
		switch {
		case b.Op == token.SHL:
			return val{s: fmt.Sprintf("(%s <<< %s)", l.s, cnt), t: l.t}
		case l.t.signed:
			return val{s: fmt.Sprintf("(BitVec.sshiftRight %s %s)", l.s, cnt), t: l.t}
		default:
			return val{s: fmt.Sprintf("(%s >>> %s)", l.s, cnt), t: l.t}
		}
	case token.LAND, token.LOR:
		if l.t.k != kBool || r.t.k != kBool {
			fail(pos, "%s on non-bool operands", b.Op)
		}
		op := "&&"
		if b.Op == token.LOR {
			op = "||"
		}
		return val{s: fmt.Sprintf("(%s %s %s)", l.s, op, r.s), t: l.t}
	}
	// both constants: fold
	if l.t.k == kUntyped && r.t.k == kUntyped {
		switch b.Op {
		case token.EQL, token.NEQ, token.LSS, token.LEQ, token.GTR, token.GEQ:
			if constant.Compare(l.c, b.Op, r.c) {
				return val{s: "true", t: basic["bool"]}
			}
			return val{s: "false", t: basic["bool"]}
		case token.QUO:
			if constant.Sign(r.c) == 0 {
				fail(pos, "constant division by zero")
			}
			return val{t: untyped, c: constant.BinaryOp(constant.ToInt(l.c), token.QUO_ASSIGN, constant.ToInt(r.c))}
		case token.REM:
			if constant.Sign(r.c) == 0 {
				fail(pos, "constant division by zero")
			}
			fallthrough
		case token.ADD, token.SUB, token.MUL, token.AND, token.OR, token.XOR, token.AND_NOT:
			return val{t: untyped, c: constant.BinaryOp(constant.ToInt(l.c), b.Op, constant.ToInt(r.c))}
		}
		fail(pos, "unsupported constant operator %s", b.Op)
	}
	rConst := r.t.k == kUntyped
	var rc *big.Int
	if rConst {
		rc = constInt(r.c, pos)
	}
	if l.t.k == kUntyped {
		l = x.conv(l, r.t, pos)
	} else {
		r = x.conv(r, l.t, pos)
	}
	t := l.t
	if t.k == kBool {
		switch b.Op {
		case token.EQL:
			return val{s: fmt.Sprintf("(%s == %s)", l.s, r.s), t: t}
		case token.NEQ:
			return val{s: fmt.Sprintf("(%s != %s)", l.s, r.s), t: t}
		}
		fail(pos, "unsupported operator %s on bool", b.Op)
	}
	if t.k != kInt {
		fail(pos, "unsupported operator %s on %s", b.Op, t)
	}
	bin := func(op string) val { return val{s: fmt.Sprintf("(%s %s %s)", l.s, op, r.s), t: t} }
	fn := func(f string, a, c string) val { return val{s: fmt.Sprintf("(%s %s %s)", f, a, c), t: basic["bool"]} }
	switch b.Op {
	case token.ADD:
		return bin("+")
	case token.SUB:
		return bin("-")
	case token.MUL:
		return bin("*")
	case token.AND:
		return bin("&&&")
	case token.OR:
		return bin("|||")
	case token.XOR:
		return bin("^^^")
	case token.AND_NOT:
		return val{s: fmt.Sprintf("(%s &&& ~~~%s)", l.s, r.s), t: t}
	case token.QUO, token.REM:
		if !rConst || rc.Sign() == 0 {
			fail(pos, "%s by a non-constant or zero divisor (Go panics on a zero divisor; not translatable)", b.Op)
		}
		switch {
		case b.Op == token.QUO && t.signed:
			return val{s: fmt.Sprintf("(BitVec.sdiv %s %s)", l.s, r.s), t: t}
		case b.Op == token.QUO:
			return bin("/")
		case t.signed:
			return val{s: fmt.Sprintf("(BitVec.srem %s %s)", l.s, r.s), t: t}
		default:
			return bin("%")
		}
	case token.EQL:
		return val{s: fmt.Sprintf("(%s == %s)", l.s, r.s), t: basic["bool"]}
	case token.NEQ:
		return val{s: fmt.Sprintf("(%s != %s)", l.s, r.s), t: basic["bool"]}
	case token.LSS, token.LEQ, token.GTR, token.GEQ:
		a, c := l.s, r.s
		if b.Op == token.GTR || b.Op == token.GEQ {
			a, c = c, a
		}
		strict := b.Op == token.LSS || b.Op == token.GTR
		switch {
		case t.signed && strict:
			return fn("BitVec.slt", a, c)
		case t.signed:
			return fn("BitVec.sle", a, c)
		case strict:
			return fn("BitVec.ult", a, c)
		default:
			return fn("BitVec.ule", a, c)
		}
	}
	fail(pos, "unsupported operator %s", b.Op)
	return val{}
}

// ---------------------------------------------------------------------------- statements

const maxOut = 1 << 20

func (x *tr) retType() string {
	var ts []string
	for _, r := range x.sig.results {
		ts = append(ts, r.t.lean())
	}
	return strings.Join(ts, " × ")
}

func (x *tr) ret(vals []val, pos token.Pos) string {
	if len(vals) != len(x.sig.results) {
		fail(pos, "return with %d values, function has %d results", len(vals), len(x.sig.results))
	}
	var ss []string
	for i, v := range vals {
		ss = append(ss, x.conv(v, x.sig.results[i].t, pos).s)
	}
	if len(ss) == 1 {
		return ss[0]
	}
	return "(" + strings.Join(ss, ", ") + ")"
}

// stmts translates a statement list followed by the continuation `rest` (statements after the
// enclosing block) into a Lean term. `if` duplicates its continuation into both branches.
func (x *tr) stmts(list []ast.Stmt, en *env, ind string) string {
	if len(list) == 0 {
		fail(token.NoPos, "%s: control reaches the end of the function without a return", x.sig.name)
	}
	s, rest := list[0], list[1:]
	bind := func(name string, t *gtype, v string) string {
		return fmt.Sprintf("%slet %s : %s := %s\n", ind, ident(name), t.lean(), v) + x.stmts(rest, en, ind)
	}
	declare := func(name string, t *gtype, pos token.Pos) {
		if name == "_" {
			fail(pos, "blank identifier is not supported")
		}
		if _, ok := en.lookup(name); ok {
			fail(pos, "redeclaration / shadowing of %s is not supported", name)
		}
		en.vars[name] = t
	}
	switch t := s.(type) {
	case *ast.EmptyStmt:
		return x.stmts(rest, en, ind)
	case *ast.ReturnStmt:
		if len(t.Results) == 0 {
			if !x.sig.named {
				fail(s.Pos(), "bare return without named results")
			}
			var vs []val
			for _, r := range x.sig.results {
				vs = append(vs, val{s: ident(r.name), t: r.t})
			}
			return ind + x.ret(vs, s.Pos()) + "\n"
		}
		var vs []val
		for _, r := range t.Results {
			vs = append(vs, x.expr(r, en))
		}
		return ind + x.ret(vs, s.Pos()) + "\n"
	case *ast.AssignStmt:
		if len(t.Lhs) != len(t.Rhs) {
			fail(s.Pos(), "assignment with %d targets and %d values (multi-value calls are not supported)", len(t.Lhs), len(t.Rhs))
		}
		// evaluate all right-hand sides first (Go semantics for tuple assignment)
		type asg struct {
			name string
			t    *gtype
			v    string
		}
		var as []asg
		for i := range t.Lhs {
			id, ok := t.Lhs[i].(*ast.Ident)
			if !ok {
				fail(s.Pos(), "assignment target is not a variable")
			}
			v := x.expr(t.Rhs[i], en)
			switch t.Tok {
			case token.DEFINE:
				if _, exists := en.vars[id.Name]; exists && len(t.Lhs) > 1 {
					// := may re-assign an existing variable of the same scope in a tuple
					v = x.conv(v, en.vars[id.Name], s.Pos())
					as = append(as, asg{id.Name, v.t, v.s})
					continue
				}
				if v.t.k == kUntyped {
					v = x.conv(v, basic["int"], s.Pos())
				}
				as = append(as, asg{id.Name, v.t, v.s})
			case token.ASSIGN:
				vt, ok := en.lookup(id.Name)
				if !ok {
					fail(s.Pos(), "assignment to unknown variable %s", id.Name)
				}
				v = x.conv(v, vt, s.Pos())
				as = append(as, asg{id.Name, vt, v.s})
			default:
				vt, ok := en.lookup(id.Name)
				if !ok {
					fail(s.Pos(), "assignment to unknown variable %s", id.Name)
				}
				ops := map[token.Token]token.Token{token.ADD_ASSIGN: token.ADD, token.SUB_ASSIGN: token.SUB,
					token.MUL_ASSIGN: token.MUL, token.QUO_ASSIGN: token.QUO, token.REM_ASSIGN: token.REM,
					token.AND_ASSIGN: token.AND, token.OR_ASSIGN: token.OR, token.XOR_ASSIGN: token.XOR,
					token.SHL_ASSIGN: token.SHL, token.SHR_ASSIGN: token.SHR, token.AND_NOT_ASSIGN: token.AND_NOT}
				op, ok := ops[t.Tok]
				if !ok {
					fail(s.Pos(), "unsupported assignment operator %s", t.Tok)
				}
				v = x.binary(&ast.BinaryExpr{X: t.Lhs[i], Op: op, Y: t.Rhs[i], OpPos: s.Pos()}, en)
				v = x.conv(v, vt, s.Pos())
				as = append(as, asg{id.Name, vt, v.s})
			}
		}
		if len(as) == 1 {
			if t.Tok == token.DEFINE {
				declare(as[0].name, as[0].t, s.Pos())
			}
			return bind(as[0].name, as[0].t, as[0].v)
		}
		// tuple: bind temporaries first
		out := ""
		for i, a := range as {
			out += fmt.Sprintf("%slet tmp%d_ : %s := %s\n", ind, i, a.t.lean(), a.v)
		}
		for i, a := range as {
			if t.Tok == token.DEFINE {
				if _, exists := en.vars[a.name]; !exists {
					declare(a.name, a.t, s.Pos())
				}
			}
			out += fmt.Sprintf("%slet %s : %s := tmp%d_\n", ind, ident(a.name), a.t.lean(), i)
		}
		return out + x.stmts(rest, en, ind)
	case *ast.IncDecStmt:
		id, ok := t.X.(*ast.Ident)
		if !ok {
			fail(s.Pos(), "++/-- target is not a variable")
		}
		vt, ok := en.lookup(id.Name)
		if !ok || vt.k != kInt {
			fail(s.Pos(), "++/-- on unknown or non-integer variable")
		}
		op := "+"
		if t.Tok == token.DEC {
			op = "-"
		}
		return bind(id.Name, vt, fmt.Sprintf("%s %s %s", ident(id.Name), op, lit(big.NewInt(1), vt, s.Pos())))
	case *ast.DeclStmt:
		gd, ok := t.Decl.(*ast.GenDecl)
		if !ok || gd.Tok != token.VAR {
			fail(s.Pos(), "unsupported declaration")
		}
		out := ""
		for _, sp := range gd.Specs {
			vs := sp.(*ast.ValueSpec)
			for i, n := range vs.Names {
				var vt *gtype
				if vs.Type != nil {
					vt = x.c.resolve(vs.Type, "", 0)
					if vt.k != kInt && vt.k != kBool {
						fail(s.Pos(), "variable of type %s", vt)
					}
				}
				v := ""
				if len(vs.Values) > 0 {
					if len(vs.Values) != len(vs.Names) {
						fail(s.Pos(), "multi-value initialiser")
					}
					ev := x.expr(vs.Values[i], en)
					if vt == nil {
						if ev.t.k == kUntyped {
							ev = x.conv(ev, basic["int"], s.Pos())
						}
						vt = ev.t
					}
					v = x.conv(ev, vt, s.Pos()).s
				} else {
					v = zero(vt)
				}
				declare(n.Name, vt, s.Pos())
				out += fmt.Sprintf("%slet %s : %s := %s\n", ind, ident(n.Name), vt.lean(), v)
			}
		}
		return out + x.stmts(rest, en, ind)
	case *ast.BlockStmt:
		inner := &env{vars: map[string]*gtype{}, parent: en}
		return x.block(t.List, rest, inner, en, ind)
	case *ast.IfStmt:
		if t.Init != nil {
			fail(s.Pos(), "if with an init statement is not supported")
		}
		c := x.expr(t.Cond, en)
		if c.t.k != kBool {
			fail(s.Pos(), "non-bool condition")
		}
		thenS := x.block(t.Body.List, rest, &env{vars: map[string]*gtype{}, parent: en}, en, ind+"  ")
		var elseS string
		switch el := t.Else.(type) {
		case nil:
			elseS = x.stmts(rest, cloneEnv(en), ind+"  ")
		case *ast.BlockStmt:
			elseS = x.block(el.List, rest, &env{vars: map[string]*gtype{}, parent: en}, en, ind+"  ")
		case *ast.IfStmt:
			elseS = x.stmts(append([]ast.Stmt{el}, rest...), cloneEnv(en), ind+"  ")
		default:
			fail(s.Pos(), "unsupported else")
		}
		out := fmt.Sprintf("%sif %s then\n%s%selse\n%s", ind, c.s, thenS, ind, elseS)
		if len(out) > maxOut {
			fail(s.Pos(), "translation too large (nested if duplication)")
		}
		return out
	}
	fail(s.Pos(), "unsupported statement %T", s)
	return ""
}

func cloneEnv(e *env) *env {
	if e == nil {
		return nil
	}
	c := &env{vars: map[string]*gtype{}, parent: cloneEnv(e.parent)}
	for k, v := range e.vars {
		c.vars[k] = v
	}
	return c
}

// block: statements of an inner block, then the continuation in the outer scope. Inner
// declarations may not shadow (checked by declare), so the continuation sees the same bindings.
// A continuation placed after a block that always returns is dead code in Lean and harmless.
func (x *tr) block(inner, rest []ast.Stmt, in *env, outer *env, ind string) string {
	if len(inner) == 0 {
		return x.stmts(rest, cloneEnv(outer), ind)
	}
	if endsInReturn(inner) {
		return x.stmts(inner, in, ind)
	}
	// names declared in the inner block must not be visible to the continuation: Go would not
	// compile a use, so translating the continuation in the inner env is sound.
	return x.stmts(append(append([]ast.Stmt{}, inner...), rest...), in, ind)
}

func endsInReturn(l []ast.Stmt) bool {
	if len(l) == 0 {
		return false
	}
	switch t := l[len(l)-1].(type) {
	case *ast.ReturnStmt:
		return true
	case *ast.BlockStmt:
		return endsInReturn(t.List)
	case *ast.IfStmt:
		if t.Else == nil {
			return false
		}
		switch el := t.Else.(type) {
		case *ast.BlockStmt:
			return endsInReturn(t.Body.List) && endsInReturn(el.List)
		case *ast.IfStmt:
			return endsInReturn(t.Body.List) && endsInReturn([]ast.Stmt{el})
		}
	}
	return false
}

// ---------------------------------------------------------------------------- functions

func (x *tr) signature(fd *ast.FuncDecl) *fnSig {
	if fd.Recv != nil {
		fail(fd.Pos(), "methods are not supported")
	}
	if fd.Type.TypeParams != nil {
		fail(fd.Pos(), "generic functions are not supported")
	}
	sg := &fnSig{name: fd.Name.Name}
	for _, p := range fd.Type.Params.List {
		if _, ok := p.Type.(*ast.Ellipsis); ok {
			fail(p.Pos(), "variadic parameters are not supported")
		}
		pt := x.c.resolve(p.Type, "", 0)
		if len(p.Names) == 0 {
			fail(p.Pos(), "unnamed parameter")
		}
		for _, n := range p.Names {
			sg.params = append(sg.params, field{n.Name, pt})
		}
	}
	if fd.Type.Results == nil || len(fd.Type.Results.List) == 0 {
		fail(fd.Pos(), "function without results")
	}
	for _, r := range fd.Type.Results.List {
		rt := x.c.resolve(r.Type, "", 0)
		if len(r.Names) == 0 {
			sg.results = append(sg.results, field{"", rt})
		}
		for _, n := range r.Names {
			sg.named = true
			sg.results = append(sg.results, field{n.Name, rt})
		}
	}
	return sg
}

func (x *tr) function(fd *ast.FuncDecl) string {
	sg := x.sigs[fd.Name.Name]
	x.sig = sg
	en := &env{vars: map[string]*gtype{}}
	var sb strings.Builder
	var src strings.Builder
	_ = printer.Fprint(&src, fset, fd)
	fmt.Fprintf(&sb, "/- %s:\n%s\n-/\n", fset.Position(fd.Pos()).Filename[len(repoDir)+1:], strings.ReplaceAll(strings.ReplaceAll(src.String(), "-/", "- /"), "/-", "/ -"))
	fmt.Fprintf(&sb, "def %s", ident(sg.name))
	for _, p := range sg.params {
		if _, dup := en.vars[p.name]; dup || p.name == "_" {
			fail(fd.Pos(), "unsupported parameter name %s", p.name)
		}
		en.vars[p.name] = p.t
		fmt.Fprintf(&sb, " (%s : %s)", ident(p.name), p.t.lean())
	}
	x.sig = sg
	fmt.Fprintf(&sb, " : %s :=\n", x.retType())
	pre := ""
	if sg.named {
		for _, r := range sg.results {
			if r.t.k != kInt && r.t.k != kBool {
				fail(fd.Pos(), "named result of type %s", r.t)
			}
			if _, dup := en.vars[r.name]; dup || r.name == "_" {
				fail(fd.Pos(), "unsupported result name %s", r.name)
			}
			en.vars[r.name] = r.t
			pre += fmt.Sprintf("  let %s : %s := %s\n", ident(r.name), r.t.lean(), zero(r.t))
		}
	}
	if fd.Body == nil {
		fail(fd.Pos(), "function without body")
	}
	sb.WriteString(pre + x.stmts(fd.Body.List, en, "  "))
	return sb.String()
}

func main() {
	repo := flag.String("repo", "/repo", "repository root")
	file := flag.String("file", "", "Go file (relative to -repo) holding the functions")
	funcs := flag.String("funcs", "", "comma-separated function names, translated in this order")
	ns := flag.String("ns", "", "Lean namespace of the generated definitions")
	out := flag.String("out", "", "output .lean file")
	flag.Parse()
	if *file == "" || *funcs == "" || *ns == "" || *out == "" {
		fmt.Fprintln(os.Stderr, "usage: go2lean -repo DIR -file F.go -funcs a,b -ns NS -out FILE.lean")
		os.Exit(2)
	}
	code := 0
	func() {
		defer func() {
			if r := recover(); r != nil {
				if e, ok := r.(errT); ok {
					fmt.Fprintln(os.Stderr, "go2lean: ERROR: "+e.msg)
					code = 1
					return
				}
				panic(r)
			}
		}()
		text := translate(*repo, *file, strings.Split(*funcs, ","), *ns)
		if err := os.WriteFile(*out, []byte(text), 0o644); err != nil {
			fail(token.NoPos, "%v", err)
		}
	}()
	os.Exit(code)
}

func translate(repo, file string, names []string, ns string) string {
	var err error
	repoDir, err = filepath.Abs(repo)
	if err != nil {
		fail(token.NoPos, "%v", err)
	}
	mod, err := os.ReadFile(filepath.Join(repoDir, "go.mod"))
	if err != nil {
		fail(token.NoPos, "%v", err)
	}
	for _, l := range strings.Split(string(mod), "\n") {
		if strings.HasPrefix(l, "module ") {
			repoMod = strings.TrimSpace(strings.TrimPrefix(l, "module "))
		}
	}
	if repoMod == "" {
		fail(token.NoPos, "no module line in go.mod")
	}
	path := filepath.Join(repoDir, file)
	pkg := loadDir(filepath.Dir(path))
	var af *ast.File
	for _, f := range pkg.files {
		if fset.Position(f.Pos()).Filename == path {
			af = f
		}
	}
	if af == nil {
		fail(token.NoPos, "%s not found", path)
	}
	x := &tr{c: ctx{af, pkg}, sigs: map[string]*fnSig{}}
	decls := map[string]*ast.FuncDecl{}
	for _, d := range af.Decls {
		if fd, ok := d.(*ast.FuncDecl); ok && fd.Recv == nil {
			decls[fd.Name.Name] = fd
		}
	}
	var bodies []string
	for _, n := range names {
		n = strings.TrimSpace(n)
		fd, ok := decls[n]
		if !ok {
			fail(token.NoPos, "function %s not found in %s", n, file)
		}
		x.sigs[n] = x.signature(fd)
		bodies = append(bodies, x.function(fd))
	}
	var sb strings.Builder
	fmt.Fprintf(&sb, "/-\n  GENERATED by harness/cmd/go2lean from %s (functions: %s).\n", file, strings.Join(names, ", "))
	sb.WriteString("  Do not edit: ./check regenerates this file from /repo's working tree on every run.\n")
	sb.WriteString("  Go integers are BitVec of their width (int = 64 bit); + - * wrap; conversions truncate /\n")
	sb.WriteString("  sign-extend / zero-extend; >> is arithmetic on signed and logical on unsigned operands.\n-/\n")
	fmt.Fprintf(&sb, "set_option linter.unusedVariables false\nnamespace %s\n\n", ns)
	for _, n := range structOrder {
		s := structs[n]
		used := false
		for _, sg := range x.sigs {
			for _, f := range append(append([]field{}, sg.params...), sg.results...) {
				if f.t == s {
					used = true
				}
			}
		}
		if !used {
			continue
		}
		fmt.Fprintf(&sb, "/-- integer / bool fields of Go struct `%s`", n)
		if len(s.skip) > 0 {
			fmt.Fprintf(&sb, " (omitted, use is a translation error: %s)", strings.Join(s.skip, ", "))
		}
		sb.WriteString(" -/\nstructure " + n + " where\n")
		for _, f := range s.fields {
			fmt.Fprintf(&sb, "  %s : %s\n", ident(f.name), f.t.lean())
		}
		sb.WriteString("  deriving DecidableEq, Repr\n\n")
	}
	for _, b := range bodies {
		sb.WriteString(b + "\n")
	}
	fmt.Fprintf(&sb, "end %s\n", ns)
	return sb.String()
}
