#!/bin/sh
# go2lean self-test (not part of ./check; run by hand after changing the translator):
#  1. differential: testdata/m/arith (if/else, named results, tuple assignment, struct parameter and
#     result, / % by constants, typed shift counts, every conversion direction, calls) is translated,
#     the Lean definitions are evaluated on the same 400 random / boundary inputs as the Go functions
#     and the outputs are diffed;
#  2. negative: every function of testdata/m/bad/bad.go must make the translator exit non-zero
#     without writing an output file.
set -e
here="$(cd "$(dirname "$0")" && pwd)"
root="$(cd "$here/../../.." && pwd)"
export GOFLAGS=-mod=mod GOPROXY=off
tmp="$(mktemp -d)"
trap 'rm -rf "$tmp"' EXIT
( cd "$root/harness" && go build -o "$tmp/go2lean" ./cmd/go2lean )
( cd "$here/testdata/m" && GOTOOLCHAIN=local go run ./cmd > "$tmp/go.out" )
"$tmp/go2lean" -repo "$here/testdata/m" -file arith/arith.go -funcs F1,F2,F3,F4,F5,F6,F7,F8,F9,F10 -ns T -out "$tmp/T.lean"
python3 - "$tmp" <<'PY'
import sys
tmp = sys.argv[1]
cases = [l.split()[1:] for l in open(tmp + '/go.out') if l.startswith('CASE')]
src = open(tmp + '/T.lean').read() + '''
open T
def cases : List (Nat × Nat × Nat) := [''' + ", ".join(f"({a},{b},{c})" for a, b, c in cases) + ''']
def b2i (b : Bool) : Nat := if b then 1 else 0
def runAll : IO Unit := do
  for (a, b, c) in cases do
    IO.println s!"CASE {a} {b} {c}"
    IO.println s!"f1 {(F1 (BitVec.ofNat 64 a) (BitVec.ofNat 32 b)).toInt}"
    IO.println s!"f2 {(F2 (BitVec.ofNat 64 a) (BitVec.ofNat 8 b)).toNat}"
    IO.println s!"f3 {(F3 (BitVec.ofNat 32 a)).toInt}"
    let r := F4 (BitVec.ofNat 8 a) (BitVec.ofNat 8 b)
    IO.println s!"f4 {r.1.toInt} {b2i r.2}"
    let p := F5 ⟨BitVec.ofNat 32 a, BitVec.ofNat 16 b, false⟩ (BitVec.ofNat 32 c)
    IO.println s!"f5 {p.A.toInt} {p.B.toNat}"
    IO.println s!"f6 {(F6 (BitVec.ofNat 16 a) (BitVec.ofNat 16 b)).toNat}"
    IO.println s!"f7 {(F7 (BitVec.ofNat 64 a)).toInt}"
    IO.println s!"f8 {(F8 (BitVec.ofNat 64 a) (BitVec.ofNat 32 b)).toInt}"
    IO.println s!"f9 {(F9 (BitVec.ofNat 64 a)).toInt}"
    IO.println s!"f10 {(F10 (BitVec.ofNat 32 a) (BitVec.ofNat 32 b)).toInt}"
#eval runAll
'''
open(tmp + '/Run.lean', 'w').write(src)
PY
( cd "$root/lean" && lake env lean "$tmp/Run.lean" > "$tmp/lean.out" 2>&1 ) || true
if ! diff -q "$tmp/go.out" "$tmp/lean.out" >/dev/null; then
  echo "go2lean selftest: DIFFERENCE between Go and translated Lean"; diff "$tmp/go.out" "$tmp/lean.out" | head -20; exit 1
fi
echo "differential: $(grep -c CASE "$tmp/go.out") inputs x 10 functions identical"
for f in B1 B2 B3 B4 B5 B6 B7 B8 B9 B10 B11 B12; do
  rm -f "$tmp/bad.lean"
  if "$tmp/go2lean" -repo "$here/testdata/m" -file bad/bad.go -funcs $f -ns T -out "$tmp/bad.lean" 2>/dev/null; then
    echo "go2lean selftest: $f was translated but must be an error"; exit 1
  fi
  if [ -e "$tmp/bad.lean" ]; then echo "go2lean selftest: $f wrote an output file"; exit 1; fi
done
echo "negative: 12 untranslatable functions rejected"
