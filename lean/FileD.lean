-- root of the library: `lake build` builds every module reachable from here.
-- Props modules are listed in FileD/Props/All.lean.
import FileD.Prelude.Bytes
import FileD.Prelude.Tok
import FileD.Prelude.GoSlice
import FileD.Prelude.JTree
import FileD.Prelude.TS
import FileD.Drv.All
import FileD.Props.All
