-- root of the library: every module that must build for `lake build FileD`
import FileD.Prelude.Bytes
import FileD.Prelude.Tok
import FileD.Model.Worker
import FileD.Spec.C06
import FileD.Drv.All
import FileD.Props.C06
