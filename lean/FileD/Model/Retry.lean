/-
  Model of pipeline/backoff.go (RetriableBatcher.Out) and of the dead-queue hand-over
  (pipeline/router.go Router.Fail, the `onError` callback of the outputs), DESIGN §C09.

  `out` is the loop of RetriableBatcher.Out folded over two oracle lists:
    sends : results of the successive `b.outFn(data, batch)` calls (true = err == nil)
    backs : results of the successive `NextBackOff()` calls (`dur d` or `stop`)
  The third-party back-off (cenkalti/backoff) and the send function are not modelled: whatever
  they return is an input; theorems quantify over all oracle lists.

  `onRetryError` is the callback the outputs install (elasticsearch.go:274-289 and its siblings):
  it reports the error once and calls `Router.Fail(event)` for every event of the batch
  (parents of split events included — the callback gets `batch.events`, not ForEach).
  `Router.Fail` hands the event to the dead-queue output's `Out` when one is configured and
  does nothing otherwise.
  Core Lean only (linked into fdmodel).
-/
import FileD.Model.Batcher
namespace FileD.Retry
open FileD.Batcher

inductive BackOff | dur (d : Nat) | stop
deriving DecidableEq, Repr

structure RCfg where
  attemptNum : Int        -- BackoffOpts.AttemptNum (the outputs' `retry` setting)
  dq : Bool               -- BackoffOpts.IsDeadQueueAvailable = Router.IsDeadQueueAvailable()
deriving Repr

/-- boundary events of one `Out` call, in program order -/
inductive REv
  | send (ok : Bool)                -- one call of the send function and its result
  | next (tries : Nat) (b : BackOff) -- NextBackOff() result, with numTries at that moment
  | sleep (d : Nat)                 -- `<-timer.C`
  | onError (ids : List Nat)        -- onRetryError(err, batch.events)
  | fail (id : Nat)                 -- Router.Fail(event) reaching deadQueue.Out(event)
  | reset                           -- batch.reset(); batch.status = BatchStatusInDeadQueue
deriving DecidableEq, Repr

structure OutRes where
  log : List REv := []
  finished : Bool := false          -- Out returned (false: the oracle ran out while still looping)
  gaveUp : Bool := false            -- returned through the onRetryError branch
  keep : Bool := true               -- batch not reset (its events are still the batcher's to commit)
deriving Repr

/-- the give-up branch: error callback, one Router.Fail per event, reset if a dead queue exists -/
def giveUp (cfg : RCfg) (evs : List Ev) : List REv :=
  [.onError (evs.map (·.id))] ++ (if cfg.dq then evs.map (fun e => REv.fail e.id) ++ [.reset] else [])

/-- `numTries > AttemptNum` guarded by `AttemptNum >= 0` -/
def exhausted (cfg : RCfg) (tries : Nat) : Bool :=
  decide (cfg.attemptNum ≥ 0) && decide ((tries : Int) > cfg.attemptNum)

/-- RetriableBatcher.Out: `for { err := outFn(); if err == nil {return}; next := NextBackOff();
    if next == Stop || (AttemptNum >= 0 && numTries > AttemptNum) { onRetryError; reset?; return };
    numTries++; sleep(next) }` -/
def out (cfg : RCfg) (evs : List Ev) : List Bool → List BackOff → Nat → OutRes
  | [], _, _ => {}
  | true :: _, _, _ => { log := [.send true], finished := true }
  | false :: _, [], _ => { log := [.send false] }
  | false :: ss, b :: bs, tries =>
    if b = .stop ∨ exhausted cfg tries = true then
      { log := [.send false, .next tries b] ++ giveUp cfg evs, finished := true, gaveUp := true,
        keep := !cfg.dq }
    else
      let r := out cfg evs ss bs (tries + 1)
      let d := match b with | .dur d => d | .stop => 0
      { r with log := [.send false, .next tries b, .sleep d] ++ r.log }

/-! ### the pause schedule of one `Out` call

  `exponentionalBackoff` is a local of `Out`, `Reset()` at its start: the n-th `NextBackOff()` of a call draws
  from the interval of *that call's own* attempt index n. cenkalti/backoff: current interval `I₀ = MinRetention`,
  `Iₙ₊₁ = if Iₙ ≥ MaxInterval / Multiplier then MaxInterval else Iₙ · Multiplier`; the answer is uniform in
  `[Iₙ − Iₙ/2, Iₙ + Iₙ/2 + 1)` (RandomizationFactor 0.5). Durations in nanoseconds. -/

def maxIntervalNs : Nat := 60 * 1000000000   -- backoff.DefaultMaxInterval

def interval (minRet mult : Nat) : Nat → Nat
  | 0 => minRet
  | n+1 => let i := interval minRet mult n
           if i * mult ≥ maxIntervalNs then maxIntervalNs else i * mult

/-- bounds of the n-th pause of a call (2 ns of slack for the float → Duration truncations) -/
def pauseLo (minRet mult n : Nat) : Nat := interval minRet mult n / 2 - 1
def pauseHi (minRet mult n : Nat) : Nat := interval minRet mult n + interval minRet mult n / 2 + 2

def pauseOk (minRet mult n d : Nat) : Bool := pauseLo minRet mult n ≤ d && d ≤ pauseHi minRet mult n

/-- the back-off oracle follows the library's schedule for a fresh, unshared `ExponentialBackOff` -/
def BacksWellFormed (minRet mult : Nat) (backs : List BackOff) : Prop :=
  ∀ n d, backs[n]? = some (.dur d) → pauseOk minRet mult n d = true

def sleepsOf (log : List REv) : List Nat := log.filterMap (fun e => match e with | .sleep d => some d | _ => none)
def dursOf (backs : List BackOff) : List Nat := backs.filterMap (fun b => match b with | .dur d => some d | .stop => none)

def failedSends (log : List REv) : Nat := (log.filter (fun e => match e with | .send false => true | _ => false)).length
def errorCalls (log : List REv) : Nat := (log.filter (fun e => match e with | .onError _ => true | _ => false)).length
def failedIds (log : List REv) : List Nat := log.filterMap (fun e => match e with | .fail id => some id | _ => none)

/-- the observable part of the log (sleeps and the reset are not boundary events of the trace) -/
def observable (log : List REv) : List REv :=
  log.filter (fun e => match e with | .sleep _ => false | .reset => false | _ => true)

end FileD.Retry
