/-
  The file worker in front of the real pipeline: every `controller.In(offset, data)` call of
  `worker.work` (Model/Worker.lean) goes through `Pipeline.In` (Model/Admission.lean, the model C20
  ties to pipeline/pipeline.go) configured as the C06 harness configures the pipeline: decoder
  `raw`, the same `max_event_size` / `cut_off_event_by_limit` as the worker, no cut-off mark field,
  antispam disabled (threshold -1), no meta, `PassEvent` true. What reaches the output is
  (event.Offset, message) per delivered event; a refused call delivers nothing.
  Both sides have their own idea of "over the limit" (worker: `len(accumBuf)+len(line) > max`;
  pipeline: `length > max`): the composition is where a disagreement between them shows.
-/
import FileD.Model.Worker
import FileD.Model.Admission
namespace FileD.WorkerPipe
open FileD

def settings (cfg : Worker.Cfg) : Admission.Settings :=
  { maxEventSize := cfg.maxSize, cutOff := cfg.cutOff, cutOffField := [], dec := .raw, metaField := [],
    as := { threshold := -1, unban := 0, interval := 0, rulesNil := true, excs := [], rules := [] } }

def rec (call : Nat × Bytes) : Admission.Rec :=
  { sourceID := 1, cur := call.1, streamOff := none, isNew := false, md := [], pass := true,
    data := call.2, excM := fun _ => [] }

/-- the `message` field of a delivered raw event -/
def message : JTree → Option Bytes
  | .obj [(_, .str m)] => some m
  | _ => none

/-- one worker call through `Pipeline.In`: what the output receives (`none`: refused) -/
def inCall (cfg : Worker.Cfg) (call : Nat × Bytes) : GoM (Option (Nat × Bytes)) :=
  match Admission.inStep (settings cfg) (fun _ => none) Antispam.init (rec call) with
  | .error p => .error p
  | .ok (.refused _, _) => .ok none
  | .ok (.delivered t, _) =>
    match message t with
    | some m => .ok (some (call.1, m))
    | none => .error .other

/-- all calls of a file life, in order (the antispam is off: no state between calls) -/
def deliver (cfg : Worker.Cfg) : List (Nat × Bytes) → GoM (List (Nat × Bytes))
  | [] => .ok []
  | c :: cs =>
    match inCall cfg c with
    | .error p => .error p
    | .ok r =>
      match deliver cfg cs with
      | .error p => .error p
      | .ok rs => .ok (match r with | some x => x :: rs | none => rs)

end FileD.WorkerPipe
