/-
  Executable model of the throttle action with the in-memory backend
  (/repo/plugin/action/throttle: throttle.go, rule.go, limiters_map.go, in_memory_limiter.go,
  buckets.go, distribution.go), statement by statement.

  * time is `Int` nanoseconds (`time.Time.UnixNano()`), bucket ids are Go `int`s modelled as `Int`
    (no overflow: see design/C16.md), divisions are Go's truncating `/` = `Int.tdiv`;
  * Go indexing / slicing is a checked access (`GoSlice`): a Go panic is the value `.error .bounds`;
  * the per-value limits of a limit distribution (float rounding at configuration time) are inputs;
  * the wall-clock driven expiry of the limiters map (`maintenance`) is the explicit op `expire k`.
  Core Lean only (linked into `fdmodel`).
-/
import FileD.Prelude.Bytes
import FileD.Prelude.GoSlice
namespace FileD.Throttle
open FileD

inductive Kind
  | count
  | size
deriving DecidableEq, Repr

/-- `limitDistributions` (distribution.go): `limits[i]` is `distributions[i].limit` -/
structure Distr where
  field : Bytes
  idxByKey : List (Bytes × Nat)
  limits : List Int
  defLimit : Int
  enabled : Bool
deriving DecidableEq, Repr

def Distr.empty : Distr := ⟨[], [], [], 0, false⟩

/-- `isEnabled`: `ld.enabled && ld.size() > 0` -/
def Distr.isEnabled (d : Distr) : Bool := d.enabled && decide (0 < d.limits.length)

/-- `rule` (rule.go) with its `complexLimit` -/
structure Rule where
  conds : List (Bytes × Bytes)
  limit : Int
  kind : Kind
  distr : Distr
deriving DecidableEq, Repr

/-- plugin configuration: `buckets_count`, `bucket_interval` (ns) and `p.rules`
    (the configured rules followed by the default rule with no conditions) -/
structure Cfg where
  count : Nat
  interval : Int
  rules : List Rule

/-- what `Do` reads from an event and from the clock: the throttle field value, the parsed time
    field (`ts`), `nowFn()` at processing time, `event.Size`, and the fields used by rule
    conditions and distributions -/
structure Ev where
  key : Bytes
  ts : Int
  now : Int
  size : Int
  fields : List (Bytes × Bytes)
deriving DecidableEq, Repr

/-- `event.Root.Dig(f).AsString()`: the empty string when the field is absent -/
def fieldVal (fs : List (Bytes × Bytes)) (f : Bytes) : Bytes :=
  match fs.lookup f with
  | some v => v
  | none => []

def defaultKey : Bytes := [100, 101, 102, 97, 117, 108, 116]  -- "default"

/-- `throttleKey := defaultThrottleKey; if val != "" { throttleKey = val }` -/
def throttleKey (e : Ev) : Bytes := if e.key = [] then defaultKey else e.key

/-- `rule.isMatch` -/
def isMatch (r : Rule) (e : Ev) : Bool := r.conds.all (fun c => fieldVal e.fields c.1 == c.2)

/-- the loop over `p.rules` in `Plugin.isAllowed`: first matching rule and its index -/
def firstMatch : List Rule → Nat → Ev → Option (Nat × Rule)
  | [], _, _ => none
  | r :: rs, i, e => if isMatch r e then some (i, r) else firstMatch rs (i + 1) e

/-- `byteIdxPart ++ throttleKey` with `byteIdxPart = []byte{byte('a' + ruleNum), ':'}` -/
def limKey (i : Nat) (key : Bytes) : Bytes := UInt8.ofNat (97 + i) :: 58 :: key

abbrev Rows := List (List Int)

/-- `inMemoryLimiter`: its copy of the limit, and the buckets (`bucketsMeta` ids + counters,
    one row per bucket, one column per distribution, column 0 = default distribution) -/
structure Lim where
  limit : Int
  kind : Kind
  distr : Distr
  minID : Int
  maxID : Int
  b : Rows
deriving DecidableEq, Repr

/-- `newInMemoryLimiter` -/
def newLim (cfg : Cfg) (r : Rule) : Lim :=
  { limit := r.limit, kind := r.kind,
    distr := if 0 < r.distr.limits.length then r.distr else Distr.empty,
    minID := 0, maxID := 0,
    b := List.replicate cfg.count (List.replicate (r.distr.limits.length + 1) 0) }

/-- `bucketsMeta.timeToBucketID`: `int(t.UnixNano() / m.interval.Nanoseconds())` -/
def timeToBucketID (interval t : Int) : Int := Int.tdiv t interval

/-- `bucketsMeta.actualizeIndex` -/
def actualizeIndex (metaMaxID maxID index : Int) : Int × Bool :=
  if metaMaxID = maxID then (index, true)
  else (index - (metaMaxID - maxID), decide (index - (metaMaxID - maxID) > 0))

/-- `b.reset(index)` -/
def resetRow (b : Rows) (i : Int) : GoM Rows := do
  let row ← GoSlice.idx? b i
  pure (b.set i.toNat (row.map (fun _ => 0)))

/-- `resetFn(n)`: `b.b = append(b.b[n:], b.b[:n]...)`, then `reset(count-1-i)` for `i < n` -/
def resetFn (count : Nat) (n : Int) (b : Rows) : GoM Rows := do
  let hi ← GoSlice.sliceFrom? b n
  let lo ← GoSlice.sliceTo? b n
  (List.range n.toNat).foldlM (fun acc (i : Nat) => resetRow acc ((count : Int) - 1 - (i : Int))) (hi ++ lo)

/-- `rebuildBuckets` (buckets.go:211-237): the limiter with shifted buckets and the bucket id
    the event is attributed to -/
def rebuild (count : Nat) (interval : Int) (l : Lim) (now ts : Int) : GoM (Lim × Int) := do
  let currentID := timeToBucketID interval now
  -- `if meta.minID == 0 { meta.maxID = currentID; meta.minID = meta.maxID - meta.count + 1 }`
  let maxID0 := if l.minID = 0 then currentID else l.maxID
  let minID0 := if l.minID = 0 then currentID - count + 1 else l.minID
  let maxID := minID0 + count - 1
  let l1 ← if currentID > maxID then do
      let dif := currentID - maxID
      let n := min dif (count : Int)
      let b ← resetFn count n l.b
      pure { l with minID := minID0 + dif, maxID := currentID, b := b }
    else pure { l with minID := minID0, maxID := maxID0 }
  let id := timeToBucketID interval ts
  let id := if id < l1.minID ∨ id > l1.maxID then l1.maxID else id
  pure (l1, id)

/-- `limitDistributions.getLimit`, index already shifted by the caller's `idx++` is NOT applied
    here: returns `(idx, limit)` with `idx = -1` for the default distribution -/
def getLimit (d : Distr) (v : Bytes) : GoM (Int × Int) :=
  match d.idxByKey.lookup v with
  | some i => do
    let lim ← GoSlice.idx? d.limits i
    pure ((i : Int), lim)
  | none => pure (-1, d.defLimit)

structure Pick where
  maxDiff : Int
  idx : Int
  limit : Int
deriving DecidableEq, Repr

/-- the loop "looking for a distribution with the most free space" of `getDistrData` -/
def stealLoop (row : List Int) (val : Int) : List Int → Nat → Pick → GoM Pick
  | [], _, p => pure p
  | dl :: ds, i, p => do
    let curVal ← GoSlice.idx? row ((i : Int) + 1)
    let curDiff := dl - (curVal + val)
    if curDiff > p.maxDiff then stealLoop row val ds (i + 1) ⟨curDiff, (i : Int) + 1, dl⟩
    else stealLoop row val ds (i + 1) p

/-- `valueOf`: what an event adds to its bucket -/
def evVal (k : Kind) (e : Ev) : Int :=
  match k with
  | .count => 1
  | .size => e.size

/-- `getDistrData`: (distribution index in the bucket, limit to compare with); `row` is the
    bucket `b.b[bucketIdx]` -/
def getDistrData (l : Lim) (row : List Int) (e : Ev) : GoM (Int × Int) := do
  let il ← getLimit l.distr (fieldVal e.fields l.distr.field)
  let idx := il.1 + 1
  if idx > 0 then pure (idx, il.2) else
  let val := evVal l.kind e
  let cur ← GoSlice.idx? row idx
  if cur + val ≤ il.2 then pure (idx, il.2) else
  let p ← stealLoop row val l.distr.limits 0 ⟨-1, idx, il.2⟩
  pure (p.idx, p.limit)

/-- `inMemoryLimiter.isAllowed` -/
def isAllowed (count : Nat) (interval : Int) (l : Lim) (e : Ev) : GoM (Lim × Bool) := do
  if l.limit < 0 then pure (l, true) else
  let li ← rebuild count interval l e.now e.ts
  let l1 := li.1
  let index := li.2 - l1.minID
  let row ← GoSlice.idx? l1.b index
  let dl ← if l1.distr.isEnabled then getDistrData l1 row e else pure (0, l1.limit)
  let cur ← GoSlice.idx? row dl.1
  let v := cur + evVal l1.kind e
  pure ({ l1 with b := l1.b.set index.toNat (row.set dl.1.toNat v) }, decide (v ≤ dl.2))

/-- association-list map of the limiters (`limitersMap.lims`) -/
def upsert (k : Bytes) (v : Lim) : List (Bytes × Lim) → List (Bytes × Lim)
  | [] => [(k, v)]
  | kv :: t => if kv.1 = k then (k, v) :: t else kv :: upsert k v t

def erase (k : Bytes) : List (Bytes × Lim) → List (Bytes × Lim)
  | [] => []
  | kv :: t => if kv.1 = k then erase k t else kv :: erase k t

structure State where
  lims : List (Bytes × Lim)
deriving Repr

def State.init : State := ⟨[]⟩

inductive Op
  | ev (e : Ev)
  | expire (k : Bytes)
deriving DecidableEq, Repr

inductive Res
  | pass
  | discard
  | expired
  | panic (p : Panic)
deriving DecidableEq, Repr

/-- `limitersMap.getOrAdd` -/
def getOrAdd (cfg : Cfg) (s : State) (k : Bytes) (r : Rule) : Lim :=
  match s.lims.lookup k with
  | some l => l
  | none => newLim cfg r

/-- `Plugin.isAllowed` / `Do` -/
def doEvent (cfg : Cfg) (s : State) (e : Ev) : GoM (State × Bool) :=
  match firstMatch cfg.rules 0 e with
  | none => pure (s, true)
  | some ir => do
    let k := limKey ir.1 (throttleKey e)
    let la ← isAllowed cfg.count cfg.interval (getOrAdd cfg s k ir.2) e
    pure (⟨upsert k la.1 s.lims⟩, la.2)

def step (cfg : Cfg) (s : State) : Op → GoM (State × Res)
  | .ev e => do
    let sa ← doEvent cfg s e
    pure (sa.1, if sa.2 then Res.pass else Res.discard)
  | .expire k => pure (⟨erase k s.lims⟩, Res.expired)

/-- results of a run; a Go panic ends the run -/
def results (cfg : Cfg) : State → List Op → List Res
  | _, [] => []
  | s, op :: ops =>
    match step cfg s op with
    | .error p => [Res.panic p]
    | .ok sr => sr.2 :: results cfg sr.1 ops

/-- state after a run (the state before the panicking op when a panic ends it) -/
def final (cfg : Cfg) : State → List Op → State
  | s, [] => s
  | s, op :: ops =>
    match step cfg s op with
    | .error _ => s
    | .ok sr => final cfg sr.1 ops

/-! ### life cycle of the limiters map: generations and maintenance (limiters_map.go)

  `limitersMap.curGen` is the wall clock (µs) of the last maintenance iteration (of the map's creation
  before the first one); `getOrAdd` stores it into the limiter's `gen` on every access and gives it to
  a new limiter; one maintenance iteration sets `curGen = nowTs` and deletes every limiter with
  `nowTs - gen >= limitersExp`. The deletions are `expire` ops of the model above. -/

structure Gens where
  cur : Int
  stamps : List (Bytes × Int)
deriving DecidableEq, Repr

inductive MOp
  | ev (e : Ev)
  | tick (t : Int)
deriving DecidableEq, Repr

/-- limiter key `Plugin.isAllowed` hands to `getOrAdd` for an event (none: no rule matches) -/
def evLimKey (cfg : Cfg) (e : Ev) : Option Bytes :=
  match firstMatch cfg.rules 0 e with
  | some ir => some (limKey ir.1 (throttleKey e))
  | none => none

def setStamp (k : Bytes) (g : Int) (l : List (Bytes × Int)) : List (Bytes × Int) :=
  l.filter (fun kv => kv.1 != k) ++ [(k, g)]

/-- what `getOrAdd` does to the generations: `lim.gen.Store(l.curGen)` for an existing limiter,
    `newLimiterWithGen(newLim, l.curGen)` for a new one. `refresh = false` is the variant that does
    not store the generation on access (used only for the counterexample of Props/C16) -/
def touch (refresh : Bool) (g : Gens) (k : Bytes) : Gens :=
  match g.stamps.lookup k with
  | some _ => if refresh then { g with stamps := setStamp k g.cur g.stamps } else g
  | none => { g with stamps := setStamp k g.cur g.stamps }

/-- keys one maintenance iteration at `t` deletes: `nowTs - gen < limitersExp` is false -/
def expiredKeys (exp : Int) (g : Gens) (t : Int) : List Bytes :=
  (g.stamps.filter (fun kv => !decide (t - kv.2 < exp))).map (·.1)

/-- generations after one maintenance iteration at `t` -/
def tickGens (exp : Int) (g : Gens) (t : Int) : Gens :=
  ⟨t, g.stamps.filter (fun kv => decide (t - kv.2 < exp))⟩

/-- `limitersExp` as `Start` computes it: the configured expiration raised to
    `bucket_interval * buckets_count` (ns), in µs (`Duration.Microseconds()`) -/
def effExp (expNs interval : Int) (count : Nat) : Int :=
  Int.tdiv (max expNs (interval * (count : Int))) 1000

/-- one op of the map: the ops of the bucket model it amounts to, and the generations after it -/
def expandStep (cfg : Cfg) (exp : Int) (refresh : Bool) (g : Gens) : MOp → List Op × Gens
  | .ev e =>
    ([Op.ev e], match evLimKey cfg e with
      | some k => touch refresh g k
      | none => g)
  | .tick t => ((expiredKeys exp g t).map Op.expire, tickGens exp g t)

/-- an op sequence of the map as ops of the bucket model -/
def expand (cfg : Cfg) (exp : Int) (refresh : Bool) : Gens → List MOp → List Op
  | _, [] => []
  | g, op :: ops => (expandStep cfg exp refresh g op).1 ++ expand cfg exp refresh (expandStep cfg exp refresh g op).2 ops

end FileD.Throttle
