/-
  Model of what concurrent requests of the HTTP input share: the source-id free list
  (`getSourceID` / `putSourceID`, both under `p.mu`), and requests in flight as a transition
  system whose ops are the atomic steps "request r enters processBulk" and "request r performs one
  iteration of its read loop". Everything else a request touches (readBuff, eventBuff from the
  sync.Pools, locals) is owned by that request between Get and Put — the sync.Pool contract, taken
  as an assumption: the per-request state is a value here.
-/
import FileD.Model.HttpBulk
namespace FileD.HttpConc
open FileD FileD.HttpBulk

/-- `p.sourceIDs`, `p.sourceSeq` -/
structure Ids where
  free : List Nat
  seq : Nat
deriving Repr, DecidableEq

/-- `getSourceID`: take the last free id, allocating `sourceSeq` when none is free -/
def getId (i : Ids) : Nat × Ids :=
  match i.free.reverse with
  | [] => (i.seq, { free := [], seq := i.seq + 1 })
  | x :: rest => (x, { i with free := rest.reverse })

/-- `putSourceID` -/
def putId (i : Ids) (x : Nat) : Ids := { i with free := i.free ++ [x] }

def insertSorted (x : Nat) : List Nat → List Nat
  | [] => [x]
  | y :: ys => if x < y then x :: y :: ys else if x = y then y :: ys else y :: insertSorted x ys

/-- sequential requests on a fresh plugin: the distinct source ids seen by the controller, sorted
    (a request that fails opening its gzip reader never takes an id; one without `In` calls shows none) -/
def seqIdsFrom (i : Ids) (seen : List Nat) : List Req → List Nat
  | [] => seen
  | q :: qs =>
    if q.hdrErr then seqIdsFrom i seen qs
    else
      seqIdsFrom (putId (getId i).2 (getId i).1)
        (if (processBulk q.reads).1.isEmpty then seen else insertSorted (getId i).1 seen) qs

def seqIds (qs : List Req) : List Nat := seqIdsFrom ⟨[], 0⟩ [] qs

/-- a request inside `processBulk` -/
structure Live where
  sid : Nat          -- its source id
  st : St            -- its eventBuff / payloads so far
  todo : List Rd     -- reads not yet made
  all : List Rd      -- all reads of the request (ghost)

/-- the plugin with requests in flight. `log` is the controller's view: (request (ghost), source
    id, payload) in the order of the `In` calls. `done r` = payloads and outcome of a finished
    request together with its reads. -/
structure Sys where
  ids : Ids
  live : Nat → Option Live
  done : Nat → Option (List Rd × List Bytes × Bool)
  log : List (Nat × Nat × Bytes)

inductive Op
  | start (r : Nat) (reads : List Rd)   -- enter processBulk: pooled buffers, getSourceID
  | read (r : Nat)                      -- one iteration of the read loop of request r (or leaving it)

/-- payloads a step added -/
def newOut (before after : St) : List Bytes := after.out.drop before.out.length

def setLive (s : Sys) (r : Nat) (v : Option Live) : Nat → Option Live :=
  fun x => if x = r then v else s.live x

/-- request r leaves `processBulk` (flush when left by EOF); the deferred putSourceID -/
def finish (s : Sys) (r : Nat) (l : Live) (ok : Bool) : Sys :=
  { ids := putId s.ids l.sid,
    live := setLive s r none,
    log := s.log ++ (newOut l.st (if ok && decide (l.st.eventBuff.length > 0) then processChunk l.st [] true else l.st)).map
      (fun b => (r, l.sid, b)),
    done := fun x => if x = r then
        some (l.all, (if ok && decide (l.st.eventBuff.length > 0) then processChunk l.st [] true else l.st).out, ok)
      else s.done x }

def advance (s : Sys) (r : Nat) (l : Live) (b : Bytes) (rs : List Rd) : Sys :=
  { s with
    live := setLive s r (some { l with st := processChunk l.st b false, todo := rs }),
    log := s.log ++ (newOut l.st (processChunk l.st b false)).map (fun p => (r, l.sid, p)) }

def step? (s : Sys) : Op → Option Sys
  | .start r reads =>
    match s.live r, s.done r with
    | none, none =>
      some { s with ids := (getId s.ids).2,
                    live := setLive s r (some ⟨(getId s.ids).1, ⟨[], []⟩, reads, reads⟩) }
    | _, _ => none
  | .read r =>
    match s.live r with
    | none => none
    | some l =>
      match l.todo with
      | [] => some (finish s r l true)
      | .err _ :: _ => some (finish s r l false)
      | .dataEof b :: rs => if b.length = 0 then some (finish s r l true) else some (advance s r l b rs)
      | .data b :: rs => some (advance s r l b rs)

def init : Sys := ⟨⟨[], 0⟩, fun _ => none, fun _ => none, []⟩

end FileD.HttpConc
