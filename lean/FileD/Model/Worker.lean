/-
  Model of `plugin/input/file/worker.go: (*worker).work`, one job turn
  (from taking the job off `jobsChan` to EOF), mirroring the code statement by statement:

    accumBuf = append(accumBuf[:0], job.tail...)
    for each Read -> readBuf[:n]:
        for len(buf) != 0 { pos := IndexByte(buf,'\n'); ... }      -- `parseLoop`
        size check / accumBuf = append(accumBuf, buf...)           -- `afterRead`
    job.tail = accumBuf ; job.curOffset += readTotal

  `controller.In(…, offset = lastOffset+scanned, inBuf)` calls are collected in `out`.
  lz4 files, metadata and truncation detection (`processEOF`) are outside this model.
-/
import FileD.Prelude.Bytes
namespace FileD.Worker

structure Cfg where
  maxSize : Nat      -- max_event_size, 0 = unlimited
  cutOff  : Bool     -- cut_off_event_by_limit
deriving Repr, DecidableEq

structure Job where
  curOffset : Nat
  tail      : Bytes
  skip      : Bool   -- job.shouldSkip
deriving Repr, DecidableEq

structure W where
  accum   : Bytes
  scanned : Nat
  skip    : Bool
  out     : List (Nat × Bytes)
deriving Repr, DecidableEq

/-- `bytes.IndexByte(buf,'\n')` + the two re-slicings: (line incl. newline, rest) -/
def cutLine : Bytes → Option (Bytes × Bytes)
  | [] => none
  | b :: bs => if b = NL then some ([b], bs) else
      match cutLine bs with
      | none => none
      | some (l, r) => some (b :: l, r)

theorem cutLine_length {buf l r} (h : cutLine buf = some (l, r)) : r.length < buf.length := by
  induction buf generalizing l r with
  | nil => simp [cutLine] at h
  | cons b bs ih =>
    simp only [cutLine] at h
    split at h
    · simp at h; obtain ⟨_, rfl⟩ := h; simp
    · split at h
      · simp at h
      · rename_i l' r' h'
        simp at h; obtain ⟨_, rfl⟩ := h
        have := ih h'; simp; omega

/-- the oversize test of the skip mode -/
def over (cfg : Cfg) (accumLen lineLen : Nat) : Bool :=
  cfg.maxSize != 0 && !cfg.cutOff && decide (accumLen + lineLen > cfg.maxSize)

/-- "readBuf parsing loop": returns the state and the unterminated remainder of `buf` -/
def parseLoop (cfg : Cfg) (base : Nat) (buf : Bytes) (w : W) : W × Bytes :=
  match h : cutLine buf with
  | none => ({ w with scanned := w.scanned + buf.length }, buf)
  | some (line, rest) =>
    let scanned := w.scanned + line.length
    let skip := w.skip || over cfg w.accum.length line.length
    let out := if skip then w.out else w.out ++ [(base + scanned, w.accum ++ line)]
    have : rest.length < buf.length := cutLine_length h
    parseLoop cfg base rest { accum := [], scanned := scanned, skip := false, out := out }
termination_by buf.length

/-- "check the buffer size and limits" + `accumBuf = append(accumBuf, buf...)` -/
def afterRead (cfg : Cfg) (w : W) (rem : Bytes) : W :=
  if cfg.maxSize != 0 && decide (w.accum.length > cfg.maxSize) then
    if !cfg.cutOff then w
    else { w with accum := w.accum.take cfg.maxSize ++ rem }
  else { w with accum := w.accum ++ rem }

def procRead (cfg : Cfg) (base : Nat) (w : W) (chunk : Bytes) : W :=
  afterRead cfg (parseLoop cfg base chunk w).1 (parseLoop cfg base chunk w).2

def procReads (cfg : Cfg) (base : Nat) : List Bytes → W → W
  | [], w => w
  | c :: cs, w => procReads cfg base cs (procRead cfg base w c)

/-- one job turn: the reads up to EOF -/
def turn (cfg : Cfg) (job : Job) (reads : List Bytes) : Job × List (Nat × Bytes) :=
  let w := procReads cfg job.curOffset reads ⟨job.tail, 0, job.skip, []⟩
  ({ curOffset := job.curOffset + reads.flatten.length, tail := w.accum, skip := w.skip }, w.out)

/-- a file life: successive turns (appends happen between them) -/
def turns (cfg : Cfg) : Job → List (List Bytes) → Job × List (Nat × Bytes)
  | job, [] => (job, [])
  | job, t :: ts =>
    let (j1, o1) := turn cfg job t
    let (j2, o2) := turns cfg j1 ts
    (j2, o1 ++ o2)

end FileD.Worker
