/-
  Life cycle of one event after `eventPool.get` in Pipeline.In, up to the `eventPool.back` in
  Pipeline.finalize (pipeline/pipeline.go In / streamEvent / finalize, processor.go doActions /
  Propagate / processSequence). One op per call that changes who owns the pooled event:

    get i         In(): eventPool.get (blocks while the pool is full)
    decodeErr i   In(): decoder error → eventPool.back, return            (kind x)
    refuse i      streamEvent(): input.PassEvent false → eventPool.back   (kind r)
    stream i      streamer.putEvent
    take i        stream.get by a processor
    discard i     doActions: ActionDiscard / ActionCollapse → finalize(event, false, true)
    hold i        doActions: ActionHold → finalize(event, false, false): no back
    propagate i   action plugin calls Propagate(event): processing resumes at the next action
    spawn i       action plugin calls Spawn(event, nodes): the pooled event becomes the child-parent
                  (SetChildParentKind), its children are fresh non-pooled events (finOther); ActionBreak
    out i         processSequence: router.Out(event)
    commit i      output calls Commit → finalize(event, true, true); with a batching output it is
                  Batcher.commitBatch that commits EVERY event of the batch, whatever its kind became
                  (regular or child-parent; children are not pooled: finOther)
    finOther      finalize of a child or time-out event: returns before any pool call
    detachProc    the processor leaves the stream (processEvent returns: `busyActionsTotal == 0`, i.e. no
                  action holds an event, and the event it worked on is finished)
    attachProc    a processor joins the stream again

  `take` and `propagate` need the processor on the stream: the next event and the stream time-out reach
  the holding action only through the processor that waits in blockGet.

  `fins i` records the finalize flag words (bit1 notifyInput, bit0 backEvent) in order — what the
  harness observes at the `pl.finalize` trace point. Core Lean only.
-/
namespace FileD.Life

inductive Kind | pass | discard | hold | decErr | refused | split
  deriving DecidableEq, Repr, Inhabited

inductive Pc
  | fresh | got | streamed | taken | held | resumed | atOutput | done
  deriving DecidableEq, Repr, Inhabited

structure Ev where
  kind : Kind
  pc : Pc := .fresh
  backs : Nat := 0          -- how often eventPool.back was called with it
  fins : List Nat := []     -- finalize flag words, in order
  deriving DecidableEq, Repr, Inhabited

structure St where
  cap : Nat
  inUse : Nat := 0          -- events out of the pool
  attached : Bool := true   -- a processor is on the stream
  evs : List Ev := []
  deriving DecidableEq, Repr

inductive Op
  | get (i : Nat) | decodeErr (i : Nat) | refuse (i : Nat) | stream (i : Nat) | take (i : Nat)
  | discard (i : Nat) | hold (i : Nat) | propagate (i : Nat) | spawn (i : Nat) | out (i : Nat) | commit (i : Nat)
  | finOther | detachProc | attachProc
  deriving DecidableEq, Repr

/-- the event is in the hands of the processor (being worked on, or held by one of its actions) -/
def needsProc (e : Ev) : Bool := e.pc == .taken || e.pc == .held

def init (cap : Nat) (kinds : List Kind) : St := { cap := cap, evs := kinds.map ({ kind := · }) }

def setEv (s : St) (i : Nat) (e : Ev) : St := { s with evs := s.evs.set i e }

def step? (s : St) : Op → Option St
  | .get i =>
    match s.evs[i]? with
    | some e => if e.pc = .fresh ∧ s.inUse < s.cap then some (setEv { s with inUse := s.inUse + 1 } i { e with pc := .got }) else none
    | none => none
  | .decodeErr i =>
    match s.evs[i]? with
    | some e =>
      if e.pc = .got ∧ e.kind = .decErr then
        some (setEv { s with inUse := s.inUse - 1 } i { e with pc := .done, backs := e.backs + 1 })
      else none
    | none => none
  | .refuse i =>
    match s.evs[i]? with
    | some e =>
      if e.pc = .got ∧ e.kind = .refused then
        some (setEv { s with inUse := s.inUse - 1 } i { e with pc := .done, backs := e.backs + 1 })
      else none
    | none => none
  | .stream i =>
    match s.evs[i]? with
    | some e =>
      if e.pc = .got ∧ e.kind ≠ .decErr ∧ e.kind ≠ .refused then some (setEv s i { e with pc := .streamed }) else none
    | none => none
  | .take i =>
    match s.evs[i]? with
    | some e => if e.pc = .streamed ∧ s.attached = true then some (setEv s i { e with pc := .taken }) else none
    | none => none
  | .discard i =>
    match s.evs[i]? with
    | some e =>
      if e.pc = .taken ∧ e.kind = .discard then
        some (setEv { s with inUse := s.inUse - 1 } i { e with pc := .done, backs := e.backs + 1, fins := e.fins ++ [1] })
      else none
    | none => none
  | .hold i =>
    match s.evs[i]? with
    | some e =>
      if e.pc = .taken ∧ e.kind = .hold then some (setEv s i { e with pc := .held, fins := e.fins ++ [0] }) else none
    | none => none
  | .propagate i =>
    match s.evs[i]? with
    | some e => if e.pc = .held ∧ s.attached = true then some (setEv s i { e with pc := .resumed }) else none
    | none => none
  | .spawn i =>
    match s.evs[i]? with
    | some e => if e.pc = .taken ∧ e.kind = .split then some (setEv s i { e with pc := .resumed }) else none
    | none => none
  | .out i =>
    match s.evs[i]? with
    | some e =>
      if (e.pc = .taken ∧ e.kind = .pass) ∨ e.pc = .resumed then some (setEv s i { e with pc := .atOutput }) else none
    | none => none
  | .commit i =>
    match s.evs[i]? with
    | some e =>
      if e.pc = .atOutput then
        some (setEv { s with inUse := s.inUse - 1 } i { e with pc := .done, backs := e.backs + 1, fins := e.fins ++ [3] })
      else none
    | none => none
  | .finOther => some s
  | .detachProc => if s.evs.countP needsProc = 0 then some { s with attached := false } else none
  | .attachProc => some { s with attached := true }

/-- the event holds a pool slot -/
def live : Ev → Bool
  | e => e.pc != .fresh && e.pc != .done

/-- the finalize flag words a quiescent pipeline has produced for an event of each kind -/
def expectedFins : Kind → List Nat
  | .pass => [3]
  | .discard => [1]
  | .hold => [0, 3]
  | .decErr => []
  | .refused => []
  | .split => [3]

/-- the canonical complete run of one event (used by the driver to predict the observation) -/
def script (i : Nat) : Kind → List Op
  | .pass => [.get i, .stream i, .take i, .out i, .commit i]
  | .discard => [.get i, .stream i, .take i, .discard i]
  | .hold => [.get i, .stream i, .take i, .hold i, .propagate i, .out i, .commit i]
  | .decErr => [.get i, .decodeErr i]
  | .refused => [.get i, .refuse i]
  | .split => [.get i, .stream i, .take i, .spawn i, .finOther, .finOther, .out i, .commit i]

end FileD.Life
