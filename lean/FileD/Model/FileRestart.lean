/-
  Model of the file input across kill and restart (property C03), a transition system over a
  *history*. Mirrors, at the granularity of the steps the code serialises under `job.mu` /
  `jobsMu`:

    plugin/input/file/provider.go   addJob + initJobOffset (continue / reset), commit, truncateJob,
                                    start (load offsets), maintenanceJob (release of an idle job
                                    whose name no longer leads to its inode: only when nothing is
                                    unread on the held descriptor — otherwise the job is resumed —;
                                    not modelled: the release while events of the source are in flight)
    plugin/input/file/worker.go     work (one turn = `Worker.turn`, the C06 model), processEOF
    plugin/input/file/file.go       PassEvent
    plugin/input/file/offset.go     save (per job: the snapshot is taken under that job's lock)
    pipeline/pipeline.go            In: admission, stream name, PassEvent, stream.put (per-stream SeqID)

  The environment (the writer of the log files, the output, the scheduler, `kill -9`) is the list of
  ops. History variables (`acked`, `delivered`, `skipped`, `inLog`) record what happened; they are
  never read by the steps that model file.d.
-/
import FileD.Prelude.Bytes
import FileD.Model.Worker
namespace FileD.FileRestart
open FileD

abbrev Stream := Bytes
/-- `pipeline.SliceMap`: stream name ↦ committed offset, in insertion order -/
abbrev Offsets := List (Stream × Nat)

/-- what the pipeline does with a line before the input sees it again (oracle parameters):
    `accept` — `checkInputBytes` + decoder + antispam let the line become an event;
    `streamOf` — the value of the `stream_field` of the decoded event -/
structure Cfg where
  accept   : Bytes → Bool
  streamOf : Bytes → Stream

/-- an event in the pipeline: source (inode), stream, end-of-line offset, per-stream SeqID, bytes -/
structure Ev where
  ino    : Nat
  stream : Stream
  off    : Nat
  seq    : Nat
  data   : Bytes
deriving DecidableEq, Repr

structure FileSt where
  name    : Nat
  content : Bytes

structure JobSt where
  w        : Worker.Job      -- curOffset, tail, shouldSkip
  offsets  : Offsets         -- job.offsets
  ignoreLE : Nat             -- job.ignoreEventsLE
  lastSeq  : Nat             -- job.lastEventSeq

structure State where
  files     : Nat → Option FileSt      -- the watched directory, by inode
  jobs      : Nat → Option JobSt       -- jobProvider.jobs (sourceID = inode)
  loaded    : Nat → Option Offsets     -- jobProvider.loadedOffsets
  persisted : Nat → Option Offsets     -- the offsets file
  seqs      : Nat → Stream → Nat       -- stream.currentSeq of the pipeline stream (source, name)
  inflight  : List Ev                  -- put into the pipeline, not yet committed (this run)
  delivered : List Ev                  -- handed to the output (this run)
  acked     : List Ev                  -- written by the output to its sink (all runs)
  skipped   : List Ev                  -- refused by PassEvent (all runs)
  inLog     : List (Nat × Nat × Bool)  -- PassEvent calls: inode, offset, result
  up        : Bool
  scanning  : Bool                     -- `isStarted` not yet set: jobs are added with offsets_op
  panicked  : Bool                     -- logger.Panicf was reached; only `crash` follows

def init : State :=
  { files := fun _ => none, jobs := fun _ => none, loaded := fun _ => none, persisted := fun _ => none,
    seqs := fun _ _ => 0, inflight := [], delivered := [], acked := [], skipped := [], inLog := [],
    up := false, scanning := false, panicked := false }

def upd {α} (m : Nat → α) (i : Nat) (v : α) : Nat → α := fun k => if k = i then v else m k

/-! ### SliceMap -/

def oget : Offsets → Stream → Option Nat
  | [], _ => none
  | (k, v) :: rest, s => if k = s then some v else oget rest s

def oset : Offsets → Stream → Nat → Offsets
  | [], s, v => [(s, v)]
  | (k, x) :: rest, s, v => if k = s then (k, v) :: rest else (k, x) :: oset rest s v

/-- `initJobOffset`: the minimum of the saved stream offsets (the code starts from MaxInt64 and is
    never called with an empty list: that case panics before) -/
def minOff : Offsets → Nat
  | [] => 9223372036854775807
  | [(_, v)] => v
  | (_, v) :: rest => min v (minOff rest)

/-! ### steps of file.d -/

/-- `addJob` + `initJobOffset`: during the start-up scan with `offsets_op: continue`, later with reset -/
def addJob (s : State) (i : Nat) : State :=
  if s.scanning then
    match s.loaded i with
    | none => { s with jobs := upd s.jobs i (some ⟨⟨0, [], false⟩, [], 0, 0⟩) }
    | some p =>
      if p = [] then { s with panicked := true }   -- "can't instantiate job, no streams in source"
      else { s with jobs := upd s.jobs i (some ⟨⟨minOff p, [], false⟩, p, 0, 0⟩) }
  else { s with jobs := upd s.jobs i (some ⟨⟨0, [], false⟩, [], 0, 0⟩) }

/-- `Plugin.PassEvent` -/
def passEvent (j : JobSt) (st : Stream) (off : Nat) : Bool :=
  match oget j.offsets st with
  | none => true
  | some o => decide (off > o)

/-- one `controller.In` call of the worker; `job.lastEventSeq` takes the returned SeqID unless the
    line was refused (In returns 0: not admitted, or skipped by PassEvent) -/
def inOne (cfg : Cfg) (i : Nat) (s : State) (call : Nat × Bytes) : State :=
  match s.jobs i with
  | none => s
  | some j =>
    if cfg.accept call.2 then
      if passEvent j (cfg.streamOf call.2) call.1 then
        let seq := s.seqs i (cfg.streamOf call.2) + 1
        { s with
          seqs := fun k st => if k = i ∧ st = cfg.streamOf call.2 then seq else s.seqs k st,
          inflight := s.inflight ++ [⟨i, cfg.streamOf call.2, call.1, seq, call.2⟩],
          inLog := s.inLog ++ [(i, call.1, true)],
          jobs := upd s.jobs i (some { j with lastSeq := seq }) }
      else
        { s with
          skipped := s.skipped ++ [⟨i, cfg.streamOf call.2, call.1, 0, call.2⟩],
          inLog := s.inLog ++ [(i, call.1, false)] }
    else s

/-- `truncateJob`: ignore what was read so far, seek to 0, drop the pending partial line, zero the offsets -/
def truncateJob (j : JobSt) : JobSt :=
  { j with ignoreLE := j.lastSeq, w := { j.w with curOffset := 0, tail := [] },
           offsets := j.offsets.map (fun p => (p.1, 0)) }

/-- one worker turn on job `i`: the reads, the `In` calls, tail / curOffset, `processEOF` -/
def readTurn (cfg : Cfg) (s : State) (i : Nat) (f : FileSt) (j : JobSt) (reads : List Bytes) : State :=
  let s1 := (Worker.turn ⟨0, false⟩ j.w reads).2.foldl (inOne cfg i) s
  match s1.jobs i with
  | none => s1
  | some j1 =>
    let j2 : JobSt := { j1 with w := (Worker.turn ⟨0, false⟩ j.w reads).1 }
    let j3 : JobSt := if j2.w.curOffset > f.content.length then truncateJob j2 else j2
    { s1 with jobs := upd s1.jobs i (some j3) }

/-- `jobProvider.commit` -/
def commit (s : State) (e : Ev) : State :=
  match s.jobs e.ino with
  | none => { s with inflight := s.inflight.filter (fun x => x ≠ e) }
  | some j =>
    if e.seq ≤ j.ignoreLE then { s with inflight := s.inflight.filter (fun x => x ≠ e) }
    else
      match oget j.offsets e.stream with
      | none =>
        if e.off = 0 then { s with panicked := true }    -- value(0) >= event.Offset
        else { s with inflight := s.inflight.filter (fun x => x ≠ e),
                      jobs := upd s.jobs e.ino (some { j with offsets := oset j.offsets e.stream e.off }) }
      | some v =>
        if v ≥ e.off then { s with panicked := true }    -- "offset corruption"
        else { s with inflight := s.inflight.filter (fun x => x ≠ e),
                      jobs := upd s.jobs e.ino (some { j with offsets := oset j.offsets e.stream e.off }) }

/-- the first in-flight event of a pipeline stream (source, stream name): events are put in order -/
def headOf (i : Nat) (st : Stream) : List Ev → Option Ev
  | [] => none
  | x :: xs => if x.ino = i ∧ x.stream = st then some x else headOf i st xs

/-- the head of its pipeline stream: outputs acknowledge a stream's events in order (C02) -/
def oldest (s : State) (e : Ev) : Prop := headOf e.ino e.stream s.inflight = some e

instance (s : State) (e : Ev) : Decidable (oldest s e) := by unfold oldest; infer_instance

inductive Op
  | create (ino name : Nat)
  | append (ino : Nat) (bytes : Bytes)          -- complete lines
  | appendPartial (ino : Nat) (bytes : Bytes)   -- bytes that do not end a line
  | renameRotate (ino newName newIno : Nat)     -- rename `ino`, create `newIno` under the old name
  | truncate (ino : Nat)
  | discover (ino : Nat)                        -- watcher → addJob
  | scanDone                                    -- isStarted.Store(true)
  | forget (ino : Nat)                          -- maintenanceJob → deleteJobAndUnlock
  | readTurn (ino : Nat) (reads : List Bytes)
  | deliver (e : Ev)                            -- pipeline hands the event to the output
  | ack (e : Ev)                                -- the output has written it to its sink
  | commit (e : Ev)                             -- the output calls Commit
  | save (ino : Nat)                            -- offsetDB.save reaches this job
  | saveAbsent (ino : Nat)                      -- offsetDB.save written while there is no such job
  | crash
  | restart

def running (s : State) : Bool := s.up && !s.panicked

def step? (cfg : Cfg) (s : State) : Op → Option State
  | .create i nm =>
    match s.files i with
    | some _ => none
    | none => some { s with files := upd s.files i (some ⟨nm, []⟩) }
  | .append i b =>
    match s.files i with
    | some f => if b.getLast? = some NL then
        some { s with files := upd s.files i (some { f with content := f.content ++ b }) } else none
    | none => none
  | .appendPartial i b =>
    match s.files i with
    | some f => some { s with files := upd s.files i (some { f with content := f.content ++ b }) }
    | none => none
  | .renameRotate i nm k =>
    match s.files i, s.files k with
    | some f, none =>
      some { s with files := upd (upd s.files i (some { f with name := nm })) k (some ⟨f.name, []⟩) }
    | _, _ => none
  | .truncate i =>
    match s.files i with
    | some f => some { s with files := upd s.files i (some { f with content := [] }) }
    | none => none
  | .discover i =>
    if running s then
      match s.files i, s.jobs i with
      | some _, none => some (addJob s i)
      | _, _ => none
    else none
  | .scanDone => if running s && s.scanning then some { s with scanning := false } else none
  | .forget i =>
    -- maintenance releases the job (its name leads to no file or to another inode) only if
    -- `stat.Size() == offset` on the descriptor it holds; otherwise it resumes the job
    if running s && !s.scanning then
      match s.files i, s.jobs i with
      | some f, some j =>
        if j.w.curOffset = f.content.length ∧ ∀ e ∈ s.inflight, e.ino ≠ i then
          some { s with jobs := upd s.jobs i none }
        else none
      | _, _ => none
    else none
  | .readTurn i reads =>
    if running s then
      match s.files i, s.jobs i with
      | some f, some j =>
        if reads.flatten <+: f.content.drop j.w.curOffset then some (readTurn cfg s i f j reads) else none
      | _, _ => none
    else none
  | .deliver e =>
    if running s ∧ e ∈ s.inflight then some { s with delivered := s.delivered ++ [e] } else none
  | .ack e =>
    if running s ∧ e ∈ s.delivered then some { s with acked := s.acked ++ [e] } else none
  | .commit e =>
    if running s ∧ e ∈ s.inflight ∧ e ∈ s.acked ∧ oldest s e then some (commit s e) else none
  | .save i =>
    if running s then
      match s.jobs i with
      | some j => some { s with persisted := upd s.persisted i (if j.offsets = [] then none else some j.offsets) }
      | none => none
    else none
  | .saveAbsent i =>
    if running s then
      match s.jobs i with
      | none => some { s with persisted := upd s.persisted i none }
      | some _ => none
    else none
  | .crash =>
    if s.up then
      some { s with jobs := fun _ => none, loaded := fun _ => none, seqs := fun _ _ => 0,
                    inflight := [], delivered := [], up := false, scanning := false, panicked := false }
    else none
  | .restart =>
    if s.up then none
    else some { s with up := true, scanning := true, loaded := s.persisted }

end FileD.FileRestart
