/-
  M2 — one stream of the pipeline with its owner: pipeline/stream.go (put, attach, get,
  instantGet→leave, tryDetach, commit, tryUnblock), pipeline/streamer.go (makeCharged,
  joinStream's pop) and the processor's disposal of the events it takes (pass→Out, discard /
  collapse → finalize(back), hold → finalize(no back), Propagate of a held event).

  The model is the projection of the system on ONE stream: every op of the trace that concerns
  this stream, in the order the code serialised them. Steps that the code performs inside one
  critical section but logs as two trace points (put + charge, detach + charge, leave + detach)
  are linked by the `owe…` flags, during which no other step of this stream is enabled.

  Processor discipline (what processor.go + the shipped hold-capable plugins guarantee and what
  every replayed trace is checked against): an event taken from the stream is disposed of before
  the next one is taken unless it is held; a held event is re-injected by Propagate (possibly
  nested: a downstream holder flushes its own, older event while it handles a re-injected one);
  an event is handed to the output only when it is the oldest one the processor still has.
-/
namespace FileD.StreamProc

structure SS where
  nextSeq   : Nat := 0          -- stream.currentSeq
  queue     : List Nat := []    -- pending regular events (seq numbers), oldest first
  tmoQueued : Bool := false     -- a time-out event is queued; it is the head (injected into an empty queue)
  attached  : Bool := false
  detaching : Bool := false
  awaySeq   : Nat := 0
  commitSeq : Nat := 0
  charged   : Nat := 0          -- multiplicity of this stream in streamer.charged
  popped    : Bool := false     -- popped by joinStream, attach not yet executed
  oweCharge : Bool := false     -- makeCharged pending inside the current critical section
  oweDetach : Bool := false     -- tryDetach succeeded, `detach` trace point pending
  inhand    : Option Nat := none  -- event taken and not yet disposed of
  held      : List Nat := []    -- held events not yet re-injected, oldest first
  propd     : List Nat := []    -- held events re-injected by Propagate, not yet disposed of
  outd      : List Nat := []    -- handed to the output (router.Out), in order
  dropped   : List Nat := []    -- finalized without notifying the input (discard / collapse)
  panicked  : Bool := false     -- a logger.Panicf of stream.go was reached
deriving Repr

inductive Op
  | put (q : Nat)
  | charge
  | pop
  | attach
  | get (q : Nat)
  | getTimeout
  | leave
  | detach
  | commit (q : Nat)      -- stream.commit stored q
  | timeout               -- tryUnblock injected a time-out event
  | hold (q : Nat)        -- finalize(event, false, false)
  | drop (q : Nat)        -- finalize(event, false, true)
  | propagate (q : Nat)
  | out (q : Nat)         -- processSequence → router.Out
deriving Repr, DecidableEq

def quiet (s : SS) : Bool := !s.oweCharge && !s.oweDetach && !s.panicked

def step? (s : SS) : Op → Option SS
  | .put q =>
    if quiet s ∧ q = s.nextSeq + 1 then
      let first := s.queue.isEmpty && !s.tmoQueued
      some { s with nextSeq := q, queue := s.queue ++ [q], oweCharge := first && !s.attached }
    else none
  | .charge =>
    if s.oweCharge then some { s with oweCharge := false, charged := s.charged + 1 } else none
  | .pop =>
    -- joinStream holds only chargedMu: it may run while a put/detach critical section of the
    -- stream is open, but not before that section's makeCharged
    if s.charged > 0 ∧ !s.popped ∧ !s.panicked then some { s with charged := s.charged - 1, popped := true } else none
  | .attach =>
    if quiet s ∧ s.popped then
      if s.attached ∨ s.detaching ∨ (s.queue.isEmpty ∧ !s.tmoQueued) then some { s with panicked := true, popped := false }
      else some { s with attached := true, popped := false }
    else none
  | .get q =>
    if quiet s ∧ s.attached ∧ !s.detaching ∧ s.inhand = none ∧ s.propd = [] ∧ !s.tmoQueued ∧ s.queue.head? = some q then
      some { s with queue := s.queue.tail, awaySeq := q, inhand := some q }
    else none
  | .getTimeout =>
    if quiet s ∧ s.attached ∧ !s.detaching ∧ s.inhand = none ∧ s.propd = [] ∧ s.tmoQueued then
      some { s with tmoQueued := false }
    else none
  | .leave =>
    if quiet s ∧ s.attached ∧ !s.detaching ∧ s.queue.isEmpty ∧ !s.tmoQueued ∧ s.inhand = none ∧ s.propd = [] ∧ s.held.isEmpty then
      some { s with detaching := true, oweDetach := decide (s.awaySeq = s.commitSeq) }
    else none
  | .detach =>
    if s.oweDetach then
      some { s with oweDetach := false, attached := false, detaching := false, oweCharge := !s.queue.isEmpty }
    else none
  | .commit q =>
    if quiet s ∧ s.commitSeq ≤ q then
      some { s with commitSeq := q, oweDetach := s.detaching && decide (s.awaySeq = q) }
    else none
  | .timeout =>
    if quiet s ∧ s.attached ∧ !s.detaching ∧ s.queue.isEmpty ∧ !s.tmoQueued ∧ s.inhand = none ∧ s.propd = [] then
      if s.awaySeq ≠ s.commitSeq then some { s with panicked := true }
      else some { s with tmoQueued := true }
    else none
  | .hold q =>
    if quiet s ∧ s.inhand = some q then some { s with inhand := none, held := s.held ++ [q] }
    -- a re-injected event is held again by a holder further down the chain
    else if quiet s ∧ q ∈ s.propd then some { s with propd := s.propd.erase q, held := s.held ++ [q] }
    else none
  | .drop q =>
    if quiet s ∧ s.inhand = some q then some { s with inhand := none, dropped := s.dropped ++ [q] }
    else if quiet s ∧ q ∈ s.propd then some { s with propd := s.propd.erase q, dropped := s.dropped ++ [q] }
    else none
  | .propagate q =>
    -- a held event is re-injected downstream of its holder; the trigger stays in hand
    if quiet s ∧ q ∈ s.held then
      some { s with held := s.held.erase q, propd := q :: s.propd }
    else none
  | .out q =>
    -- only the oldest event the processor still has may be handed to the output
    if quiet s ∧ (∀ x ∈ s.propd ++ s.held ++ s.inhand.toList, q ≤ x) then
      if q ∈ s.propd then some { s with propd := s.propd.erase q, outd := s.outd ++ [q] }
      else if s.inhand = some q then some { s with inhand := none, outd := s.outd ++ [q] }
      else none
    else none

def run (s : SS) : List Op → Option SS
  | [] => some s
  | op :: ops => (step? s op).bind (run · ops)

def firstReject (s : SS) : List Op → Nat → Option Nat
  | [], _ => none
  | op :: ops, i =>
    match step? s op with
    | none => some i
    | some s' => firstReject s' ops (i + 1)

end FileD.StreamProc
