/-
  The evaluation-order-aware model of `Checker.Check`.

  insane-json keeps a string that contains escapes in its raw form until somebody asks for its
  value (`AsString` / `AsBytes` / `AsInt` call `unescapeStr`, in place). `getNodeBytesSize` counts
  a nested string through `AsEscapedString` while it is still raw and through `AsString` + 2 once
  it has been unescaped, so what byte_len_cmp computes for an array / object depends on which
  nested strings EARLIER nodes of the same evaluation looked at — and therefore on the
  short-circuit order. `checkSt` threads that state: `tch` = positions (index paths from the root)
  of the string nodes unescaped so far. On events without such strings it coincides with the
  stateless `check` (Lemmas/DoIfSt.lean).
-/
import FileD.Model.DoIf
namespace FileD.DoIf
open FileD

abbrev Pos := List Nat

def lookupFirstIdx (key : Bytes) : List (Bytes × JTree) → Nat → Option (Nat × JTree)
  | [], _ => none
  | (k, v) :: kvs, i => if k = key then some (i, v) else lookupFirstIdx key kvs (i + 1)

def lookupLastIdx (key : Bytes) : List (Bytes × JTree) → Nat → Option (Nat × JTree)
  | [], _ => none
  | (k, v) :: kvs, i =>
    match lookupLastIdx key kvs (i + 1) with
    | some r => some r
    | none => if k = key then some (i, v) else none

/-- `child` with the index of the child -/
def childPos (t : JTree) (k : Bytes) : Option (Nat × JTree) :=
  match t with
  | .arr xs =>
    match atoi? k with
    | some i => if i < 0 then none else (xs[i.toNat]?).map (fun c => (i.toNat, c))
    | none => none
  | .obj kvs => if kvs.length > mapUseThreshold then lookupLastIdx k kvs 0 else lookupFirstIdx k kvs 0
  | _ => none

/-- `dig` with the position of the node found -/
def digPos : JTree → List Bytes → Pos → Option (Pos × JTree)
  | t, [], pos => some (pos, t)
  | t, k :: ks, pos =>
    match childPos t k with
    | some ic => digPos ic.2 ks (pos ++ [ic.1])
    | none => none

/-- `AsString` / `AsBytes` / `AsInt` on the dug node: a string node is unescaped in place -/
def touchOf (r : Option (Pos × JTree)) (tch : List Pos) : List Pos :=
  match r with
  | some (pos, .str _) => pos :: tch
  | _ => tch

mutual
  /-- `getNodeBytesSize` given the strings unescaped so far -/
  def bytesSizeT (tch : List Pos) : Pos → JTree → Int
    | pos, .arr xs => sizeListT tch pos 0 xs + lenContainer xs.length
    | pos, .obj kvs => sizeFieldsT tch pos 0 kvs + lenContainer kvs.length
    | pos, .str s => if tch.contains pos then (s.length : Int) + 2 else (escLen s : Int) + 2
    | _, .null => 4
    | _, .bool true => 4
    | _, .bool false => 5
    | _, .num r => r.length
  def sizeListT (tch : List Pos) : Pos → Nat → List JTree → Int
    | _, _, [] => 0
    | pos, i, x :: xs => bytesSizeT tch (pos ++ [i]) x + sizeListT tch pos (i + 1) xs
  def sizeFieldsT (tch : List Pos) : Pos → Nat → List (Bytes × JTree) → Int
    | _, _, [] => 0
    | pos, i, (k, v) :: kvs => (k.length : Int) + 2 + 1 + bytesSizeT tch (pos ++ [i]) v + sizeFieldsT tch pos (i + 1) kvs
end

/-- `lenCmpOpNode.Check` given the strings unescaped so far -/
def lenCheckT (o : Oracle) (l : LenCmp) (ev : JTree) (tch : List Pos) : Bool :=
  match l.kind with
  | .byte =>
    match digPos ev l.path [] with
    | none => false
    | some pt =>
      let value : Int := if pt.2.isObj || pt.2.isArr then bytesSizeT tch pt.1 pt.2 else (asString pt.2).length
      l.cmp.compare value l.value
  | _ => lenCheck o l ev

mutual
  /-- `Node.Check`, returning the answer and the strings unescaped afterwards -/
  def checkSt (o : Oracle) (now : Int) (ev : JTree) : Node → List Pos → Bool × List Pos
    | .field f, tch => (fieldCheck o f (get ev f.path), touchOf (digPos ev f.path []) tch)
    | .lenCmp l, tch =>
      (lenCheckT o l ev tch, if l.kind = .array then tch else touchOf (digPos ev l.path []) tch)
    | .tsCmp t, tch => (tsCheck o now t ev, touchOf (digPos ev t.path []) tch)
    | .checkType c, tch => (typeCheck c ev, tch)
    | .and ops, tch => checkAllSt o now ev ops tch
    | .or ops, tch => checkAnySt o now ev ops tch
    | .not ops, tch => checkNotSt o now ev ops tch
  def checkAllSt (o : Oracle) (now : Int) (ev : JTree) : List Node → List Pos → Bool × List Pos
    | [], tch => (true, tch)
    | x :: xs, tch =>
      if !(checkSt o now ev x tch).1 then (false, (checkSt o now ev x tch).2)
      else checkAllSt o now ev xs (checkSt o now ev x tch).2
  def checkAnySt (o : Oracle) (now : Int) (ev : JTree) : List Node → List Pos → Bool × List Pos
    | [], tch => (false, tch)
    | x :: xs, tch =>
      if (checkSt o now ev x tch).1 then (true, (checkSt o now ev x tch).2)
      else checkAnySt o now ev xs (checkSt o now ev x tch).2
  def checkNotSt (o : Oracle) (now : Int) (ev : JTree) : List Node → List Pos → Bool × List Pos
    | [], tch => (false, tch)
    | x :: _, tch => (!(checkSt o now ev x tch).1, (checkSt o now ev x tch).2)
end

end FileD.DoIf
