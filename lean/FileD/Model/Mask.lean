/-
  Model of plugin/action/mask (mask.go, mask_struct.go, field_masks_node.go), cfg/regexp_groups.go
  and cfg/matchrule/matchrule.go, statement by statement, over GoSlice / JTree.

  Library calls are oracle parameters:
    * `regexp.FindAllSubmatchIndex(value, -1)` : a list of matches, each the flat Go index slice
      `[s0, e0, s1, e1, …]` with `-1` for a group that did not take part (type `Matches`);
    * the per-event verdict of a mask's `do_if` (`MaskCfg.use`);
    * `cfg.ParseNestedFields` (the field lists arrive parsed, as lists of path elements).
  Go slice / index expressions are checked accesses: a Go panic is the value `.error .bounds`.

  Two implementations are modelled: `Orig.*` is the code as it was found (three defects, see
  Props/C17.lean for the counterexamples) and the un-prefixed definitions are the repaired code
  that is in /repo now; the driver executes the latter.
-/
import FileD.Prelude.GoSlice
import FileD.Prelude.JTree
namespace FileD.Mask
open FileD FileD.GoSlice

/-! ## utf8.RuneCount -/

def isCont (b : UInt8) : Bool := 0x80 ≤ b && b ≤ 0xBF

/-- width of the encoding at the head of `b` as Go's decoder sees it: an invalid or truncated
    encoding is one rune of width 1 -/
def runeLen : Bytes → Nat
  | [] => 0
  | b0 :: rest =>
    if b0 < 0xC2 then 1
    else if b0 ≤ 0xDF then
      match rest with
      | b1 :: _ => if isCont b1 then 2 else 1
      | _ => 1
    else if b0 ≤ 0xEF then
      let lo : UInt8 := if b0 = 0xE0 then 0xA0 else 0x80
      let hi : UInt8 := if b0 = 0xED then 0x9F else 0xBF
      match rest with
      | b1 :: b2 :: _ => if lo ≤ b1 && b1 ≤ hi && isCont b2 then 3 else 1
      | _ => 1
    else if b0 ≤ 0xF4 then
      let lo : UInt8 := if b0 = 0xF0 then 0x90 else 0x80
      let hi : UInt8 := if b0 = 0xF4 then 0x8F else 0xBF
      match rest with
      | b1 :: b2 :: b3 :: _ => if lo ≤ b1 && b1 ≤ hi && isCont b2 && isCont b3 then 4 else 1
      | _ => 1
    else 1

def runeCountFuel : Nat → Bytes → Nat
  | 0, _ => 0
  | f+1, b => if b.isEmpty then 0 else 1 + runeCountFuel f (b.drop (runeLen b))

/-- `utf8.RuneCount` -/
def runeCount (b : Bytes) : Nat := runeCountFuel b.length b

/-! ## configuration -/

inductive Mode | mask | replace | cut
deriving DecidableEq, Repr

inductive RMode | pre | contains | suf
deriving DecidableEq, Repr

/-- matchrule.Rule as configured (before `Prepare`) -/
structure Rule where
  values : List Bytes
  mode : RMode
  ci : Bool
  invert : Bool
deriving Repr

structure RuleSet where
  condOr : Bool
  rules : List Rule
deriving Repr

/-- one compiled mask (`compileMask` has run: `mode` derived, `groups` verified) -/
structure MaskCfg where
  rules : List RuleSet := []
  hasRe : Bool := true          -- Re != ""
  groups : List Nat := []       -- after cfg.VerifyGroupNumbers
  maxCount : Nat := 0
  replaceWord : Bytes := []
  mode : Mode := .mask
  use : Bool := true            -- do_if verdict for the event (true when there is no do_if)
  appliedField : Bytes := []
  appliedValue : Bytes := []
  metric : Bool := false        -- MetricName != ""
  fkind : Nat := 0              -- 0 no own list, 1 ignore_fields, 2 process_fields
  paths : List (List Bytes) := []
deriving Repr

def star : UInt8 := 42

/-- flat Go index slice of one match / all matches of a value -/
abbrev Match := List Int
abbrev Matches := List Match

/-! ## cfg.VerifyGroupNumbers -/

def groupsUnique : List Nat → Bool
  | [] => true
  | g :: gs => !gs.contains g && groupsUnique gs

/-- first loop of VerifyGroupNumbers after the two Fatal tests: `none` = Fatal (wrong number),
    a zero makes the whole expression the only group -/
def verifyScan (total : Nat) (all : List Nat) : List Nat → Option (List Nat)
  | [] => some all
  | g :: gs => if g > total then none else if g = 0 then some [0] else verifyScan total all gs

def verifyGroups (groups : List Nat) (total : Nat) : Option (List Nat) :=
  if !groupsUnique groups then none
  else if groups.length > total then none
  else verifyScan total groups groups

/-! ## matchrule -/

def asciiLower (b : Bytes) : Bytes :=
  b.map (fun c => if 65 ≤ c && c ≤ 90 then c + 32 else c)

/-- bytes.Contains -/
def containsSub (v : Bytes) : Bytes → Bool
  | [] => v.isEmpty
  | c :: t => v.isPrefixOf (c :: t) || containsSub v t

/-- values after `Prepare` -/
def Rule.prepared (r : Rule) : List Bytes := if r.ci then r.values.map asciiLower else r.values

def listMin : List Nat → Nat → Nat
  | [], m => m
  | x :: xs, m => listMin xs (if x < m then x else m)

def listMax : List Nat → Nat → Nat
  | [], m => m
  | x :: xs, m => listMax xs (if x > m then x else m)

def Rule.minSize (r : Rule) : Nat :=
  match r.prepared with
  | [] => 0
  | v :: vs => listMin (vs.map List.length) v.length

def Rule.maxSize (r : Rule) : Nat :=
  match r.prepared with
  | [] => 0
  | v :: vs => listMax (vs.map List.length) v.length

/-- `(*Rule).match`; the slice expressions of the Go code are guarded by the length tests next
    to them, they are written with take / drop here -/
def Rule.matchRaw (r : Rule) (raw : Bytes) : Bool :=
  if raw.length < r.minSize then false else
  match r.mode with
  | .contains =>
    let data := if r.ci then asciiLower raw else raw
    r.prepared.any (fun v => !(data.length < v.length) && containsSub v data)
  | .pre =>
    let cut := if raw.length < r.maxSize then raw else raw.take r.maxSize
    let cut := if r.ci then asciiLower cut else cut
    r.prepared.any (fun v => !(cut.length < v.length) && cut.take v.length == v)
  | .suf =>
    let cut := if raw.length < r.maxSize then raw else raw.drop (raw.length - r.maxSize)
    let cut := if r.ci then asciiLower cut else cut
    r.prepared.any (fun v => !(cut.length < v.length) && cut.drop (cut.length - v.length) == v)

def Rule.matches (r : Rule) (raw : Bytes) : Bool :=
  if r.invert then !r.matchRaw raw else r.matchRaw raw

/-- `(*RuleSet).Match` -/
def ruleSetLoop (condOr : Bool) (raw : Bytes) : List Rule → Bool
  | [] => !condOr
  | r :: rs =>
    let mt := r.matches raw
    if mt && condOr then true
    else if !mt && !condOr then false
    else ruleSetLoop condOr raw rs

def RuleSet.matches (rs : RuleSet) (raw : Bytes) : Bool :=
  if rs.rules.isEmpty then false else ruleSetLoop rs.condOr raw rs.rules

/-- `(*Mask).checkMatchRules` -/
def checkMatchRules (m : MaskCfg) (value : Bytes) : Bool :=
  if m.rules.isEmpty then true else m.rules.any (fun rs => rs.matches value)

/-! ## maskSection / maskValue -/

/-- `(*Mask).maskSection`: only the asterisk mode looks at `src[begin:end]` -/
def maskSection (m : MaskCfg) (dst src : Bytes) (b e : Int) : GoM Bytes :=
  match m.mode with
  | .replace => .ok (dst ++ m.replaceWord)
  | .cut => .ok dst
  | .mask => do
    let sec ← slice? src b e
    let n := runeCount sec
    let n := if m.maxCount > 0 then min n m.maxCount else n
    pure (dst ++ List.replicate n star)

abbrev Sec := Int × Int

/-- the shifting test of the insertion loop: `sections[i-1] > (start, finish)` -/
def secGt (a b : Sec) : Bool := a.1 > b.1 || (a.1 == b.1 && a.2 > b.2)

/-- the insertion loop of `selectedSections`. The Go loop shifts greater elements from the
    right end; on the (always sorted) slice that is the position found from the left here. -/
def insertSec (x : Sec) : List Sec → List Sec
  | [] => [x]
  | y :: ys => if secGt y x then x :: y :: ys else y :: insertSec x ys

/-- first loop of `selectedSections`: ranges of the selected groups that took part, sorted -/
def collectSecs (index : Match) : List Nat → List Sec → GoM (List Sec)
  | [], acc => .ok acc
  | g :: gs, acc => do
    let s ← idx? index ((g * 2 : Nat) : Int)
    let e ← idx? index ((g * 2 + 1 : Nat) : Int)
    if s < 0 || e < 0 then collectSecs index gs acc
    else collectSecs index gs (insertSec (s, e) acc)

/-- second loop of `selectedSections` with `cur` = the last element of `merged` -/
def mergeGo (cur : Sec) : List Sec → List Sec
  | [] => [cur]
  | s :: rest =>
    if s.1 < cur.2 then mergeGo (cur.1, if s.2 > cur.2 then s.2 else cur.2) rest
    else cur :: mergeGo s rest

def mergeSecs : List Sec → List Sec
  | [] => []
  | s :: rest => mergeGo s rest

/-- `(*Mask).selectedSections` -/
def selectedSections (groups : List Nat) (index : Match) : GoM (List Sec) := do
  let secs ← collectSecs index groups []
  pure (mergeSecs secs)

/-- inner loop of `maskValue`; state = (prevFinish, buf) -/
def emitSecs (m : MaskCfg) (value : Bytes) : List Sec → Int × Bytes → GoM (Int × Bytes)
  | [], st => .ok st
  | sec :: rest, st => do
    let piece ← slice? value st.1 sec.1
    let buf ← maskSection m (st.2 ++ piece) value sec.1 sec.2
    emitSecs m value rest (sec.2, buf)

/-- outer loop of `maskValue` -/
def maskMatches (m : MaskCfg) (value : Bytes) : Matches → Int × Bytes → GoM (Int × Bytes)
  | [], st => .ok st
  | index :: rest, st => do
    let secs ← selectedSections m.groups index
    let st' ← emitSecs m value secs st
    maskMatches m value rest st'

/-- `(*Mask).maskValue` (repaired): `indexes` is the result of FindAllSubmatchIndex on `value` -/
def maskValue (m : MaskCfg) (indexes : Matches) (value buf : Bytes) : GoM (Bytes × Bool) :=
  if indexes.isEmpty then .ok (buf, false) else do
    let st ← maskMatches m value indexes (0, [])
    let tail ← sliceFrom? value st.1
    pure (st.2 ++ tail, true)

namespace Orig

/-- state of the original loops: prevFinish, curFinish, buf (curStart is dead after use) -/
structure LSt where
  prev : Int
  curFinish : Int
  buf : Bytes

/-- inner loop over `m.Groups` of the original `maskValue` -/
def groupLoop (m : MaskCfg) (value : Bytes) (index : Match) : List Nat → LSt → GoM LSt
  | [], st => .ok st
  | g :: gs, st => do
    let cs ← idx? index ((g * 2 : Nat) : Int)
    let cf ← idx? index ((g * 2 + 1 : Nat) : Int)
    if cs < 0 || cf < 0 then groupLoop m value index gs { st with curFinish := cf }
    else do
      let piece ← slice? value st.prev cs
      let buf ← maskSection m (st.buf ++ piece) value cs cf
      groupLoop m value index gs ⟨cf, cf, buf⟩

def matchLoop (m : MaskCfg) (value : Bytes) : Matches → LSt → GoM LSt
  | [], st => .ok st
  | index :: rest, st => do
    let st' ← groupLoop m value index m.groups st
    matchLoop m value rest st'

/-- `(*Mask).maskValue` as found: groups in configuration order, tail from `curFinish` -/
def maskValue (m : MaskCfg) (indexes : Matches) (value buf : Bytes) : GoM (Bytes × Bool) :=
  if indexes.isEmpty then .ok (buf, false) else do
    let st ← matchLoop m value indexes ⟨0, 0, []⟩
    let tail ← sliceFrom? value st.curFinish
    pure (st.buf ++ tail, true)

end Orig

/-! ## field masks tree (field_masks_node.go)

The trie is represented by its residual language: a node is the list of (remaining path, tag)
of every list entry that passes through it; `children[k]` are the entries whose remaining path
starts with `k`, the flags of the node are the entries whose remaining path is empty. -/

inductive Tag
  | ignoreMask (i : Nat)
  | processMask (i : Nat)
  | globalIgnore
  | globalProcess
deriving DecidableEq, Repr

abbrev FMNode := List (List Bytes × Tag)

namespace FMNode

def hasChildren (n : FMNode) : Bool := n.any (fun e => !e.1.isEmpty)

/-- the entries that continue below field `k`. `keep` (repaired code: `inheritFlags`) also keeps
    the entries that ended at this node or above, i.e. the flags of the ancestors -/
def residual (keep : Bool) (k : Bytes) : FMNode → FMNode
  | [] => []
  | (k' :: rest, t) :: es => if k' = k then (rest, t) :: residual keep k es else residual keep k es
  | ([], t) :: es => if keep then ([], t) :: residual keep k es else residual keep k es

/-- `_, has := children[k]` -/
def childExists (n : FMNode) (k : Bytes) : Bool := n.any (fun e => e.1.head? == some k)

def has (n : FMNode) (t : Tag) : Bool := n.any (fun e => e.1.isEmpty && e.2 == t)

end FMNode

/-- whole plugin configuration after Start -/
structure Cfg where
  masks : List MaskCfg
  gField : Bytes := []        -- mask_applied_field
  gValue : Bytes := []
  metricOn : Bool := true     -- applied_metric_name != ""
  gkind : Nat := 0            -- 0 none, 1 ignore_fields, 2 process_fields
  gpaths : List (List Bytes) := []
deriving Repr

namespace Cfg

def hasMaskSpecific (c : Cfg) : Bool := c.masks.any (fun m => m.fkind == 1 || m.fkind == 2)
/-- `masksWithSpecificFieldsLists < len(p.config.Masks)` -/
def globalsUsed (c : Cfg) : Bool := !c.masks.all (fun m => m.fkind == 1 || m.fkind == 2)
def hasGlobalIgnore (c : Cfg) : Bool := c.globalsUsed && c.gkind == 1
def hasGlobalProcess (c : Cfg) : Bool := c.globalsUsed && c.gkind == 2
def hasProcessOrIgnore (c : Cfg) : Bool := c.hasMaskSpecific || c.hasGlobalIgnore || c.hasGlobalProcess

def maskEntries : Nat → List MaskCfg → FMNode
  | _, [] => []
  | i, m :: ms =>
    (if m.fkind == 1 then m.paths.map (fun p => (p, Tag.ignoreMask i))
     else if m.fkind == 2 then m.paths.map (fun p => (p, Tag.processMask i))
     else []) ++ maskEntries (i + 1) ms

/-- `gatherFieldMasksTree`: `fieldMasksRoot` (nil when there is no list at all) -/
def fmRoot (c : Cfg) : Option FMNode :=
  if !c.hasProcessOrIgnore then none else
  some (maskEntries 0 c.masks ++
    (if c.hasGlobalIgnore then c.gpaths.map (fun p => (p, Tag.globalIgnore)) else []) ++
    (if c.hasGlobalProcess then c.gpaths.map (fun p => (p, Tag.globalProcess)) else []))

end Cfg

/-! ## processMask -/

inductive Fail
  | panic (p : Panic)
  | oracleMiss          -- the case line did not carry the matches of a value the model asked for
deriving DecidableEq, Repr

abbrev M := Except Fail

def liftGo {α} : GoM α → M α
  | .ok a => .ok a
  | .error p => .error (.panic p)

/-- FindAllSubmatchIndex of mask `i` on a value (`none`: not in the shipped table) -/
abbrev Oracle := Nat → Bytes → Option Matches

/-- the two places where the repaired code differs from the original -/
structure Impl where
  maskValue : MaskCfg → Matches → Bytes → Bytes → GoM (Bytes × Bool)
  /-- "node value not copied into sourceBuf yet" given (sourceBuf, copied flag) -/
  needCopy : Bytes → Bool → Bool
  /-- field-masks nodes carry the flags of their ancestors (`inheritFlags`, `rest`) -/
  inherit : Bool

def fixedImpl : Impl := ⟨maskValue, fun _ copied => !copied, true⟩
def origImpl : Impl := ⟨Orig.maskValue, fun src _ => src.length == 0, false⟩

/-- traversal state: pending writes of `applied_field`s to the root, per-mask apply counts,
    "some mask applied" -/
structure St where
  effs : List (Bytes × Bytes) := []
  counts : List Nat := []
  applied : Bool := false
deriving Repr

/-- which masks the process / ignore lists leave for a node (the `switch` in processMask) -/
def eligible (c : Cfg) (fm : Option FMNode) (i : Nat) (m : MaskCfg) : Bool :=
  if !c.hasProcessOrIgnore then true
  else if m.fkind == 1 then
    match fm with
    | some n => !n.has (.ignoreMask i)
    | none => true
  else if m.fkind == 2 then
    match fm with
    | some n => n.has (.processMask i)
    | none => false
  else if c.hasGlobalIgnore then
    match fm with
    | some n => !n.has .globalIgnore
    | none => true
  else if c.hasGlobalProcess then
    match fm with
    | some n => n.has .globalProcess
    | none => true
  else true

def bump : List Nat → Nat → List Nat
  | [], _ => []
  | x :: xs, 0 => (x + 1) :: xs
  | x :: xs, i+1 => x :: bump xs i

/-- loop state of processMask -/
structure PM where
  src : Bytes := []         -- sourceBuf
  maskBuf : Bytes := []
  copied : Bool := false
  updated : Bool := false   -- shouldUpdateValue
  applied : Bool := false   -- maskApplied
  effs : List (Bytes × Bytes) := []
  counts : List Nat := []

/-- body of the loop over `p.config.Masks` -/
def maskStep (impl : Impl) (c : Cfg) (re : Oracle) (value : Bytes) (fm : Option FMNode)
    (i : Nat) (m : MaskCfg) (s : PM) : M PM :=
  if !eligible c fm i m then pure s
  else if !(m.use && checkMatchRules m value) then pure s
  else
    let fin (s : PM) : PM :=
      { s with
        effs := if m.appliedField.isEmpty then s.effs else s.effs ++ [(m.appliedField, m.appliedValue)]
        counts := if m.metric then bump s.counts i else s.counts
        applied := true }
    if m.hasRe && !m.groups.isEmpty then
      let src := if impl.needCopy s.src s.copied then value else s.src
      match re i src with
      | none => .error .oracleMiss
      | some idx => do
        let r ← liftGo (impl.maskValue m idx src s.maskBuf)
        if !r.2 then pure { s with src := src, copied := true, maskBuf := r.1 }
        else pure (fin { s with src := r.1, copied := true, maskBuf := r.1, updated := true })
    else pure (fin s)

def maskLoop (impl : Impl) (c : Cfg) (re : Oracle) (value : Bytes) (fm : Option FMNode) :
    Nat → List MaskCfg → PM → M PM
  | _, [], s => pure s
  | i, m :: ms, s => do
    let s' ← maskStep impl c re value fm i m s
    maskLoop impl c re value fm (i + 1) ms s'

/-- `(*Plugin).processMask` on a string / number node holding `value`:
    new value (`none`: node not touched) and the traversal state -/
def processMask (impl : Impl) (c : Cfg) (re : Oracle) (value : Bytes) (fm : Option FMNode) (st : St) :
    M (Option Bytes × St) :=
  if value.isEmpty then pure (none, st) else do
    let s ← maskLoop impl c re value fm 0 c.masks { effs := st.effs, counts := st.counts }
    pure (if s.updated then some s.src else none,
          { effs := s.effs, counts := s.counts, applied := st.applied || s.applied })

/-! ## traverseTree -/

def itoa (n : Nat) : Bytes := (Nat.repr n).toList.map (fun ch => UInt8.ofNat ch.toNat)

/-- the `IsField` case: the fm node for the field's value, `none` = the field is skipped
    (global ignore fast path). A field no list names gets `curFmNode.rest` (repaired) /
    `emptyFMNode` (original): in both cases the residual of the current node. -/
def fieldNext (impl : Impl) (c : Cfg) (fm : Option FMNode) (k : Bytes) : Option (Option FMNode) :=
  match fm with
  | none => some none
  | some n =>
    if !n.hasChildren then some (some n)
    else
      let ch := n.residual impl.inherit k
      if n.childExists k && ch.has .globalIgnore && !c.hasMaskSpecific then none else some (some ch)

/-- the `IsArray` case: fm node for element `i` -/
def elemNext (impl : Impl) (fm : Option FMNode) (i : Nat) : Option FMNode :=
  match fm with
  | none => none
  | some n => if !n.hasChildren then some n else some (n.residual impl.inherit (itoa i))

mutual
  /-- `(*Plugin).traverseTree` on a value node -/
  def trav (impl : Impl) (c : Cfg) (re : Oracle) : JTree → Option FMNode → St → M (JTree × St)
    | .obj kvs, fm, st => do
      let r ← travKVs impl c re kvs fm st
      pure (.obj r.1, r.2)
    | .arr xs, fm, st => do
      let r ← travArr impl c re xs 0 fm st
      pure (.arr r.1, r.2)
    | .str s, fm, st => do
      let r ← processMask impl c re s fm st
      pure (match r.1 with | some b => .str b | none => .str s, r.2)
    | .num s, fm, st => do
      let r ← processMask impl c re s fm st
      pure (match r.1 with | some b => .str b | none => .num s, r.2)
    | .null, _, st => pure (.null, st)
    | .bool b, _, st => pure (.bool b, st)
  def travKVs (impl : Impl) (c : Cfg) (re : Oracle) :
      List (Bytes × JTree) → Option FMNode → St → M (List (Bytes × JTree) × St)
    | [], _, st => pure ([], st)
    | (k, v) :: rest, fm, st =>
      match fieldNext impl c fm k with
      | none => do
        let r ← travKVs impl c re rest fm st
        pure ((k, v) :: r.1, r.2)
      | some next => do
        let rv ← trav impl c re v next st
        let r ← travKVs impl c re rest fm rv.2
        pure ((k, rv.1) :: r.1, r.2)
  def travArr (impl : Impl) (c : Cfg) (re : Oracle) :
      List JTree → Nat → Option FMNode → St → M (List JTree × St)
    | [], _, _, st => pure ([], st)
    | x :: rest, i, fm, st => do
      let rv ← trav impl c re x (elemNext impl fm i) st
      let r ← travArr impl c re rest (i + 1) fm rv.2
      pure (rv.1 :: r.1, r.2)
end

/-! ## insane-json operations on the root -/

def digitVal? (c : UInt8) : Option Nat := if 48 ≤ c && c ≤ 57 then some (c.toNat - 48) else none

def digits? : List UInt8 → Nat → Option Nat
  | [], acc => some acc
  | c :: cs, acc =>
    match digitVal? c with
    | some d => digits? cs (acc * 10 + d)
    | none => none

/-- strconv.Atoi restricted to what `Dig` accepts as an index (a result ≥ 0) -/
def atoiIdx? (b : Bytes) : Option Nat :=
  match b with
  | [] => none
  | 43 :: (d :: ds) => digits? (d :: ds) 0
  | 45 :: (d :: ds) =>
    match digits? (d :: ds) 0 with
    | some 0 => some 0
    | _ => none
  | 43 :: [] => none
  | 45 :: [] => none
  | ds => digits? ds 0

def lookupKV (k : Bytes) : List (Bytes × JTree) → Option JTree
  | [] => none
  | (k', v) :: rest => if k' = k then some v else lookupKV k rest

/-- insane-json `Dig(path…)`: objects by first matching key, arrays by decimal index -/
def digPath : JTree → List Bytes → Option JTree
  | t, [] => some t
  | .obj kvs, k :: ks =>
    match lookupKV k kvs with
    | some v => digPath v ks
    | none => none
  | .arr xs, k :: ks =>
    match atoiIdx? k with
    | some i =>
      match xs[i]? with
      | some v => digPath v ks
      | none => none
    | none => none
  | _, _ :: _ => none

def mapFirstKV (k : Bytes) (f : JTree → JTree) : List (Bytes × JTree) → List (Bytes × JTree)
  | [] => []
  | (k', v) :: rest => if k' = k then (k', f v) :: rest else (k', v) :: mapFirstKV k f rest

def mapIdx (f : JTree → JTree) : List JTree → Nat → List JTree
  | [], _ => []
  | x :: xs, 0 => f x :: xs
  | x :: xs, i+1 => x :: mapIdx f xs i

/-- write `v` at the node `Dig(path…)` finds (no effect when it finds none) -/
def setAt (v : JTree) : List Bytes → JTree → JTree
  | [], _ => v
  | k :: ks, .obj kvs => .obj (mapFirstKV k (setAt v ks) kvs)
  | k :: ks, .arr xs =>
    match atoiIdx? k with
    | some i => .arr (mapIdx (setAt v ks) xs i)
    | none => .arr xs
  | _ :: _, t => t

def setKV (name val : Bytes) : List (Bytes × JTree) → List (Bytes × JTree)
  | [] => [(name, .str val)]
  | (k, x) :: rest => if k = name then (k, .str val) :: rest else (k, x) :: setKV name val rest

/-- `root.AddFieldNoAlloc(root, name).MutateToString(val)` (nothing happens on a non-object) -/
def setField (root : JTree) (name val : Bytes) : JTree :=
  match root with
  | .obj kvs => .obj (setKV name val kvs)
  | t => t

def applyEffs (root : JTree) : List (Bytes × Bytes) → JTree
  | [] => root
  | (n, v) :: es => applyEffs (setField root n v) es

/-! ## Do

`applied_field` writes go to the root while the root is being traversed. A traversal below one
root field cannot see them except through the root field it is in, so they are modelled as
pending effects applied when that field is done: a container that was itself overwritten by a
mark stays overwritten (its old children are detached), a leaf keeps its masked value because
`MutateToString(sourceBuf)` comes last. -/

def isLeaf : JTree → Bool
  | .str _ => true
  | .num _ => true
  | _ => false

/-- traverse the node `v` (found in `root`) and fold the result back with `wr` -/
def doNode (impl : Impl) (c : Cfg) (re : Oracle) (root v : JTree) (fm : Option FMNode)
    (wr : JTree → JTree → JTree) (st : St) : M (JTree × St) :=
  match v with
  | .str s => do
    let r ← processMask impl c re s fm { st with effs := [] }
    let root1 := applyEffs root r.2.effs
    pure (match r.1 with | some b => wr root1 (.str b) | none => root1, { r.2 with effs := [] })
  | .num s => do
    let r ← processMask impl c re s fm { st with effs := [] }
    let root1 := applyEffs root r.2.effs
    pure (match r.1 with | some b => wr root1 (.str b) | none => root1, { r.2 with effs := [] })
  | v => do
    let r ← trav impl c re v fm { st with effs := [] }
    pure (applyEffs (wr root r.1) r.2.effs, { r.2 with effs := [] })

def setIdxKV (i : Nat) (v : JTree) : List (Bytes × JTree) → List (Bytes × JTree)
  | [] => []
  | (k, x) :: rest => match i with
    | 0 => (k, v) :: rest
    | j+1 => (k, x) :: setIdxKV j v rest

def setRootIdx (i : Nat) (root v : JTree) : JTree :=
  match root with
  | .obj kvs => .obj (setIdxKV i v kvs)
  | t => t

/-- `traverseTree(event, event.Root.Node, fieldMasksRoot)` for an object root: the `range` over
    the root's fields is fixed when the loop starts (`n` fields), each field is read when its
    turn comes -/
def rootLoop (impl : Impl) (c : Cfg) (re : Oracle) (fm : Option FMNode) :
    Nat → Nat → JTree → St → M (JTree × St)
  | 0, _, root, st => pure (root, st)
  | n+1, i, root, st =>
    match root with
    | .obj kvs =>
      match kvs[i]? with
      | none => pure (root, st)
      | some (k, v) =>
        match fieldNext impl c fm k with
        | none => rootLoop impl c re fm n (i + 1) root st
        | some next => do
          let r ← doNode impl c re root v next (setRootIdx i) st
          rootLoop impl c re fm n (i + 1) r.1 r.2
    | _ => pure (root, st)

/-- the fast path of `Do`: only a global process_fields list -/
def pathLoop (impl : Impl) (c : Cfg) (re : Oracle) : List (List Bytes) → JTree → St → M (JTree × St)
  | [], root, st => pure (root, st)
  | p :: ps, root, st =>
    match digPath root p with
    | none => pathLoop impl c re ps root st
    | some node => do
      let r ← doNode impl c re root node none (fun r v => setAt v p r) st
      pathLoop impl c re ps r.1 r.2

structure Result where
  root : JTree
  globalMetric : Nat       -- increments of the plugin metric
  maskMetrics : List Nat   -- increments of each mask's metric

/-- the traversal part of `Do`: fast path over the global process_fields paths, or the whole
    event with the field-masks tree -/
def traverseRoot (impl : Impl) (c : Cfg) (re : Oracle) (root : JTree) : M (JTree × St) :=
  let st0 : St := { counts := c.masks.map (fun _ => 0) }
  if c.hasGlobalProcess && !c.hasMaskSpecific then pathLoop impl c re c.gpaths root st0
  else
    match root with
    | .obj kvs => rootLoop impl c re c.fmRoot kvs.length 0 root st0
    | _ => doNode impl c re root root c.fmRoot (fun _ v => v) st0

/-- what `Do` does once it knows whether any mask applied -/
def finish (c : Cfg) (r : JTree × St) : Result :=
  let applied := r.2.applied
  { root := if applied && !c.gField.isEmpty then setField r.1 c.gField c.gValue else r.1
    globalMetric := if applied && c.metricOn then 1 else 0
    maskMetrics := if applied then r.2.counts else c.masks.map (fun _ => 0) }

/-- `(*Plugin).Do` -/
def doEvent (impl : Impl) (c : Cfg) (re : Oracle) (root : JTree) : M Result := do
  let r ← traverseRoot impl c re root
  pure (finish c r)

end FileD.Mask
