/-
  Model of `plugin/input/http/http.go`: `serveBulk` → `processBulk` → `processChunk`,
  mirroring the code statement by statement.

    processChunk(readBuff, eventBuff, isLastChunk):
        pos, nlPos := 0, 0
        for pos < len(readBuff) {                                  -- `chunkLoop`
            if readBuff[pos] != '\n' { pos++; continue }
            if len(eventBuff) != 0 { eventBuff = append(eventBuff, readBuff[nlPos:pos]...)
                                     In(eventBuff); eventBuff = eventBuff[:0] }
            else                   { In(readBuff[nlPos:pos]) }
            pos++; nlPos = pos }
        if isLastChunk { In(append(eventBuff, readBuff[nlPos:]...)); eventBuff = eventBuff[:0] }
        else           { eventBuff = append(eventBuff, readBuff[nlPos:]...) }

    processBulk(r):                                                -- `bulkLoop`, `processBulk`
        for { n, err := r.Read(readBuff)
              if n == 0 && err == io.EOF { break }
              if err != nil && err != io.EOF { return err }
              eventBuff = processChunk(readBuff[:n], eventBuff, false) }
        if len(eventBuff) > 0 { processChunk(readBuff[:0], eventBuff, true) }

    serveBulk: gzip header error → 400; processBulk error → 400; else Write(result) (200).

  The slice `readBuff[nlPos:pos]` is carried as a value (reversed, see `chunkLoop`); 0 ≤ nlPos ≤ pos ≤
  len holds by construction of the loop, so no Go bounds panic is possible there. `In` payloads are collected
  in `out`. What a `Read` call returned is an input of the model (`Rd`); for a gzip body the reads
  are those of the gzip reader (oracle parameter shipped in the case line).
  The shared source-id free list and interleaved requests: Model/HttpConc.lean.
-/
import FileD.Prelude.Bytes
namespace FileD.HttpBulk

/-- the result of one `r.Read(readBuff)`: the bytes `readBuff[:n]` and the error class -/
inductive Rd
  | data (b : Bytes)      -- (n, nil); n = 0 allowed
  | dataEof (b : Bytes)   -- (n, io.EOF)
  | err (b : Bytes)       -- (n, some other error)
deriving Repr, DecidableEq

/-- eventBuff and the `In` payloads made so far -/
structure St where
  eventBuff : Bytes
  out : List Bytes
deriving Repr, DecidableEq

/-- the scanning loop of `processChunk`. `segRev` is `readBuff[nlPos:pos]` reversed (so that
    `pos++` is a cons, not a copy: the driver runs this on 64 KiB bodies); returns the state and
    `readBuff[nlPos:]` reversed -/
def chunkLoop (segRev : Bytes) (s : St) : Bytes → St × Bytes
  | [] => (s, segRev)
  | b :: bs =>
    if b ≠ NL then chunkLoop (b :: segRev) s bs
    else if s.eventBuff.length ≠ 0 then
      chunkLoop [] { eventBuff := [], out := s.out ++ [s.eventBuff ++ segRev.reverse] } bs
    else
      chunkLoop [] { s with out := s.out ++ [segRev.reverse] } bs

def processChunk (s : St) (readBuff : Bytes) (isLastChunk : Bool) : St :=
  let r := chunkLoop [] s readBuff
  if isLastChunk then
    { eventBuff := [], out := r.1.out ++ [r.1.eventBuff ++ r.2.reverse] }
  else
    { r.1 with eventBuff := r.1.eventBuff ++ r.2.reverse }

/-- the read loop of `processBulk`: `true` = left by `break` (EOF), `false` = `return err`.
    An exhausted read list means the reader answers `(0, io.EOF)`. -/
def bulkLoop (s : St) : List Rd → St × Bool
  | [] => (s, true)
  | .data b :: rs => bulkLoop (processChunk s b false) rs
  | .dataEof b :: rs => if b.length = 0 then (s, true) else bulkLoop (processChunk s b false) rs
  | .err _ :: _ => (s, false)

/-- `processBulk`: the `In` payloads and whether it returned nil -/
def processBulk (reads : List Rd) : List Bytes × Bool :=
  let r := bulkLoop ⟨[], []⟩ reads
  if r.2 then
    if r.1.eventBuff.length > 0 then ((processChunk r.1 [] true).out, true)
    else (r.1.out, true)
  else (r.1.out, false)

/-- what is observable of one request at the plugin boundary, in order -/
inductive Act
  | inp (b : Bytes)     -- controller.In(…, data = b, …)
  | resp (code : Nat)   -- status of the response (first WriteHeader / Write)
deriving Repr, DecidableEq

/-- one request to the bulk endpoint: `hdrErr` = `acquireGzipReader` failed; `reads` = what the
    reader handed to `processBulk` returns (the gzip reader's results for a gzip body) -/
structure Req where
  hdrErr : Bool
  reads : List Rd
deriving Repr, DecidableEq

/-- `serveBulk` for a POST -/
def serve (q : Req) : List Act :=
  if q.hdrErr then [.resp 400]
  else
    let r := processBulk q.reads
    r.1.map .inp ++ [.resp (if r.2 then 200 else 400)]

end FileD.HttpBulk
