/-
  Model of `pipeline/antispam/antispammer.go`: `(*Antispammer).IsSpam`, `Maintenance`, `Dump`,
  statement by statement, for sequential callers.

  * `a.sources` / `a.sourcesThresholds` (Go maps keyed by the source id) are one finite partial
    function `m : Bytes → Option Src` plus the list of ids ever inserted (`keys`, used only to
    enumerate the map for `Dump`).
  * `atomic.Int32` counter: values are mathematical integers, every Go conversion / wrapping
    operation is explicit (`wrap32` at `Inc`, `int32(threshold)`, `int32(unbanIterations*threshold)`,
    `int32(x)`); the time difference is an `int64` subtraction (`wrap64`). Go `int` (64 bit)
    products are exact integers (assumption: `unbanIterations*threshold` fits 64 bits).
  * `e.Match(checkData)` (cfg/matchrule) and `rule.DoIfChecker.Check` (pipeline/doif) are oracle
    parameters of the event: `excM i = (match on the event bytes, match on the source name)` and
    `ruleM i`; which of the two exception results is used (`CheckSourceName`) is the model's job.
  * event time (`timeEvent.UnixNano()`) is an input; there is no clock in this code.
  Metrics and log lines are not modelled.
-/
import FileD.Prelude.Bytes
namespace FileD.Antispam

/-- Go `int32(x)` of a wider integer: two's complement wrap -/
def wrap32 (x : Int) : Int := (x + 2147483648) % 4294967296 - 2147483648
/-- Go `int64` wrap -/
def wrap64 (x : Int) : Int := (x + 9223372036854775808) % 18446744073709551616 - 9223372036854775808

structure Cfg where
  threshold : Int        -- a.threshold
  unban     : Int        -- a.unbanIterations
  interval  : Int        -- a.maintenanceInterval.Nanoseconds()
  rulesNil  : Bool       -- a.rules == nil
  excs      : List Bool  -- CheckSourceName of every exception, in order
  rules     : List Int   -- Threshold of every rule, in order
deriving Repr

structure Ev where
  id    : Bytes
  isNew : Bool
  time  : Int                   -- timeEvent.UnixNano()
  excM  : List (Bool × Bool)    -- per exception: Match(event), Match([]byte(name))
  ruleM : List Bool             -- per rule: DoIfChecker.Check(data)
deriving Repr

structure Src where
  counter : Int
  ts      : Int
  thr     : Int        -- a.sourcesThresholds[id]
deriving Repr, DecidableEq

structure State where
  m    : Bytes → Option Src
  keys : List Bytes

def init : State := ⟨fun _ => none, []⟩

def State.set (st : State) (id : Bytes) (s : Src) : State :=
  ⟨fun k => if k = id then some s else st.m k, id :: st.keys⟩

inductive Verdict
  | pass                -- `return false` before the counter is looked at
  | block               -- `return true` before the counter is looked at
  | count (t : Int)     -- go on with threshold `t`
deriving Repr, DecidableEq

/-- the exceptions loop: some exception matches its check data -/
def excHit : List Bool → List (Bool × Bool) → Bool
  | c :: cs, (onE, onN) :: ms => (if c then onN else onE) || excHit cs ms
  | _, _ => false

/-- the rules loop: the first rule whose condition holds decides -/
def ruleVerdict : List Int → List Bool → Int → Verdict
  | t :: ts, mt :: ms, d =>
    if mt then (if t = -1 then .pass else if t = 0 then .block else .count t)
    else ruleVerdict ts ms d
  | _, _, d => .count d

/-- exceptions (when `a.rules == nil`) or rules: the threshold to go on with, or an early return -/
def preVerdict (cfg : Cfg) (e : Ev) : Verdict :=
  if cfg.rulesNil then (if excHit cfg.excs e.excM then .pass else .count cfg.threshold)
  else ruleVerdict cfg.rules e.ruleM cfg.threshold

/-- `switch threshold { case thresholdUnlimited: return false; case thresholdBlocked: return true }` -/
def finalSwitch : Verdict → Verdict
  | .count t => if t = -1 then .pass else if t = 0 then .block else .count t
  | v => v

/-- everything of `IsSpam` up to `a.mu.RLock()` -/
def verdict (cfg : Cfg) (e : Ev) : Verdict :=
  if cfg.rulesNil && cfg.threshold == -1 then .pass else finalSwitch (preVerdict cfg e)

/-- the source entry `IsSpam` creates when the id is not in `a.sources` -/
def fresh (T : Int) (e : Ev) : Src := { counter := 0, ts := e.time, thr := T }

/-- the counter part of `IsSpam` once the source entry `src` is at hand -/
def hitSrc (cfg : Cfg) (T : Int) (e : Ev) (src : Src) : Bool × Src :=
  if e.isNew then (false, { src with counter := 0 })
  else
    let diff := wrap64 (e.time - src.ts)
    let x := if diff < cfg.interval then wrap32 (src.counter + 1) else src.counter
    let c := if x = wrap32 T then wrap32 (cfg.unban * T) else x
    (decide (x ≥ wrap32 T), { src with counter := c, ts := e.time })

/-- the counter part of `IsSpam` for one source; `none` = the id is not in `a.sources` -/
def hit (cfg : Cfg) (T : Int) (e : Ev) (old : Option Src) : Bool × Src :=
  hitSrc cfg T e (match old with | some s => s | none => fresh T e)

def isSpam (cfg : Cfg) (st : State) (e : Ev) : Bool × State :=
  match verdict cfg e with
  | .pass => (false, st)
  | .block => (true, st)
  | .count T => ((hit cfg T e (st.m e.id)).1, st.set e.id (hit cfg T e (st.m e.id)).2)

/-- body of the `Maintenance` loop for one source; `none` = deleted -/
def maintSrc (unban : Int) (s : Src) : Option Src :=
  if s.counter = 0 then none else
  let x1 := s.counter - s.thr
  let x2 := if x1 < 0 then 0 else x1
  let x3 := if x2 > unban * s.thr then unban * s.thr else x2
  some { s with counter := wrap32 x3 }

def maintenance (cfg : Cfg) (st : State) : State :=
  ⟨fun k => (st.m k).bind (maintSrc cfg.unban), st.keys⟩

inductive Op
  | event (e : Ev)
  | maint
deriving Repr

def step (cfg : Cfg) (st : State) : Op → State
  | .event e => (isSpam cfg st e).2
  | .maint => maintenance cfg st

def run (cfg : Cfg) (st : State) : List Op → State
  | [] => st
  | op :: ops => run cfg (step cfg st op) ops

/-- the `IsSpam` answers along a run (maintenance ops answer nothing) -/
def answers (cfg : Cfg) (st : State) : List Op → List Bool
  | [] => []
  | .event e :: ops => (isSpam cfg st e).1 :: answers cfg (isSpam cfg st e).2 ops
  | .maint :: ops => answers cfg (maintenance cfg st) ops

/-! ### `Dump`: (id, counter) of every source whose counter ≥ `a.threshold`, sorted by id -/

def bytesLt : Bytes → Bytes → Bool
  | [], [] => false
  | [], _ :: _ => true
  | _ :: _, [] => false
  | a :: as, b :: bs => a < b || (a == b && bytesLt as bs)

def insertSorted (k : Bytes) : List Bytes → List Bytes
  | [] => [k]
  | x :: xs => if k = x then x :: xs else if bytesLt k x then k :: x :: xs else x :: insertSorted k xs

def sortedKeys (ks : List Bytes) : List Bytes := ks.foldl (fun acc k => insertSorted k acc) []

def dump (cfg : Cfg) (st : State) : List (Bytes × Int) :=
  (sortedKeys st.keys).filterMap fun k =>
    match st.m k with
    | some s => if s.counter ≥ cfg.threshold then some (k, s.counter) else none
    | none => none

/-- every source entry with its counter, sorted by id (what the verif accessor `VerifCounters` shows) -/
def dumpAll (st : State) : List (Bytes × Int) :=
  (sortedKeys st.keys).filterMap fun k =>
    match st.m k with
    | some s => some (k, s.counter)
    | none => none

end FileD.Antispam
