/-
  Model of the pipeline entrance, `pipeline/pipeline.go`:

    (*Pipeline).checkInputBytes   empty / lone "\n" / oversize with and without cut-off,
                                  newline re-append                               (`checkInputBytes`)
    (*Pipeline).In                size check → [antispam gate: already-committed check, IsSpam]
                                  → decode → meta fields → cut-off mark → streamEvent/PassEvent
                                                                                   (`inStep`)
  for the decoders `json` and `raw` (for them `row` stays the zero CRIRow: `row.IsPartial = false`,
  `row.Stream = ""`, `row.Time` empty, so the event time given to `IsSpam` is the zero
  `time.Time`; only differences of event times matter to `IsSpam`, and they are all 0 — the
  model passes time 0).

  Oracle parameters (library / plugin behaviour, shipped inside the case line, universally
  quantified in the theorems):
    `decode : Bytes → Option JTree`   `p.decoder.DecodeToJson` (insane-json) on the bytes it is given
    `r.excM : Bytes → …`              matchrule results of the antispam exceptions on those bytes
    `r.pass`                          `p.input.PassEvent(event)`
  Go slicing goes through `GoSlice`, so a slice panic is the value `.error .bounds`.
  Not modelled: metrics, the event pool (blocking `get`), stream name selection, the in-place
  write of the re-appended "\n" into the caller's buffer, more than one meta entry (Go map order).
-/
import FileD.Prelude.GoSlice
import FileD.Prelude.JTree
import FileD.Model.Antispam
namespace FileD.Admission
open FileD

inductive Dec
  | json
  | raw
deriving Repr, DecidableEq

structure Settings where
  maxEventSize : Int          -- p.settings.MaxEventSize
  cutOff       : Bool         -- p.settings.CutOffEventByLimit
  cutOffField  : Bytes        -- p.settings.CutOffEventByLimitField
  dec          : Dec          -- p.decoderType
  metaField    : Bytes        -- p.settings.SourceNameMetaField
  as           : Antispam.Cfg -- p.settings.Antispam (Threshold is `as.threshold`) + constants

structure Rec where
  sourceID  : Nat
  cur       : Int                          -- offsets.current
  streamOff : Option Int                   -- offsets.streamOffsets.Get("")
  isNew     : Bool
  md        : List (Bytes × Bytes)   -- meta
  pass      : Bool                         -- oracle: p.input.PassEvent(event)
  data      : Bytes
  excM      : Bytes → List (Bool × Bool)   -- oracle: exception matches on (bytes, source name)

inductive Reason
  | empty | oversize | committed | spam | undecodable | notPassed
deriving Repr, DecidableEq

inductive Outcome
  | refused (r : Reason)     -- In returned EventSeqIDError
  | delivered (t : JTree)    -- the event handed to the stream (and from there to the first action/output)
deriving Repr

/-- `checkInputBytes`: (bytes, cutoff, ok) -/
def checkInputBytes (s : Settings) (b : Bytes) : GoM (Bytes × Bool × Bool) :=
  let length : Int := b.length
  if length = 0 then .ok (b, false, false) else
  match GoSlice.idx? b 0 with
  | .error p => .error p
  | .ok b0 =>
  if b0 = NL ∧ length = 1 then .ok (b, false, false) else
  if s.maxEventSize ≠ 0 ∧ length > s.maxEventSize then
    if s.cutOff = false then .ok (b, false, false) else
    match GoSlice.idx? b (length - 1) with
    | .error p => .error p
    | .ok last =>
      match GoSlice.sliceTo? b s.maxEventSize with
      | .error p => .error p
      | .ok cut => .ok (if last = NL then cut ++ [NL] else cut, true, true)
  else .ok (b, false, true)

def lookupMeta (k : Bytes) : List (Bytes × Bytes) → Option Bytes
  | [] => none
  | (k', v) :: kvs => if k' = k then some v else lookupMeta k kvs

/-- `strconv.FormatUint(uint64(sourceID), 10)` -/
def decimal (n : Nat) : Bytes := (toString n).toUTF8.toList

/-- (checkSourceID, isNewSource) as handed to `IsSpam` -/
def sourceKey (s : Settings) (r : Rec) : Bytes × Bool :=
  if s.metaField = [] then (decimal r.sourceID, r.isNew) else
  match lookupMeta s.metaField r.md with
  | some v => (v, false)
  | none => (decimal r.sourceID, r.isNew)

/-- `node.AddFieldNoAlloc(root, k)` followed by a `MutateTo…`: the first field named `k` gets the
    value, or a new last field is added -/
def setField (k : Bytes) (v : JTree) : List (Bytes × JTree) → List (Bytes × JTree)
  | [] => [(k, v)]
  | (k', v') :: kvs => if k' = k then (k', v) :: kvs else (k', v') :: setField k v kvs

def setFieldObj (k : Bytes) (v : JTree) : JTree → JTree
  | .obj kvs => .obj (setField k v kvs)
  | t => t

/-- the `if len(meta) > 0 { … }` block -/
def addMeta (t : JTree) (md : List (Bytes × Bytes)) : JTree :=
  match t with
  | .arr xs => .arr (xs.map fun x => md.foldl (fun acc kv => setFieldObj kv.1 (.str kv.2) acc) x)
  | t => md.foldl (fun acc kv => setFieldObj kv.1 (.str kv.2) acc) t

/-- the cut-off mark -/
def addMark (s : Settings) (cutoff : Bool) (t : JTree) : JTree :=
  if cutoff ∧ s.cutOffField ≠ [] then setFieldObj s.cutOffField (.bool true) t else t

/-- the decoding switch of `In`; `none` = the decoder returned an error -/
def decodeEvent (s : Settings) (decode : Bytes → Option JTree) (b : Bytes) : GoM (Option JTree) :=
  match s.dec with
  | .json => .ok (decode b)
  | .raw =>
    match GoSlice.sliceTo? b ((b.length : Int) - 1) with
    | .error p => .error p
    | .ok msg => .ok (some (.obj [(str "message", .str msg)]))

/-- the event handed to `IsSpam` for decoder input `b` (json/raw: zero event time) -/
def spamEv (s : Settings) (r : Rec) (b : Bytes) : Antispam.Ev :=
  { id := (sourceKey s r).1, isNew := (sourceKey s r).2, time := 0, excM := r.excM b, ruleM := [] }

/-- `offsets.ByStream("")`: -1 when the stream has no saved offset -/
def byStream : Option Int → Int
  | some o => o
  | none => -1

/-- `if !row.IsPartial && p.settings.Antispam.Threshold >= 0 { … }`: a refusal reason, if any, and
    the antispam state afterwards -/
def gate (s : Settings) (st : Antispam.State) (r : Rec) (b : Bytes) : Option Reason × Antispam.State :=
  if s.as.threshold ≥ 0 then
    let streamOffset : Int := byStream r.streamOff
    if streamOffset > 0 ∧ r.cur < streamOffset then (some .committed, st)
    else
      (if (Antispam.isSpam s.as st (spamEv s r b)).1 then some .spam else none,
       (Antispam.isSpam s.as st (spamEv s r b)).2)
  else (none, st)

/-- `In` after `checkInputBytes` said ok: `b` = the (possibly cut) bytes -/
def inRest (s : Settings) (decode : Bytes → Option JTree) (st : Antispam.State) (r : Rec)
    (b : Bytes) (cutoff : Bool) : GoM (Outcome × Antispam.State) :=
  match (gate s st r b).1 with
  | some why => .ok (.refused why, (gate s st r b).2)
  | none =>
  match decodeEvent s decode b with
  | .error p => .error p
  | .ok none => .ok (.refused .undecodable, (gate s st r b).2)
  | .ok (some t) =>
    let t1 := if r.md.length > 0 then addMeta t r.md else t
    let t2 := addMark s cutoff t1
    -- streamEvent
    if r.pass = false then .ok (.refused .notPassed, (gate s st r b).2)
    else .ok (.delivered t2, (gate s st r b).2)

/-- one call of `Pipeline.In` (plus `streamEvent` up to `PassEvent`) -/
def inStep (s : Settings) (decode : Bytes → Option JTree) (st : Antispam.State) (r : Rec) :
    GoM (Outcome × Antispam.State) :=
  match checkInputBytes s r.data with
  | .error p => .error p
  | .ok (b, cutoff, ok) =>
  if ok = false then
    .ok (.refused (if r.data = [] ∨ r.data = [NL] then .empty else .oversize), st)
  else inRest s decode st r b cutoff

/-- a sequence of `In` calls through one pipeline (one antispam state) -/
def inSeq (s : Settings) (decode : Bytes → Option JTree) :
    Antispam.State → List Rec → GoM (List Outcome)
  | _, [] => .ok []
  | st, r :: rs =>
    match inStep s decode st r with
    | .error p => .error p
    | .ok (o, st') =>
      match inSeq s decode st' rs with
      | .error p => .error p
      | .ok os => .ok (o :: os)

end FileD.Admission
