/-
  Model of /repo/pipeline/event.go: the two event pools as transition systems whose ops are
  the atomic operations of the Go code (one op per atomic call / lock operation). A reader
  (goroutine calling `get`, later `back`) is an index into `pcs`; its program counter says which
  statement it executes next. The scheduler is the list of ops (Prelude/TS.lean).

  `Cond.Wait` is two steps (enqueue-and-unlock = `waitEnq`; re-lock after being notified = `relock`)
  so the window between the availability check and the enqueue exists in the model.
  Core Lean only (linked into fdmodel).
-/
namespace FileD.Pool

/-! ## low-memory pool (`lowMemoryEventPool`, the default) -/
namespace LM

/-- program counter of a reader; the comment is the NEXT statement it executes -/
inductive Pc
  | idle        -- not inside get/back
  | want        -- again: inUse := p.inUseEvents.Inc(); if inUse <= capacity → return
  | over        -- p.inUseEvents.Dec()            (its Inc is still counted)
  | slow        -- p.slowWaiters.Inc()
  | wantLock    -- p.getCond.L.Lock()
  | locked      -- if !p.eventsAvailable() {
  | willWait    --   [verifGate] p.getCond.Wait(): enqueue + unlock
  | parked      --   … inside Wait, on the notify list
  | woken       --   … notified; Wait re-locks L
  | unlocking   -- p.getCond.L.Unlock()
  | postUnlock  -- p.slowWaiters.Dec(); goto again
  | holding     -- get returned an event; the caller owns it
  | backing     -- back(): inUseEvents.Dec() done; next p.getCond.Broadcast()
  deriving DecidableEq, Repr, Inhabited

structure Cfg where
  cap : Nat
  /-- `true` = the heartbeat condition as found in the unchanged tree
      (`waiters > 0 && !eventsAvailable`); `false` = repaired (`waiters > 0 && eventsAvailable`) -/
  hbNeg : Bool
  deriving DecidableEq, Repr

structure St where
  inUse : Nat := 0            -- inUseEvents
  sw : Nat := 0               -- slowWaiters
  mu : Option Nat := none     -- getCond.L owner
  pcs : List Pc := []
  hbArmed : Bool := false     -- heartbeat decided to Broadcast (between its reads and the call)
  gets : Nat := 0             -- history: successful gets
  backs : Nat := 0            -- history: backs (their Dec)
  deriving DecidableEq, Repr

inductive Op
  | start (r : Nat)     -- a caller enters get()
  | inc (r : Nat)       -- inUseEvents.Inc() and the comparison with capacity
  | dec (r : Nat)       -- slow path: inUseEvents.Dec()
  | swInc (r : Nat)
  | lock (r : Nat)
  | check (r : Nat)     -- eventsAvailable() under L
  | waitEnq (r : Nat)   -- Cond.Wait part 1: add to notify list, unlock L
  | relock (r : Nat)    -- Cond.Wait part 2 (after a Broadcast reached it): lock L
  | unlock (r : Nat)
  | swDec (r : Nat)
  | bDec (r : Nat)      -- back(): inUseEvents.Dec()
  | bBcast (r : Nat)    -- back(): getCond.Broadcast()
  | hbRead              -- wakeupWaiters: reads slowWaiters and eventsAvailable()
  | hbFire              -- wakeupWaiters: Broadcast if it decided so
  deriving DecidableEq, Repr

def init (n : Nat) : St := { pcs := List.replicate n .idle }

def avail (c : Cfg) (s : St) : Bool := s.inUse < c.cap

def wake : Pc → Pc
  | .parked => .woken
  | pc => pc

/-- Broadcast: every goroutine on the notify list is notified -/
def broadcast (s : St) : St := { s with pcs := s.pcs.map wake }

def setPc (s : St) (r : Nat) (pc : Pc) : St := { s with pcs := s.pcs.set r pc }

def step? (c : Cfg) (s : St) : Op → Option St
  | .start r => if s.pcs[r]? = some .idle then some (setPc s r .want) else none
  | .inc r =>
    if s.pcs[r]? = some .want then
      if s.inUse + 1 ≤ c.cap then
        some (setPc { s with inUse := s.inUse + 1, gets := s.gets + 1 } r .holding)
      else some (setPc { s with inUse := s.inUse + 1 } r .over)
    else none
  | .dec r => if s.pcs[r]? = some .over then some (setPc { s with inUse := s.inUse - 1 } r .slow) else none
  | .swInc r => if s.pcs[r]? = some .slow then some (setPc { s with sw := s.sw + 1 } r .wantLock) else none
  | .lock r =>
    if s.pcs[r]? = some .wantLock ∧ s.mu = none then some (setPc { s with mu := some r } r .locked) else none
  | .check r =>
    if s.pcs[r]? = some .locked then
      some (setPc s r (if avail c s then .unlocking else .willWait))
    else none
  | .waitEnq r =>
    if s.pcs[r]? = some .willWait then some (setPc { s with mu := none } r .parked) else none
  | .relock r =>
    if s.pcs[r]? = some .woken ∧ s.mu = none then some (setPc { s with mu := some r } r .unlocking) else none
  | .unlock r =>
    if s.pcs[r]? = some .unlocking then some (setPc { s with mu := none } r .postUnlock) else none
  | .swDec r =>
    if s.pcs[r]? = some .postUnlock then some (setPc { s with sw := s.sw - 1 } r .want) else none
  | .bDec r =>
    if s.pcs[r]? = some .holding then
      some (setPc { s with inUse := s.inUse - 1, backs := s.backs + 1 } r .backing)
    else none
  | .bBcast r =>
    if s.pcs[r]? = some .backing then some (broadcast (setPc s r .idle)) else none
  | .hbRead =>
    some { s with hbArmed := decide (s.sw > 0) && (if c.hbNeg then !avail c s else avail c s) }
  | .hbFire =>
    some (if s.hbArmed then { broadcast s with hbArmed := false } else s)

/-- the next op of reader `r` (none: it waits for somebody else or is outside get/back) -/
def nextOp (s : St) (r : Nat) : Option Op :=
  match s.pcs[r]? with
  | some .want => some (.inc r)
  | some .over => some (.dec r)
  | some .slow => some (.swInc r)
  | some .wantLock => if s.mu = none then some (.lock r) else none
  | some .locked => some (.check r)
  | some .woken => if s.mu = none then some (.relock r) else none
  | some .unlocking => some (.unlock r)
  | some .postUnlock => some (.swDec r)
  | some .backing => some (.bBcast r)
  | _ => none

/-- run reader `r` alone until it has no enabled step or stands at the gate (`willWait`) -/
def runReader (c : Cfg) : Nat → St → Nat → St
  | 0, s, _ => s
  | fuel + 1, s, r =>
    match nextOp s r with
    | none => s
    | some op =>
      match step? c s op with
      | none => s
      | some s' => runReader c fuel s' r

/-- number of readers whose pc satisfies `p` -/
def cnt (s : St) (p : Pc → Bool) : Nat := s.pcs.countP p

def held (s : St) : Nat := s.gets - s.backs

end LM

end FileD.Pool
