/-
  Model of /repo/pipeline/event.go: the two event pools as transition systems whose ops are
  the atomic operations of the Go code (one op per atomic call / lock operation). A reader
  (goroutine calling `get`, later `back`) is an index into `pcs`; its program counter says which
  statement it executes next. The scheduler is the list of ops (Prelude/TS.lean).

  `Cond.Wait` is two steps (enqueue-and-unlock = `waitEnq`; re-lock after being notified = `relock`)
  so the window between the availability check and the enqueue exists in the model.
  Core Lean only (linked into fdmodel).
-/
namespace FileD.Pool

/-! ## low-memory pool (`lowMemoryEventPool`, the default) -/
namespace LM

/-- program counter of a reader; the comment is the NEXT statement it executes -/
inductive Pc
  | idle        -- not inside get/back
  | want        -- again: inUse := p.inUseEvents.Inc(); if inUse <= capacity → return
  | over        -- p.inUseEvents.Dec()            (its Inc is still counted)
  | slow        -- p.slowWaiters.Inc()
  | wantLock    -- p.getCond.L.Lock()
  | locked      -- if !p.eventsAvailable() {
  | willWait    --   [verifGate] p.getCond.Wait(): enqueue + unlock
  | parked      --   … inside Wait, on the notify list
  | woken       --   … notified; Wait re-locks L
  | unlocking   -- p.getCond.L.Unlock()
  | postUnlock  -- p.slowWaiters.Dec(); goto again
  | holding     -- get returned an event; the caller owns it
  | backing     -- back(): inUseEvents.Dec() done; next p.getCond.Broadcast()
  deriving DecidableEq, Repr, Inhabited

structure Cfg where
  cap : Nat
  /-- `true` = the heartbeat condition as found in the unchanged tree
      (`waiters > 0 && !eventsAvailable`); `false` = repaired (`waiters > 0 && eventsAvailable`) -/
  hbNeg : Bool
  deriving DecidableEq, Repr

structure St where
  inUse : Nat := 0            -- inUseEvents
  sw : Nat := 0               -- slowWaiters
  mu : Option Nat := none     -- getCond.L owner
  pcs : List Pc := []
  hbArmed : Bool := false     -- heartbeat decided to Broadcast (between its reads and the call)
  gets : Nat := 0             -- history: successful gets
  backs : Nat := 0            -- history: backs (their Dec)
  deriving DecidableEq, Repr

inductive Op
  | start (r : Nat)     -- a caller enters get()
  | inc (r : Nat)       -- inUseEvents.Inc() and the comparison with capacity
  | dec (r : Nat)       -- slow path: inUseEvents.Dec()
  | swInc (r : Nat)
  | lock (r : Nat)
  | check (r : Nat)     -- eventsAvailable() under L
  | waitEnq (r : Nat)   -- Cond.Wait part 1: add to notify list, unlock L
  | relock (r : Nat)    -- Cond.Wait part 2 (after a Broadcast reached it): lock L
  | unlock (r : Nat)
  | swDec (r : Nat)
  | bDec (r : Nat)      -- back(): inUseEvents.Dec()
  | bBcast (r : Nat)    -- back(): getCond.Broadcast()
  | mark (r : Nat)      -- the holder changes its event's kind (processor.Spawn: SetChildParentKind); no pool state
  | hbRead              -- wakeupWaiters: reads slowWaiters and eventsAvailable()
  | hbFire              -- wakeupWaiters: Broadcast if it decided so
  deriving DecidableEq, Repr

def init (n : Nat) : St := { pcs := List.replicate n .idle }

def avail (c : Cfg) (s : St) : Bool := s.inUse < c.cap

def wake : Pc → Pc
  | .parked => .woken
  | pc => pc

/-- Broadcast: every goroutine on the notify list is notified -/
def broadcast (s : St) : St := { s with pcs := s.pcs.map wake }

def setPc (s : St) (r : Nat) (pc : Pc) : St := { s with pcs := s.pcs.set r pc }

def step? (c : Cfg) (s : St) : Op → Option St
  | .start r => if s.pcs[r]? = some .idle then some (setPc s r .want) else none
  | .inc r =>
    if s.pcs[r]? = some .want then
      if s.inUse + 1 ≤ c.cap then
        some (setPc { s with inUse := s.inUse + 1, gets := s.gets + 1 } r .holding)
      else some (setPc { s with inUse := s.inUse + 1 } r .over)
    else none
  | .dec r => if s.pcs[r]? = some .over then some (setPc { s with inUse := s.inUse - 1 } r .slow) else none
  | .swInc r => if s.pcs[r]? = some .slow then some (setPc { s with sw := s.sw + 1 } r .wantLock) else none
  | .lock r =>
    if s.pcs[r]? = some .wantLock ∧ s.mu = none then some (setPc { s with mu := some r } r .locked) else none
  | .check r =>
    if s.pcs[r]? = some .locked then
      some (setPc s r (if avail c s then .unlocking else .willWait))
    else none
  | .waitEnq r =>
    if s.pcs[r]? = some .willWait then some (setPc { s with mu := none } r .parked) else none
  | .relock r =>
    if s.pcs[r]? = some .woken ∧ s.mu = none then some (setPc { s with mu := some r } r .unlocking) else none
  | .unlock r =>
    if s.pcs[r]? = some .unlocking then some (setPc { s with mu := none } r .postUnlock) else none
  | .swDec r =>
    if s.pcs[r]? = some .postUnlock then some (setPc { s with sw := s.sw - 1 } r .want) else none
  | .bDec r =>
    if s.pcs[r]? = some .holding then
      some (setPc { s with inUse := s.inUse - 1, backs := s.backs + 1 } r .backing)
    else none
  | .bBcast r =>
    if s.pcs[r]? = some .backing then some (broadcast (setPc s r .idle)) else none
  | .mark r => if s.pcs[r]? = some .holding then some s else none
  | .hbRead =>
    some { s with hbArmed := decide (s.sw > 0) && (if c.hbNeg then !avail c s else avail c s) }
  | .hbFire =>
    some (if s.hbArmed then { broadcast s with hbArmed := false } else s)

/-- the next op of reader `r` (none: it waits for somebody else or is outside get/back) -/
def nextOp (s : St) (r : Nat) : Option Op :=
  match s.pcs[r]? with
  | some .want => some (.inc r)
  | some .over => some (.dec r)
  | some .slow => some (.swInc r)
  | some .wantLock => if s.mu = none then some (.lock r) else none
  | some .locked => some (.check r)
  | some .woken => if s.mu = none then some (.relock r) else none
  | some .unlocking => some (.unlock r)
  | some .postUnlock => some (.swDec r)
  | some .backing => some (.bBcast r)
  | _ => none

/-- run reader `r` alone until it has no enabled step or stands at the gate (`willWait`) -/
def runReader (c : Cfg) : Nat → St → Nat → St
  | 0, s, _ => s
  | fuel + 1, s, r =>
    match nextOp s r with
    | none => s
    | some op =>
      match step? c s op with
      | none => s
      | some s' => runReader c fuel s' r

/-- number of readers whose pc satisfies `p` -/
def cnt (s : St) (p : Pc → Bool) : Nat := s.pcs.countP p

def held (s : St) : Nat := s.gets - s.backs

end LM

/-! ## standard pool (`eventPool`): ring of `capacity` slots with the free1/free2 two-phase flags -/
namespace Std

structure Slot where
  f1 : Bool := true            -- free1[x]: the slot holds an event that may be taken
  f2 : Bool := true            -- free2[x]: false = the event is out, the slot may be refilled
  ev : Option Nat := none      -- events[x] (event identity = its initial slot index)
  own : Option Nat := none     -- ghost: the reader between its successful CAS and its Store on this slot
  deriving DecidableEq, Repr, Inhabited

/-- program counter of a reader; the comment is the NEXT statement it executes -/
inductive Pc
  | idle
  | tkt                           -- x := (p.getCounter.Inc() - 1) % capacity; tries = 0
  | try_ (x c t : Nat)            -- if x < backCounter.Load() && free1[x].CAS(true,false) (c-th of 3) ; t = tries
  | slowInc (x : Nat)             -- p.slowWaiters.Inc()
  | wantLock (x : Nat)            -- p.getMu.Lock()
  | willWait (x : Nat)            -- [verifGate] p.getCond.Wait(): enqueue + unlock
  | parked (x : Nat)
  | woken (x : Nat)               -- Wait re-locks getMu
  | unlocking (x : Nat)           -- p.getMu.Unlock()
  | postUnlock (x : Nat)          -- p.slowWaiters.Dec(); tries = 0
  | taken (x : Nat)               -- event := events[x]; events[x] = nil; free2[x].Store(false)
  | out (e : Nat)                 -- p.inUseEvents.Inc()
  | holding (e : Nat)             -- get returned event e
  | btkt (e : Nat)                -- back: x := (p.backCounter.Inc() - 1) % capacity
  | bspin (x e : Nat)             -- free2[x].CAS(false,true)
  | returning (x e : Nat)         -- events[x] = event; free1[x].Store(true)
  | bdec                          -- p.inUseEvents.Dec()
  | bbc                           -- p.getCond.Broadcast()
  deriving DecidableEq, Repr, Inhabited

/-- where event `e` is (ghost) -/
inductive Loc
  | inSlot (x : Nat)
  | heldBy (r : Nat)
  deriving DecidableEq, Repr, Inhabited

structure St where
  cap : Nat := 0
  getCtr : Nat := 0
  backCtr : Nat := 0
  inUse : Nat := 0
  sw : Nat := 0
  mu : Option Nat := none
  slots : List Slot := []
  pcs : List Pc := []
  loc : List Loc := []            -- ghost, indexed by event
  hbArmed : Bool := false
  panicked : Bool := false        -- a nil event was taken out of a slot (Go: nil dereference)
  gets : Nat := 0
  backs : Nat := 0
  deriving DecidableEq, Repr

inductive Op
  | start (r : Nat) | tkt (r : Nat) | cas (r : Nat) | swInc (r : Nat) | lock (r : Nat)
  | waitEnq (r : Nat) | relock (r : Nat) | unlock (r : Nat) | swDec (r : Nat)
  | take (r : Nat) | iInc (r : Nat)
  | bstart (r : Nat) | btkt (r : Nat) | bcas (r : Nat) | bput (r : Nat) | bDec (r : Nat) | bBcast (r : Nat)
  | mark (r : Nat)   -- the holder changes its event's kind (Spawn: child-parent); back() must not care
  | hbRead | hbFire
  deriving DecidableEq, Repr

def init (cap n : Nat) : St :=
  { cap := cap, backCtr := cap,
    slots := (List.range cap).map (fun i => { ev := some i }),
    loc := (List.range cap).map Loc.inSlot,
    pcs := List.replicate n .idle }

def wake : Pc → Pc
  | .parked x => .woken x
  | pc => pc

def broadcast (s : St) : St := { s with pcs := s.pcs.map wake }
def setPc (s : St) (r : Nat) (pc : Pc) : St := { s with pcs := s.pcs.set r pc }
def setSlot (s : St) (x : Nat) (sl : Slot) : St := { s with slots := s.slots.set x sl }

/-- a failed round of the `get` loop: three CAS per round, `tries++`, every third round parks -/
def casFail (x c t : Nat) : Pc :=
  if c < 2 then .try_ x (c + 1) t
  else if t < 2 then .try_ x 0 (t + 1)   -- tries%maxTries != 0: runtime.Gosched()
  else .slowInc x                        -- slowest path

def step? (s : St) : Op → Option St
  | .start r => if s.pcs[r]? = some .idle then some (setPc s r .tkt) else none
  | .tkt r =>
    if s.pcs[r]? = some .tkt then
      some (setPc { s with getCtr := s.getCtr + 1 } r (.try_ (s.getCtr % s.cap) 0 0))
    else none
  | .cas r =>
    match s.pcs[r]? with
    | some (.try_ x c t) =>
      match s.slots[x]? with
      | some sl =>
        if x < s.backCtr ∧ sl.f1 = true then
          some (setPc (setSlot s x { sl with f1 := false, own := some r }) r (.taken x))
        else some (setPc s r (casFail x c t))
      | none => none
    | _ => none
  | .swInc r =>
    match s.pcs[r]? with
    | some (.slowInc x) => some (setPc { s with sw := s.sw + 1 } r (.wantLock x))
    | _ => none
  | .lock r =>
    match s.pcs[r]? with
    | some (.wantLock x) => if s.mu = none then some (setPc { s with mu := some r } r (.willWait x)) else none
    | _ => none
  | .waitEnq r =>
    match s.pcs[r]? with
    | some (.willWait x) => some (setPc { s with mu := none } r (.parked x))
    | _ => none
  | .relock r =>
    match s.pcs[r]? with
    | some (.woken x) => if s.mu = none then some (setPc { s with mu := some r } r (.unlocking x)) else none
    | _ => none
  | .unlock r =>
    match s.pcs[r]? with
    | some (.unlocking x) => some (setPc { s with mu := none } r (.postUnlock x))
    | _ => none
  | .swDec r =>
    match s.pcs[r]? with
    | some (.postUnlock x) => some (setPc { s with sw := s.sw - 1 } r (.try_ x 0 0))
    | _ => none
  | .take r =>
    match s.pcs[r]? with
    | some (.taken x) =>
      match s.slots[x]? with
      | some sl =>
        match sl.ev with
        | some e =>
          some (setPc { setSlot s x { sl with ev := none, f2 := false, own := none } with
                        loc := s.loc.set e (.heldBy r) } r (.out e))
        | none => some { s with panicked := true }
      | none => none
    | _ => none
  | .iInc r =>
    match s.pcs[r]? with
    | some (.out e) => some (setPc { s with inUse := s.inUse + 1, gets := s.gets + 1 } r (.holding e))
    | _ => none
  | .bstart r =>
    match s.pcs[r]? with
    | some (.holding e) => some (setPc { s with backs := s.backs + 1 } r (.btkt e))
    | _ => none
  | .btkt r =>
    match s.pcs[r]? with
    | some (.btkt e) => some (setPc { s with backCtr := s.backCtr + 1 } r (.bspin (s.backCtr % s.cap) e))
    | _ => none
  | .bcas r =>
    match s.pcs[r]? with
    | some (.bspin x e) =>
      match s.slots[x]? with
      | some sl =>
        if sl.f2 = false then
          some (setPc (setSlot s x { sl with f2 := true, own := some r }) r (.returning x e))
        else some s                      -- spin / time.Sleep(5ms)
      | none => none
    | _ => none
  | .bput r =>
    match s.pcs[r]? with
    | some (.returning x e) =>
      match s.slots[x]? with
      | some sl =>
        some (setPc { setSlot s x { sl with ev := some e, f1 := true, own := none } with
                      loc := s.loc.set e (.inSlot x) } r .bdec)
      | none => none
    | _ => none
  | .bDec r =>
    if s.pcs[r]? = some .bdec then some (setPc { s with inUse := s.inUse - 1 } r .bbc) else none
  | .bBcast r =>
    if s.pcs[r]? = some .bbc then some (broadcast (setPc s r .idle)) else none
  | .mark r =>
    match s.pcs[r]? with
    | some (.holding _) => some s
    | _ => none
  | .hbRead => some { s with hbArmed := decide (s.sw > 0) && decide (s.inUse < s.cap) }
  | .hbFire => some (if s.hbArmed then { broadcast s with hbArmed := false } else s)

/-- next op of reader `r` when it can move by itself; `none` at the gate (`willWait`), while parked,
    while the lock is taken, while a `back` spins on a slot that is not out, and outside get/back -/
def nextOp (s : St) (r : Nat) : Option Op :=
  match s.pcs[r]? with
  | some .tkt => some (.tkt r)
  | some (.try_ ..) => some (.cas r)
  | some (.slowInc _) => some (.swInc r)
  | some (.wantLock _) => if s.mu = none then some (.lock r) else none
  | some (.woken _) => if s.mu = none then some (.relock r) else none
  | some (.unlocking _) => some (.unlock r)
  | some (.postUnlock _) => some (.swDec r)
  | some (.taken _) => some (.take r)
  | some (.out _) => some (.iInc r)
  | some (.btkt _) => some (.btkt r)
  | some (.bspin x _) =>
    match s.slots[x]? with
    | some sl => if sl.f2 = false then some (.bcas r) else none
    | none => none
  | some (.returning ..) => some (.bput r)
  | some .bdec => some (.bDec r)
  | some .bbc => some (.bBcast r)
  | _ => none

def runReader : Nat → St → Nat → St
  | 0, s, _ => s
  | fuel + 1, s, r =>
    match nextOp s r with
    | none => s
    | some op =>
      match step? s op with
      | none => s
      | some s' => runReader fuel s' r

def cnt (s : St) (p : Pc → Bool) : Nat := s.pcs.countP p
def held (s : St) : Nat := s.gets - s.backs

end Std

end FileD.Pool
