/-
  Model of `plugin/input/k8s/multiline_action.go: (*MultilineAction).Do` + `resetLogBuf`
  (the tree AFTER the C15 `fix:` commits), statement by statement, as one action instance
  sees the world. Go string/slice expressions are `GoSlice` checked accesses, so an index panic
  is the value `.error .bounds`.

  What is modelled: the escaped-chunk buffer (`eventBuf`, `eventSize`, `skipNextEvent`,
  `cutOffEvent`), the end-of-line test on the escaped fragment, `split_event_size` look-ahead,
  `max_event_size` in skip and cut mode, time-out events, a `log` field that is absent or not a
  string. Oracle per event (insane-json, trusted base): `Dig("log")` found / `IsString()` and
  the bytes `AppendEscapedString` yields for a string node (the quoted, escaped text).
  Not modelled: k8s meta lookup and the label / node fields it adds, `OnlyNode`, the Fatalf
  checks on namespace / pod / container taken from the file name.
-/
import FileD.Prelude.GoSlice
import FileD.Model.Join
namespace FileD.K8s
open FileD
open FileD.Join (Res)

def QUOTE : UInt8 := 34
def BSLASH : UInt8 := 92
def LOWER_N : UInt8 := 110

/-- `predictionLookahead` -/
def lookahead : Nat := 128 * 1024

structure Cfg where
  splitSize : Int      -- config.SplitEventSize
  maxSize   : Nat      -- PipelineSettings.MaxEventSize (0 = unlimited)
  cutOff    : Bool     -- PipelineSettings.CutOffEventByLimit
  cutField  : Bool     -- PipelineSettings.CutOffEventByLimitField != ""
deriving Repr, DecidableEq

/-- what `event.Root.Dig("log")` is -/
inductive LogVal
  | absent                  -- nil
  | nonString               -- number, bool, null, object, array
  | str (frag : Bytes)      -- string: the bytes AppendEscapedString yields (quotes included)
deriving Repr, DecidableEq

structure Ev where
  tag  : Nat
  size : Nat               -- event.Size
  log  : LogVal
deriving Repr, DecidableEq

inductive In
  | timeout (tag : Nat)
  | ev (e : Ev)
deriving Repr, DecidableEq

structure St where
  eventBuf    : Bytes
  eventSize   : Nat
  skipNext    : Bool
  cutOffEvent : Bool
deriving Repr, DecidableEq

/-- after `Start`: `eventBuf = append(eventBuf, '"')` -/
def St.init : St := ⟨[QUOTE], 0, false, false⟩

structure Out where
  res      : Res
  log      : Option Bytes   -- pass: the event's `log` after the call, escaped form (quotes included)
  cut      : Bool           -- pass: the cut-off marker field was added
  exceeded : Bool           -- controller.IncMaxEventSizeExceeded was called
deriving Repr, DecidableEq

/-- `resetLogBuf`: `eventBuf = eventBuf[:1]; eventSize = 0; cutOffEvent = false; skipNextEvent = false` -/
def resetLogBuf (st : St) : GoM St :=
  match GoSlice.sliceTo? st.eventBuf 1 with
  | .error p => .error p
  | .ok b => .ok ⟨b, 0, false, false⟩

/-- the loop `for i := l-3; i > 0 && frag[i] == '\\'; i-- { n++ }` of `endsWithNewLine` -/
def slashesBefore (frag : Bytes) : Nat → GoM Nat
  | 0 => .ok 0
  | i+1 =>
    match GoSlice.idx? frag ((i + 1 : Nat) : Int) with
    | .error p => .error p
    | .ok c =>
      if c = BSLASH then
        match slashesBefore frag i with
        | .error p => .error p
        | .ok n => .ok (n + 1)
      else .ok 0

/-- `endsWithNewLine(frag)`: the quoted escaped fragment ends with an escaped newline — `\n"`
    where the backslash is not itself escaped (odd number of backslashes before the `n`) -/
def endsWithNewLine (frag : Bytes) : GoM Bool :=
  let l := frag.length
  if l < 4 then .ok false else
    match GoSlice.idx? frag ((l - 2 : Nat) : Int) with
    | .error p => .error p
    | .ok c =>
      if c ≠ LOWER_N then .ok false else
        match slashesBefore frag (l - 3) with
        | .error p => .error p
        | .ok n => .ok (n % 2 == 1)

def discardReset (st : St) : GoM (St × Out) :=
  match resetLogBuf st with
  | .error p => .error p
  | .ok st' => .ok (st', ⟨.discard, none, false, false⟩)

/-- the tail of `Do` once the event is known to end the buffered line -/
def finish (cfg : Cfg) (st : St) (frag : Bytes) (isEnd : Bool) : GoM (St × Out) :=
  let l : Int := frag.length
  if st.eventBuf.length > 1 then
    -- if !cutOffEvent { eventBuf += frag[1:l-1] } else { if isEnd { eventBuf += `\n` } ; cut field }
    let buf1 : GoM Bytes :=
      if !st.cutOffEvent then
        match GoSlice.slice? frag 1 (l - 1) with
        | .error p => .error p
        | .ok inner => .ok (st.eventBuf ++ inner)
      else .ok (if isEnd then st.eventBuf ++ [BSLASH, LOWER_N] else st.eventBuf)
    match buf1 with
    | .error p => .error p
    | .ok b =>
      let b2 := b ++ [QUOTE]
      match resetLogBuf { st with eventBuf := b2 } with
      | .error p => .error p
      | .ok st' => .ok (st', ⟨.pass, some b2, st.cutOffEvent && cfg.cutField, false⟩)
  else
    match resetLogBuf st with
    | .error p => .error p
    | .ok st' => .ok (st', ⟨.pass, some frag, false, false⟩)

/-- `Do` on a regular event whose `log` is a string with escaped form `frag` -/
def doChunk (cfg : Cfg) (st : St) (e : Ev) (frag : Bytes) : GoM (St × Out) :=
  let eventSize := st.eventSize + e.size
  let predictedLen : Int := ((eventSize + lookahead : Nat) : Int)
  let shouldSplit := decide (predictedLen > cfg.splitSize)
  let l : Int := frag.length
  match endsWithNewLine frag with
  | .error p => .error p
  | .ok isEnd =>
    let st := { st with eventSize := eventSize }
    if !isEnd && !shouldSplit then
      let sizeAfterAppend := st.eventBuf.length + frag.length
      if cfg.maxSize == 0 || decide (sizeAfterAppend < cfg.maxSize) then
        match GoSlice.slice? frag 1 (l - 1) with
        | .error p => .error p
        | .ok inner => .ok ({ st with eventBuf := st.eventBuf ++ inner }, ⟨.collapse, none, false, false⟩)
      else if !st.skipNext then
        if cfg.cutOff then
          let offset : Int := (sizeAfterAppend : Int) - (cfg.maxSize : Int)
          match GoSlice.slice? frag 1 (l - 1 - offset) with
          | .error p => .error p
          | .ok part =>
            .ok ({ st with eventBuf := st.eventBuf ++ part, skipNext := true, cutOffEvent := true },
                 ⟨.collapse, none, false, true⟩)
        else .ok ({ st with skipNext := true }, ⟨.collapse, none, false, true⟩)
      else .ok (st, ⟨.collapse, none, false, false⟩)
    else if st.skipNext && !isEnd then
      .ok (st, ⟨.collapse, none, false, false⟩)            -- wait chunk end
    else if st.skipNext && !st.cutOffEvent then
      discardReset { st with skipNext := false }
    else
      finish cfg { st with skipNext := false } frag isEnd

def doEvent (cfg : Cfg) (st : St) (e : Ev) : GoM (St × Out) :=
  match e.log with
  | .absent => discardReset st
  | .nonString => discardReset st
  | .str frag => doChunk cfg st e frag

def step (cfg : Cfg) (st : St) : In → GoM (St × Out)
  | .timeout _ => discardReset st
  | .ev e => doEvent cfg st e

structure Trace where
  outs : List Out
  fin  : GoM St

def run (cfg : Cfg) : St → List In → Trace
  | st, [] => ⟨[], .ok st⟩
  | st, x :: xs =>
    match step cfg st x with
    | .error p => ⟨[], .error p⟩
    | .ok (st1, o) =>
      let t := run cfg st1 xs
      ⟨o :: t.outs, t.fin⟩

end FileD.K8s
