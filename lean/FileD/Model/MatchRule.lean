/-
  Model of `cfg/matchrule/matchrule.go`: `(*Rule).Prepare` (value lowering, min/max value size),
  `(*Rule).Match` / `match` with its size shortcuts, `(*RuleSet).Match` — what an antispam
  exception evaluates on the event bytes or on the source name.

  `bytes.ToLower` / `strings.ToLower` are an oracle parameter `lower` (the case line carries the
  results for the byte strings the code lowers; theorems quantify over every `lower`).
  `bytes.Contains` / `bytes.Equal` have their mathematical meaning (`infixB`, `==`).
  A rule whose `Values` is empty is never `prepared`: `Match` panics ("rule must be prepared").
-/
import FileD.Prelude.GoSlice
namespace FileD.MatchRule
open FileD

inductive Mode
  | pre | contains | suf
deriving Repr, DecidableEq

structure Rule where
  values : List Bytes   -- as configured
  mode   : Mode
  ci     : Bool         -- CaseInsensitive
  invert : Bool
deriving Repr

/-- `r.Values` after `Prepare` -/
def prepared (lower : Bytes → Bytes) (r : Rule) : List Bytes :=
  if r.ci then r.values.map lower else r.values

/-- `minValueSize` of `Prepare` (first value, then the loop) -/
def minLen : List Bytes → Nat
  | [] => 0
  | v :: vs => vs.foldl (fun m x => if x.length < m then x.length else m) v.length

def maxLen : List Bytes → Nat
  | [] => 0
  | v :: vs => vs.foldl (fun m x => if x.length > m then x.length else m) v.length

/-- `bytes.Contains(d, v)` -/
def infixB (v : Bytes) : Bytes → Bool
  | [] => v.isPrefixOf []
  | x :: xs => v.isPrefixOf (x :: xs) || infixB v xs

/-- the literal meaning of a mode: `v` is a prefix / suffix / substring of `d` -/
def modeHolds : Mode → Bytes → Bytes → Bool
  | .pre, v, d => v.isPrefixOf d
  | .suf, v, d => v.isSuffixOf d
  | .contains, v, d => infixB v d

/-- `(*Rule).match` on prepared values `vs` -/
def matchRaw (lower : Bytes → Bytes) (mode : Mode) (ci : Bool) (vs : List Bytes) (raw : Bytes) : Bool :=
  if raw.length < minLen vs then false else
  match mode with
  | .contains =>
    let data := if ci then lower raw else raw
    vs.any fun v => !decide (data.length < v.length) && infixB v data
  | .pre =>
    let cut := if raw.length < maxLen vs then raw else raw.take (maxLen vs)
    let cut := if ci then lower cut else cut
    vs.any fun v => !decide (cut.length < v.length) && (cut.take v.length == v)
  | .suf =>
    let cut := if raw.length < maxLen vs then raw else raw.drop (raw.length - maxLen vs)
    let cut := if ci then lower cut else cut
    vs.any fun v => !decide (cut.length < v.length) && (cut.drop (cut.length - v.length) == v)

/-- `(*Rule).Match` -/
def ruleMatch (lower : Bytes → Bytes) (r : Rule) (raw : Bytes) : GoM Bool :=
  if r.values = [] then .error .other    -- panic("rule must be prepared")
  else
    let ok := matchRaw lower r.mode r.ci (prepared lower r) raw
    .ok (if r.invert then !ok else ok)

/-- the loop of `(*RuleSet).Match`; `isOr` = `Cond == CondOr` -/
def rsLoop (lower : Bytes → Bytes) (isOr : Bool) (raw : Bytes) : List Rule → GoM Bool
  | [] => .ok (!isOr)
  | r :: rs =>
    match ruleMatch lower r raw with
    | .error p => .error p
    | .ok m =>
      if m && isOr then .ok true
      else if !m && !isOr then .ok false
      else rsLoop lower isOr raw rs

/-- `(*RuleSet).Match` -/
def rsMatch (lower : Bytes → Bytes) (isOr : Bool) (rules : List Rule) (raw : Bytes) : GoM Bool :=
  if rules = [] then .ok false else rsLoop lower isOr raw rules

end FileD.MatchRule
