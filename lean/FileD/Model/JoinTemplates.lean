/-
  Model of the join_template classifiers: `plugin/action/join_template/ascii/ascii.go` (byte
  classes) and `plugin/action/join_template/template/{common,go_panic,cs_exception,go_data_race}.go`
  (the "fast path" start / continue checks), function by function.

  The byte classes are written out LITERALLY as byte ranges (never through another helper's
  arithmetic), so that `c15.ascii` compares the real helper on all 256 bytes with the class it
  is meant to be. Index arithmetic of the Go code (`strings.Index`, re-slicing) is restated on
  lists: `index` = first occurrence, `drop`/`take` = `s[i:]`/`s[:i]`; every Go index expression
  is guarded in the source, the same guards appear here.

  `join_template_eq_spec` (Props/C15.lean) takes the start / continue bits as oracles; `c15.tpl`
  and the bit cross-check of `c15.jt` tie those oracles to the functions below on every run.
-/
import FileD.Prelude.Bytes
namespace FileD.JoinTemplates
open FileD

/-! ### ascii.go -/

def isSpace (c : UInt8) : Bool := c == 32 || c == 10 || c == 9          -- ' ', '\n', '\t'
def isDigit (c : UInt8) : Bool := decide (48 ≤ c.toNat ∧ c.toNat ≤ 57)   -- '0'..'9'
def isHexDigit (c : UInt8) : Bool :=                                      -- '0'..'9', 'a'..'f'
  decide (48 ≤ c.toNat ∧ c.toNat ≤ 57) || decide (97 ≤ c.toNat ∧ c.toNat ≤ 102)
def isLowerCaseLetter (c : UInt8) : Bool := decide (97 ≤ c.toNat ∧ c.toNat ≤ 122)
def isUpperCaseLetter (c : UInt8) : Bool := decide (65 ≤ c.toNat ∧ c.toNat ≤ 90)
def isLetter (c : UInt8) : Bool :=
  decide (97 ≤ c.toNat ∧ c.toNat ≤ 122) || decide (65 ≤ c.toNat ∧ c.toNat ≤ 90)
def isLetterOrUnderscore (c : UInt8) : Bool :=
  decide (97 ≤ c.toNat ∧ c.toNat ≤ 122) || decide (65 ≤ c.toNat ∧ c.toNat ≤ 90) || c == 95
def isLetterOrUnderscoreOrDigit (c : UInt8) : Bool :=
  decide (97 ≤ c.toNat ∧ c.toNat ≤ 122) || decide (65 ≤ c.toNat ∧ c.toNat ≤ 90) || c == 95 ||
    decide (48 ≤ c.toNat ∧ c.toNat ≤ 57)
def toLower (c : UInt8) : UInt8 :=
  if 65 ≤ c.toNat ∧ c.toNat ≤ 90 then UInt8.ofNat (c.toNat + 32) else c

/-! ### strings.* on byte lists -/

def hasPrefix (s p : Bytes) : Bool := p.isPrefixOf s

/-- `strings.Index` -/
def index (sub : Bytes) : Bytes → Option Nat
  | [] => if sub.isEmpty then some 0 else none
  | c :: rest =>
    if sub.isPrefixOf (c :: rest) then some 0
    else (index sub rest).map (· + 1)

def contains (s sub : Bytes) : Bool := (index sub s).isSome

/-- `strings.IndexByte` -/
def indexByte (s : Bytes) (c : UInt8) : Option Nat := s.findIdx? (· == c)

/-- `strings.LastIndexByte` -/
def lastIndexByte (s : Bytes) (c : UInt8) : Option Nat :=
  (s.reverse.findIdx? (· == c)).map (fun i => s.length - 1 - i)

/-! ### common.go -/

def firstNonSpaceIndex (s : Bytes) : Option Nat := s.findIdx? (fun c => !isSpace c)
def containsOnlySpaces (s : Bytes) : Bool := (firstNonSpaceIndex s).isNone
def containsOnlyDigits (s : Bytes) : Bool := s.all isDigit

/-- `s[i:]` after skipping leading spaces; none when there is nothing but spaces -/
def trimLeft (s : Bytes) : Option Bytes := (firstNonSpaceIndex s).map (s.drop ·)

/-! ### go_panic.go -/

def goPanicStartCheck (s : Bytes) : Bool :=
  hasPrefix s (str "panic:") || hasPrefix s (str "fatal error:") || contains s (str "http: panic serving")

def containsGoroutineID (s : Bytes) : Bool :=
  match index (str "goroutine ") s with
  | none => false
  | some i =>
    let s := s.drop (i + 10)
    match index (str " ") s with
    | none => false
    | some 0 => false                       -- found at start
    | some j => containsOnlyDigits (s.take j) && contains (s.drop j) (str " [")

def containsLineNumber (s : Bytes) : Bool :=
  match index (str ".go:") s with
  | none => false
  | some i =>
    match s[i + 4]? with                     -- i < len(s) && IsDigit(s[i])
    | none => false
    | some c => isDigit c

def containsCreatedBy (s : Bytes) : Bool :=
  match index (str "created by ") s with
  | none => false
  | some i => (indexByte (s.drop (i + 11)) 46).isSome        -- '.'

/-- `endsWithIdentifier`, scanning the REVERSED prefix: digits are skipped, a letter or
    underscore decides true, anything else (or the start of the string) false -/
def endsWithIdentifierRev : Bytes → Bool
  | [] => false
  | c :: rest =>
    if isLetterOrUnderscore c then true
    else if isDigit c then endsWithIdentifierRev rest
    else false

def containsCall (s : Bytes) : Bool :=
  match lastIndexByte s 41 with              -- ')'
  | none => false
  | some i =>
    let s := s.take i
    match lastIndexByte s 40 with            -- '('
    | none => false
    | some k =>
      -- everything left of '(' , read right to left
      let rev := (s.take k).reverse
      let ident := rev.takeWhile isLetterOrUnderscoreOrDigit
      if ident.isEmpty then false            -- left == right
      else
        match rev.drop ident.length with
        | [] => false                        -- left == -1
        | d :: rest =>
          if d != 46 then false              -- s[left] != '.'
          else
            match rest with
            | 41 :: rest' => endsWithIdentifierRev rest'   -- skip bracket if it occurred
            | _ => endsWithIdentifierRev rest

def containsPanicAddress (s : Bytes) : Bool :=
  match index (str "panic") s with
  | none => false
  | some i =>
    let s := s.drop (i + 5)
    match index (str "0x") s with
    | none => false
    | some 0 => false                        -- no chars between parts
    | some j =>
      match s.drop (j + 2) with
      | [] => false
      | c :: _ => isHexDigit c

def goPanicContinueCheck (s : Bytes) : Bool :=
  hasPrefix s (str "[signal") ||
  containsOnlySpaces s ||
  containsGoroutineID s ||
  containsLineNumber s ||
  containsCreatedBy s ||
  containsPanicAddress s ||
  contains s (str "panic:") ||
  contains s (str "<autogenerated>:") ||
  containsCall s

/-! ### cs_exception.go -/

def equalCaseInsensitive (a b : Bytes) : Bool :=
  a.length == b.length && (a.zip b).all (fun p => toLower p.1 == toLower p.2)

def sharpStartCheck (s : Bytes) : Bool :=
  match trimLeft s with
  | none => false
  | some s =>
    let sub := str "unhandled exception"
    if s.length < sub.length then false
    else equalCaseInsensitive (s.take sub.length) sub

def containsAt (s : Bytes) : Bool :=
  match trimLeft s with
  | none => false
  | some s =>
    if !hasPrefix s (str "at") then false
    else
      match s.drop 2 with
      | [] => false
      | c :: _ => isSpace c

def containsArrow (s : Bytes) : Bool :=
  match trimLeft s with
  | none => false
  | some s => hasPrefix s (str "--->")

def containsEndOf (s : Bytes) : Bool :=
  match trimLeft s with
  | none => false
  | some s =>
    let sub := str "--- End of"
    if s.length < sub.length then false
    else equalCaseInsensitive (s.take sub.length) sub

def containsException (s : Bytes) : Bool :=
  match index (str "Exception:") s with
  | none => false
  | some 0 => false                          -- found at start
  | some (i + 1) =>
    match s[i]? with
    | none => false
    | some c =>
      if c == 46 then                        -- '.'
        match i with
        | 0 => false
        | i' + 1 =>
          match s[i']? with
          | none => false
          | some d => isLetterOrUnderscoreOrDigit d
      else isLetterOrUnderscoreOrDigit c

def sharpContinueCheck (s : Bytes) : Bool :=
  containsAt s || containsArrow s || containsEndOf s || containsException s

/-! ### go_data_race.go -/

def goDataRaceStartCheck (s : Bytes) : Bool := hasPrefix s (str "WARNING: DATA RACE")
def goDataRaceFinishCheck (s : Bytes) : Bool := hasPrefix s (str "==================")

/-! ### template.go: the table -/

structure Template where
  start  : Bytes → Bool
  cont   : Bytes → Bool
  negate : Bool

def template? (name : Bytes) : Option Template :=
  if name = str "go_panic" then some ⟨goPanicStartCheck, goPanicContinueCheck, false⟩
  else if name = str "cs_exception" then some ⟨sharpStartCheck, sharpContinueCheck, false⟩
  else if name = str "go_data_race" then some ⟨goDataRaceStartCheck, goDataRaceFinishCheck, true⟩
  else none

/-- the helper tables `c15.ascii` compares: 256 answers (ToLower: the resulting byte) -/
def helperTable (name : String) : Option (List Nat) :=
  let bytes := (List.range 256).map UInt8.ofNat
  let b (f : UInt8 → Bool) := some (bytes.map (fun c => if f c then 1 else 0))
  match name with
  | "IsSpace" => b isSpace
  | "IsDigit" => b isDigit
  | "IsHexDigit" => b isHexDigit
  | "IsLowerCaseLetter" => b isLowerCaseLetter
  | "IsUpperCaseLetter" => b isUpperCaseLetter
  | "IsLetter" => b isLetter
  | "IsLetterOrUnderscore" => b isLetterOrUnderscore
  | "IsLetterOrUnderscoreOrDigit" => b isLetterOrUnderscoreOrDigit
  | "ToLower" => some (bytes.map (fun c => (toLower c).toNat))
  | _ => none

end FileD.JoinTemplates
