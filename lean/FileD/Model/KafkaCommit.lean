/-
  Model of the Kafka input's acknowledgement path (plugin/input/kafka/kafka.go, consumer.go;
  pipeline/pipeline.go streamEvent in spread mode), property C10.

  * a record is (topic index, partition, offset, leader epoch);
  * `Plugin.Commit` → `client.MarkCommitOffsets({topic: {partition: (epoch, offset+1)}})`; franz-go keeps,
    per topic/partition, the maximum w.r.t. `EpochOffset.Less` (trusted, exercised by the harness);
  * `commitPacked` is the same step on the *packed* SourceID / Offset the event really carries,
    through the regenerated `Gen.KafkaPack` functions (Props: `commit_packed_eq`);
  * the transition system spreads the records over `procs` streams (UseSpread: stream =
    stale SeqID % procCount — the stale SeqID is an arbitrary input, so the stream of a record is
    an arbitrary `sid < procs`), a processor hands the head of a stream to the output (`take`) or
    discards it (`drop`, no Commit call), the output acknowledges (`ack` → Commit → mark).
-/
import FileD.Prelude.TS
import FileD.Gen.KafkaPack
namespace FileD.KafkaCommit

structure Rec where
  topic : Int
  part : Int
  offset : Int
  epoch : Int
  deriving DecidableEq, Repr

/-- (topic index, partition) -/
abbrev TP := Int × Int
/-- franz-go `EpochOffset` as (epoch, offset) -/
abbrev EO := Int × Int

def Rec.tp (r : Rec) : TP := (r.topic, r.part)
/-- what `Plugin.Commit` marks for a record: its epoch and the offset one past it -/
def Rec.eo (r : Rec) : EO := (r.epoch, r.offset + 1)

/-- franz-go `EpochOffset.Less`: `max(e,-1)` on both epochs, then lexicographic -/
def less (a b : EO) : Bool :=
  let ae := max a.1 (-1)
  let be := max b.1 (-1)
  decide (ae < be) || (decide (ae = be) && decide (a.2 < b.2))

/-- marked head per topic/partition (franz-go `g.uncommitted[topic][partition].head`) -/
abbrev Marks := List (TP × EO)

def lookup : Marks → TP → Option EO
  | [], _ => none
  | (k, v) :: rest, tp => if k = tp then some v else lookup rest tp

/-- `MarkCommitOffsets` for one topic/partition: keep the maximum -/
def mark : Marks → TP → EO → Marks
  | [], tp, eo => [(tp, eo)]
  | (k, v) :: rest, tp, eo =>
    if k = tp then (k, if less v eo then eo else v) :: rest else (k, v) :: mark rest tp eo

/-- `Plugin.Commit` at record level -/
def commit (m : Marks) (r : Rec) : Marks := mark m r.tp r.eo

/-- `Plugin.Commit` on the packed values carried by the event (what the Go code does):
    `disassembleSourceID`, `disassembleOffset`, then mark. -/
def commitPacked (m : Marks) (sourceID offset : BitVec 64) : Marks :=
  let ip := Gen.KafkaPack.disassembleSourceID sourceID
  let eo := Gen.KafkaPack.disassembleOffset offset
  mark m (ip.1.toInt, ip.2.toInt) (eo.Epoch.toInt, eo.Offset.toInt)

/-- the packed values `pconsumer.consume` hands to `controller.In` for a record -/
def packSourceID (r : Rec) : BitVec 64 :=
  Gen.KafkaPack.assembleSourceID (BitVec.ofInt 64 r.topic) (BitVec.ofInt 32 r.part)

def packOffset (r : Rec) : BitVec 64 :=
  Gen.KafkaPack.assembleOffset
    { Partition := BitVec.ofInt 32 r.part, ProducerEpoch := 0, ProducerID := 0,
      LeaderEpoch := BitVec.ofInt 32 r.epoch, Offset := BitVec.ofInt 64 r.offset }

/-! ### topic ids (Plugin.Start) and their resolution (Plugin.Commit)

`Start`: `for i, topic := range Topics { idByTopic[topic] = i }` — a topic listed more than once
keeps its LAST position. `Assigned` gives that id to the partition's consume loop, which packs it
into the source id. `Commit`: `Topics[index]` — the position in the raw list. Topics are named by
an `Int` here (the harness' name id); the list may contain duplicates. -/

/-- `idByTopic[name]` after Start's loop over `topics` (positions counted from `i`) -/
def topicIDFrom (i : Nat) : List Int → Int → Option Nat
  | [], _ => none
  | t :: ts, name =>
    match topicIDFrom (i + 1) ts name with
    | some j => some j
    | none => if t = name then some i else none

def topicID (topics : List Int) (name : Int) : Option Nat := topicIDFrom 0 topics name

/-- `Topics[index]` (`none` = index out of range, a Go panic) -/
def topicAt (topics : List Int) (idx : Int) : Option Int :=
  if idx < 0 then none else topics[idx.toNat]?

/-- what the consume loop of a started plugin hands to `In` for a record of topic `r.topic` -/
def startedSourceID (topics : List Int) (r : Rec) : Option (BitVec 64) :=
  match topicID topics r.topic with
  | none => none
  | some id => some (Gen.KafkaPack.assembleSourceID (BitVec.ofInt 64 (Int.ofNat id)) (BitVec.ofInt 32 r.part))

/-- `Commit` of a started plugin on the packed values: the mark goes to the topic NAME that
    `Topics[index]` resolves to. `none` = panic. -/
def commitStarted (topics : List Int) (m : Marks) (sourceID offset : BitVec 64) : Option Marks :=
  let ip := Gen.KafkaPack.disassembleSourceID sourceID
  let eo := Gen.KafkaPack.disassembleOffset offset
  (topicAt topics ip.1.toInt).map fun name =>
    mark m (name, ip.2.toInt) (eo.Epoch.toInt, eo.Offset.toInt)

/-- marks after each commit of a sequence (direct harness: `c10.marks`) -/
def commitSeq : Marks → List Rec → List Marks
  | _, [] => []
  | m, r :: rs => commit m r :: commitSeq (commit m r) rs

/-! ### transition system -/

structure Cfg where
  /-- processor count = number of streams in spread mode -/
  procs : Nat
  /-- the output acknowledges in the order it received the events (one batch worker / in-order batcher) -/
  fifo : Bool
  deriving Repr

structure State where
  /-- consumed records, in consumption order; a record is named by its position -/
  recs : List Rec
  /-- per stream: queued record indices, head = oldest -/
  streams : List (List Nat)
  /-- handed to the output and not yet acknowledged, in `Out` order -/
  inflight : List Nat
  /-- acknowledged by the output or deliberately dropped -/
  finished : List Nat
  /-- acknowledged by the output (⊆ finished) -/
  acked : List Nat
  marks : Marks
  deriving Repr

inductive Op
  | consume (r : Rec) (sid : Nat)
  | take (i : Nat)
  | drop (i : Nat)
  | ack (i : Nat)
  deriving Repr

def init (c : Cfg) : State :=
  { recs := [], streams := List.replicate c.procs [], inflight := [], finished := [], acked := [], marks := [] }

/-- broker guarantee (assumed): within a topic/partition offsets are consumed in strictly
    increasing order -/
def fresh (recs : List Rec) (r : Rec) : Bool :=
  recs.all fun q => !(decide (q.tp = r.tp)) || decide (q.offset < r.offset)

/-- append record index `i` to stream `sid` -/
def pushAt : List (List Nat) → Nat → Nat → List (List Nat)
  | [], _, _ => []
  | q :: qs, 0, i => (q ++ [i]) :: qs
  | q :: qs, sid + 1, i => q :: pushAt qs sid i

/-- remove `i` from the stream whose head it is (`none`: `i` is not the head of any stream) -/
def popHead : List (List Nat) → Nat → Option (List (List Nat))
  | [], _ => none
  | [] :: qs, i => (popHead qs i).map ([] :: ·)
  | (h :: t) :: qs, i => if h = i then some (t :: qs) else (popHead qs i).map ((h :: t) :: ·)

def step? (c : Cfg) (s : State) : Op → Option State
  | .consume r sid =>
    if sid < c.procs ∧ fresh s.recs r = true then
      some { s with recs := s.recs ++ [r], streams := pushAt s.streams sid s.recs.length }
    else none
  | .take i =>
    match popHead s.streams i with
    | some st => some { s with streams := st, inflight := s.inflight ++ [i] }
    | none => none
  | .drop i =>
    match popHead s.streams i with
    | some st => some { s with streams := st, finished := i :: s.finished }
    | none => none
  | .ack i =>
    if i ∈ s.inflight ∧ (c.fifo = true → s.inflight.head? = some i) then
      match s.recs[i]? with
      | some r => some { s with inflight := s.inflight.erase i, finished := i :: s.finished,
                                acked := i :: s.acked, marks := commit s.marks r }
      | none => none
    else none

abbrev run (c : Cfg) := TS.run (step? c)

end FileD.KafkaCommit
