/-
  Model of /repo/pipeline/stream.go + streamer.go as a transition system whose ops are the
  trace points of the code (verifTrace / verifGate call sites, all inside the lock that serialises
  the step) plus the two places where a goroutine goes to sleep:

    put s off seq       stream.put           (s.mu)        seq = ++currentSeq
    charge s            streamer.makeCharged (chargedMu; still inside the s.mu section that caused it)
    pop p s             joinStream pops the top of `charged`                (chargedMu)
    park p              joinStream finds `charged` empty: chargedCond.Wait  (chargedMu)
    attach p s          stream.attach                                        (s.mu)
    get p s off seq k   stream.get via instantGet / blockGet; k = 1 for a time-out event (s.mu)
    leave p s           instantGet on an empty stream: stream.leave          (s.mu)
    detach s            tryDetach succeeded (awaySeq = commitSeq)           (same s.mu section)
    commit s seq        stream.commit, seq ≥ commitSeq                       (s.mu)
    stale s seq         stream.commit early return (`SeqID < commitSeq`)    (s.mu)
    bwait p s           blockGet finds the stream empty: makeBlocked + cond.Wait (s.mu)
    timeout s           tryUnblock injects a time-out event                   (s.mu)

  A Go critical section that emits several trace points is several ops chained by `pend`
  (what the section still has to do); while `pend ≠ none` nothing else may touch the stream,
  exactly as s.mu guarantees. Core Lean only.
-/
namespace FileD.Stream

structure Ev where
  off : Nat
  seq : Nat
  timeout : Bool := false
  deriving DecidableEq, Repr, Inhabited

/-- rest of the running s.mu critical section -/
inductive Pend
  | none
  | charge      -- makeCharged(s) is due (put on an empty unowned stream / tryDetach with events left)
  | detach      -- tryDetach is running and awaySeq = commitSeq
  deriving DecidableEq, Repr, Inhabited

structure S1 where
  q : List Ev := []            -- first … last
  cur : Nat := 0               -- currentSeq
  away : Nat := 0              -- awaySeq
  commit : Nat := 0            -- commitSeq
  attached : Bool := false     -- isAttached
  detaching : Bool := false    -- isDetaching
  popper : Option Nat := none  -- the processor between joinStream's pop and stream.attach  [st.join gate]
  owner : Option Nat := none   -- the processor that attached and has not left (dischargeStream)
  waiting : Bool := false      -- the owner sits in blockGet's cond.Wait, not signalled (stream ∈ streamer.blocked)
  notified : Bool := false     -- … signalled by put / time-out, has not re-run yet
  pend : Pend := .none
  inflight : List Nat := []    -- seqs taken by get and not yet committed (history)
  len : Int := 0               -- stream.len, literally: put ++, get -- (also for a time-out event),
                               -- tryUnblock installs its time-out event WITHOUT touching it
  tmos : Nat := 0              -- ghost: time-out events taken so far
  deriving DecidableEq, Repr, Inhabited

/-- number of regular (put) events in a queue -/
def regCount (q : List Ev) : Nat := q.countP (fun e => !e.timeout)

/-- processor (goroutine running processor.process); which stream a busy processor popped / owns is
    recorded in that stream (`popper`, `owner`) — one source of truth -/
inductive PPc
  | idle      -- outside joinStream (before the call, or after it left its stream)
  | parked    -- in chargedCond.Wait
  | woken     -- signalled, re-checks `len(charged)`
  | busy      -- popped a stream / owns it
  deriving DecidableEq, Repr, Inhabited

structure St where
  streams : List S1 := []
  charged : List Nat := []     -- bottom … top (joinStream pops the last)
  parkedQ : List Nat := []     -- chargedCond notify list, oldest first
  procs : List PPc := []
  panicked : Bool := false     -- a logger.Panicf of attach / get / leave / blockGet was reached
  toPanic : Bool := false      -- tryUnblock's "why events are different?" Panicf was reached
  deriving DecidableEq, Repr

inductive Op
  | put (s off seq : Nat)
  | charge (s : Nat)
  | pop (p s : Nat)
  | park (p : Nat)
  | attach (p s : Nat)
  | get (p s off seq : Nat) (k : Bool)
  | leave (p s : Nat)
  | detach (s : Nat)
  | commit (s seq : Nat)
  | stale (s seq : Nat)
  | bwait (p s : Nat)
  | timeout (s : Nat)
  deriving DecidableEq, Repr

def init (nstreams nprocs : Nat) : St :=
  { streams := List.replicate nstreams {}, procs := List.replicate nprocs .idle }

def setS (st : St) (s : Nat) (x : S1) : St := { st with streams := st.streams.set s x }
def setP (st : St) (p : Nat) (pc : PPc) : St := { st with procs := st.procs.set p pc }

/-- cond.Signal() on the stream's condition variable: the blocked owner will re-run -/
def signalOwner (x : S1) : S1 :=
  if x.waiting then { x with waiting := false, notified := true } else x

/-- stream.tryDetach's test, run at the end of `leave` and of `commit` while detaching -/
def detachDue (x : S1) : Pend := if x.away = x.commit then .detach else .none

def canJoin (pc : PPc) : Bool := pc == .idle || pc == .woken

/-! the effect of each step on the stream record it touches -/
namespace S1
def put (x : S1) (off seq : Nat) : S1 :=
  let x' := { x with cur := seq, q := x.q ++ [{ off := off, seq := seq }], len := x.len + 1 }
  if x.q = [] then signalOwner { x' with pend := if x.attached then .none else .charge } else x'
def charge (x : S1) : S1 := { x with pend := .none }
def pop (x : S1) (p : Nat) : S1 := { x with popper := some p }
def attach (x : S1) (p : Nat) : S1 := { x with attached := true, popper := none, owner := some p }
def get (x : S1) (e : Ev) (rest : List Ev) : S1 :=
  { x with q := rest, away := e.seq, notified := false,
           inflight := if e.timeout then x.inflight else x.inflight ++ [e.seq],
           len := x.len - 1, tmos := if e.timeout then x.tmos + 1 else x.tmos }
def leave (x : S1) : S1 :=
  let x' := { x with detaching := true, owner := none }
  { x' with pend := detachDue x' }
def detach (x : S1) : S1 :=
  { x with attached := false, detaching := false, pend := if x.q = [] then .none else .charge }
def doCommit (x : S1) (seq : Nat) : S1 :=
  let x' := { x with commit := seq, inflight := x.inflight.erase seq }
  { x' with pend := if x'.detaching then detachDue x' else .none }
def stale (x : S1) (seq : Nat) : S1 := { x with inflight := x.inflight.erase seq }
def bwait (x : S1) : S1 := { x with waiting := true, notified := false }
def timeout (x : S1) : S1 :=
  signalOwner { x with q := [{ off := 0, seq := x.commit, timeout := true }] }
end S1

def step? (st : St) : Op → Option St
  | .put s off seq =>
    match st.streams[s]? with
    | some x => if x.pend = .none ∧ seq = x.cur + 1 then some (setS st s (x.put off seq)) else none
    | none => none
  | .charge s =>
    match st.streams[s]? with
    | some x =>
      if x.pend = .charge then
        let st' := setS { st with charged := st.charged ++ [s] } s x.charge
        -- chargedCond.Signal(): the oldest waiter is notified
        match st.parkedQ with
        | [] => some st'
        | p :: rest => some (setP { st' with parkedQ := rest } p .woken)
      else none
    | none => none
  | .pop p s =>
    match st.procs[p]?, st.streams[s]? with
    | some pc, some x =>
      if canJoin pc ∧ st.charged.getLast? = some s then
        some (setP (setS { st with charged := st.charged.dropLast } s (x.pop p)) p .busy)
      else none
    | _, _ => none
  | .park p =>
    match st.procs[p]? with
    | some pc =>
      if canJoin pc ∧ st.charged = [] then
        some (setP { st with parkedQ := st.parkedQ ++ [p] } p .parked)
      else none
    | none => none
  | .attach p s =>
    match st.streams[s]? with
    | some x =>
      if x.popper = some p ∧ x.pend = .none then
        if x.attached ∨ x.detaching ∨ x.q = [] then some { st with panicked := true }
        else some (setS st s (x.attach p))
      else none
    | none => none
  | .get p s off seq k =>
    match st.streams[s]? with
    | some x =>
      if x.pend = .none ∧ x.owner = some p ∧ x.waiting = false then
        match x.q with
        | [] => none
        | e :: rest =>
          if e.off = off ∧ e.seq = seq ∧ e.timeout = k then
            if x.attached = false ∨ x.detaching then some { st with panicked := true }
            else some (setS st s (x.get e rest))
          else none
      else none
    | none => none
  | .leave p s =>
    match st.streams[s]? with
    | some x =>
      if x.pend = .none ∧ x.owner = some p ∧ x.waiting = false ∧ x.q = [] ∧ st.procs[p]? = some .busy then
        if x.detaching ∨ x.attached = false then some { st with panicked := true }
        else some (setP (setS st s x.leave) p .idle)
      else none
    | none => none
  | .detach s =>
    match st.streams[s]? with
    | some x => if x.pend = .detach then some (setS st s x.detach) else none
    | none => none
  | .commit s seq =>
    match st.streams[s]? with
    | some x =>
      if x.pend = .none ∧ seq ∈ x.inflight ∧ x.commit ≤ seq then some (setS st s (x.doCommit seq)) else none
    | none => none
  | .stale s seq =>
    match st.streams[s]? with
    | some x =>
      if x.pend = .none ∧ seq ∈ x.inflight ∧ seq < x.commit then some (setS st s (x.stale seq)) else none
    | none => none
  | .bwait p s =>
    match st.streams[s]? with
    | some x =>
      if x.pend = .none ∧ x.owner = some p ∧ x.waiting = false ∧ x.q = [] then
        if x.attached = false then some { st with panicked := true }
        else some (setS st s x.bwait)
      else none
    | none => none
  | .timeout s =>
    match st.streams[s]? with
    | some x =>
      if x.pend = .none ∧ (x.waiting ∨ x.notified) ∧ x.q = [] then
        if x.away ≠ x.commit then some { st with toPanic := true }
        else some (setS st s x.timeout)
      else none
    | none => none

/-- a variant of `makeCharged` that signals only when `charged` was empty before the append
    ("processors sleep only while nothing is charged") — NOT what /repo does; kept to show what the
    unconditional Signal is needed for (Props/C04 `signal_only_when_empty_counterexample`) -/
def chargeIfEmpty (st : St) (s : Nat) : Option St :=
  match st.streams[s]? with
  | some x =>
    if x.pend = .charge then
      let st' := setS { st with charged := st.charged ++ [s] } s x.charge
      match st.charged, st.parkedQ with
      | [], p :: rest => some (setP { st' with parkedQ := rest } p .woken)
      | _, _ => some st'
    else none
  | none => none

def stepIfEmpty? (st : St) : Op → Option St
  | .charge s => chargeIfEmpty st s
  | op => step? st op

end FileD.Stream
