/-
  Model of pipeline/batch.go (Batcher) as a labelled transition system (DESIGN §C08).

  One `Op` per goroutine-visible atomic step:

    add e t0 now   Batcher.Add up to and including `batch.updateStatus()` (b.mu taken; when the batch is
                   not ready the op also covers `b.mu.Unlock(); return`, otherwise b.mu stays held:
                   `locked = true`)
    heartbeat t0 now  one iteration of Batcher.heartbeat, same shape without `append`
    sealB          the rest of trySendBatchAndUnlock for a ready batch: `batch.seq = b.outSeq;
                   b.outSeq++; b.batch = nil` and `b.mu.Unlock()`; in the shape `enqueueLocked = true`
                   (send before Unlock — the repaired code) it also performs `b.fullBatches <- batch`
    enqueue k      `b.fullBatches <- batch` executed after the Unlock (the original shape,
                   `enqueueLocked = false`): a send on a closed channel panics
    sendStart k    a worker took batch k from fullBatches and calls OutFn (only if hasIterableEvents)
    sendDone k keep  OutFn returned; `keep = false`: OutFn reset the batch and set
                   BatchStatusInDeadQueue (RetriableBatcher with a dead queue, §C09)
    commit k       the critical section of commitBatch after the `commitSeq != batchSeq` wait
    stop           the critical section of Batcher.Stop (shouldStop = true; close(fullBatches))

  Time is logical. The code reads the clock twice inside such a step: `t0` is what `time.Now()`
  returns in `reset()` (only used when getBatch takes a batch from freeBatches), `now` is what it
  returns in `updateStatus`; `Cur.start` is the
  `startTime` set by `reset()` in getBatch.
  Core Lean only (linked into fdmodel).
-/
namespace FileD.Batcher

inductive Kind | regular | child | childParent
deriving DecidableEq, Repr, Inhabited

structure Ev where
  id : Nat
  size : Nat
  kind : Kind
deriving DecidableEq, Repr

/-- BatchStatus of batch.go (numeric values 0..3 in `Status.toNat`) -/
inductive Status | notReady | maxSize | timeout | inDeadQueue
deriving DecidableEq, Repr

def Status.toNat : Status → Nat
  | .notReady => 0 | .maxSize => 1 | .timeout => 2 | .inDeadQueue => 3

structure Cfg where
  workers : Nat
  maxCount : Nat
  maxBytes : Nat
  timeout : Nat
  /-- `true`: the channel send happens before `mu.Unlock()` (repaired code);
      `false`: Unlock first, then send (the code as found) -/
  enqueueLocked : Bool := true
deriving Repr

/-- the batch being filled (`b.batch`), fields of `Batch` that matter -/
structure Cur where
  evs : List Ev := []
  size : Nat := 0              -- eventsSize
  iter : Bool := false         -- hasIterableEvents
  start : Nat := 0             -- startTime
  status : Status := .notReady
deriving Repr

/-- `Batch.append` -/
def Cur.append (b : Cur) (e : Ev) : Cur :=
  { b with iter := b.iter || (e.kind != .childParent), evs := b.evs ++ [e], size := b.size + e.size }

/-- the value computed by `Batch.updateStatus`, clause by clause -/
def readiness (c : Cfg) (b : Cur) (now : Nat) : Status :=
  let l := b.evs.length
  if l = 0 then .notReady
  else if (c.maxCount ≠ 0 ∧ l ≥ c.maxCount) ∨ (c.maxBytes ≠ 0 ∧ c.maxBytes ≤ b.size) then .maxSize
  else if l > 0 ∧ now - b.start > c.timeout then .timeout
  else .notReady

/-- `Batch.updateStatus`: an empty batch returns NotReady without touching `status` -/
def Cur.updateStatus (c : Cfg) (b : Cur) (now : Nat) : Cur :=
  if b.evs.length = 0 then b else { b with status := readiness c b now }

/-- a sealed batch (has its sequence number), until it is committed -/
structure Batch where
  seq : Nat
  evs : List Ev
  status : Status
  iter : Bool
  queued : Bool                -- is in fullBatches / with a worker
  started : Bool := false      -- OutFn entered
  sent : Bool := false         -- OutFn returned
  reset : Bool := false        -- OutFn reset it (dead-queue hand-over): it commits nothing
deriving Repr

/-- `Batch.ForEach`: parents of split events are skipped -/
def forEach (evs : List Ev) : List Ev := evs.filter (fun e => e.kind != .childParent)

structure State where
  cur : Option Cur := none
  locked : Bool := false       -- b.mu held by an Add / heartbeat whose batch is ready
  outSeq : Nat := 0
  commitSeq : Nat := 0
  full : List Batch := []      -- sealed, uncommitted, in seq order
  free : Nat                   -- len(freeBatches)
  stopped : Bool := false
  panicked : Bool := false     -- "send on closed channel"
  added : List Ev := []        -- history: events appended to a batch
  resolved : List (Ev × Bool) := []  -- history: events of committed batches; flag = committed here
  committed : List Ev := []    -- history: Controller.Commit calls
deriving Repr

def init (c : Cfg) : State := { free := c.workers }

inductive Op
  | add (e : Ev) (t0 now : Nat)
  | heartbeat (t0 now : Nat)
  | sealB
  | enqueue (k : Nat)
  | sendStart (k : Nat)
  | sendDone (k : Nat) (keep : Bool)
  | commit (k : Nat)
  | stop
deriving Repr

/-- `getBatch`: blocks (step not enabled) while no batch is free -/
def getBatch (s : State) (now : Nat) : Option (Cur × Nat) :=
  match s.cur with
  | some b => some (b, s.free)
  | none => if s.free = 0 then none else some ({ start := now }, s.free - 1)

def updBatch (k : Nat) (f : Batch → Batch) : List Batch → List Batch
  | [] => []
  | b :: bs => if b.seq = k then f b :: bs else b :: updBatch k f bs

def findBatch (k : Nat) : List Batch → Option Batch
  | [] => none
  | b :: bs => if b.seq = k then some b else findBatch k bs

/-- after `updateStatus`: NotReady → `mu.Unlock(); return`, else continue holding the lock -/
def afterStatus (c : Cfg) (s : State) (b : Cur) (free : Nat) (now : Nat) : State :=
  let b' := b.updateStatus c now
  { s with cur := some b', free := free, locked := readiness c b now != .notReady }

def step? (c : Cfg) (s : State) : Op → Option State
  | .add e t0 now =>
    if s.locked then none else
    if s.stopped then some s else
    match getBatch s t0 with
    | none => none
    | some (b, free) =>
      some (afterStatus c { s with added := s.added ++ [e] } (b.append e) free now)
  | .heartbeat t0 now =>
    if s.locked then none else
    if s.stopped then some s else
    match getBatch s t0 with
    | none => none
    | some (b, free) => some (afterStatus c s b free now)
  | .sealB =>
    if !s.locked then none else
    match s.cur with
    | none => none
    | some b =>
      some { s with
        full := s.full ++ [{ seq := s.outSeq, evs := b.evs, status := b.status, iter := b.iter,
                             queued := c.enqueueLocked }],
        outSeq := s.outSeq + 1, cur := none, locked := false }
  | .enqueue k =>
    match findBatch k s.full with
    | none => none
    | some b =>
      if b.queued then none else
      if s.stopped then some { s with panicked := true }
      else some { s with full := updBatch k (fun b => { b with queued := true }) s.full }
  | .sendStart k =>
    match findBatch k s.full with
    | none => none
    | some b =>
      if b.queued && b.iter && !b.started then
        some { s with full := updBatch k (fun b => { b with started := true }) s.full }
      else none
  | .sendDone k keep =>
    match findBatch k s.full with
    | none => none
    | some b =>
      if b.started && !b.sent then
        some { s with full := updBatch k (fun b =>
          if keep then { b with sent := true }
          else { b with sent := true, reset := true, status := .inDeadQueue }) s.full }
      else none
  | .commit k =>
    match s.full with
    | [] => none
    | b :: bs =>
      if b.seq = k ∧ k = s.commitSeq ∧ b.queued = true ∧ (b.iter = true → b.sent = true) then
        some { s with
          full := bs, commitSeq := s.commitSeq + 1, free := s.free + 1,
          resolved := s.resolved ++ b.evs.map (fun e => (e, !b.reset)),
          committed := s.committed ++ (if b.reset then [] else b.evs) }
      else none
  | .stop =>
    if s.locked then none else
    some { s with stopped := true }

end FileD.Batcher
