/-
  Lock order between stream.mu and streamer.blockedMu (pipeline/stream.go blockGet / put / tryUnblock,
  pipeline/streamer.go makeBlocked / resetBlocked / heartbeat), for one stream: its owner looping in
  blockGet, the heartbeat goroutine, one putter. A program counter names the NEXT lock operation; the
  locks a thread holds are a function of its program counter.

    owner (blockGet):  s.mu.Lock → makeBlocked{blockedMu.Lock … Unlock} → cond.Wait (releases s.mu) →
                       (signalled) re-lock s.mu → resetBlocked{blockedMu.Lock … Unlock} → s.mu.Unlock
    putter (put):      s.mu.Lock → Signal → s.mu.Unlock
    heartbeat, as in /repo (`walk = false`): blockedMu.Lock → copy blocked → blockedMu.Unlock →
                       for each copied stream: tryUnblock{s.mu.Lock … Unlock}
    heartbeat, walking the list under the lock (`walk = true`, NOT what /repo does):
                       blockedMu.Lock → for each blocked stream: tryUnblock{s.mu.Lock … Unlock} → blockedMu.Unlock
  Core Lean only.
-/
namespace FileD.LockOrder

inductive Tid | owner | hb | putter
  deriving DecidableEq, Repr
inductive Lock | S | B     -- stream.mu, streamer.blockedMu
  deriving DecidableEq, Repr

/-- owner of the stream, inside blockGet -/
inductive OPc
  | lockS      -- s.mu.Lock()
  | lockBm     -- holds S; makeBlocked: blockedMu.Lock()
  | unlockBm   -- holds S, B; blocked = append(blocked, s); blockedMu.Unlock()
  | wait       -- holds S; cond.Wait(): unlock S and sleep
  | parked     -- asleep, holds nothing
  | relockS    -- signalled; cond.Wait re-locks S
  | lockBr     -- holds S; resetBlocked: blockedMu.Lock()
  | unlockBr   -- holds S, B; remove s from blocked; blockedMu.Unlock()
  | unlockS    -- holds S; get(); s.mu.Unlock()
  deriving DecidableEq, Repr

inductive HPc
  | lockB      -- blockedMu.Lock()
  | copied     -- holds B: copy (walk = false) or start of the walk (walk = true)
  | lockS      -- walk = false: holds nothing; tryUnblock: s.mu.Lock()
  | unlockS    -- walk = false: holds S; s.mu.Unlock()
  | lockSB     -- walk = true: holds B; tryUnblock: s.mu.Lock()
  | unlockSB   -- walk = true: holds B, S; s.mu.Unlock()
  | unlockB    -- walk = true: holds B; blockedMu.Unlock()
  deriving DecidableEq, Repr

inductive QPc
  | lockS | unlockS
  deriving DecidableEq, Repr

structure St where
  o : OPc := .lockS
  h : HPc := .lockB
  q : QPc := .lockS
  blocked : Bool := false   -- the stream is in streamer.blocked
  deriving DecidableEq, Repr

def oHolds : OPc → Lock → Bool
  | .lockBm, .S | .unlockBm, .S | .unlockBm, .B | .wait, .S | .lockBr, .S | .unlockBr, .S | .unlockBr, .B
  | .unlockS, .S => true
  | _, _ => false
def hHolds : HPc → Lock → Bool
  | .copied, .B | .unlockS, .S | .lockSB, .B | .unlockSB, .B | .unlockSB, .S | .unlockB, .B => true
  | _, _ => false
def qHolds : QPc → Lock → Bool
  | .unlockS, .S => true
  | _, _ => false

def holds (st : St) : Tid → Lock → Bool
  | .owner, l => oHolds st.o l
  | .hb, l => hHolds st.h l
  | .putter, l => qHolds st.q l

def held (st : St) (l : Lock) : Bool := holds st .owner l || holds st .hb l || holds st .putter l

/-- the lock the thread's next operation acquires -/
def wants (st : St) : Tid → Option Lock
  | .owner => match st.o with
    | .lockS | .relockS => some .S
    | .lockBm | .lockBr => some .B
    | _ => none
  | .hb => match st.h with
    | .lockB => some .B
    | .lockS | .lockSB => some .S
    | _ => none
  | .putter => match st.q with
    | .lockS => some .S
    | .unlockS => none

/-- one step of a thread; `none` while the lock it needs is taken (or the owner sleeps) -/
def step? (walk : Bool) (st : St) : Tid → Option St
  | .owner => match st.o with
    | .lockS => if held st .S then none else some { st with o := .lockBm }
    | .lockBm => if held st .B then none else some { st with o := .unlockBm }
    | .unlockBm => some { st with o := .wait, blocked := true }
    | .wait => some { st with o := .parked }
    | .parked => none
    | .relockS => if held st .S then none else some { st with o := .lockBr }
    | .lockBr => if held st .B then none else some { st with o := .unlockBr }
    | .unlockBr => some { st with o := .unlockS, blocked := false }
    | .unlockS => some { st with o := .lockS }
  | .hb => match st.h with
    | .lockB => if held st .B then none else some { st with h := .copied }
    | .copied =>
      if walk then some { st with h := if st.blocked then .lockSB else .unlockB }
      else some { st with h := if st.blocked then .lockS else .lockB }
    | .lockS => if held st .S then none else some { st with h := .unlockS }
    | .unlockS => some { st with h := .lockB }
    | .lockSB => if held st .S then none else some { st with h := .unlockSB }
    | .unlockSB => some { st with h := .unlockB }
    | .unlockB => some { st with h := .lockB }
  | .putter => match st.q with
    | .lockS => if held st .S then none else some { st with q := .unlockS }
    | .unlockS => some { st with q := .lockS, o := if st.o = .parked then .relockS else st.o }

/-- t waits for a lock that u holds -/
def waitsFor (st : St) (t u : Tid) : Bool :=
  match wants st t with
  | some l => holds st u l
  | none => false

/-- a wait-for cycle (two locks: a cycle has two threads) -/
def waitCycle (st : St) : Bool :=
  [Tid.owner, .hb, .putter].any fun t => [Tid.owner, .hb, .putter].any fun u => t ≠ u && waitsFor st t u && waitsFor st u t

/-- mutual exclusion of both locks, and the heartbeat uses only the program counters of its variant -/
def ok (walk : Bool) (st : St) : Bool :=
  [Lock.S, .B].all (fun l =>
    !(holds st .owner l && holds st .hb l) && !(holds st .owner l && holds st .putter l)
      && !(holds st .hb l && holds st .putter l))
  && (walk || !(st.h == .lockSB || st.h == .unlockSB || st.h == .unlockB))
  && (st.blocked || !(st.o == .wait || st.o == .parked || st.o == .relockS || st.o == .lockBr || st.o == .unlockBr))

end FileD.LockOrder
