/-
  Model of the field-selection code behind keep_fields / remove_fields (C18):

    cfg/config.go               ParseFieldSelector, BuildFieldSelector, ParseNestedFields
    plugin/action/remove_fields (*Plugin).Do      : for each path  Root.Dig(path...).Suicide()
    plugin/action/keep_fields   (*Plugin).Start   : builds the fieldPathNode trie + depth buffers
                                (*Plugin).Do / traverseFieldsTree

  insane-json v0.1.9 behaviour used by that code is modelled by small functions (trusted base,
  exercised by every correspondence run):
    Dig      first field whose (unescaped) name equals the path element; an ARRAY is entered with
             strconv.Atoi(element) when 0 <= index < len; anything else -> nil
    Suicide  nil / root -> no-op; object field: owner.nodes[del] = owner.nodes[last]; nodes = nodes[:last]
             (the LAST field moves into the hole); array element: order-preserving removal
    AsFields the fields in their current order
  Core Lean only (linked into fdmodel).
-/
import FileD.Prelude.JTree
import FileD.Prelude.GoSlice
namespace FileD.Fields
open FileD

abbrev Path := List Bytes
abbrev KVs := List (Bytes × JTree)

def DOT : UInt8 := 46
def BSL : UInt8 := 92

/-! ## cfg.ParseFieldSelector -/

/-- `pos := strings.IndexByte(selector, '.')`: `(selector[:pos], selector[pos+1:])`, `none` for -1 -/
def cutDot : Bytes → Option (Bytes × Bytes)
  | [] => none
  | c :: cs =>
    if c = DOT then some ([], cs) else
    match cutDot cs with
    | none => none
    | some (a, b) => some (c :: a, b)

/-- the `for` loop of ParseFieldSelector; state = (selector, tail, result). Every iteration that
    does not break consumes at least one byte of `selector`, so `fuel = len+1` always suffices. -/
def pfsLoop : Nat → Bytes → Bytes → List Bytes → List Bytes
  | 0, _, _, res => res
  | fuel + 1, sel, tail, res =>
    match cutDot sel with
    | none =>                                   -- pos == -1: break
      if sel.length + tail.length != 0 then res ++ [tail ++ sel] else res
    | some (pre, post) =>                       -- pre = selector[:pos], post = selector[pos+1:]
      if pre.getLast? = some BSL then           -- pos > 0 && selector[pos-1] == '\\'
        pfsLoop fuel post (tail ++ pre.dropLast ++ [DOT]) res
      else
        match post with
        | c :: post' =>                         -- len(selector) > pos+1
          if c = DOT then pfsLoop fuel post' (pre ++ [DOT]) res     -- tail = selector[:pos+1]  (sic: overwrites)
          else pfsLoop fuel post [] (res ++ [tail ++ pre])
        | [] => pfsLoop fuel post [] (res ++ [tail ++ pre])

def parseFieldSelector (sel : Bytes) : Path := pfsLoop (sel.length + 1) sel [] []

/-- `strings.ReplaceAll(field, ".", "\\.")` -/
def escapeDots : Bytes → Bytes
  | [] => []
  | c :: cs => if c = DOT then BSL :: DOT :: escapeDots cs else c :: escapeDots cs

/-- cfg.BuildFieldSelector -/
def buildFieldSelector : List Bytes → Bytes
  | [] => []
  | [f] => escapeDots f
  | f :: g :: rest => escapeDots f ++ DOT :: buildFieldSelector (g :: rest)

/-! ## cfg.ParseNestedFields -/

inductive CfgErr | emptyList | emptyPath
deriving Repr, DecidableEq

/-- first loop: parse every selector, error on an empty path -/
def parsePathsLoop : List Bytes → Except CfgErr (List Path)
  | [] => .ok []
  | f :: fs =>
    let path := parseFieldSelector f
    if path.isEmpty then .error .emptyPath else
    match parsePathsLoop fs with
    | .error e => .error e
    | .ok ps => .ok (path :: ps)

def parsePaths (fields : List Bytes) : Except CfgErr (List Path) :=
  if fields.isEmpty then .error .emptyList else parsePathsLoop fields

/-- `slices.Equal(shortPath, longPath[:len(shortPath)])` for some earlier `shortPath`.
    (`longPath[:len(shortPath)]` cannot panic: earlier paths are not longer, the list is sorted by length —
    every use below carries that hypothesis.) -/
def covered (seen : List Path) (long : Path) : Bool :=
  seen.any (fun short => short == long.take short.length)

/-- second loop over the paths *after* `sort.Slice(paths, len(paths[i]) < len(paths[j]))`;
    `seen` = `paths[:i]` -/
def dedupeLoop : List Path → List Path → List Path
  | _, [] => []
  | seen, p :: rest =>
    if covered seen p then dedupeLoop (seen ++ [p]) rest
    else p :: dedupeLoop (seen ++ [p]) rest

def dedupe (sorted : List Path) : List Path := dedupeLoop [] sorted

/-- what `sort.Slice` is allowed to return: a rearrangement with non-decreasing lengths
    (sort.Slice is not stable; the permutation it picked is an oracle parameter of the model) -/
def sortedLen : List Path → Bool
  | [] => true
  | [_] => true
  | a :: b :: r => decide (a.length ≤ b.length) && sortedLen (b :: r)

/-- stable insertion sort by length: one admissible `sort.Slice` result (what Go does for n ≤ 12) -/
def insertLen (p : Path) : List Path → List Path
  | [] => [p]
  | q :: r => if p.length < q.length then p :: q :: r else q :: insertLen p r
def sortLen : List Path → List Path
  | [] => []
  | p :: r => insertLen p (sortLen r)

/-! ## insane-json pieces -/

def findKey (k : Bytes) : KVs → Option Nat
  | [] => none
  | (k', _) :: r => if k' = k then some 0 else (findKey k r).map (· + 1)

/-- value of the first field named `k` (Dig on one element of an object) -/
def lookup (k : Bytes) : KVs → Option JTree
  | [] => none
  | (k', v) :: r => if k' = k then some v else lookup k r

/-- replace the value of the first field named `k` -/
def setKey (k : Bytes) (nv : JTree) : KVs → KVs
  | [] => []
  | (k', v) :: r => if k' = k then (k', nv) :: r else (k', v) :: setKey k nv r

/-- `owner.nodes[del] = owner.nodes[last]; owner.nodes = owner.nodes[:last]` -/
def swapRemoveIdx {α} (i : Nat) (l : List α) : List α :=
  match l.getLast? with
  | none => l
  | some last => (l.set i last).dropLast

/-- `obj.Dig(k).Suicide()` on the field list of `obj` -/
def swapRemoveKey (k : Bytes) (kvs : KVs) : KVs :=
  match findKey k kvs with
  | none => kvs
  | some i => swapRemoveIdx i kvs

def isDigit (c : UInt8) : Bool := 48 ≤ c && c ≤ 57

def digitsVal : Bytes → Nat → Option Nat
  | [], acc => some acc
  | c :: cs, acc => if isDigit c then digitsVal cs (acc * 10 + (c.toNat - 48)) else none

/-- `strconv.Atoi` restricted to what Dig needs: `some i` iff Atoi succeeds with `0 ≤ i < len`.
    (optional sign, at least one digit, digits only; an int64 overflow is an Atoi error in Go and an
    out-of-range index here — both give nil) -/
def atoiIdx (s : Bytes) (len : Nat) : Option Nat :=
  let body : Option (Bool × Bytes) :=
    match s with
    | 43 :: r => some (false, r)
    | 45 :: r => some (true, r)
    | _ => some (false, s)
  match body with
  | none => none
  | some (neg, ds) =>
    if ds.isEmpty then none else
    match digitsVal ds 0 with
    | none => none
    | some v =>
      if neg && v != 0 then none
      else if v < len then some v else none

/-! ## remove_fields -/

/-- `root.Dig(path...).Suicide()` as a function on the tree.
    Empty path: Dig returns the receiver, Suicide on a node without parent does nothing. -/
def removeAt : JTree → Path → JTree
  | t, [] => t
  | .obj kvs, k :: r =>
    match lookup k kvs with
    | none => .obj kvs
    | some v =>
      match r with
      | [] => .obj (swapRemoveKey k kvs)
      | _ :: _ => .obj (setKey k (removeAt v r) kvs)
  | .arr xs, k :: r =>
    match atoiIdx k xs.length with
    | none => .arr xs
    | some i =>
      match r with
      | [] => .arr (xs.eraseIdx i)
      | _ :: _ =>
        match xs[i]? with
        | none => .arr xs
        | some x => .arr (xs.set i (removeAt x r))
  | t, _ :: _ => t

/-- remove_fields `Do` -/
def removeFields (paths : List Path) (t : JTree) : JTree :=
  if t.isObj then paths.foldl removeAt t else t

/-! ## keep_fields -/

/-- `fieldPathNode{children map[string]fieldPathNode}`; the map is an association list with unique
    keys (only lookups and `len` are used by the code, never iteration) -/
inductive FP
  | node (children : List (Bytes × FP))
deriving Repr, Inhabited

def FP.children : FP → List (Bytes × FP)
  | .node c => c

def FP.isLeaf (n : FP) : Bool := n.children.isEmpty

def fpLookup (k : Bytes) : List (Bytes × FP) → Option FP
  | [] => none
  | (k', c) :: r => if k' = k then some c else fpLookup k r

def fpSet (k : Bytes) (n : FP) : List (Bytes × FP) → List (Bytes × FP)
  | [] => []
  | (k', c) :: r => if k' = k then (k', n) :: r else (k', c) :: fpSet k n r

/-- inner loop of Start: walk / create one node per path element -/
def FP.insert : FP → Path → FP
  | n, [] => n
  | .node ch, k :: r =>
    match fpLookup k ch with
    | some c => .node (fpSet k (FP.insert c r) ch)
    | none => .node (ch ++ [(k, FP.insert (.node []) r)])

def buildTrie (paths : List Path) : FP := paths.foldl FP.insert (.node [])

def maxDepth : List Path → Nat
  | [] => 0
  | p :: r => max (maxDepth r) p.length

/-- `p.fieldsDepthSlice` -/
abbrev Bufs := List (List Bytes)

def mkBufs (paths : List Path) : Bufs := List.replicate (maxDepth paths) []

/-- `p.fieldsDepthSlice[depth] = append(p.fieldsDepthSlice[depth], field)` -/
def bufPush (bufs : Bufs) (depth : Nat) (field : Bytes) : GoM Bufs :=
  match bufs[depth]? with
  | none => .error .bounds
  | some b => .ok (bufs.set depth (b ++ [field]))

/-- the delete loop: `for _, field := range buf { eventNode.Dig(field).Suicide() }` -/
def deleteAll (buf : List Bytes) (kvs : KVs) : KVs := buf.foldl (fun l f => swapRemoveKey f l) kvs

mutual
  /-- traverseFieldsTree; returns (shouldPreserveNode, the node after the call, the buffers after the call).
      The loop `for _, node := range eventNode.AsFields()` calls `eventNode.Dig(eventField)` for the
      recursion; with unique keys that is the field's own value, which is what is modelled. -/
  def trav (fp : FP) (depth : Nat) (bufs : Bufs) : JTree → GoM (Bool × JTree × Bufs)
    | .obj kvs =>
      if fp.isLeaf then .ok (true, .obj kvs, bufs) else
      match travFields fp depth bufs false kvs with
      | .error e => .error e
      | .ok (sp, kvs', bufs') =>
        match bufs'[depth]? with
        | none => .error .bounds
        | some buf =>
          let kvs'' := if depth == 0 || sp then deleteAll buf kvs' else kvs'
          .ok (sp, .obj kvs'', bufs'.set depth [])
    | .arr xs => if fp.isLeaf then .ok (true, .arr xs, bufs) else .ok (false, .arr xs, bufs)
    | .null => if fp.isLeaf then .ok (true, .null, bufs) else .ok (false, .null, bufs)
    | .bool b => if fp.isLeaf then .ok (true, .bool b, bufs) else .ok (false, .bool b, bufs)
    | .num r => if fp.isLeaf then .ok (true, .num r, bufs) else .ok (false, .num r, bufs)
    | .str s => if fp.isLeaf then .ok (true, .str s, bufs) else .ok (false, .str s, bufs)
  /-- the body of the `for` loop over the fields; `sp` = shouldPreserveNode so far -/
  def travFields (fp : FP) (depth : Nat) : Bufs → Bool → KVs → GoM (Bool × KVs × Bufs)
    | bufs, sp, [] => .ok (sp, [], bufs)
    | bufs, sp, (k, v) :: rest =>
      match fpLookup k fp.children with
      | some c =>
        if c.isLeaf then
          match travFields fp depth bufs true rest with
          | .error e => .error e
          | .ok (sp', rest', bufs') => .ok (sp', (k, v) :: rest', bufs')
        else
          match trav c (depth + 1) bufs v with
          | .error e => .error e
          | .ok (true, v', bufs1) =>
            match travFields fp depth bufs1 true rest with
            | .error e => .error e
            | .ok (sp', rest', bufs') => .ok (sp', (k, v') :: rest', bufs')
          | .ok (false, v', bufs1) =>
            match bufPush bufs1 depth k with
            | .error e => .error e
            | .ok bufs2 =>
              match travFields fp depth bufs2 sp rest with
              | .error e => .error e
              | .ok (sp', rest', bufs') => .ok (sp', (k, v') :: rest', bufs')
      | none =>
        match bufPush bufs depth k with
        | .error e => .error e
        | .ok bufs2 =>
          match travFields fp depth bufs2 sp rest with
          | .error e => .error e
          | .ok (sp', rest', bufs') => .ok (sp', (k, v) :: rest', bufs')
end

/-- keep_fields `Start` (trie + buffers from the normalised paths) and `Do` -/
def keepFields (paths : List Path) (t : JTree) : GoM JTree :=
  if t.isObj then
    match trav (buildTrie paths) 0 (mkBufs paths) t with
    | .error e => .error e
    | .ok (_, t', _) => .ok t'
  else .ok t

end FileD.Fields
