/-
  Model of `plugin/action/join/join.go` (`Plugin.Do`, `flush`, `isNextOK`) and of the
  `join_template` wrapper (`plugin/action/join_template/join_template.go`: `firstCheck`,
  `nextCheck`, `Do`), statement by statement, as ONE ACTION INSTANCE sees the world:

    input  = the sequence of `Do` calls the processor makes on this instance
             (regular events, and time-out events when the instance is busy),
    output = per call: the `ActionResult`, the events handed to `controller.Propagate`
             during the call, and the event itself after the call.

  Library calls are oracle parameters shipped per event (BUILDING.md):
    * `Start_.MatchString(value)`   → `Ev.startOK`
    * `Continue_.MatchString(value)`→ `Ev.contOK`   (before `negate` is applied)
    * template `StartCheck` / `ContinueCheck` of every configured template → `TEv.starts/conts`
    * insane-json `Dig` / `AsString` / `IsString` / `MutateToString` → `JTree.dig`, `asString`,
      `JTree.isStr`, `setPath` below (trusted base, exercised by every correspondence run).
  `logger.Panicf` is the value `.error .other`, `templates[curTemplateIdx]` is a checked index.
  The processor (who calls `Do`, what `Propagate` does downstream) is NOT part of this model.
-/
import FileD.Prelude.GoSlice
import FileD.Prelude.JTree
namespace FileD.Join
open FileD

/-- `pipeline.ActionResult` -/
inductive Res | pass | collapse | discard | hold | brk
deriving Repr, DecidableEq

def Res.tok : Res → String
  | .pass => "pass" | .collapse => "collapse" | .discard => "discard" | .hold => "hold" | .brk => "break"

/-- insane-json `Node.AsString` -/
def asString : JTree → Bytes
  | .str s => s
  | .num r => r
  | .bool true => str "true"
  | .bool false => str "false"
  | .null => str "null"
  | .arr _ => []
  | .obj _ => []

/-- apply `f` to the first value stored under `key` (the node `Dig` finds) -/
def setFirst (key : Bytes) (f : JTree → JTree) : List (Bytes × JTree) → List (Bytes × JTree)
  | [] => []
  | (k, v) :: kvs => if k = key then (k, f v) :: kvs else (k, v) :: setFirst key f kvs

/-- `root.Dig(path...).MutateTo…(new)`: replaces the node `JTree.dig` finds; no-op when absent -/
def setPath : List Bytes → JTree → JTree → JTree
  | [], _, new => new
  | k :: ks, .obj kvs, new => .obj (setFirst k (fun v => setPath ks v new) kvs)
  | _ :: _, t, _ => t

structure Cfg where
  path    : List Bytes   -- config.Field_
  maxSize : Nat          -- config.MaxEventSize (0 = unlimited)
  negate  : Bool         -- config.Negate
deriving Repr, DecidableEq

/-- a regular event as `Do` receives it -/
structure Ev where
  tag     : Nat     -- identity of `event.stream`; `Do` never looks at it
  root    : JTree
  startOK : Bool    -- oracle: Start_.MatchString(value) / FirstCheck(value)
  contOK  : Bool    -- oracle: Continue_.MatchString(value) / NextCheck(value)
deriving Repr

/-- one `Do` call -/
inductive In
  | timeout (tag : Nat)   -- event.IsTimeoutKind()
  | ev (e : Ev)
deriving Repr

/-- an event leaving the instance -/
structure OEv where
  tag  : Nat
  root : JTree
deriving Repr

structure St where
  isJoining : Bool
  initial   : Option Ev
  buff      : Bytes
deriving Repr

def St.init : St := ⟨false, none, []⟩

/-- what one `Do` call does that the rest of the pipeline can see -/
structure Out where
  res  : Res
  prop : List OEv        -- controller.Propagate calls made during the call, in order
  self : Option OEv      -- the event after the call (none for a time-out event)
deriving Repr

def Ev.out (e : Ev) : OEv := ⟨e.tag, e.root⟩

/-- `flush`: `event := p.initial; p.initial = nil; p.isJoining = false; if event == nil {Panicf};
    Dig(field).MutateToString(string(p.buff)); controller.Propagate(event)` -/
def flush (cfg : Cfg) (st : St) : GoM (St × OEv) :=
  match st.initial with
  | none => .error .other
  | some e => .ok ({ st with initial := none, isJoining := false },
                   ⟨e.tag, setPath cfg.path e.root (.str st.buff)⟩)

/-- `isNextOK` with `NextCheck == nil`: regexp result, negated when `negate` -/
def isNextOK (cfg : Cfg) (e : Ev) : Bool := if cfg.negate then !e.contOK else e.contOK

/-- flush when joining, then answer `res` for the current event -/
def flushThen (cfg : Cfg) (st : St) (res : Res) (self : OEv) (after : St → St) : GoM (St × Out) :=
  if st.isJoining then
    match flush cfg st with
    | .error p => .error p
    | .ok (st1, o) => .ok (after st1, ⟨res, [o], some self⟩)
  else .ok (after st, ⟨res, [], some self⟩)

/-- `Do` on a time-out event -/
def doTimeout (cfg : Cfg) (st : St) : GoM (St × Out) :=
  if !st.isJoining then .error .other       -- Panicf("timeout without joining, why?")
  else
    match flush cfg st with
    | .error p => .error p
    | .ok (st1, o) => .ok (st1, ⟨.discard, [o], none⟩)

/-- `buff = append(buff, value...)` guarded by `maxEventSize == 0 || len(buff) < maxEventSize` -/
def appendBuff (cfg : Cfg) (buff value : Bytes) : Bytes :=
  if cfg.maxSize == 0 || decide (buff.length < cfg.maxSize) then buff ++ value else buff

/-- `Do` on a regular event -/
def doEvent (cfg : Cfg) (st : St) (e : Ev) : GoM (St × Out) :=
  match JTree.dig e.root cfg.path with
  | none =>                                   -- node == nil
    flushThen cfg st .pass e.out id
  | some node =>
    let value := asString node
    let firstOK := node.isStr && e.startOK
    if firstOK then
      flushThen cfg st .hold e.out (fun _ => ⟨true, some e, value⟩)
    else if st.isJoining && isNextOK cfg e then
      .ok ({ st with buff := appendBuff cfg st.buff value }, ⟨.collapse, [], some e.out⟩)
    else
      flushThen cfg st .pass e.out id

def step (cfg : Cfg) (st : St) : In → GoM (St × Out)
  | .timeout _ => doTimeout cfg st
  | .ev e => doEvent cfg st e

/-- the calls answered before the first panic, and how the sequence ended -/
structure Trace where
  outs : List Out
  fin  : GoM St

def run (cfg : Cfg) : St → List In → Trace
  | st, [] => ⟨[], .ok st⟩
  | st, x :: xs =>
    match step cfg st x with
    | .error p => ⟨[], .error p⟩
    | .ok (st1, o) =>
      let t := run cfg st1 xs
      ⟨o :: t.outs, t.fin⟩

/-- what goes on to the next action / the output, in order: per call the propagated events,
    then the event itself when the answer is `pass` -/
def Out.down (o : Out) : List OEv :=
  o.prop ++ (if o.res = .pass then o.self.toList else [])

def downstream (outs : List Out) : List OEv := outs.flatMap Out.down

/-! ### join_template: the same `Do` with `FirstCheck` / `NextCheck` closures over `curTemplateIdx` -/

structure TCfg where
  path    : List Bytes
  maxSize : Nat
  negates : List Bool     -- `Template.Negate` of every configured template, in order
deriving Repr, DecidableEq

structure TEv where
  tag    : Nat
  root   : JTree
  starts : List Bool      -- oracle: templates[i].StartCheck(value)
  conts  : List Bool      -- oracle: templates[i].ContinueCheck(value)
deriving Repr

inductive TIn
  | timeout (tag : Nat)
  | ev (e : TEv)
deriving Repr

structure TSt where
  cur : Int               -- curTemplateIdx (starts at -1)
  j   : St
deriving Repr

def TSt.init : TSt := ⟨-1, St.init⟩

/-- `firstCheck`: index of the first template whose StartCheck holds -/
def firstIdx : List Bool → Nat → Option Nat
  | [], _ => none
  | b :: bs, i => if b then some i else firstIdx bs (i + 1)

/-- `nextCheck`: `cur := p.templates[p.curTemplateIdx]; r := cur.ContinueCheck(v); if cur.Negate {r = !r}` -/
def nextCheck (tcfg : TCfg) (cur : Int) (e : TEv) : GoM Bool :=
  match GoSlice.idx? tcfg.negates cur with
  | .error p => .error p
  | .ok neg =>
    match GoSlice.idx? e.conts cur with
    | .error p => .error p
    | .ok c => .ok (if neg then !c else c)

def TCfg.join (tcfg : TCfg) : Cfg := ⟨tcfg.path, tcfg.maxSize, false⟩

/-- the join event the closures amount to (used for the held `initial` and for outputs) -/
def TEv.plain (e : TEv) (startOK contOK : Bool) : Ev := ⟨e.tag, e.root, startOK, contOK⟩

/-- `join_template.Do = jp.Do` with the closures inlined at their call sites -/
def tdoEvent (tcfg : TCfg) (st : TSt) (e : TEv) : GoM (TSt × Out) :=
  let cfg := tcfg.join
  let self : OEv := ⟨e.tag, e.root⟩
  match JTree.dig e.root cfg.path with
  | none =>
    match flushThen cfg st.j .pass self id with
    | .error p => .error p
    | .ok (j, o) => .ok (⟨st.cur, j⟩, o)
  | some node =>
    let value := asString node
    -- firstOK := false; if node.IsString() { firstOK = FirstCheck(value) }
    let fi := if node.isStr then firstIdx e.starts 0 else none
    match fi with
    | some i =>
      match flushThen cfg st.j .hold self (fun _ => ⟨true, some (e.plain true false), value⟩) with
      | .error p => .error p
      | .ok (j, o) => .ok (⟨(i : Nat), j⟩, o)
    | none =>
      if st.j.isJoining then
        match nextCheck tcfg st.cur e with
        | .error p => .error p
        | .ok true =>
          .ok (⟨st.cur, { st.j with buff := appendBuff cfg st.j.buff value }⟩, ⟨.collapse, [], some self⟩)
        | .ok false =>
          match flushThen cfg st.j .pass self id with
          | .error p => .error p
          | .ok (j, o) => .ok (⟨st.cur, j⟩, o)
      else
        .ok (st, ⟨.pass, [], some self⟩)

def tstep (tcfg : TCfg) (st : TSt) : TIn → GoM (TSt × Out)
  | .timeout _ =>
    match doTimeout tcfg.join st.j with
    | .error p => .error p
    | .ok (j, o) => .ok (⟨st.cur, j⟩, o)
  | .ev e => tdoEvent tcfg st e

structure TTrace where
  outs : List Out
  fin  : GoM TSt

def trun (tcfg : TCfg) : TSt → List TIn → TTrace
  | st, [] => ⟨[], .ok st⟩
  | st, x :: xs =>
    match tstep tcfg st x with
    | .error p => ⟨[], .error p⟩
    | .ok (st1, o) =>
      let t := trun tcfg st1 xs
      ⟨o :: t.outs, t.fin⟩

end FileD.Join
