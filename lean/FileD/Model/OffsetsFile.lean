/-
  Model of the offsets file of the file input plugin (`plugin/input/file/offset.go`), mirroring
  the code statement by statement:

    * `render`  — the buffer building of `offsetDB.save` (lines 258-291): for every job of the
      snapshot with at least one committed stream
          "- file: " filename "\n" "  inode: " AppendUint(inode) "\n" "  source_id: " AppendUint(sourceID) "\n"
          "  last_read_timestamp: " AppendInt(ts) "\n" "  streams:\n" ("    " stream ": " AppendUint(uint64(offset)) "\n")*
    * `parse`   — `offsetDB.parse / parseOne / parseStreams / parseLine / parseOptionalLine`
      with `strconv.ParseUint(_,10,64)` / `strconv.ParseInt(_,10,64)`; Go slice expressions are
      `GoSlice` checked accesses, so `line[pos+2:]` past the end is the value `.error .panicBounds`.
    * `load`    — `offsetDB.load`: no file → empty table.

  A job table is the list of jobs in the order the snapshot (a Go map iteration) visited them;
  `job.offsets` is a `pipeline.SliceMap` (insertion-ordered list, `setOffset` = `SliceMap.Set`).
  Loops whose Go variable shrinks (`content`) are run with explicit fuel = its length + 1;
  `parse_fuel_ok` (Lemmas/OffsetsFile.lean) shows the fuel never runs out.
-/
import FileD.Prelude.Bytes
import FileD.Prelude.GoSlice
namespace FileD.OffsetsFile
open FileD

/-! ## job tables -/

structure Job where
  filename : Bytes
  inode    : Nat                    -- uint64
  sourceID : Nat                    -- uint64 (pipeline.SourceID)
  ts       : Int                    -- int64, eofReadInfo timestamp
  offsets  : List (Bytes × Int)     -- pipeline.SliceMap: stream name → int64 offset
deriving Repr, DecidableEq

abbrev JobTable := List Job

/-- `SliceMap.Set` -/
def setOffset : List (Bytes × Int) → Bytes → Int → List (Bytes × Int)
  | [], s, o => [(s, o)]
  | (k, v) :: rest, s, o => if k = s then (k, o) :: rest else (k, v) :: setOffset rest s o

/-- `SliceMap.Get` -/
def getOffset : List (Bytes × Int) → Bytes → Option Int
  | [], _ => none
  | (k, v) :: rest, s => if k = s then some v else getOffset rest s

/-! ## decimal numbers (strconv) -/

def two64 : Nat := 18446744073709551616
def two63 : Nat := 9223372036854775808

def digitByte (d : Nat) : UInt8 := UInt8.ofNat (48 + d)

/-- digits of `n`, most significant first, pushed in front of `acc` (fuel ≥ number of digits) -/
def natDigits : Nat → Nat → Bytes → Bytes
  | 0, _, acc => acc
  | f + 1, n, acc =>
    if n < 10 then digitByte n :: acc else natDigits f (n / 10) (digitByte (n % 10) :: acc)

/-- `strconv.AppendUint(nil, n, 10)` -/
def renderNat (n : Nat) : Bytes := natDigits (n + 1) n []

/-- `strconv.AppendInt(nil, i, 10)` -/
def renderInt (i : Int) : Bytes :=
  if i < 0 then 45 :: renderNat i.natAbs else renderNat i.natAbs

/-- Go conversion `uint64(x)` of an int64 -/
def toU64 (i : Int) : Nat := (i % (two64 : Int)).toNat

def digitVal? (b : UInt8) : Option Nat :=
  if 48 ≤ b.toNat ∧ b.toNat ≤ 57 then some (b.toNat - 48) else none

/-- value of a string of decimal digits, `none` on any other byte -/
def digitsVal? : Bytes → Nat → Option Nat
  | [], acc => some acc
  | b :: bs, acc =>
    match digitVal? b with
    | none => none
    | some d => digitsVal? bs (acc * 10 + d)

/-- `strconv.ParseUint(s, 10, 64)`: non-empty, digits only, value < 2^64 -/
def parseUint64? (s : Bytes) : Option Nat :=
  match s with
  | [] => none
  | _ =>
    match digitsVal? s 0 with
    | none => none
    | some v => if v < two64 then some v else none

/-- `strconv.ParseInt(s, 10, 64)`: optional sign, then ParseUint, range −2^63 … 2^63−1 -/
def parseInt64? (s : Bytes) : Option Int :=
  match s with
  | [] => none
  | b :: rest =>
    if b = 43 then          -- '+'
      match parseUint64? rest with
      | some v => if v < two63 then some (v : Int) else none
      | none => none
    else if b = 45 then     -- '-'
      match parseUint64? rest with
      | some v => if v ≤ two63 then some (-(v : Int)) else none
      | none => none
    else
      match parseUint64? s with
      | some v => if v < two63 then some (v : Int) else none
      | none => none

/-! ## render: the buffer of `offsetDB.save` -/

def pFile    : Bytes := [45, 32, 102, 105, 108, 101, 58, 32]                              -- "- file: "
def pInode   : Bytes := [32, 32, 105, 110, 111, 100, 101, 58, 32]                         -- "  inode: "
def pSource  : Bytes := [32, 32, 115, 111, 117, 114, 99, 101, 95, 105, 100, 58, 32]       -- "  source_id: "
def pTs      : Bytes := [32, 32, 108, 97, 115, 116, 95, 114, 101, 97, 100, 95, 116, 105, 109, 101,
                         115, 116, 97, 109, 112, 58, 32]                                  -- "  last_read_timestamp: "
def pStreams : Bytes := [32, 32, 115, 116, 114, 101, 97, 109, 115, 58]                    -- "  streams:"
def pIndent  : Bytes := [32, 32, 32, 32]                                                  -- "    "
def pSep     : Bytes := [58, 32]                                                          -- ": "
def COLON : UInt8 := 58
def DASH  : UInt8 := 45

def renderStream (s : Bytes × Int) : Bytes :=
  pIndent ++ (s.1 ++ (pSep ++ (renderNat (toU64 s.2) ++ [NL])))

def renderStreams : List (Bytes × Int) → Bytes
  | [] => []
  | s :: ss => renderStream s ++ renderStreams ss

def renderJob (j : Job) : Bytes :=
  match j.offsets with
  | [] => []                                   -- `if len(job.offsets) == 0 { continue }`
  | _ :: _ =>
    pFile ++ (j.filename ++ (NL ::
    (pInode ++ (renderNat j.inode ++ (NL ::
    (pSource ++ (renderNat j.sourceID ++ (NL ::
    (pTs ++ (renderInt j.ts ++ (NL ::
    (pStreams ++ (NL :: renderStreams j.offsets)))))))))))))

def render : JobTable → Bytes
  | [] => []
  | j :: js => renderJob j ++ render js

/-! ## parse -/

inductive Err
  | format        -- any `fmt.Errorf` of the parser (load returns the error, start panics)
  | panicBounds   -- Go runtime panic: slice bounds out of range
  | fuel          -- model artefact, unreachable (`parse_fuel_ok`)
deriving Repr, DecidableEq

abbrev PM := Except Err

instance instDecEqPM {α} [DecidableEq α] : DecidableEq (PM α)
  | .ok a, .ok b => if h : a = b then isTrue (by rw [h]) else isFalse (by intro e; cases e; exact h rfl)
  | .error a, .error b => if h : a = b then isTrue (by rw [h]) else isFalse (by intro e; cases e; exact h rfl)
  | .ok _, .error _ => isFalse (by intro e; cases e)
  | .error _, .ok _ => isFalse (by intro e; cases e)

def liftGo {α} : GoM α → PM α
  | .ok a => .ok a
  | .error _ => .error .panicBounds

/-- `strings.IndexByte(content,'\n')` with the two re-slicings: (line without '\n', rest) -/
def cutNL : Bytes → Option (Bytes × Bytes)
  | [] => none
  | b :: bs => if b = NL then some ([], bs) else
      match cutNL bs with
      | none => none
      | some (l, r) => some (b :: l, r)

/-- `len(line) >= len(prefix) && line[:len(prefix)] == prefix` → `line[len(prefix):]` -/
def stripPrefix? : Bytes → Bytes → Option Bytes
  | [], line => some line
  | _ :: _, [] => none
  | p :: ps, b :: bs => if p = b then stripPrefix? ps bs else none

/-- `offsetDB.parseLine` -/
def parseLine (content pre : Bytes) : PM (Bytes × Bytes) :=
  match content with
  | [] => .error .format
  | _ =>
    match cutNL content with
    | none => .error .format
    | some (line, remaining) =>
      match stripPrefix? pre line with
      | none => .error .format
      | some v => .ok (v, remaining)

/-- `offsetDB.parseOptionalLine` -/
def parseOptionalLine (content pre : Bytes) : PM (Bytes × Bytes) :=
  match content with
  | [] => .ok ([], content)
  | _ =>
    match stripPrefix? pre content with
    | some _ => parseLine content pre
    | none => .ok ([], content)

/-- `strings.LastIndexByte(line, c)`; `none` = −1 -/
def lastIdx? (c : UInt8) : Bytes → Option Nat
  | [] => none
  | b :: bs =>
    match lastIdx? c bs with
    | some i => some (i + 1)
    | none => if b = c then some 0 else none

def hasStream (streams : List (Bytes × Int)) (s : Bytes) : Bool :=
  streams.any (fun kv => kv.1 == s)

/-- one iteration of the `for content != "" && content[0] != '-'` loop body of `parseStreams`:
    returns the remaining content and the extended stream map -/
def parseStreamLine (content : Bytes) (streams : List (Bytes × Int)) :
    PM (Bytes × List (Bytes × Int)) :=
  match cutNL content with
  | none => .error .format                                     -- "no new line"
  | some (line, rest) =>
    if line.length < 5 || line.take 4 != pIndent then .error .format else
    match lastIdx? COLON line with
    | none => .error .format                                   -- "no separator"
    | some pos =>
    match liftGo (GoSlice.slice? line 4 pos) with
    | .error e => .error e
    | .ok stream =>            -- (an empty stream name is accepted since the `fix:` for C07 defect 2)
    if hasStream streams stream then .error .format else
    match liftGo (GoSlice.sliceFrom? line ((pos : Int) + 2)) with      -- `line[pos+2:]`
    | .error e => .error e
    | .ok offsetStr =>
    match parseInt64? offsetStr with
    | none => .error .format
    | some off => .ok (rest, streams ++ [(stream, off)])

/-- the loop of `parseStreams` -/
def streamsLoop : Nat → Bytes → List (Bytes × Int) → PM (Bytes × List (Bytes × Int))
  | 0, _, _ => .error .fuel
  | f + 1, content, streams =>
    match content with
    | [] => .ok (content, streams)
    | b :: _ =>
      if b = DASH then .ok (content, streams) else
      match parseStreamLine content streams with
      | .error e => .error e
      | .ok (rest, streams') => streamsLoop f rest streams'

def hasSource (t : JobTable) (src : Nat) : Bool := t.any (fun j => j.sourceID == src)

/-- `offsetDB.parseOne` followed by `parseStreams`; `now` = `xtime.GetInaccurateUnixNano()` -/
def parseOne (now : Int) (fuel : Nat) (content : Bytes) (offsets : JobTable) : PM (Bytes × JobTable) :=
  match parseLine content pFile with
  | .error e => .error e
  | .ok (filename, c1) =>
  match parseLine c1 pInode with
  | .error e => .error e
  | .ok (inodeStr, c2) =>
  match parseLine c2 pSource with
  | .error e => .error e
  | .ok (sourceStr, c3) =>
  match parseOptionalLine c3 pTs with
  | .error e => .error e
  | .ok (tsStr, c4) =>
  match parseUint64? inodeStr with
  | none => .error .format
  | some inode =>
  match parseUint64? sourceStr with
  | none => .error .format
  | some src =>
  if hasSource offsets src then .error .format else            -- "duplicate inode"
  match (match tsStr with
         | [] => some now
         | _ => parseInt64? tsStr) with
  | none => .error .format
  | some ts =>
  match parseLine c4 pStreams with                             -- parseStreams: header line
  | .error e => .error e
  | .ok (_, c5) =>
  match streamsLoop fuel c5 [] with
  | .error e => .error e
  | .ok (rest, streams) => .ok (rest, offsets ++ [⟨filename, inode, src, ts, streams⟩])

/-- the loop of `offsetDB.parse` -/
def parseLoop (now : Int) : Nat → Bytes → JobTable → PM JobTable
  | 0, _, _ => .error .fuel
  | f + 1, content, offsets =>
    match content with
    | [] => .ok offsets
    | _ =>
      match parseOne now content.length content offsets with
      | .error e => .error e
      | .ok (rest, offsets') => parseLoop now f rest offsets'

/-- `offsetDB.parse` -/
def parse (now : Int) (content : Bytes) : PM JobTable :=
  parseLoop now (content.length + 1) content []

/-- `offsetDB.load`: `none` = the file does not exist -/
def load (now : Int) : Option Bytes → PM JobTable
  | none => .ok []
  | some content => parse now content

/-- what a table loads back to: jobs without a committed stream are not written -/
def live (t : JobTable) : JobTable := t.filter (fun j => !j.offsets.isEmpty)

end FileD.OffsetsFile
