/-
  Model of `(*jsonDecoder).cutFieldsBySize` (decoder/json.go), the `json_max_fields_size` cutting.
  `gjson.ValidBytes` and `gjson.GetBytes(data, path)` are oracle parameters: per configured path the
  harness ships `found` (= Exists ∧ Type == String), `Index`, `len(Str)` (unescaped length) and
  `len(Raw)` (the literal as written, with quotes).
  Fixed code: the cut point is computed on the raw literal and never splits an escape sequence
  (`jsonRawCutPoint`); the cut removes `data[start : Index+len(Raw)-1]`; a value with unknown
  position (`Index == 0`) is skipped; overlapping positions are cut once.
-/
import FileD.Model.Dec.Common
namespace FileD.Dec.JsonCut
open FileD GoSlice FileD.Dec

structure Probe where
  limit : Int
  found : Bool
  index : Int
  strLen : Int
  rawLen : Int
deriving Repr

/-- `jsonRawCutPoint(raw, limit)`:
      i := 1
      for i < len(raw)-1 { n := 1; if raw[i] == '\\' { n = 2; if i+1 < len(raw) && raw[i+1] == 'u' { n = 6 } }
                           if i-1+n > limit { break }; i += n }
      return i -/
def cutPointLoop (raw : Bytes) (limit : Int) : Nat → Int → GoM Int
  | 0, _ => .error .other
  | f+1, i =>
    if i < (raw.length : Int) - 1 then do
      let c ← idx? raw i
      let n ← (if c = cBackslash then do
                 let isU ← (if i + 1 < raw.length then do
                              let d ← idx? raw (i + 1)
                              pure (d == 117)
                            else pure false)
                 pure (if isU then (6 : Int) else 2)
               else pure (1 : Int))
      if i - 1 + n > limit then pure i else cutPointLoop raw limit f (i + n)
    else pure i

def cutPoint (raw : Bytes) (limit : Int) : GoM Int := cutPointLoop raw limit (raw.length + 1) 1

/-- `findPos`: `some (start, end)` (end inclusive) -/
def findPos (data : Bytes) (p : Probe) : GoM (Option (Int × Int)) :=
  if !p.found || p.strLen ≤ p.limit then pure none else
  -- fixed code: `if v.Index == 0 { return false }` (zero = position unknown, computed value)
  if p.index = 0 then pure none else do
  let raw ← slice? data p.index (p.index + p.rawLen)     -- v.Raw
  let cp ← cutPoint raw p.limit
  pure (some (p.index + cp, p.index + p.rawLen - 2))

/-- `append(data[:start], data[end+1:]...)` -/
def applyCut (data : Bytes) (pos : Int × Int) : GoM Bytes := do
  let a ← sliceTo? data pos.1
  let b ← sliceFrom? data (pos.2 + 1)
  pure (a ++ b)

def collect (data : Bytes) : List Probe → GoM (List (Int × Int))
  | [] => pure []
  | p :: ps => do
    let r ← findPos data p
    let rest ← collect data ps
    pure (match r with | some x => x :: rest | none => rest)

/-- insertion into a list sorted by descending `start` -/
def insertDesc (x : Int × Int) : List (Int × Int) → List (Int × Int)
  | [] => [x]
  | y :: ys => if y.1 < x.1 then x :: y :: ys else y :: insertDesc x ys

/-- the cutting loop over the positions sorted by descending start. Fixed code: a position that
    does not end before the previous cut starts (`p.end >= prevStart`: two paths resolved to the
    same value) is skipped. -/
def applyAll : List (Int × Int) → Int → Bytes → GoM Bytes
  | [], _, data => pure data
  | p :: ps, prevStart, data =>
    if p.2 ≥ prevStart then applyAll ps prevStart data else do
    let data ← applyCut data p
    applyAll ps p.1 data

/-- `cutFieldsBySize` (`valid` = `gjson.ValidBytes(data)`) -/
def cutFields (valid : Bool) (probes : List Probe) (data : Bytes) : GoM Bytes :=
  if probes.length = 0 || !valid then pure data else
  if probes.length = 1 then do
    -- fast way: one configured path, at most one cut, no loop
    let ps ← collect data probes
    match ps with
    | [pos] => applyCut data pos
    | _ => pure data
  else do
    let ps ← collect data probes
    applyAll (ps.foldr insertDesc []) (data.length + 1) data

end FileD.Dec.JsonCut
