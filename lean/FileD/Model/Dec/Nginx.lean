/-
  Model of `(*nginxErrorDecoder).Decode` (decoder/nginx.go), statement by statement.
  `unicode.IsLetter` on non-ASCII keys is an oracle (`letters`); ASCII keys are decided exactly.
-/
import FileD.Model.Dec.Common
namespace FileD.Dec.Nginx
open FileD GoSlice FileD.Dec

abbrev Fields := List (Bytes × Bytes)

structure Row where
  time : Bytes
  level : Bytes
  pid : Bytes
  tid : Bytes
  cid : Bytes
  message : Bytes
  custom : Fields
deriving Repr, DecidableEq

/-- `spaceSplit`: `for i := 0; i < len(b) && len(res) < limit; i++ { if b[i] == ' ' { res = append(res, i) } }` -/
def spaceSplitLoop (b : Bytes) (limit : Nat) : Nat → Int → List Int → GoM (List Int)
  | 0, _, _ => .error .other
  | f+1, i, res =>
    if i < b.length ∧ res.length < limit then do
      let c ← idx? b i
      spaceSplitLoop b limit f (i + 1) (if c = SP then res ++ [i] else res)
    else pure res

def spaceSplit (b : Bytes) (limit : Nat) : GoM (List Int) := spaceSplitLoop b limit (b.length + 1) 0 []

structure PT where
  pid : Bytes
  tid : Bytes
  pidComplete : Bool
  tidComplete : Bool

/-- the `pid#tid:` loop: `for i := split[2]+1; i < split[3]; i++ { … data[i] … }` -/
def pidLoop (data : Bytes) (hi : Int) : Nat → Int → Bytes → Bytes → Bool → GoM PT
  | 0, _, _, _, _ => .error .other
  | f+1, i, pid, tid, pc =>
    if i < hi then do
      let c ← idx? data i
      if c = cHash then pidLoop data hi f (i + 1) pid tid true
      else if c = cColon then pure ⟨pid, tid, pc, true⟩
      else if pc then pidLoop data hi f (i + 1) pid (tid ++ [c]) pc
      else pidLoop data hi f (i + 1) (pid ++ [c]) tid pc
    else pure ⟨pid, tid, pc, false⟩

def asciiLetter (c : UInt8) : Bool := (65 ≤ c && c ≤ 90) || (97 ≤ c && c ≤ 122)

/-- `!bytes.ContainsFunc(key, func(r rune) bool { return !unicode.IsLetter(r) })` -/
def lettersOnly (letters : Bytes → Bool) (key : Bytes) : Bool :=
  if key.all (· < 128) then key.all asciiLetter else letters key

/-- the loop of `extractCustomFields` -/
def extractLoop (letters : Bytes → Bool) : Nat → Bytes → Fields → GoM (Bytes × Fields)
  | 0, _, _ => .error .other
  | f+1, data, fields =>
    if data.length > 0 then
      let sepIdx := lastIndex2 data cComma SP
      if sepIdx = -1 then pure (data, fields) else do
      let field ← sliceFrom? data (sepIdx + 2)
      let idx := indexByte field cColon
      if idx = -1 then pure (data, fields) else do
      let key ← sliceTo? field idx
      if !lettersOnly letters key then pure (data, fields) else do
      let rest ← sliceFrom? field (idx + 1)
      let value ← (if rest.length > 1 then do
                     let v ← sliceFrom? field (idx + 2)
                     pure (trimQuotes v)
                   else pure [])
      let data ← sliceTo? data sepIdx
      extractLoop letters f data (mapSet fields key value)
    else pure (data, fields)

def extractCustomFields (withCustom : Bool) (letters : Bytes → Bool) (data : Bytes) : GoM (Bytes × Fields) :=
  if !withCustom then pure (data, []) else extractLoop letters (data.length + 1) data []

def decode (withCustom : Bool) (letters : Bytes → Bool) (data0 : Bytes) : GoM (Option Row) := do
  let data := trimSuffixNL data0
  let split ← spaceSplit data 5
  if split.length < 4 then pure none else do
  let s1 ← idx? split 1
  let time ← sliceTo? data s1
  let s2 ← idx? split 2
  if s2 - s1 < 4 then pure none else do
  let level ← slice? data (s1 + 2) (s2 - 1)
  let s3 ← idx? split 3
  let pt ← pidLoop data s3 (data.length + 1) (s2 + 1) [] [] false
  if !(pt.pidComplete && pt.tidComplete) then pure none else do
  if (data.length : Int) ≤ s3 + 1 then pure (some ⟨time, level, pt.pid, pt.tid, [], [], []⟩) else do
  -- `len(split) > 4 && data[split[3]+1] == '*'` (short-circuit)
  let star ← (if split.length > 4 then do
                let c ← idx? data (s3 + 1)
                pure (c == cStar)
              else pure false)
  if star then do
    let s4 ← idx? split 4
    let cid ← slice? data (s3 + 2) s4
    if (data.length : Int) > s4 + 1 then do
      let rest ← sliceFrom? data (s4 + 1)
      let (msg, fields) ← extractCustomFields withCustom letters rest
      pure (some ⟨time, level, pt.pid, pt.tid, cid, msg, fields⟩)
    else pure (some ⟨time, level, pt.pid, pt.tid, cid, [], []⟩)
  else do
    let rest ← sliceFrom? data (s3 + 1)
    let (msg, fields) ← extractCustomFields withCustom letters rest
    pure (some ⟨time, level, pt.pid, pt.tid, [], msg, fields⟩)

end FileD.Dec.Nginx
