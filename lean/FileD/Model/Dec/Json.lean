/-
  Reference JSON codec standing for insane-json in C12 (DESIGN §C12): `encode` writes a `JTree`
  the way the harness' `jt.AppendJSON` does (minimal escaping), `parseRaw` is a recursive-descent
  parser that keeps string literals as written (between the quotes), `unescape` decodes escape
  sequences, `decode = parseRaw` followed by `unescape` on every key and string.
  insane-json itself is compared differentially with this codec on every run, not proved.
-/
import FileD.Prelude.JTree
import FileD.Model.Dec.Common
namespace FileD.Dec.Json
open FileD FileD.Dec

def hexDigit (n : Nat) : UInt8 := if n < 10 then UInt8.ofNat (48 + n) else UInt8.ofNat (87 + n)

/-- escape one byte as `jt.AppendQuoted` does -/
def escByte (c : UInt8) : Bytes :=
  if c = cQuote then [cBackslash, cQuote]
  else if c = cBackslash then [cBackslash, cBackslash]
  else if c = 10 then [cBackslash, 110]
  else if c = 13 then [cBackslash, 114]
  else if c = 9 then [cBackslash, 116]
  else if c < 32 then [cBackslash, 117, 48, 48, hexDigit (c.toNat / 16), hexDigit (c.toNat % 16)]
  else [c]

def escape : Bytes → Bytes
  | [] => []
  | c :: cs => escByte c ++ escape cs

def quote (s : Bytes) : Bytes := cQuote :: (escape s ++ [cQuote])

mutual
  def encode : JTree → Bytes
    | .null => [110, 117, 108, 108]
    | .bool true => [116, 114, 117, 101]
    | .bool false => [102, 97, 108, 115, 101]
    | .num r => r
    | .str s => quote s
    | .arr xs => 91 :: (encodeList xs ++ [93])
    | .obj kvs => 123 :: (encodeKVs kvs ++ [125])
  def encodeList : List JTree → Bytes
    | [] => []
    | [x] => encode x
    | x :: y :: xs => encode x ++ (cComma :: encodeList (y :: xs))
  def encodeKVs : List (Bytes × JTree) → Bytes
    | [] => []
    | [(k, v)] => quote k ++ (cColon :: encode v)
    | (k, v) :: kv :: kvs => quote k ++ (cColon :: encode v) ++ (cComma :: encodeKVs (kv :: kvs))
end

def isWs (c : UInt8) : Bool := c == 32 || c == 9 || c == 10 || c == 13

def skipWs : Bytes → Bytes
  | [] => []
  | c :: cs => if isWs c then skipWs cs else c :: cs

def hexVal? (c : UInt8) : Option Nat :=
  if 48 ≤ c ∧ c ≤ 57 then some (c.toNat - 48)
  else if 97 ≤ c ∧ c ≤ 102 then some (c.toNat - 87)
  else if 65 ≤ c ∧ c ≤ 70 then some (c.toNat - 55)
  else none

def isEscChar (d : UInt8) : Bool :=
  d == cQuote || d == cBackslash || d == 47 || d == 98 || d == 102 || d == 110 || d == 114 || d == 116

/-- after the opening quote: raw content (escape sequences kept) and the rest after the closing quote -/
def strBody : Bytes → Bytes → Option (Bytes × Bytes)
  | [], _ => none
  | c :: cs, acc =>
    if c = cQuote then some (acc, cs)
    else if c = cBackslash then
      match cs with
      | [] => none
      | d :: cs' =>
        if d = 117 then
          match cs' with
          | h1 :: h2 :: h3 :: h4 :: rest =>
            if (hexVal? h1).isSome && (hexVal? h2).isSome && (hexVal? h3).isSome && (hexVal? h4).isSome
            then strBody rest (acc ++ [c, d, h1, h2, h3, h4]) else none
          | _ => none
        else if isEscChar d then strBody cs' (acc ++ [c, d]) else none
    else if c < 32 then none
    else strBody cs (acc ++ [c])

def isNumChar (c : UInt8) : Bool := (48 ≤ c && c ≤ 57) || c == cMinus || c == cPlus || c == cDot || c == 101 || c == 69

def spanNum : Bytes → Bytes → Bytes × Bytes
  | [], acc => (acc, [])
  | c :: cs, acc => if isNumChar c then spanNum cs (acc ++ [c]) else (acc, c :: cs)

def stripPrefix? : Bytes → Bytes → Option Bytes
  | [], s => some s
  | _ :: _, [] => none
  | p :: ps, c :: cs => if p = c then stripPrefix? ps cs else none

mutual
  /-- one value (leading white space allowed); strings are kept raw -/
  def parseVal : Nat → Bytes → Option (JTree × Bytes)
    | 0, _ => none
    | f+1, s =>
      match skipWs s with
      | [] => none
      | c :: cs =>
        if c = cQuote then
          match strBody cs [] with
          | some (r, rest) => some (.str r, rest)
          | none => none
        else if c = 123 then
          match skipWs cs with
          | 125 :: rest => some (.obj [], rest)
          | s' => match parseMembers f s' with
                  | some (kvs, rest) => some (.obj kvs, rest)
                  | none => none
        else if c = 91 then
          match skipWs cs with
          | 93 :: rest => some (.arr [], rest)
          | s' => match parseElems f s' with
                  | some (xs, rest) => some (.arr xs, rest)
                  | none => none
        else if c = 110 then (stripPrefix? [117, 108, 108] cs).map (fun r => (.null, r))
        else if c = 116 then (stripPrefix? [114, 117, 101] cs).map (fun r => (.bool true, r))
        else if c = 102 then (stripPrefix? [97, 108, 115, 101] cs).map (fun r => (.bool false, r))
        else if c = cMinus || (48 ≤ c && c ≤ 57) then
          let (n, rest) := spanNum (c :: cs) []
          some (.num n, rest)
        else none
  /-- `v (, v)* ]` -/
  def parseElems : Nat → Bytes → Option (List JTree × Bytes)
    | 0, _ => none
    | f+1, s =>
      match parseVal f s with
      | none => none
      | some (v, r) =>
        match skipWs r with
        | 44 :: r' => match parseElems f r' with
                      | some (vs, rest) => some (v :: vs, rest)
                      | none => none
        | 93 :: r' => some ([v], r')
        | _ => none
  /-- `"k" : v (, "k" : v)* }` -/
  def parseMembers : Nat → Bytes → Option (List (Bytes × JTree) × Bytes)
    | 0, _ => none
    | f+1, s =>
      match skipWs s with
      | 34 :: cs =>
        match strBody cs [] with
        | none => none
        | some (k, r) =>
          match skipWs r with
          | 58 :: r1 =>
            match parseVal f r1 with
            | none => none
            | some (v, r2) =>
              match skipWs r2 with
              | 44 :: r3 => match parseMembers f r3 with
                            | some (kvs, rest) => some ((k, v) :: kvs, rest)
                            | none => none
              | 125 :: r3 => some ([(k, v)], r3)
              | _ => none
          | _ => none
      | _ => none
end

/-- a whole document: one value, then only white space -/
def parseRaw (s : Bytes) : Option JTree :=
  match parseVal (s.length + 1) s with
  | some (v, rest) => if skipWs rest = [] then some v else none
  | none => none

/-- UTF-8 encoding of a code point below 0x10000 (lone surrogates become U+FFFD) -/
def utf8 (cp : Nat) : Bytes :=
  if cp < 0x80 then [UInt8.ofNat cp]
  else if cp < 0x800 then [UInt8.ofNat (0xC0 + cp / 64), UInt8.ofNat (0x80 + cp % 64)]
  else if 0xD800 ≤ cp ∧ cp < 0xE000 then [0xEF, 0xBF, 0xBD]
  else [UInt8.ofNat (0xE0 + cp / 4096), UInt8.ofNat (0x80 + cp / 64 % 64), UInt8.ofNat (0x80 + cp % 64)]

/-- decode the escape sequences of a raw string body (surrogate pairs are not combined) -/
def unescape : Bytes → Option Bytes
  | [] => some []
  | c :: cs =>
    if c = cBackslash then
      match cs with
      | [] => none
      | d :: cs' =>
        if d = 117 then
          match cs' with
          | h1 :: h2 :: h3 :: h4 :: rest =>
            match hexVal? h1, hexVal? h2, hexVal? h3, hexVal? h4, unescape rest with
            | some a, some b, some c', some d', some r => some (utf8 (a * 4096 + b * 256 + c' * 16 + d') ++ r)
            | _, _, _, _, _ => none
          | _ => none
        else
          let out : Option UInt8 :=
            if d = cQuote then some cQuote else if d = cBackslash then some cBackslash
            else if d = 47 then some 47 else if d = 98 then some 8 else if d = 102 then some 12
            else if d = 110 then some 10 else if d = 114 then some 13 else if d = 116 then some 9 else none
          match out, unescape cs' with
          | some o, some r => some (o :: r)
          | _, _ => none
    else (unescape cs).map (c :: ·)

mutual
  def unescTree : JTree → Option JTree
    | .str s => (unescape s).map .str
    | .arr xs => (unescList xs).map .arr
    | .obj kvs => (unescKVs kvs).map .obj
    | t => some t
  def unescList : List JTree → Option (List JTree)
    | [] => some []
    | x :: xs => match unescTree x, unescList xs with
                 | some a, some b => some (a :: b)
                 | _, _ => none
  def unescKVs : List (Bytes × JTree) → Option (List (Bytes × JTree))
    | [] => some []
    | (k, v) :: kvs => match unescape k, unescTree v, unescKVs kvs with
                       | some k', some v', some r => some ((k', v') :: r)
                       | _, _, _ => none
end

def decode (s : Bytes) : Option JTree := (parseRaw s).bind unescTree

end FileD.Dec.Json
