/-
  Model of `decoder.DecodeCRI` (decoder/cri.go), statement by statement.
-/
import FileD.Model.Dec.Common
namespace FileD.Dec.CRI
open FileD GoSlice FileD.Dec

structure Row where
  log : Bytes
  time : Bytes
  stream : Bytes
  isPartial : Bool
deriving Repr, DecidableEq

/-- `for len(stream) != 6 { pos = IndexByte(data,' '); if pos < 0 {return err}; stream = data[:pos]; data = data[pos+1:] }`
    result: `none` = "stream type is not found", `some (stream, data)` -/
def streamLoop : Nat → Bytes → Bytes → GoM (Option (Bytes × Bytes))
  | 0, _, _ => .error .other
  | f+1, stream, data =>
    if stream.length = 6 then pure (some (stream, data)) else
    let pos := indexByte data SP
    if pos < 0 then pure none else do
      let stream ← sliceTo? data pos
      let data ← sliceFrom? data (pos + 1)
      streamLoop f stream data

def decode (data : Bytes) : GoM (Option Row) :=
  -- time
  let pos := indexByte data SP
  if pos < 0 then pure none else do
  let time ← sliceTo? data pos
  let data ← sliceFrom? data (pos + 1)
  -- stderr or stdout
  let r ← streamLoop (data.length + 2) [] data
  match r with
  | none => pure none
  | some (stream, data) =>
  -- tags
  let pos := indexByte data SP
  if pos < 0 then pure none else do
  let tags ← sliceTo? data pos
  let data ← sliceFrom? data (pos + 1)
  if tags.length = 0 then pure none else do
  let t0 ← idx? tags 0
  let isPartial := t0 == 80 -- 'P'
  -- remove \n from log for partial logs (fixed code: bytes.TrimSuffix(log, "\n"))
  let log := if isPartial then trimSuffixNL data else data
  pure (some ⟨log, time, stream, isPartial⟩)

end FileD.Dec.CRI
