/-
  Model of `(*Pipeline).checkInputBytes` (pipeline/pipeline.go), the first step of `Pipeline.In`,
  statement by statement. The caller hands `In` a sub-slice `buf[:len(line)]` of a larger buffer
  (the file worker passes `readBuf[:pos+1]`): the model threads `line ++ following`, where
  `following` is everything within the slice's capacity after the line, so that the one write of
  this function — `append(bytes[:MaxEventSize], '\n')` — has a place to land and "never alters
  bytes outside the line" can be stated.
-/
import FileD.Model.Dec.Common
namespace FileD.Dec.Input
open FileD GoSlice FileD.Dec

structure Cfg where
  maxEventSize : Nat      -- settings.MaxEventSize (0 = no limit)
  cutOff : Bool           -- settings.CutOffEventByLimit
deriving Repr

structure Res where
  accepted : Bool         -- third result (`ok`)
  cutoff : Bool           -- second result
  bytes : Bytes           -- first result: what the decoder gets
  buf : Bytes             -- the caller's `line ++ following` after the call
deriving Repr

/-- `append(bytes[:n], c)` where `bytes[:n]` is a slice of `buf` starting at 0 with capacity
    `buf.length`: in place when `n < cap`, otherwise a fresh array (the caller's buffer is not
    written). Returns the new slice's content and the caller's buffer. -/
def appendByte (buf : Bytes) (n : Nat) (c : UInt8) : Bytes × Bytes :=
  if n < buf.length then
    let buf' := buf.set n c
    (buf'.take (n + 1), buf')
  else (buf.take n ++ [c], buf)

def checkInputBytes (cfg : Cfg) (line following : Bytes) : GoM Res :=
  let buf := line ++ following
  let length : Int := line.length
  -- length == 0 || (bytes[0] == '\n' && length == 1)
  if length = 0 then pure ⟨false, false, line, buf⟩ else do
  let b0 ← idx? line 0
  if b0 = NL ∧ length = 1 then pure ⟨false, false, line, buf⟩ else
  if cfg.maxEventSize ≠ 0 ∧ length > cfg.maxEventSize then
    if !cfg.cutOff then pure ⟨false, false, line, buf⟩ else do
    -- wasNewLine := bytes[len(bytes)-1] == '\n'
    let last ← idx? line (length - 1)
    let wasNewLine := last == NL
    -- bytes = bytes[:p.settings.MaxEventSize]
    let cut ← sliceTo? line cfg.maxEventSize
    if wasNewLine then
      -- bytes = append(bytes, '\n'): writes buf[MaxEventSize]
      let (bytes, buf') := appendByte buf cfg.maxEventSize NL
      pure ⟨true, true, bytes, buf'⟩
    else pure ⟨true, true, cut, buf⟩
  else pure ⟨true, false, line, buf⟩

end FileD.Dec.Input
