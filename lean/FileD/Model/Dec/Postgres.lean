/-
  Model of `decoder.DecodePostgres` (decoder/postgres.go), statement by statement.
  `time` is built with `append` on `data[:pos]`, i.e. it writes into the caller's line buffer
  (the bytes it writes are the bytes already there). The model threads the buffer so that this
  can be stated: the result carries the buffer after the call.
-/
import FileD.Model.Dec.Common
namespace FileD.Dec.Postgres
open FileD GoSlice FileD.Dec

structure Row where
  time : Bytes
  pid : Bytes
  pidMessageNumber : Bytes
  client : Bytes
  db : Bytes
  user : Bytes
  log : Bytes
deriving Repr, DecidableEq

/-- credentials part: `openPos = IndexByte(data,'='); pos = IndexByte(data, stop)`,
    value `data[openPos+1:pos]`, rest `data[pos+1:]`. `none` = not found (or, fixed code,
    `pos < openPos`; `pos = openPos` is impossible for `stop ≠ '='`). -/
def cred (data : Bytes) (stop : UInt8) : GoM (Option (Bytes × Bytes)) :=
  let openPos := indexByte data cEq
  if openPos < 0 then pure none else
  let pos := indexByte data stop
  if pos < 0 then pure none else
  if pos < openPos then pure none else do   -- fixed code: `pos < openPos`
  let v ← slice? data (openPos + 1) pos
  let data ← sliceFrom? data (pos + 1)
  pure (some (v, data))

/-- everything after the timestamp (no more writes) -/
def afterTime (time data : Bytes) : GoM (Option Row) :=
  -- pid
  let pos := indexByte data cRBr
  if pos < 1 then pure none else do         -- fixed code: `pos < 1`
  let pid ← slice? data 1 pos
  let data ← sliceFrom? data (pos + 1)
  -- pid message number
  let pos := indexByte data cLBr
  if pos < 0 then pure none else do
  let data ← sliceFrom? data (pos + 1)
  let pos := indexByte data cRBr
  if pos < 0 then pure none else do
  let pmn ← sliceTo? data pos
  let data ← sliceFrom? data (pos + 1)
  -- client, db, user
  match ← cred data cComma with
  | none => pure none
  | some (client, data) =>
  match ← cred data cComma with
  | none => pure none
  | some (db, data) =>
  match ← cred data SP with
  | none => pure none
  | some (user, data) =>
  -- log
  let pos := indexByte data SP
  if pos < 0 ∨ pos + 2 > data.length then pure none else do   -- fixed code
  let log ← sliceFrom? data (pos + 2)
  pure (some ⟨time, pid, pmn, client, db, user, log⟩)

/-- result: row (or the decoder's error) and the caller's buffer after the call -/
def decode (buf : Bytes) : GoM (Option Row × Bytes) :=
  let data := buf
  let pos := indexByte data SP
  if pos < 0 then pure (none, buf) else do
  let _ ← sliceTo? data pos                 -- time := data[:pos]
  let tlen := pos
  let buf ← appendAt buf tlen [SP]          -- time = append(time, ' ')
  let tlen := tlen + 1
  let off := pos + 1                        -- data = data[pos+1:]
  let data ← sliceFrom? buf off
  let pos := indexByte data SP
  if pos < 0 then pure (none, buf) else do
  let src ← sliceTo? data pos
  let buf ← appendAt buf tlen src           -- time = append(time, data[:pos]...)
  let tlen := tlen + pos
  let buf ← appendAt buf tlen [SP]          -- time = append(time, ' ')
  let tlen := tlen + 1
  let off := off + (pos + 1)                -- data = data[pos+1:]
  let data ← sliceFrom? buf off
  let pos := indexByte data SP
  if pos < 0 then pure (none, buf) else do
  let src ← sliceTo? data pos
  let buf ← appendAt buf tlen src           -- time = append(time, data[:pos]...)
  let tlen := tlen + pos
  let off := off + (pos + 1)                -- data = data[pos+1:]
  let data ← sliceFrom? buf off
  let time ← sliceTo? buf tlen              -- row.Time = time
  let r ← afterTime time data
  pure (r, buf)

end FileD.Dec.Postgres
