/-
  Model of the RAW case of `Pipeline.In` (pipeline/pipeline.go):
     event.Root.AddFieldNoAlloc(event.Root, "message").MutateToBytesCopy(event.Root, bytes[:len(bytes)-1])
  preceded by `checkInputBytes`, which refuses empty input and a lone "\n".
-/
import FileD.Model.Dec.Common
namespace FileD.Dec.Raw
open FileD GoSlice FileD.Dec

/-- `checkInputBytes` without a size limit: `false` = the event is refused -/
def accepted (data : Bytes) : Bool := !(data.length = 0 || data = [NL])

/-- the `message` field; `none` = refused by `checkInputBytes` -/
def decode (data : Bytes) : GoM (Option Bytes) :=
  if !accepted data then pure none else do
  let m ← sliceTo? data ((data.length : Int) - 1)
  pure (some m)

end FileD.Dec.Raw
