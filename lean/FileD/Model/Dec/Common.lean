/-
  Shared pieces of the decoder models (C12): byte constants, the small library functions the
  scanners call (exact models of `bytes.IndexAny`, `bytes.LastIndex` for a 2-byte needle,
  `bytes.TrimSuffix(…, "\n")`, `bytes.Trim(…, "\"")`), `decoder/common.go` (`atoi`, `isDigit`,
  `checkNumber`), `strconv.Itoa` for non-negative numbers, and a Go `map[string]…` as an
  association list with replace-on-insert (printed sorted by the driver).

  Result convention of every scanner model: `GoM (Option Row)`
     `.ok (some row)`  decoded            `.ok none`  the decoder returned its error
     `.error .bounds`  Go index / slice panic
     `.error .other`   (a) loop fuel exhausted (proved impossible by `<dec>_total`), or
                       (b) an `append` would write past the end of the line (frame escape).
-/
import FileD.Prelude.GoSlice
namespace FileD.Dec
open FileD GoSlice

def cQuote : UInt8 := 34      -- '"'
def cHash : UInt8 := 35       -- '#'
def cStar : UInt8 := 42       -- '*'
def cPlus : UInt8 := 43       -- '+'
def cComma : UInt8 := 44      -- ','
def cMinus : UInt8 := 45      -- '-'
def cDot : UInt8 := 46        -- '.'
def cColon : UInt8 := 58      -- ':'
def cLt : UInt8 := 60         -- '<'
def cEq : UInt8 := 61         -- '='
def cGt : UInt8 := 62         -- '>'
def cLBr : UInt8 := 91        -- '['
def cBackslash : UInt8 := 92  -- '\\'
def cRBr : UInt8 := 93        -- ']'

/-- `bytes.IndexAny(b, chars)` for ASCII `chars` -/
def indexAny (b : Bytes) (set : List UInt8) : Int :=
  match b.findIdx? (fun c => set.contains c) with
  | some i => i
  | none => -1

/-- scan for the last position `i` with `b[i] = x ∧ b[i+1] = y` -/
def lastIndex2Aux (x y : UInt8) : Bytes → Nat → Int → Int
  | a :: b :: rest, i, acc => lastIndex2Aux x y (b :: rest) (i + 1) (if a = x ∧ b = y then (i : Int) else acc)
  | _, _, acc => acc

/-- `bytes.LastIndex(b, []byte{x, y})` -/
def lastIndex2 (b : Bytes) (x y : UInt8) : Int := lastIndex2Aux x y b 0 (-1)

/-- `bytes.TrimSuffix(b, "\n")` -/
def trimSuffixNL (b : Bytes) : Bytes :=
  if b.getLast? = some NL then b.dropLast else b

def dropWhileEnd (p : UInt8 → Bool) (b : Bytes) : Bytes := (b.reverse.dropWhile p).reverse

/-- `bytes.Trim(b, "\"")` -/
def trimQuotes (b : Bytes) : Bytes := dropWhileEnd (· == cQuote) (b.dropWhile (· == cQuote))

/-- `isDigit` -/
def isDigit (c : UInt8) : Bool := 48 ≤ c && c ≤ 57

/-- `atoi` of decoder/common.go. Go computes in `int` (wraps at 64 bits); the value is only used by
    the scanners for inputs of at most 4 digits, `ok` alone otherwise, so `Int` is exact there. -/
def atoiLoop : Bytes → Int → Option Int
  | [], x => some x
  | c :: cs, x => if c < 48 || 57 < c then none else atoiLoop cs (x * 10 + (c.toNat : Int) - 48)

def atoi (b : Bytes) : Option Int := if b.length = 0 then none else atoiLoop b 0

/-- `checkNumber` -/
def checkNumber (num : Bytes) (lo hi : Int) : Bool :=
  match atoi num with
  | some x => decide (lo ≤ x) && decide (x ≤ hi)
  | none => false

/-- decimal digits of a natural number (`strconv.Itoa` for n ≥ 0) -/
def itoaAux : Nat → Nat → List UInt8 → List UInt8
  | 0, _, acc => acc
  | f+1, n, acc =>
    let acc := UInt8.ofNat (48 + n % 10) :: acc
    if n / 10 = 0 then acc else itoaAux f (n / 10) acc

def itoa (n : Nat) : Bytes := itoaAux (n + 1) n []

/-- Go map with `[]byte`-convertible keys: insert or replace -/
def mapSet {β} (m : List (Bytes × β)) (k : Bytes) (v : β) : List (Bytes × β) :=
  match m with
  | [] => [(k, v)]
  | (k', v') :: rest => if k' = k then (k, v) :: rest else (k', v') :: mapSet rest k v

def mapGet {β} (m : List (Bytes × β)) (k : Bytes) : Option β :=
  match m with
  | [] => none
  | (k', v') :: rest => if k' = k then some v' else mapGet rest k

/-- lexicographic byte order (Go string `<`) -/
def bytesLt : Bytes → Bytes → Bool
  | [], [] => false
  | [], _ :: _ => true
  | _ :: _, [] => false
  | a :: as, b :: bs => if a < b then true else if b < a then false else bytesLt as bs

def insertSorted {β} (kv : Bytes × β) : List (Bytes × β) → List (Bytes × β)
  | [] => [kv]
  | x :: xs => if bytesLt kv.1 x.1 then kv :: x :: xs else x :: insertSorted kv xs

/-- keys sorted (canonical printing of a map) -/
def sortMap {β} (m : List (Bytes × β)) : List (Bytes × β) := m.foldr insertSorted []

/-- in-place `append(dst, src...)` where `dst = buf[:at]` shares the line's array: the bytes
    `buf[at : at+len(src)]` are overwritten. Writing past the end of the line would either
    reallocate (harmless) or overwrite the caller's following bytes; the model reports it. -/
def appendAt (buf : Bytes) (pos : Int) (src : Bytes) : GoM Bytes :=
  if 0 ≤ pos ∧ pos + src.length ≤ buf.length then
    .ok (buf.take pos.toNat ++ src ++ buf.drop (pos.toNat + src.length))
  else .error .other

end FileD.Dec
