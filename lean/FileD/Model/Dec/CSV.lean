/-
  Model of `(*CSVDecoder).Decode` (decoder/csv.go), statement by statement.
  `bytes.TrimSpace` (Unicode aware) is an oracle parameter `trim`; it is applied at most once per
  call (to the last, unquoted field). The `\r\n` → `\n` rewrite writes into the caller's buffer:
  the result carries the buffer after the call.
-/
import FileD.Model.Dec.Common
namespace FileD.Dec.CSV
open FileD GoSlice FileD.Dec

/-- outcome of the quoted-field loop -/
inductive Q
  | cont (data rb : Bytes)   -- `",` : field ended, continue parseField
  | done (rb : Bytes)        -- `"\n` or (fixed code) `"` at end of data: break parseField
  | bad                       -- decoder error

/-- inner `for` of a quoted field (data is positioned after the opening quote) -/
def quoted (delim : UInt8) : Nat → Bytes → Bytes → GoM Q
  | 0, _, _ => .error .other
  | f+1, data, rb =>
    let i := indexByte data cQuote
    if i ≥ 0 then do
      let pre ← sliceTo? data i
      let rb := rb ++ pre
      let data ← sliceFrom? data (i + 1)
      -- fixed code: `if len(data) == 0 { …end of data… break parseField }`
      if data.length = 0 then pure (.done rb) else do
      let rn ← idx? data 0
      if rn = cQuote then do
        let data ← sliceFrom? data 1
        quoted delim f data (rb ++ [cQuote])
      else if rn = delim then do
        let data ← sliceFrom? data 1
        pure (.cont data rb)
      else do
        let d0 ← idx? data 0
        if data.length = 1 ∧ d0 = NL then pure (.done rb) else pure .bad
    else pure .bad

/-- `parseField:` loop. result: `none` = decoder error, `some (recordBuffer, fieldIndexes)` -/
def parseField (delim : UInt8) (trim : Bytes → Bytes) : Nat → Bytes → Bytes → List Int → GoM (Option (Bytes × List Int))
  | 0, _, _, _ => .error .other
  | f+1, data, rb, idxs => do
    -- fixed code: `if len(data) == 0 || data[0] != quoteChar`
    let unquoted ← (if data.length = 0 then pure true else do
                      let c ← idx? data 0
                      pure (c != cQuote))
    if unquoted then do
      let i := indexByte data delim
      let field ← (if i ≥ 0 then sliceTo? data i else pure (trim data))
      if indexByte field cQuote ≥ 0 then pure none else do
      let rb := rb ++ field
      let idxs := idxs ++ [(rb.length : Int)]
      if i ≥ 0 then do
        let data ← sliceFrom? data (i + 1)
        parseField delim trim f data rb idxs
      else pure (some (rb, idxs))
    else do
      let data ← sliceFrom? data 1
      match ← quoted delim (data.length + 1) data rb with
      | .bad => pure none
      | .done rb => pure (some (rb, idxs ++ [(rb.length : Int)]))
      | .cont data rb => parseField delim trim f data rb (idxs ++ [(rb.length : Int)])

/-- `for i, idx := range fieldIndexes { result[i] = str[preIdx:idx]; preIdx = idx }` -/
def cutFields (str : Bytes) : List Int → Int → GoM (List Bytes)
  | [], _ => pure []
  | idx :: rest, pre => do
    let f ← slice? str pre idx
    let fs ← cutFields str rest idx
    pure (f :: fs)

/-- result: fields (or the decoder's error) and the caller's buffer after the call -/
def decode (delim : UInt8) (trim : Bytes → Bytes) (buf : Bytes) : GoM (Option (List Bytes) × Bytes) :=
  if buf.length = 0 then pure (some [], buf) else do
  let n : Int := buf.length
  let crlf ← (if n ≥ 2 then do
                let a ← idx? buf (n - 2)
                if a = CR then do
                  let b ← idx? buf (n - 1)
                  pure (b == NL)
                else pure false
              else pure false)
  -- data[n-2] = '\n'; data = data[:n-1]
  let buf' := if crlf then buf.set (n - 2).toNat NL else buf
  let data ← (if crlf then sliceTo? buf' (n - 1) else pure buf')
  match ← parseField delim trim (data.length + 2) data [] [] with
  | none => pure (none, buf')
  | some (rb, idxs) =>
    let fs ← cutFields rb idxs 0
    pure (some fs, buf')

end FileD.Dec.CSV
