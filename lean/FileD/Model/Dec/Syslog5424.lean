/-
  Model of `(*syslogRFC5424Decoder).Decode` (decoder/syslog_rfc5424.go), statement by statement.
  `bytes.Reader.ReadByte` in `parseStructuredData` is read as: byte `data[idx]`, EOF when
  `idx = len(data)` (the reader is reset to `data` when `idx` is reset to 0 and both advance by
  one per iteration).
-/
import FileD.Model.Dec.Syslog
namespace FileD.Dec.Syslog5424
open FileD GoSlice FileD.Dec FileD.Dec.Syslog

abbrev SDParams := List (Bytes × Bytes)
abbrev SD := List (Bytes × SDParams)

structure Row where
  priority : Bytes
  facility : Bytes
  severity : Bytes
  protoVersion : Bytes
  timestamp : Bytes
  hostname : Bytes
  appName : Bytes
  procID : Bytes
  msgID : Bytes
  message : Bytes
  sd : SD
deriving Repr, DecidableEq

/-- `readUntilSpaceOrNilValue` -/
def readUntilSpaceOrNil (data : Bytes) : GoM (Int × Bool) :=
  if data.length < 2 then pure (-1, false) else do
  let c0 ← idx? data 0
  let nil ← (if c0 = cMinus then do
               let c1 ← idx? data 1
               pure (c1 == SP)
             else pure false)
  if nil then pure (0, true) else
  let offset := indexByte data SP
  pure (offset, decide (offset > 0))

/-- the nanoseconds digit loop: `for ; i < len(ts) && isDigit(ts[i]); i++ {}` -/
def digitsLoop (ts : Bytes) : Nat → Int → GoM Int
  | 0, _ => .error .other
  | f+1, i =>
    if i < ts.length then do
      let c ← idx? ts i
      if isDigit c then digitsLoop ts f (i + 1) else pure i
    else pure i

/-- `validateTimestamp` (RFC3339 / RFC3339Nano shapes) -/
def validateTimestamp (ts : Bytes) : GoM Bool :=
  if ts.length < 20 then pure false else do
  let t4 ← idx? ts 4
  let t7 ← idx? ts 7
  let t10 ← idx? ts 10
  let t13 ← idx? ts 13
  let t16 ← idx? ts 16
  if !(t4 == cMinus && t7 == cMinus && t10 == 84 && t13 == cColon && t16 == cColon) then pure false else do
  let y ← sliceTo? ts 4
  let mo ← slice? ts 5 7
  let d ← slice? ts 8 10
  if !(checkNumber y 0 9999 && checkNumber mo 1 12 && checkNumber d 1 31) then pure false else do
  let hh ← slice? ts 11 13
  let mm ← slice? ts 14 16
  let ss ← slice? ts 17 19
  if !(checkNumber hh 0 23 && checkNumber mm 0 59 && checkNumber ss 0 59) then pure false else do
  let ts ← sliceFrom? ts 19
  -- nanoseconds
  let frac ← (if ts.length ≥ 2 then do
                let a ← idx? ts 0
                if a = cDot then do
                  let b ← idx? ts 1
                  pure (isDigit b)
                else pure false
              else pure false)
  let r ← (if frac then do
      let i ← digitsLoop ts (ts.length + 1) 2
      if i > 7 then pure none else do
      let ts ← sliceFrom? ts i
      pure (some ts)
    else pure (some ts))
  match r with
  | none => pure false
  | some ts =>
  -- timezone
  let z ← (if ts.length > 0 then do
             let a ← idx? ts 0
             pure (a == 90)
           else pure false)
  if z then pure true else
  if ts.length < 6 then pure false else do
  let a ← idx? ts 0
  let c ← idx? ts 3
  if !((a == cPlus || a == cMinus) && c == cColon) then pure false else do
  let h ← slice? ts 1 3
  let m ← slice? ts 4 6
  if !(checkNumber h 0 23 && checkNumber m 0 59) then pure false else
  pure true

/-- state of the params loop -/
structure PS where
  idx : Int
  startParamID : Int
  startParamValue : Int
  inside : Bool
  paramID : Bytes
  params : SDParams

/-- `paramsLoop`: result `none` = `return nil, 0, false`; `some (ps, wasClose)` -/
def paramsLoop (data : Bytes) : Nat → PS → GoM (Option (PS × Bool))
  | 0, _ => .error .other
  | f+1, s =>
    -- b, err := r.ReadByte(); if err != nil { break }
    if s.idx ≥ data.length then pure (some (s, false)) else do
    let b ← idx? data s.idx
    if b = cRBr then
      -- fixed code: `if idx == 0 || data[idx-1] != '"'`
      if s.idx = 0 then pure none else do
      let p ← idx? data (s.idx - 1)
      if p ≠ cQuote then pure none else
      pure (some (s, true))
    else if b = SP ∧ !s.inside then
      paramsLoop data f { s with startParamID := s.idx + 1, idx := s.idx + 1 }
    else if b = cEq ∧ !s.inside then do
      let bad ← (if s.idx + 1 < data.length then do
                   let n ← idx? data (s.idx + 1)
                   pure (n != cQuote)
                 else pure false)
      if bad then pure none else do
      let pid ← slice? data s.startParamID s.idx
      paramsLoop data f { s with paramID := pid, idx := s.idx + 1 }
    else if b = cQuote then
      -- fixed code: `if idx == 0 { return nil, 0, false }`
      if s.idx = 0 then pure none else do
      let p ← idx? data (s.idx - 1)
      if p = cBackslash then paramsLoop data f { s with idx := s.idx + 1 } else
      if s.inside then do
        let v ← slice? data s.startParamValue s.idx
        paramsLoop data f { s with params := mapSet s.params s.paramID v, inside := false, idx := s.idx + 1 }
      else
        paramsLoop data f { s with startParamValue := s.idx + 1, inside := true, idx := s.idx + 1 }
    else paramsLoop data f { s with idx := s.idx + 1 }

/-- the element loop of `parseStructuredData`: `none` = invalid; `some (sd, offset, wasOpen)` -/
def sdLoop : Nat → Bytes → Int → SD → Bool → GoM (Option (SD × Int × Bool))
  | 0, _, _, _, _ => .error .other
  | f+1, data, offset, sd, wasOpen =>
    if data.length > 0 then do
      let c ← idx? data 0
      if c ≠ cLBr then pure (some (sd, offset, wasOpen)) else do
      let data ← sliceFrom? data 1          -- shiftData(1)
      let offset := offset + 1
      let idx := indexByte data SP
      if idx < 2 then pure none else do
      let sdID ← sliceTo? data idx
      let data ← sliceFrom? data (idx + 1)  -- shiftData(idx + 1)
      let offset := offset + (idx + 1)
      match ← paramsLoop data (data.length + 1) ⟨0, 0, 0, false, [], []⟩ with
      | none => pure none
      | some (ps, wasClose) =>
      if !wasClose then pure none else do
      -- sd[sdID] = SyslogSDParams{} followed by the params written in the loop
      let sd := mapSet sd sdID ps.params
      let data ← sliceFrom? data (ps.idx + 1)   -- shiftData(idx + 1)
      let offset := offset + (ps.idx + 1)
      sdLoop f data offset sd true
    else pure (some (sd, offset, wasOpen))

/-- `parseStructuredData`: `(sd, offset, ok)` -/
def parseStructuredData (data : Bytes) : GoM (SD × Int × Bool) := do
  let dash ← (if data.length > 0 then do
                let c ← idx? data 0
                pure (c == cMinus)
              else pure false)
  if dash then
    if data.length = 1 then pure ([], 0, true) else do
    let c ← idx? data 1
    pure ([], 0, c == SP)
  else
  match ← sdLoop (data.length + 1) data 0 [] false with
  | none => pure ([], 0, false)
  | some (sd, offset, wasOpen) => if !wasOpen then pure ([], 0, false) else pure (sd, offset, true)

/-- one of the five `readUntilSpaceOrNilValue` header fields: `none` = error,
    `some (field, data)` (`field = []` for NILVALUE) -/
def headerField (data : Bytes) : GoM (Option (Bytes × Bytes)) := do
  let (offset, ok) ← readUntilSpaceOrNil data
  if !ok then pure none else
  if offset = 0 then do
    let data ← sliceFrom? data 2
    pure (some ([], data))
  else do
    let v ← sliceTo? data offset
    let data ← sliceFrom? data (offset + 1)
    pure (some (v, data))

def bom : Bytes := [0xEF, 0xBB, 0xBF]

def decode (facStr sevStr : Bool) (data0 : Bytes) : GoM (Option Row) := do
  let data := trimSuffixNL data0
  if data.length = 0 then pure none else do
  -- priority
  match ← parsePriority data with
  | none => pure none
  | some (pri, offset) =>
  let priority ← slice? data 1 offset
  let data ← sliceFrom? data (offset + 1)
  let fac := facility pri facStr
  let sev := severity pri sevStr
  -- proto version
  let offset := indexByte data SP
  if offset ≤ 0 then pure none else do
  let protoVersion ← sliceTo? data offset
  if (atoi protoVersion).isNone then pure none else do
  let data ← sliceFrom? data (offset + 1)
  -- timestamp
  let (offset, ok) ← readUntilSpaceOrNil data
  if !ok then pure none else do
  let r ← (if offset = 0 then do
      let data ← sliceFrom? data 2
      pure (some ([], data))
    else do
      let ts ← sliceTo? data offset
      if !(← validateTimestamp ts) then pure none else do
      let data ← sliceFrom? data (offset + 1)
      pure (some (ts, data)))
  match r with
  | none => pure none
  | some (timestamp, data) =>
  -- hostname, appname, procid, msgid
  match ← headerField data with
  | none => pure none
  | some (hostname, data) =>
  match ← headerField data with
  | none => pure none
  | some (appName, data) =>
  match ← headerField data with
  | none => pure none
  | some (procID, data) =>
  match ← headerField data with
  | none => pure none
  | some (msgID, data) =>
  -- structured data
  let (sd, offset, ok) ← parseStructuredData data
  if !ok then pure none else do
  -- no message
  if offset ≥ data.length then
    pure (some ⟨priority, fac, sev, protoVersion, timestamp, hostname, appName, procID, msgID, [], sd⟩) else do
  let data ← sliceFrom? data (offset + 1)
  -- message
  let data ← (if data.length > 0 then do
      let c ← idx? data 0
      if c = SP then sliceFrom? data 1 else pure data
    else pure data)
  -- BOM
  let data ← (if data.length > 2 then do
      let h ← sliceTo? data 3
      if h = bom then sliceFrom? data 3 else pure data
    else pure data)
  pure (some ⟨priority, fac, sev, protoVersion, timestamp, hostname, appName, procID, msgID, data, sd⟩)

end FileD.Dec.Syslog5424
