/-
  Shared syslog pieces (decoder/syslog.go): priority parsing, facility / severity rendering.
-/
import FileD.Model.Dec.Common
namespace FileD.Dec.Syslog
open FileD GoSlice FileD.Dec

/-- `syslogParsePriority`: `none` = error, `some (p, offset)` -/
def parsePriority (data : Bytes) : GoM (Option (Int × Int)) :=
  if data.length < 3 then pure none else do
  let c0 ← idx? data 0
  if c0 ≠ cLt then pure none else
  let offset := indexByte data cGt
  if offset < 2 ∨ 4 < offset then pure none else do
  let num ← slice? data 1 offset
  match atoi num with
  | none => pure none
  | some p => if p > 191 then pure none else pure (some (p, offset))

def facilityNames : List String :=
  ["KERN", "USER", "MAIL", "DAEMON", "AUTH", "SYSLOG", "LPR", "NEWS", "UUCP", "CRON", "AUTHPRIV", "FTP",
   "NTP", "SECURITY", "CONSOLE", "SOLARISCRON", "LOCAL0", "LOCAL1", "LOCAL2", "LOCAL3", "LOCAL4",
   "LOCAL5", "LOCAL6", "LOCAL7"]

def severityNames : List String := ["EMERG", "ALERT", "CRIT", "ERROR", "WARN", "NOTICE", "INFO", "DEBUG"]

def nameOf (names : List String) (n : Nat) : Bytes :=
  match names[n]? with
  | some s => s.toUTF8.toList
  | none => "UNKNOWN".toUTF8.toList

/-- `syslogFacilityFromPriority` (`asString = false`: format "number") -/
def facility (p : Int) (asString : Bool) : Bytes :=
  let f := p.toNat / 8
  if asString then nameOf facilityNames f else itoa f

/-- `syslogSeverityFromPriority` -/
def severity (p : Int) (asString : Bool) : Bytes :=
  let s := p.toNat % 8
  if asString then nameOf severityNames s else itoa s

end FileD.Dec.Syslog
