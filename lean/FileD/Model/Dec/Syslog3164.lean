/-
  Model of `(*syslogRFC3164Decoder).Decode` (decoder/syslog_rfc3164.go), statement by statement.
-/
import FileD.Model.Dec.Syslog
namespace FileD.Dec.Syslog3164
open FileD GoSlice FileD.Dec FileD.Dec.Syslog

structure Row where
  priority : Bytes
  facility : Bytes
  severity : Bytes
  timestamp : Bytes
  hostname : Bytes
  appName : Bytes
  procID : Bytes
  message : Bytes
deriving Repr, DecidableEq

/-- `len(time.Stamp)` -/
def stampLen : Int := 15

/-- `validateTimestamp`: "Jan _2 15:04:05 " -/
def validateTimestamp (ts : Bytes) : GoM Bool :=
  if (ts.length : Int) < stampLen + 1 then pure false else do
  let t3 ← idx? ts 3
  let t6 ← idx? ts 6
  let t9 ← idx? ts 9
  let t12 ← idx? ts 12
  let t15 ← idx? ts 15
  if !(t3 == SP && t6 == SP && t9 == cColon && t12 == cColon && t15 == SP) then pure false else do
  let t0 ← idx? ts 0
  let t1 ← idx? ts 1
  let t2 ← idx? ts 2
  if t0 < 65 || 90 < t0 || t1 < 97 || t1 > 122 || t2 < 97 || t2 > 122 then pure false else do
  let t4 ← idx? ts 4
  let t5 ← idx? ts 5
  if !((t4 == SP || isDigit t4) && isDigit t5) then pure false else do
  let hh ← slice? ts 7 9
  let mm ← slice? ts 10 12
  let ss ← slice? ts 13 15
  if !(checkNumber hh 0 23 && checkNumber mm 0 59 && checkNumber ss 0 59) then pure false else
  pure true

def decode (facStr sevStr : Bool) (data0 : Bytes) : GoM (Option Row) := do
  let data := trimSuffixNL data0
  if data.length = 0 then pure none else do
  -- priority
  match ← parsePriority data with
  | none => pure none
  | some (pri, offset) =>
  let priority ← slice? data 1 offset
  let data ← sliceFrom? data (offset + 1)
  let fac := facility pri facStr
  let sev := severity pri sevStr
  -- timestamp
  if !(← validateTimestamp data) then pure none else do
  let timestamp ← sliceTo? data stampLen
  let data ← sliceFrom? data (stampLen + 1)
  -- hostname
  let offset := indexByte data SP
  if offset < 0 then pure none else do
  let hostname ← sliceTo? data offset
  let data ← sliceFrom? data (offset + 1)
  -- appname
  let offset := indexAny data [cLBr, cColon, SP]
  if offset < 0 then pure none else do
  let appName ← sliceTo? data offset
  let data ← sliceFrom? data offset
  -- optional procid
  let d0 ← idx? data 0
  let r ← (if d0 = cLBr then do
      let offset := indexByte data cRBr
      -- fixed code: `offset < 0 || offset+1 >= len(data) || data[offset+1] != ':'`
      if offset < 0 ∨ offset + 1 ≥ data.length then pure none else do
      let c ← idx? data (offset + 1)
      if c ≠ cColon then pure none else do
      let procID ← slice? data 1 offset
      let data ← sliceFrom? data (offset + 2)
      pure (some (procID, data))
    else do
      let data ← sliceFrom? data 1
      pure (some ([], data)))
  match r with
  | none => pure none
  | some (procID, data) =>
  -- message
  let data ← (if data.length > 0 then do
      let c ← idx? data 0
      if c = SP then sliceFrom? data 1 else pure data
    else pure data)
  pure (some ⟨priority, fac, sev, timestamp, hostname, appName, procID, data⟩)

end FileD.Dec.Syslog3164
