/-
  Replay of gated, sequential pool schedules (harness cmd `c04.pool` / `c05.gated`) on the pool
  models of Model/Pool.lean. A harness op is a *macro step*: a list of atomic ops of the fine
  model (so every state visited is reachable in the fine model and the theorems apply to it):

    get r [armed]   `start r`, then r runs alone as far as it can
    rel r           r (standing at the gate = pc `willWait`) does `waitEnq`
    back r          r runs back() as far as it can
    hb              —
  followed in every block by: settle; hbRead; hbFire; settle   (kinds `…-nohb`: only the first settle;
  the pool's heartbeat interval is one hour there)          (settle = every reader that can
  move runs, readers the implementation reports as `got` first: who wins a race is the scheduler's
  choice, the model follows the observed choice and must then agree on everything else).
-/
import FileD.Model.Pool
namespace FileD.Pool

inductive MOp
  | get (r : Nat) (armed : Bool)
  | rel (r : Nat)
  | back (r : Nat)
  | mark (r : Nat)   -- the holder turns its event into a split parent (SetChildParentKind)
  | hb
  deriving DecidableEq, Repr

inductive Status
  | got (e : Int) | gate | wait | spin
  deriving DecidableEq, Repr

/-- one observed block: op, per-reader observations, flags, counters, slot dump -/
structure Block where
  op : MOp
  obs : List (Nat × Status)
  dup : Bool := false
  unsettled : Bool := false
  inUse : Nat
  sw : Nat
  cw : Nat
  slots : Option String := none
  deriving Repr

def MOp.render : MOp → String
  | .get r true => s!"G{r}"
  | .get r false => s!"g{r}"
  | .rel r => s!"r{r}"
  | .back r => s!"b{r}"
  | .mark r => s!"k{r}"
  | .hb => "h"

def Status.render : Status → String
  | .got e => s!"got {e}"
  | .gate => "gate"
  | .wait => "wait"
  | .spin => "spin"

def Block.render (b : Block) : String :=
  let o := b.obs.map (fun (r, st) => s!" o {r} {st.render}")
  b.op.render ++ String.join o ++ (if b.dup then " dup" else "") ++ (if b.unsettled then " unsettled" else "")
    ++ (match b.slots with | some d => s!" s {d}" | none => "")
    ++ s!" i {b.inUse} {b.sw} {b.cw} ;"

/-- replay bookkeeping shared by both pools -/
structure Gates where
  armed : List Nat := []    -- readers whose next arrival at the gate stops there
  atGate : List Nat := []   -- readers standing at the gate
  deriving Repr

def MOp.reader : MOp → List Nat
  | .get r _ | .rel r | .back r | .mark r => [r]
  | .hb => []

/-- settle order: (before the heartbeat: the reader of the op itself, then) the readers observed as
    `got`, then everybody -/
def gotFirst (obs : List (Nat × Status)) (n : Nat) : List Nat :=
  (obs.filterMap fun (r, st) => match st with | .got _ => some r | _ => none) ++ List.range n

namespace LM

structure MS where
  s : St
  g : Gates := {}

/-- run reader r; unarmed readers go through the gate into `Wait` -/
def settle1 (c : Cfg) (m : MS) (r : Nat) : MS :=
  let s := runReader c 32 m.s r
  match s.pcs[r]? with
  | some .willWait =>
    if m.g.atGate.contains r then { m with s := s }
    else if m.g.armed.contains r then
      { s := s, g := { armed := m.g.armed.erase r, atGate := r :: m.g.atGate } }
    else
      match step? c s (.waitEnq r) with
      | some s' => { m with s := s' }
      | none => { m with s := s }
  | some .holding => { s := s, g := { m.g with armed := m.g.armed.erase r } }
  | _ => { m with s := s }

def settle (c : Cfg) (order : List Nat) : Nat → MS → MS
  | 0, m => m
  | k + 1, m => settle c order k (order.foldl (settle1 c) m)

def applyOp (c : Cfg) (m : MS) : MOp → Option MS
  | .get r a => do
    let s ← step? c m.s (.start r)
    pure { s := s, g := { m.g with armed := if a then r :: m.g.armed else m.g.armed } }
  | .rel r =>
    if m.g.atGate.contains r then do
      let s ← step? c m.s (.waitEnq r)
      pure { s := s, g := { m.g with atGate := m.g.atGate.erase r } }
    else none
  | .back r => do
    let s ← step? c m.s (.bDec r)
    pure { m with s := s }
  | .mark r => do
    let s ← step? c m.s (.mark r)
    pure { m with s := s }
  | .hb => some m

def block? (c : Cfg) (hb : Bool) (m : MS) (b : Block) : Option MS := do
  let n := m.s.pcs.length
  let order := gotFirst b.obs n
  let m ← applyOp c m b.op
  let m := settle c (b.op.reader ++ order) (n + 2) m
  if !hb then pure m else
  let s1 ← step? c m.s .hbRead
  let s2 ← step? c s1 .hbFire
  pure (settle c order (n + 2) { m with s := s2 })

def statusOf (m : MS) (r : Nat) (implEv : Nat → Int) : Option Status :=
  match m.s.pcs[r]? with
  | none | some .idle => none
  | some .holding => some (.got (implEv r))
  | some .willWait => if m.g.atGate.contains r then some .gate else some .wait
  | some .backing => some .spin
  | _ => some .wait

def isParked : Pc → Bool | .parked => true | _ => false

/-- the model's rendering of the block it just replayed (event identities of the low-memory pool
    come from sync.Pool and are not modelled: the implementation's token is passed through) -/
def observe (m : MS) (b : Block) : Block :=
  let implEv := fun r => match b.obs.find? (·.1 = r) with | some (_, .got e) => e | _ => -1
  { op := b.op,
    obs := (List.range m.s.pcs.length).filterMap (fun r => (statusOf m r implEv).map (r, ·)),
    inUse := m.s.inUse, sw := m.s.sw, cw := m.s.pcs.countP isParked, slots := none }

end LM

namespace Std

structure MS where
  s : St
  g : Gates := {}

def settle1 (m : MS) (r : Nat) : MS :=
  let s := runReader 64 m.s r
  match s.pcs[r]? with
  | some (.willWait _) =>
    if m.g.atGate.contains r then { m with s := s }
    else if m.g.armed.contains r then
      { s := s, g := { armed := m.g.armed.erase r, atGate := r :: m.g.atGate } }
    else
      match step? s (.waitEnq r) with
      | some s' => { m with s := s' }
      | none => { m with s := s }
  | some (.holding _) => { s := s, g := { m.g with armed := m.g.armed.erase r } }
  | _ => { m with s := s }

def settle (order : List Nat) : Nat → MS → MS
  | 0, m => m
  | k + 1, m => settle order k (order.foldl settle1 m)

def applyOp (m : MS) : MOp → Option MS
  | .get r a => do
    let s ← step? m.s (.start r)
    pure { s := s, g := { m.g with armed := if a then r :: m.g.armed else m.g.armed } }
  | .rel r =>
    if m.g.atGate.contains r then do
      let s ← step? m.s (.waitEnq r)
      pure { s := s, g := { m.g with atGate := m.g.atGate.erase r } }
    else none
  | .back r => do
    let s ← step? m.s (.bstart r)
    pure { m with s := s }
  | .mark r => do
    let s ← step? m.s (.mark r)
    pure { m with s := s }
  | .hb => some m

def block? (hb : Bool) (m : MS) (b : Block) : Option MS := do
  let n := m.s.pcs.length
  let order := gotFirst b.obs n
  let m ← applyOp m b.op
  let m := settle (b.op.reader ++ order) (n + 2) m
  if !hb then pure m else
  let s1 ← step? m.s .hbRead
  let s2 ← step? s1 .hbFire
  pure (settle order (n + 2) { m with s := s2 })

def statusOf (m : MS) (r : Nat) : Option Status :=
  match m.s.pcs[r]? with
  | none | some .idle => none
  | some (.holding e) => some (.got e)
  | some (.willWait _) => if m.g.atGate.contains r then some .gate else some .wait
  | some (.btkt _) | some (.bspin ..) | some (.returning ..) | some .bdec | some .bbc => some .spin
  | _ => some .wait

def isParked : Pc → Bool | .parked _ => true | _ => false

def slotDump (s : St) : String :=
  let b := fun (x : Bool) => if x then "1" else "0"
  ",".intercalate (s.slots.map fun sl =>
    b sl.f1 ++ b sl.f2 ++ (match sl.ev with | some e => toString e | none => "-"))

def observe (m : MS) (b : Block) : Block :=
  { op := b.op,
    obs := (List.range m.s.pcs.length).filterMap (fun r => (statusOf m r).map (r, ·)),
    inUse := m.s.inUse, sw := m.s.sw, cw := m.s.pcs.countP isParked, slots := some (slotDump m.s) }

end Std

end FileD.Pool
