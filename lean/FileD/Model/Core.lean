/-
  M1 — the commit path of the pipeline as one transition system (DESIGN §C01/§C02):
  acceptance (stream.put), silent drops (finalize without notifying the input), the main
  batcher and the optional dead-queue batcher (pipeline/batch.go: Add / seal / worker send /
  commitBatch loop), retry exhaustion (pipeline/backoff.go: onRetryError, Router.Fail,
  batch.reset + BatchStatusInDeadQueue) and the calls of InputPlugin.Commit.

  Every op is one step the code serialises under a lock (the trace points of /repo/pipeline log
  them inside that lock), so `List Op` ranges over all interleavings of readers, processors,
  batch workers and flush timers, all batch sizes / worker counts / failure patterns.

  The processors and streams enter only through the guard of `add`: an event is handed to the
  main batcher after every earlier event of its stream was handed over or dropped. That guard
  is what the stream / processor layer (M2, Model/StreamProc.lean) guarantees; here it is
  checked on every replayed trace.
-/
namespace FileD.Core

structure Ev where
  st  : Nat      -- (source, stream) index
  seq : Nat      -- per-stream sequence number (stream.currentSeq)
  off : Nat      -- offset given by the input
deriving Repr, DecidableEq, Inhabited

inductive BSt | pending | ok | failed | routed
deriving Repr, DecidableEq

/-- child event made by processor.Spawn (split): (parent, index). Children are not stream
    events: they are never accepted, never committed to the input. -/
abbrev Kid := Ev × Nat

structure Batch where
  seq  : Nat
  evs  : List Ev          -- stream events (regular ones and split parents)
  st   : BSt
  kids : List Kid := []   -- child events in the batch
deriving Repr, DecidableEq

/-- one batcher -/
structure BQ where
  cur        : List Ev := []        -- events of the batch being filled
  curKids    : List Kid := []       -- child events of the batch being filled
  full       : List Batch := []     -- sealed, not yet committed (oldest first)
  outSeq     : Nat := 0
  commitSeq  : Nat := 0
  added      : List Ev := []        -- history: every event ever appended, in order
  done       : List Ev := []        -- history: events of batches whose commit loop was entered
  committing : List Ev := []        -- rest of the commit loop in progress (inside seqMu)
  kidsLoop   : List Kid := []       -- history: children of batches whose commit loop was entered
deriving Repr

structure State where
  hasDQ    : Bool
  accepted : List Ev := []
  dropped  : List Ev := []
  main     : BQ := {}
  dq       : BQ := {}
  inbox    : List Ev := []     -- events handed to Router.Fail, not yet appended to the dead queue
  acked    : List Ev := []     -- events of batches whose send returned nil
  gaveUp   : List Ev := []     -- events reported through the error callback (retries exhausted)
  commits  : List Ev := []     -- InputPlugin.Commit calls, in order
  parents  : List Ev := []     -- events turned child-parent by processor.Spawn
  spawned  : List Kid := []    -- every child ever spawned
  kidsDone : List Kid := []    -- children of batches whose send returned nil or that were given up
  kidsAdded : List Kid := []   -- children handed to the main batcher
deriving Repr

inductive Op
  | accept (e : Ev)
  | drop (e : Ev)
  | add (dq : Bool) (e : Ev)
  | sealB (dq : Bool) (k : Nat)
  | sendOk (dq : Bool) (k : Nat) (evs : List Ev)
  | sendFail (dq : Bool) (k : Nat) (evs : List Ev)
  | giveUp (dq : Bool) (k : Nat) (evs : List Ev)
  | bcommit (dq : Bool) (k : Nat)
  | commit (e : Ev)
  | spawn (p : Ev) (k : Nat)          -- processor.Spawn made child k of p (p becomes child-parent)
  | addKid (p : Ev) (k : Nat)         -- Batcher.Add of that child (main batcher)
  | kidAck (p : Ev) (k : Nat)         -- observation only: the send function saw child k of p in a batch it returned nil for
deriving Repr, DecidableEq

def lastSeq (st : Nat) (l : List Ev) : Nat :=
  l.foldl (fun m e => if e.st = st then max m e.seq else m) 0

/-- every earlier event of the stream was already handed over or dropped -/
def earlierDone (s : State) (e : Ev) : Bool :=
  s.accepted.all fun e' => !(e'.st == e.st && decide (e'.seq < e.seq)) || s.dropped.contains e' || s.main.added.contains e'

def setSt (k : Nat) (evs : List Ev) (st : BSt) : List Batch → Option (List Batch)
  | [] => none
  | b :: bs =>
    if b.seq = k then
      if b.st = .pending ∧ b.evs = evs then some ({ b with st := st } :: bs) else none
    else (setSt k evs st bs).map (b :: ·)

/-- the pending batch `k` holding exactly `evs`: give it up -/
def giveUpIn (k : Nat) (evs : List Ev) (st : BSt) (clear : Bool) : List Batch → Option (List Batch)
  | [] => none
  | b :: bs =>
    if b.seq = k ∧ b.st = .pending ∧ b.evs = evs then
      some ({ b with st := st, evs := if clear then [] else b.evs } :: bs)
    else (giveUpIn k evs st clear bs).map (b :: ·)

def bq (s : State) (dq : Bool) : BQ := if dq then s.dq else s.main
def setBq (s : State) (dq : Bool) (q : BQ) : State := if dq then { s with dq := q } else { s with main := q }

def step? (s : State) : Op → Option State
  | .accept e =>
    -- stream.put: sequence numbers of a stream count up from 1
    if e.seq = lastSeq e.st s.accepted + 1 then
      some { s with accepted := s.accepted ++ [e] } else none
  | .drop e =>
    if s.accepted.contains e ∧ !s.dropped.contains e ∧ !s.main.added.contains e then
      some { s with dropped := s.dropped ++ [e] } else none
  | .add false e =>
    if s.accepted.contains e ∧ !s.dropped.contains e ∧ !s.main.added.contains e ∧ earlierDone s e then
      some { s with main := { s.main with cur := s.main.cur ++ [e], added := s.main.added ++ [e] } }
    else none
  | .add true e =>
    if s.hasDQ ∧ s.inbox.contains e then
      some { s with inbox := s.inbox.erase e,
                    dq := { s.dq with cur := s.dq.cur ++ [e], added := s.dq.added ++ [e] } }
    else none
  | .sealB d k =>
    let q := bq s d
    if (q.cur ≠ [] ∨ q.curKids ≠ []) ∧ k = q.outSeq then
      some (setBq s d { q with full := q.full ++ [⟨k, q.cur, .pending, q.curKids⟩], outSeq := q.outSeq + 1,
                               cur := [], curKids := [] })
    else none
  | .sendOk d k evs =>
    -- `evs` = the stream events Batch.ForEach yields (split parents are skipped)
    let q := bq s d
    match q.full.find? (fun b => b.seq = k) with
    | some b =>
      if b.evs.filter (fun e => !s.parents.contains e) = evs then
        match setSt k b.evs .ok q.full with
        | some f => some { setBq s d { q with full := f } with acked := s.acked ++ b.evs, kidsDone := s.kidsDone ++ b.kids }
        | none => none
      else none
    | none => none
  | .sendFail d k evs =>
    let q := bq s d
    if q.full.any (fun b => b.seq = k ∧ b.st = .pending ∧ b.evs.filter (fun e => !s.parents.contains e) = evs) then some s else none
  | .giveUp d k evs =>
    -- `evs` = batch.events handed to the error callback (split parents included, children not listed)
    let q := bq s d
    let kids := ((q.full.find? (fun b => b.seq = k ∧ b.st = .pending ∧ b.evs = evs)).map (·.kids)).getD []
    if !d ∧ s.hasDQ then
      -- dead queue configured: events go to Router.Fail, the batch is reset (commits nothing)
      match giveUpIn k evs .routed true q.full with
      | some f => some { setBq s d { q with full := f } with inbox := s.inbox ++ evs }
      | none => none
    else
      match giveUpIn k evs .failed false q.full with
      | some f => some { setBq s d { q with full := f } with gaveUp := s.gaveUp ++ evs, kidsDone := s.kidsDone ++ kids }
      | none => none
  | .bcommit d k =>
    -- a batch without iterable events (only split parents) is not sent but is committed
    let q := bq s d
    match q.full with
    | b :: bs =>
      let noIter := b.kids.isEmpty && b.evs.all (fun e => s.parents.contains e)
      if b.seq = k ∧ k = q.commitSeq ∧ (b.st ≠ .pending ∨ (b.st = .pending ∧ noIter)) ∧ q.committing = [] then
        some { setBq s d { q with full := bs, commitSeq := q.commitSeq + 1, done := q.done ++ b.evs, committing := b.evs,
                                  kidsLoop := q.kidsLoop ++ b.kids } with
               acked := if b.st = .pending then s.acked ++ b.evs else s.acked }
      else none
    | [] => none
  | .commit e =>
    -- one Controller.Commit call of a commit loop (main or dead queue)
    if s.main.committing.head? = some e then
      some { s with main := { s.main with committing := s.main.committing.tail }, commits := s.commits ++ [e] }
    else if s.dq.committing.head? = some e then
      some { s with dq := { s.dq with committing := s.dq.committing.tail }, commits := s.commits ++ [e] }
    else none

  | .spawn p k =>
    -- processor.Spawn: p is being processed (accepted, not yet out or dropped); child k is new
    if s.accepted.contains p ∧ !s.dropped.contains p ∧ !s.main.added.contains p ∧ !s.spawned.contains (p, k) then
      some { s with parents := if s.parents.contains p then s.parents else s.parents ++ [p], spawned := s.spawned ++ [(p, k)] }
    else none
  | .addKid p k =>
    -- children reach the output before their parent does
    if s.spawned.contains (p, k) ∧ !s.kidsAdded.contains (p, k) ∧ !s.main.added.contains p then
      some { s with main := { s.main with curKids := s.main.curKids ++ [(p, k)] }, kidsAdded := s.kidsAdded ++ [(p, k)] }
    else none

  | .kidAck _ _ => some s

def init (hasDQ : Bool) : State := { hasDQ := hasDQ }

def run (s : State) : List Op → Option State
  | [] => some s
  | op :: ops => (step? s op).bind (run · ops)

/-- index of the first op the model does not enable -/
def firstReject (s : State) : List Op → Nat → Option Nat
  | [], _ => none
  | op :: ops, i =>
    match step? s op with
    | none => some i
    | some s' => firstReject s' ops (i + 1)

end FileD.Core
