/-
  The composed system: M1 (commit path, Model/Core.lean) running together with one M2
  (stream + owner, Model/StreamProc.lean) per stream. The three steps the two layers share are
  joint ops:
    put  e  = stream.put            = M2 `put e.seq`  + M1 `accept e`
    drop e  = finalize(…, back)     = M2 `drop e.seq` + M1 `drop e`
    out  e  = router.Out → Batcher.Add (same goroutine) = M2 `out e.seq` + M1 add **without**
              the hand-over guard (`addU`)
  Every other step belongs to one layer only. In this system nothing is assumed about the order
  in which events reach the batcher: Lemmas/Sys.lean proves that M1's guard holds whenever M2
  enables `out`, so the theorems of M1 hold for the composed system unconditionally.
-/
import FileD.Model.Core
import FileD.Model.StreamProc
namespace FileD.Sys
open FileD FileD.Core

structure State where
  core    : Core.State
  streams : Nat → StreamProc.SS

inductive Op
  | put (e : Ev)
  | drop (e : Ev)
  | out (e : Ev)
  | stream (st : Nat) (op : StreamProc.Op)
  | core (op : Core.Op)

/-- Batcher.Add on the main batcher with no precondition -/
def addU (s : Core.State) (e : Ev) : Core.State :=
  { s with main := { s.main with cur := s.main.cur ++ [e], added := s.main.added ++ [e] } }

def setStream (f : Nat → StreamProc.SS) (st : Nat) (v : StreamProc.SS) : Nat → StreamProc.SS :=
  fun i => if i = st then v else f i

/-- steps of M2 that are not joint -/
def streamOnly : StreamProc.Op → Bool
  | .put _ | .drop _ | .out _ => false
  | _ => true

/-- steps of M1 that are not joint -/
def coreOnly : Core.Op → Bool
  | .accept _ | .drop _ | .add false _ => false
  | _ => true

def step? (s : State) : Op → Option State
  | .put e =>
    match StreamProc.step? (s.streams e.st) (.put e.seq), Core.step? s.core (.accept e) with
    | some ss, some c => some ⟨c, setStream s.streams e.st ss⟩
    | _, _ => none
  | .drop e =>
    match StreamProc.step? (s.streams e.st) (.drop e.seq), Core.step? s.core (.drop e) with
    | some ss, some c => some ⟨c, setStream s.streams e.st ss⟩
    | _, _ => none
  | .out e =>
    if s.core.accepted.contains e then
      match StreamProc.step? (s.streams e.st) (.out e.seq) with
      | some ss => some ⟨addU s.core e, setStream s.streams e.st ss⟩
      | none => none
    else none
  | .stream st op =>
    if streamOnly op then
      match StreamProc.step? (s.streams st) op with
      | some ss => some ⟨s.core, setStream s.streams st ss⟩
      | none => none
    else none
  | .core op =>
    if coreOnly op then
      match Core.step? s.core op with
      | some c => some ⟨c, s.streams⟩
      | none => none
    else none

def init (hasDQ : Bool) : State := ⟨Core.init hasDQ, fun _ => {}⟩

def run (s : State) : List Op → Option State
  | [] => some s
  | op :: ops => (step? s op).bind (run · ops)

end FileD.Sys
