/-
  Model of the payload builders of the output plugins (C19), statement by statement:

    pipeline/batch.go            Batch.ForEach (skips child-parent events)
    plugin/output/file           out            : Encode + '\n' per event, one write per batch
    plugin/output/http           out/sendSplit  : json or raw encoder + '\n', begin table, split on 413
    plugin/output/elasticsearch  out/appendEvent/appendIndexName/sendSplit
    plugin/output/splunk         out            : {"event":…, copy fields…} concatenated
    plugin/output/loki           out/send       : one json.Marshal'ed push request
    plugin/output/gelf           out            : formatted event + NUL per event
    plugin/output/kafka          out            : one record per event, values are slices of one
                                                  growing buffer (aliasing modelled by `KHeap`)

  Library calls are ORACLES carried by the event (`Ev.enc`, `Ev.route`): insane-json `Encode`,
  `Dig(..).AsString()`, the JSON string escaper, `encoding/json.Marshal`. The HTTP server is an
  oracle too: a script of status codes consumed one per request (`List Nat`).
  Core Lean only (linked into fdmodel).
-/
import FileD.Prelude.Bytes
import FileD.Prelude.GoSlice
namespace FileD.Payload
open FileD

/-- An event as the payload builders see it. `kind`: 0 regular, 1 child, 2 child-parent.
    `enc` = `event.Root.Encode(nil)` (oracle). `route` = sink specific oracle values (see each sink). -/
structure Ev where
  kind : Nat
  enc : Bytes
  route : List Bytes
deriving Repr, DecidableEq, Inhabited

/-- ASCII literal as bytes (reduces in proofs, unlike `FileD.str`) -/
def lit (s : String) : Bytes := s.toList.map (fun c => UInt8.ofNat c.toNat)

def Ev.isChildParent (e : Ev) : Bool := e.kind == 2

/-- `Batch.ForEach`: `for _, event := range b.events { if event.IsChildParentKind() { continue }; cb(event) }` -/
def forEach {σ : Type} (cb : σ → Ev → σ) : List Ev → σ → σ
  | [], s => s
  | e :: es, s => if e.isChildParent then forEach cb es s else forEach cb es (cb s e)

/-- the events a batch delivers (spec side of ForEach) -/
def deliverable (evs : List Ev) : List Ev := evs.filter (fun e => !e.isChildParent)

/-! ### per-worker buffer (`data.outBuf`) -/

/-- a Go `[]byte` owned by the worker: contents (= `len`) and capacity. How much `append` over-allocates
    is not observable; `append` keeps `cap ≥ len`. -/
structure Buf where
  data : Bytes
  cap : Nat
deriving Repr, DecidableEq

def Buf.append (b : Buf) (x : Bytes) : Buf :=
  ⟨b.data ++ x, max b.cap (b.data.length + x.length)⟩

/-- worker data before the first batch is `nil` -/
abbrev WD := Option Buf

/-- head of every `out`:
    `if *workerData == nil { outBuf: make([]byte, 0, lim) }`
    `if cap(data.outBuf) > lim { data.outBuf = make([]byte, 0, lim) }`
    `outBuf := data.outBuf[:0]` -/
def resetBuf (lim : Nat) : WD → Buf
  | none => ⟨[], lim⟩
  | some b => if b.cap > lim then ⟨[], lim⟩ else ⟨b.data.take 0, b.cap⟩

/-! ### file -/

/-- `file.(*Plugin).out`: returns the new worker data and the bytes handed to `p.write` -/
def fileOut (lim : Nat) (wd : WD) (batch : List Ev) : Buf × Bytes :=
  let outBuf := resetBuf lim wd
  let outBuf := forEach (fun b e => (b.append e.enc).append [NL]) batch outBuf
  (outBuf, outBuf.data)

/-- successive batches through one worker -/
def fileRun (lim : Nat) : WD → List (List Ev) → List Bytes
  | _, [] => []
  | wd, b :: bs => let r := fileOut lim wd b; r.2 :: fileRun lim (some r.1) bs

/-! ### gelf (NUL terminated); `route = [encoding of the event after formatEvent]` -/

def gelfDoc (e : Ev) : Bytes := match e.route with | d :: _ => d | [] => e.enc

def gelfOut (lim : Nat) (wd : WD) (batch : List Ev) : Buf × Bytes :=
  let outBuf := resetBuf lim wd
  let outBuf := forEach (fun b e => (b.append (gelfDoc e)).append [0]) batch outBuf
  (outBuf, outBuf.data)

def gelfRun (lim : Nat) : WD → List (List Ev) → List Bytes
  | _, [] => []
  | wd, b :: bs => let r := gelfOut lim wd b; r.2 :: gelfRun lim (some r.1) bs

/-! ### HTTP requests and the status-code oracle -/

structure Req where
  status : Nat
  body : Bytes
  n : Nat        -- number of events in the request (model-side bookkeeping, not on the wire)
deriving Repr, DecidableEq

/-- the next answer of the scripted server; an exhausted script answers `dflt` -/
def nextStatus (dflt : Nat) : List Nat → Nat × List Nat
  | [] => (dflt, [])
  | s :: sc => (s, sc)

/-- xhttp.Client.DoTimeout: `!(200 <= status && status <= 202)` is an error (status 0 = transport error) -/
def isOkStatus (s : Nat) : Bool := 200 ≤ s && s ≤ 202

/-- result of send / sendSplit: `(statusCode, err != nil)`, the rest of the script, the requests made -/
structure SR where
  code : Nat
  err : Bool
  sc : List Nat
  reqs : List Req
deriving Repr, DecidableEq

/-- `data[begin[left]:begin[right]]` with Go's bounds checks -/
def sliceBE (data : Bytes) (begin : List Nat) (l r : Nat) : GoM Bytes := do
  let a ← GoSlice.idx? begin (l : Int)
  let b ← GoSlice.idx? begin (r : Int)
  GoSlice.slice? data (a : Int) (b : Int)

/-- `sendSplit(left, right, begin, data)` of elasticsearch and http (identical code), as a
    recursive function over the status oracle. `fuel ≥ right - left` is always enough. -/
def sendSplit : Nat → Nat → Nat → List Nat → Bytes → List Nat → GoM SR
  | fuel, l, r, begin, data, sc =>
    if l = r then .ok ⟨200, false, sc, []⟩ else
    match fuel with
    | 0 => .error .other
    | fuel + 1 =>
      match sliceBE data begin l r with
      | .error p => .error p
      | .ok body =>
        let st := (nextStatus 200 sc).1
        let sc1 := (nextStatus 200 sc).2
        let rq : Req := ⟨st, body, r - l⟩
        if isOkStatus st then .ok ⟨200, false, sc1, [rq]⟩ else
        if st = 413 then
          -- can't save even one log
          if r - l = 1 then .ok ⟨st, true, sc1, [rq]⟩ else
          match sendSplit fuel l ((l + r) / 2) begin data sc1 with
          | .error p => .error p
          | .ok lres =>
            if lres.err && lres.code ≠ 413 then .ok ⟨lres.code, true, lres.sc, rq :: lres.reqs⟩ else
            -- an event that is too large on its own is lost, the rest of the batch still has to be sent
            match sendSplit fuel ((l + r) / 2) r begin data lres.sc with
            | .error p => .error p
            | .ok rres =>
              if rres.err then .ok ⟨rres.code, true, rres.sc, rq :: (lres.reqs ++ rres.reqs)⟩
              else .ok ⟨lres.code, lres.err, rres.sc, rq :: (lres.reqs ++ rres.reqs)⟩
        else .ok ⟨st, true, sc1, [rq]⟩

/-- the split recursion BEFORE the fix (kept for the counterexample theorem): a single event
    answered 413 aborts the recursion, the remaining halves are never sent -/
def sendSplitOld : Nat → Nat → Nat → List Nat → Bytes → List Nat → GoM SR
  | fuel, l, r, begin, data, sc =>
    if l = r then .ok ⟨200, false, sc, []⟩ else
    match fuel with
    | 0 => .error .other
    | fuel + 1 =>
      match sliceBE data begin l r with
      | .error p => .error p
      | .ok body =>
        let st := (nextStatus 200 sc).1
        let sc1 := (nextStatus 200 sc).2
        let rq : Req := ⟨st, body, r - l⟩
        if isOkStatus st then .ok ⟨200, false, sc1, [rq]⟩ else
        if st = 413 then
          if r - l = 1 then .ok ⟨st, true, sc1, [rq]⟩ else
          match sendSplitOld fuel l ((l + r) / 2) begin data sc1 with
          | .error p => .error p
          | .ok lres =>
            if lres.err then .ok ⟨lres.code, true, lres.sc, rq :: lres.reqs⟩ else
            match sendSplitOld fuel ((l + r) / 2) r begin data lres.sc with
            | .error p => .error p
            | .ok rres => .ok ⟨rres.code, rres.err, rres.sc, rq :: (lres.reqs ++ rres.reqs)⟩
        else .ok ⟨st, true, sc1, [rq]⟩

/-- `send(data)`: one request with the whole buffer -/
def sendWhole (data : Bytes) (n : Nat) (sc : List Nat) : SR :=
  let st := (nextStatus 200 sc).1
  ⟨st, !isOkStatus st, (nextStatus 200 sc).2, [⟨st, data, n⟩]⟩

/-- state of the ForEach callback of elasticsearch / http: `data.outBuf`, `data.begin`, `eventsCount` -/
structure Acc where
  buf : Buf
  begin : List Nat
  count : Nat
deriving Repr

/-- `eventsCount++; begin = append(begin, len(outBuf)); outBuf = <append one event>` -/
def accStep (frame : Ev → Bytes) (a : Acc) (e : Ev) : Acc :=
  ⟨a.buf.append (frame e), a.begin ++ [a.buf.data.length], a.count + 1⟩

/-- one attempt of `out`: returns `err == nil` (the batch gets committed) and the requests made -/
structure Attempt where
  ok : Bool
  reqs : List Req
deriving Repr, DecidableEq

/-- tail of elasticsearch/http `out`: 400 and 413 are "non-retryable": logged, `return nil` -/
def outVerdict (r : SR) : Bool :=
  if r.err then (r.code = 400 || r.code = 413) else true

/-- the ForEach loop of `out` of elasticsearch and http, parameterised by the bytes appended per event -/
def buildAcc (frame : Ev → Bytes) (lim : Nat) (wd : WD) (batch : List Ev) : Acc :=
  forEach (accStep frame) batch ⟨resetBuf lim wd, [], 0⟩

/-- `out` of elasticsearch and http -/
def httpLikeOut (frame : Ev → Bytes) (split : Bool) (lim : Nat) (wd : WD) (batch : List Ev) (sc : List Nat) :
    GoM (Buf × Attempt × List Nat) :=
  let a := buildAcc frame lim wd batch
  let begin := a.begin ++ [a.buf.data.length]
  match (if split then sendSplit a.count 0 a.count begin a.buf.data sc
         else .ok (sendWhole a.buf.data a.count sc)) with
  | .error p => .error p
  | .ok r => .ok (a.buf, ⟨outVerdict r, r.reqs⟩, r.sc)

/-- RetriableBatcher: call `out` again on the same batch while it returns an error (`n` tries) -/
def retryLoop (out1 : WD → List Nat → GoM (Buf × Attempt × List Nat)) :
    Nat → WD → List Nat → GoM (WD × List Attempt × List Nat)
  | 0, wd, sc => .ok (wd, [], sc)
  | n + 1, wd, sc => do
    let (b, att, sc1) ← out1 wd sc
    if att.ok then pure (some b, [att], sc1) else
    let (wd2, ats, sc2) ← retryLoop out1 n (some b) sc1
    pure (wd2, att :: ats, sc2)

def maxAttempts : Nat := 3

/-- successive batches through one worker, each retried like the batcher does -/
def httpLikeRun (out1 : List Ev → WD → List Nat → GoM (Buf × Attempt × List Nat)) :
    WD → List Nat → List (List Ev) → GoM (List (List Attempt))
  | _, _, [] => .ok []
  | wd, sc, b :: bs => do
    let (wd1, ats, sc1) ← retryLoop (out1 b) maxAttempts wd sc
    let rest ← httpLikeRun out1 wd1 sc1 bs
    pure (ats :: rest)

/-! ### http: json encoder (`event.Encode`) or raw encoder (`route = [encoding of the field]`, `[]` when absent) -/

/-- what the encoder appends for one event -/
def httpContent (raw : Bool) (e : Ev) : Bytes :=
  if raw then (match e.route with | v :: _ => v | [] => []) else e.enc

def httpFrame (raw : Bool) (e : Ev) : Bytes := httpContent raw e ++ [NL]

def httpOut (raw split : Bool) (lim : Nat) (batch : List Ev) (wd : WD) (sc : List Nat) :=
  httpLikeOut (httpFrame raw) split lim wd batch sc

/-- the raw encoder BEFORE the fix: a missing field returned `buf[:0]`, wiping every event appended
    so far (non-split body of one batch; kept for the counterexample theorem) -/
def httpRawBodyOld (batch : List Ev) : Bytes :=
  forEach (fun (buf : Bytes) e => (match e.route with | v :: _ => buf ++ v | [] => buf.take 0) ++ [NL]) batch []

/-! ### elasticsearch -/

structure EsCfg where
  op : Bytes            -- batch_op_type
  format : Bytes        -- index_format
  time : Bytes          -- p.time
  values : List Bytes   -- index_values
deriving Repr

def atTime : Bytes := lit "@time"
def notSet : Bytes := lit "not_set"

def hexDigit (n : UInt8) : UInt8 := if n < 10 then 48 + n else 87 + n

/-- `appendEscaped` (added by the fix): the value as the inside of a JSON string literal -/
def escapeIdx : Bytes → Bytes
  | [] => []
  | c :: cs =>
    if c = 34 ∨ c = 92 then 92 :: c :: escapeIdx cs
    else if c < 32 then 92 :: 117 :: 48 :: 48 :: hexDigit (c >>> 4) :: hexDigit (c &&& 15) :: escapeIdx cs
    else c :: escapeIdx cs

/-- the value spliced for placeholder number `i`: `route[i]` = `event.Root.Dig(value).AsString()`
    (oracle). `esc = false` is the code before the fix (value appended as it is). -/
def indexValue (esc : Bool) (c : EsCfg) (e : Ev) (i : Nat) : Option Bytes :=
  match c.values[i]? with
  | none => none            -- logger.Fatal: count of placeholders and values isn't match
  | some v =>
    if v = atTime then some c.time else
    match e.route[i]? with
    | some raw =>
      let value := if raw = [] then notSet else raw
      some (if esc then escapeIdx value else value)
    | none => none

/-- the loop of `appendIndexName` over `index_format` -/
def expandFormat (esc : Bool) (c : EsCfg) (e : Ev) : Bytes → Nat → Bytes → Option Bytes
  | [], _, out => some out
  | ch :: rest, i, out =>
    if ch ≠ 37 then expandFormat esc c e rest i (out ++ [ch]) else
    match indexValue esc c e i with
    | none => none
    | some v => expandFormat esc c e rest (i + 1) (out ++ v)

def headerPrefix (c : EsCfg) : Bytes := lit "{\"" ++ c.op ++ lit "\":{\"_index\":\""

/-- `appendIndexName(nil, event)` -/
def actionLine (esc : Bool) (c : EsCfg) (e : Ev) : Option Bytes :=
  (expandFormat esc c e c.format 0 (headerPrefix c)).map (· ++ lit "\"}}")

/-- `appendEvent`: action line, '\n', document, '\n'. A Fatal makes the frame `none`. -/
def esFrame? (esc : Bool) (c : EsCfg) (e : Ev) : Option Bytes :=
  (actionLine esc c e).map (fun a => a ++ [NL] ++ e.enc ++ [NL])

/-- total version used inside `out`; `esOut` has already ruled out the Fatal case -/
def esFrame (esc : Bool) (c : EsCfg) (e : Ev) : Bytes :=
  match esFrame? esc c e with
  | some f => f
  | none => []

def esOut (c : EsCfg) (split : Bool) (lim : Nat) (batch : List Ev) (wd : WD) (sc : List Nat) :
    GoM (Buf × Attempt × List Nat) :=
  if (deliverable batch).all (fun e => (esFrame? true c e).isSome) then
    httpLikeOut (esFrame true c) split lim wd batch sc
  else .error .other

/-! ### splunk: `route = [flag₁, enc₁, flag₂, enc₂ …]` per copy field (flag `01` = present in the event) -/

structure CopyField where
  keyq : Bytes   -- the quoted, escaped target key as insane-json encodes it
deriving Repr

def splunkExtras : List CopyField → List Bytes → Bytes
  | cf :: cfs, flag :: v :: rest =>
    (if flag = [1] then lit "," ++ cf.keyq ++ lit ":" ++ v else []) ++ splunkExtras cfs rest
  | _, _ => []

/-- `root.AddField("event").MutateToNode(event.Root.Node)`, copy fields, `root.Encode(outBuf)` -/
def splunkFrame (cfs : List CopyField) (e : Ev) : Bytes :=
  lit "{\"event\":" ++ e.enc ++ splunkExtras cfs e.route ++ lit "}"

def splunkOut (cfs : List CopyField) (lim : Nat) (batch : List Ev) (wd : WD) (sc : List Nat) :
    GoM (Buf × Attempt × List Nat) :=
  let b0 := resetBuf lim wd
  let b := forEach (fun b e => b.append (splunkFrame cfs e)) batch b0
  let n := forEach (fun (n : Nat) _ => n + 1) batch 0
  let st := (nextStatus 200 sc).1
  -- err != nil → `if code == 400 { return nil }`, else `return err`
  let ok := isOkStatus st || st = 400
  .ok (b, ⟨ok, [⟨st, b.data, n⟩]⟩, (nextStatus 200 sc).2)

/-! ### loki: `route = [tsFlag, tsQuoted, msgQuoted, rest]` (tsFlag `00` valid, `01` not UnixNano) -/

structure LokiEv where
  bad : Bool
  ts : Bytes
  msg : Bytes
  rest : Bytes

def lokiEv (e : Ev) : Option LokiEv :=
  match e.route with
  | [f, ts, msg, rest] => some ⟨f = [1], ts, msg, rest⟩
  | _ => none

def lokiEntry (l : LokiEv) : Bytes := lit "[" ++ l.ts ++ lit "," ++ l.msg ++ lit "," ++ l.rest ++ lit "]"

def joinComma : List Bytes → Bytes
  | [] => []
  | [x] => x
  | x :: xs => x ++ lit "," ++ joinComma xs

def lokiBody (labels : Bytes) (entries : List Bytes) : Bytes :=
  lit "{\"streams\":[{\"stream\":" ++ labels ++ lit ",\"values\":[" ++ joinComma entries ++ lit "]}]}"

/-- the loop of `send` over the messages: stops at the first bad timestamp -/
def lokiValues : List Ev → Option (List Bytes)
  | [] => some []
  | e :: es =>
    match lokiEv e with
    | none => none
    | some l => if l.bad then none else (lokiValues es).map (lokiEntry l :: ·)

def lokiOut (labels : Bytes) (batch : List Ev) (_wd : WD) (sc : List Nat) : GoM (Buf × Attempt × List Nat) :=
  let msgs := forEach (fun acc e => acc ++ [e]) batch []
  if msgs.any (fun e => (lokiEv e).isNone) then .error .other else
  match lokiValues msgs with
  | none => .ok (⟨[], 0⟩, ⟨true, []⟩, sc)        -- errUnixNanoFormat: `return nil`, nothing sent
  | some vs =>
    let st := (nextStatus 204 sc).1
    let ok := st = 204 || st = 400
    .ok (⟨[], 0⟩, ⟨ok, [⟨st, lokiBody labels vs, vs.length⟩]⟩, (nextStatus 204 sc).2)

/-! ### kafka: record values are slices of one growing buffer -/

/-- a view `arr[lo:hi]` into backing array number `arr` -/
structure View where
  arr : Nat
  lo : Nat
  hi : Nat
deriving Repr, DecidableEq

/-- `outBuf` and the arrays it left behind: `frozen` = arrays abandoned by a reallocation (never
    written again), `cur` = contents (= len) of the array `outBuf` points to (its id is
    `frozen.length`), `cap` its capacity -/
structure KHeap where
  frozen : List Bytes
  cur : Bytes
  cap : Nat
deriving Repr

def KHeap.curId (h : KHeap) : Nat := h.frozen.length

/-- `append(outBuf, x...)`: in place when it fits (bytes below `len` are never touched), otherwise
    a new array (`grow` = the runtime's growth policy) gets a copy; the old array stays as it was -/
def KHeap.append (grow : Nat → Nat → Nat) (h : KHeap) (x : Bytes) : KHeap :=
  if h.cur.length + x.length ≤ h.cap then { h with cur := h.cur ++ x }
  else
    { frozen := h.frozen ++ [h.cur], cur := h.cur ++ x,
      cap := max (grow h.cap (h.cur.length + x.length)) (h.cur.length + x.length) }

def KHeap.arrays (h : KHeap) : List Bytes := h.frozen ++ [h.cur]

/-- read through a view; `none` = the view points outside the heap -/
def KHeap.read (h : KHeap) (v : View) : Option Bytes :=
  match h.arrays[v.arr]? with
  | some a => if v.lo ≤ v.hi ∧ v.hi ≤ a.length then some ((a.drop v.lo).take (v.hi - v.lo)) else none
  | none => none

structure KRec where
  topic : Bytes
  value : View
deriving Repr

structure KCfg where
  batchSize : Nat
  defaultTopic : Bytes
  useTopicField : Bool
deriving Repr

/-- `route = [Dig(topic_field).AsString()]` -/
def kafkaTopic (c : KCfg) (e : Ev) : Bytes :=
  if c.useTopicField then
    match e.route with
    | v :: _ => if v = [] then c.defaultTopic else v
    | [] => c.defaultTopic
  else c.defaultTopic

structure KAcc where
  heap : KHeap
  recs : List KRec
  panic : Bool

/-- the ForEach callback: `outBuf, start = event.Encode(outBuf)`, `messages[i].Value = outBuf[start:]` -/
def kafkaStep (grow : Nat → Nat → Nat) (c : KCfg) (a : KAcc) (e : Ev) : KAcc :=
  if a.panic then a else
  let start := a.heap.cur.length
  let h := a.heap.append grow e.enc
  -- `data.messages[i]` with `len(messages) == BatchSize_`
  if a.recs.length < c.batchSize then
    ⟨h, a.recs ++ [⟨kafkaTopic c e, ⟨h.curId, start, h.cur.length⟩⟩], false⟩
  else ⟨h, a.recs, true⟩

/-- `outBuf := data.outBuf[:0]` where `data.outBuf` is never stored back: every batch starts at
    offset 0 of the worker's first array -/
def kafkaStart (lim : Nat) : KHeap := ⟨[], [], lim⟩

def kafkaAcc (grow : Nat → Nat → Nat) (c : KCfg) (lim : Nat) (batch : List Ev) : KAcc :=
  forEach (kafkaStep grow c) batch ⟨kafkaStart lim, [], false⟩

/-- what `ProduceSync` receives: (topic, value bytes read through the view at that moment) -/
def kafkaOut (grow : Nat → Nat → Nat) (c : KCfg) (lim : Nat) (batch : List Ev) : GoM (List (Bytes × Bytes)) :=
  let a := kafkaAcc grow c lim batch
  if a.panic then .error .bounds else
  match a.recs.mapM (fun r => (a.heap.read r.value).map (fun v => (r.topic, v))) with
  | some rs => .ok rs
  | none => .error .bounds

def kafkaRun (grow : Nat → Nat → Nat) (c : KCfg) (lim : Nat) : List (List Ev) → GoM (List (List (Bytes × Bytes)))
  | [] => .ok []
  | b :: bs => do
    let r ← kafkaOut grow c lim b
    let rest ← kafkaRun grow c lim bs
    pure (r :: rest)

/-- growth policy used when the model is executed (any policy gives the same records: `kafka_values`) -/
def growDouble (cap need : Nat) : Nat := max (2 * cap) need

end FileD.Payload
