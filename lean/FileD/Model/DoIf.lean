/-
  Model of `pipeline/doif`: the do_if rule tree and `Checker.Check`, statement by statement.

    field_op.go     NewFieldOpNode (minValLen / maxValLen / valuesBySize, lower-cased values)
                    fieldOpNode.Check (fast length check, bucket lookup, truncate-then-lower)
    logical_op.go   logicalNode.Check (short-circuit loops)
    len_cmp_op.go   lenCmpOpNode.Check, getNodeBytesSize
    ts_cmp_op.go    tsCmpOpNode.Check (the node's `varCmpValue` is the parameter `now`)
    check_type_op.go, event_data.go (eventData.Get), insane-json Dig (object / array descent)

  Library calls are ORACLE parameters (`Oracle`): bytes.ToLower, regexp, bytes.ContainsAny,
  xtime.ParseTime, insane-json AsInt. A `[]byte` that may be nil is `Option Bytes`
  (`none` = nil slice); `len` of it is `blen`.
-/
import FileD.Prelude.JTree
namespace FileD.DoIf
open FileD

/-- results of the library calls the code makes, shipped in the case line -/
structure Oracle where
  lower       : Bytes → Bytes                 -- bytes.ToLower
  reMatch     : Bytes → Bytes → Bool          -- regexp.MustCompile(pattern).Match(data)
  reValid     : Bytes → Bool                  -- regexp.Compile(pattern) succeeds
  containsAny : Bytes → Bytes → Bool          -- bytes.ContainsAny(data, chars)
  parseTime   : Bytes → Bytes → Option Int    -- xtime.ParseTime(format, value).UnixNano()
  asInt       : Bytes → Int                   -- insane-json Node.AsInt on a number / string

inductive FOp | equal | contains | containsAny | prefix | suffix | regex
deriving DecidableEq, Repr

inductive CmpOp | lt | le | gt | ge | eq | ne
deriving DecidableEq, Repr

inductive LenKind | byte | array | int
deriving DecidableEq, Repr

inductive TsMode | now | const
deriving DecidableEq, Repr

/-- configuration of a field op node (what `NewFieldOpNode` receives) -/
structure FieldOp where
  op     : FOp
  path   : List Bytes               -- cfg.ParseFieldSelector(field)
  cs     : Bool                     -- case_sensitive
  values : List (Option Bytes)      -- `none` = a nil value (YAML null)
deriving Repr

structure LenCmp where
  kind  : LenKind
  path  : List Bytes
  cmp   : CmpOp
  value : Int
deriving Repr

structure TsCmp where
  path     : List Bytes
  format   : Bytes
  cmp      : CmpOp
  mode     : TsMode
  constVal : Int      -- constCmpValue (UnixNano)
  shift    : Int      -- cmpValueShift (ns)
  interval : Int      -- updateInterval (ns)
deriving Repr

structure TypeCheck where
  path   : List Bytes
  values : List Bytes
deriving Repr

inductive Node
  | field (f : FieldOp)
  | lenCmp (l : LenCmp)
  | tsCmp (t : TsCmp)
  | checkType (c : TypeCheck)
  | and (ops : List Node)
  | or (ops : List Node)
  | not (ops : List Node)      -- NewLogicalNode guarantees exactly one operand
deriving Repr

/-! ## byte-string primitives (bytes.Equal / HasPrefix / HasSuffix / Contains) -/

def blen : Option Bytes → Nat
  | none => 0
  | some b => b.length

/-- the bytes of a possibly-nil slice -/
def bytesOf : Option Bytes → Bytes
  | none => []
  | some b => b

def hasPrefix (d v : Bytes) : Bool := v.isPrefixOf d
def hasSuffix (d v : Bytes) : Bool := v.isSuffixOf d

/-- bytes.Contains(d, v) -/
def containsB : Bytes → Bytes → Bool
  | [], v => v.isPrefixOf []
  | x :: xs, v => v.isPrefixOf (x :: xs) || containsB xs v

/-! ## event access: insane-json `Dig` and `eventData.Get` -/

def digitVal? (c : UInt8) : Option Nat :=
  if 48 ≤ c.toNat ∧ c.toNat ≤ 57 then some (c.toNat - 48) else none

def digits? : Bytes → Nat → Option Nat
  | [], acc => some acc
  | c :: cs, acc =>
    match digitVal? c with
    | some d => digits? cs (acc * 10 + d)
    | none => none

/-- strconv.Atoi syntax: optional sign, at least one digit, digits only (overflow is an error in
    Go; here the value is just too large to be an index, which has the same effect) -/
def atoi? (s : Bytes) : Option Int :=
  match s with
  | [] => none
  | c :: cs =>
    if c = 45 then (match cs with | [] => none | _ => (digits? cs 0).map (fun n => -(n : Int)))
    else if c = 43 then (match cs with | [] => none | _ => (digits? cs 0).map (fun n => (n : Int)))
    else (digits? (c :: cs) 0).map (fun n => (n : Int))

def lookupFirst (key : Bytes) : List (Bytes × JTree) → Option JTree
  | [] => none
  | (k, v) :: kvs => if k = key then some v else lookupFirst key kvs

def lookupLast (key : Bytes) : List (Bytes × JTree) → Option JTree
  | [] => none
  | (k, v) :: kvs =>
    match lookupLast key kvs with
    | some r => some r
    | none => if k = key then some v else none

/-- insane-json MapUseThreshold: objects with more fields are searched through a map filled in
    field order, so the LAST duplicate wins; smaller ones linearly, the FIRST wins -/
def mapUseThreshold : Nat := 16

/-- one step of `Dig` -/
def child (t : JTree) (k : Bytes) : Option JTree :=
  match t with
  | .arr xs =>
    match atoi? k with
    | some i => if i < 0 then none else xs[i.toNat]?
    | none => none
  | .obj kvs => if kvs.length > mapUseThreshold then lookupLast k kvs else lookupFirst k kvs
  | _ => none

/-- `root.Dig(path...)`; `none` = nil node -/
def dig : JTree → List Bytes → Option JTree
  | t, [] => some t
  | t, k :: ks =>
    match child t k with
    | some c => dig c ks
    | none => none

/-- `Node.AsString()` of a non-nil node -/
def asString : JTree → Bytes
  | .null => [110, 117, 108, 108]
  | .bool true => [116, 114, 117, 101]
  | .bool false => [102, 97, 108, 115, 101]
  | .num r => r
  | .str s => s
  | .arr _ => []
  | .obj _ => []

/-- `eventData.Get` on the dug node: arrays and objects give ONE zero byte, null and absent
    give nil, everything else its string form -/
def getOf : Option JTree → Option Bytes
  | none => none
  | some (.arr _) => some [0]
  | some (.obj _) => some [0]
  | some .null => none
  | some t => some (asString t)

def get (ev : JTree) (path : List Bytes) : Option Bytes := getOf (dig ev path)

/-! ## field op node -/

/-- `if !caseSensitive { b = bytes.ToLower(b) }` -/
def lowIf (cs : Bool) (lower : Bytes → Bytes) (b : Bytes) : Bytes := if cs then b else lower b

/-- the value list as stored by the constructor (lower-cased when case-insensitive; nil stays nil) -/
def storedVals (o : Oracle) (f : FieldOp) : List (Option Bytes) :=
  f.values.map (fun v => v.map (lowIf f.cs o.lower))

/-- `minValLen`: starts from `len(values[0])`, lengths of the values AS CONFIGURED (not lowered) -/
def minValLen : List (Option Bytes) → Nat
  | [] => 0
  | v :: vs => vs.foldl (fun m x => if blen x < m then blen x else m) (blen v)

def maxValLen : List (Option Bytes) → Nat
  | [] => 0
  | v :: vs => vs.foldl (fun m x => if blen x > m then blen x else m) (blen v)

/-- `valuesBySize[n]`: stored values whose STORED (lowered) length is n; `none` = key absent -/
def bucket (o : Oracle) (f : FieldOp) (n : Nat) : Option (List (Option Bytes)) :=
  match (storedVals o f).filter (fun v => blen v == n) with
  | [] => none
  | l => some l

/-- `vals, ok := valuesBySize[n]; if !ok { return false }; for _, val := range vals { … }` -/
def anyInBucket (b : Option (List (Option Bytes))) (q : Option Bytes → Bool) : Bool :=
  match b with
  | none => false
  | some vals => vals.any q

/-- one iteration of the `equal` loop: the nil / non-nil guards, then bytes.Equal -/
def eqStep : Option Bytes → Option Bytes → Bool
  | none, some _ => false
  | some _, none => false
  | none, none => true
  | some a, some b => a == b

/-- `fieldOpNode.Check` on the result `d` of `data.Get` -/
def fieldCheck (o : Oracle) (f : FieldOp) (d : Option Bytes) : Bool :=
  if f.op ≠ .regex ∧ f.op ≠ .containsAny ∧ blen d < minValLen f.values then false else
  match f.op with
  | .equal =>
    let d' := d.map (lowIf f.cs o.lower)   -- `!caseSensitive && eventData != nil`
    anyInBucket (bucket o f (blen d)) (fun v => eqStep d' v)
  | .contains =>
    let d' := lowIf f.cs o.lower (bytesOf d)
    (storedVals o f).any (fun v => containsB d' (bytesOf v))
  | .containsAny =>
    let d' := lowIf f.cs o.lower (bytesOf d)
    match storedVals o f with
    | v :: _ => o.containsAny d' (bytesOf v)
    | [] => false
  | .prefix =>
    let m := maxValLen f.values
    let d1 := if blen d > m then (bytesOf d).take m else bytesOf d
    let d' := lowIf f.cs o.lower d1
    (storedVals o f).any (fun v => hasPrefix d' (bytesOf v))
  | .suffix =>
    let m := maxValLen f.values
    let d1 := if blen d > m then (bytesOf d).drop (blen d - m) else bytesOf d
    let d' := lowIf f.cs o.lower d1
    (storedVals o f).any (fun v => hasSuffix d' (bytesOf v))
  | .regex =>
    f.values.any (fun v => o.reMatch (bytesOf v) (bytesOf d))

/-! ## length / int comparison node -/

def CmpOp.compare (c : CmpOp) (lhs rhs : Int) : Bool :=
  match c with
  | .lt => decide (lhs < rhs)
  | .le => decide (lhs ≤ rhs)
  | .gt => decide (lhs > rhs)
  | .ge => decide (lhs ≥ rhs)
  | .eq => decide (lhs = rhs)
  | .ne => decide (lhs ≠ rhs)

/-- commas between the n elements (none for an empty container) and the two brackets -/
def lenContainer (n : Nat) : Int := (if n > 0 then (n : Int) - 1 else 0) + 2

/-- bytes one byte of a string takes in the event's JSON text (the harness writes `\"`, `\\`,
    `\n`, `\r`, `\t`, `\u00XX` for the other control bytes and everything else raw) -/
def escByte (c : UInt8) : Nat :=
  if c = 34 ∨ c = 92 ∨ c = 10 ∨ c = 13 ∨ c = 9 then 2 else if c.toNat < 32 then 6 else 1

/-- length of the string's raw JSON text without the quotes -/
def escLen : Bytes → Nat
  | [] => 0
  | c :: cs => escByte c + escLen cs

mutual
  /-- `getNodeBytesSize` on an event no earlier check has touched: a nested string still in
      insane-json's "escaped" state counts `len(AsEscapedString())` = raw text with quotes, a
      string without escapes `len(AsString()) + 2` — both are `escLen s + 2`; a field NAME always
      counts its decoded length (`AsFields` unescapes names). `Model/DoIfSt.lean` has the version
      that knows which strings an earlier check unescaped. -/
  def bytesSize : JTree → Int
    | .arr xs => sizeList xs + lenContainer xs.length
    | .obj kvs => sizeFields kvs + lenContainer kvs.length
    | .str s => (escLen s : Int) + 2
    | .null => 4
    | .bool true => 4
    | .bool false => 5
    | .num r => r.length
  def sizeList : List JTree → Int
    | [] => 0
    | x :: xs => bytesSize x + sizeList xs
  def sizeFields : List (Bytes × JTree) → Int
    | [] => 0
    | (k, v) :: kvs => (k.length : Int) + 2 + 1 + bytesSize v + sizeFields kvs
end

def lenCheck (o : Oracle) (l : LenCmp) (ev : JTree) : Bool :=
  match l.kind with
  | .byte =>
    match dig ev l.path with
    | none => false
    | some t =>
      let value : Int := if t.isObj || t.isArr then bytesSize t else (asString t).length
      l.cmp.compare value l.value
  | .array =>
    match dig ev l.path with
    | some (.arr xs) => l.cmp.compare xs.length l.value
    | _ => false
  | .int =>
    match dig ev l.path with
    | none => false
    | some t =>
      if !(t.isNum || t.isStr) then false else
      let value := o.asInt (asString t)
      if value = 0 ∧ asString t ≠ [48] then false else
      l.cmp.compare value l.value

/-! ## timestamp comparison node -/

def tsCheck (o : Oracle) (now : Int) (t : TsCmp) (ev : JTree) : Bool :=
  match dig ev t.path with
  | some (.str s) =>
    match o.parseTime t.format s with
    | none => false
    | some lhs =>
      let rhs := (match t.mode with
        | .now => now + t.interval
        | .const => t.constVal) + t.shift
      t.cmp.compare lhs rhs
  | _ => false

/-! ## type check node -/

def s (x : String) : Bytes := x.toUTF8.toList

/-- the type names of check_type as byte strings -/
def tn_obj : Bytes := [111, 98, 106]   -- "obj"
def tn_object : Bytes := [111, 98, 106, 101, 99, 116]   -- "object"
def tn_arr : Bytes := [97, 114, 114]   -- "arr"
def tn_array : Bytes := [97, 114, 114, 97, 121]   -- "array"
def tn_num : Bytes := [110, 117, 109]   -- "num"
def tn_number : Bytes := [110, 117, 109, 98, 101, 114]   -- "number"
def tn_str : Bytes := [115, 116, 114]   -- "str"
def tn_string : Bytes := [115, 116, 114, 105, 110, 103]   -- "string"
def tn_null : Bytes := [110, 117, 108, 108]   -- "null"
def tn_nil : Bytes := [110, 105, 108]   -- "nil"

/-- `checkTypeVal` -/
inductive TKind | obj | arr | num | str | null | nil
deriving DecidableEq, Repr

/-- the `switch string(val)` of `NewCheckTypeOpNode`: names and aliases; `none` = the error case -/
def kindOf? (v : Bytes) : Option TKind :=
  if v = tn_obj ∨ v = tn_object then some .obj
  else if v = tn_arr ∨ v = tn_array then some .arr
  else if v = tn_num ∨ v = tn_number then some .num
  else if v = tn_str ∨ v = tn_string then some .str
  else if v = tn_null then some .null
  else if v = tn_nil then some .nil
  else none

/-- the closure appended for a type: `n.IsObject()`, `n.IsArray()`, … `n.IsNil()` -/
def kindFn (k : TKind) (n : Option JTree) : Bool :=
  match k, n with
  | .obj, some (.obj _) => true
  | .arr, some (.arr _) => true
  | .num, some (.num _) => true
  | .str, some (.str _) => true
  | .null, some .null => true
  | .nil, none => true
  | _, _ => false

/-- the field has the type named `v` (false for a name that is not a type) -/
def typeFn (v : Bytes) (n : Option JTree) : Bool :=
  match kindOf? v with
  | some k => kindFn k n
  | none => false

def typeNames : List Bytes :=
  [tn_obj, tn_object, tn_arr, tn_array, tn_num, tn_number, tn_str, tn_string, tn_null, tn_nil]

/-- the constructor's loop: `usedTypesMap` (here `used`) de-duplicates names and aliases, a type
    already used is skipped (`break`), otherwise it is marked and its closure appended to
    `checkTypeFns`. (An unknown name makes the constructor fail; `valid` covers that.) -/
def buildFns : List Bytes → List TKind → List TKind
  | [], _ => []
  | v :: vs, used =>
    match kindOf? v with
    | some k => if used.contains k then buildFns vs used else k :: buildFns vs (k :: used)
    | none => buildFns vs used

/-- `checkTypeOpNode.Check`: the first closure of `checkTypeFns` that accepts the node -/
def typeCheck (c : TypeCheck) (ev : JTree) : Bool :=
  (buildFns c.values []).any (fun k => kindFn k (dig ev c.path))

/-! ## the tree -/

mutual
  /-- `Node.Check` -/
  def check (o : Oracle) (now : Int) (ev : JTree) : Node → Bool
    | .field f => fieldCheck o f (get ev f.path)
    | .lenCmp l => lenCheck o l ev
    | .tsCmp t => tsCheck o now t ev
    | .checkType c => typeCheck c ev
    | .and ops => checkAll o now ev ops
    | .or ops => checkAny o now ev ops
    | .not ops => checkNot o now ev ops
  /-- the `logicalAnd` loop: first false operand returns false -/
  def checkAll (o : Oracle) (now : Int) (ev : JTree) : List Node → Bool
    | [] => true
    | x :: xs => if !check o now ev x then false else checkAll o now ev xs
  /-- the `logicalOr` loop: first true operand returns true -/
  def checkAny (o : Oracle) (now : Int) (ev : JTree) : List Node → Bool
    | [] => false
    | x :: xs => if check o now ev x then true else checkAny o now ev xs
  /-- `!n.operands[0].Check(data)` -/
  def checkNot (o : Oracle) (now : Int) (ev : JTree) : List Node → Bool
    | [] => false
    | x :: _ => !check o now ev x
end

/-! ## constructor validation (`NewFromMap` returns an error) -/

def validField (o : Oracle) (f : FieldOp) : Bool :=
  !f.values.isEmpty &&
  match f.op with
  | .containsAny => (match f.values with | [some v] => !v.isEmpty | _ => false)
  | .regex => f.values.all (fun v => o.reValid (bytesOf v))
  | _ => true

mutual
  def valid (o : Oracle) : Node → Bool
    | .field f => validField o f
    | .lenCmp l => decide (0 ≤ l.value)
    | .tsCmp _ => true
    | .checkType c => !c.values.isEmpty && c.values.all (fun v => typeNames.contains v)
    | .and ops => !ops.isEmpty && validAll o ops
    | .or ops => !ops.isEmpty && validAll o ops
    | .not ops => ops.length == 1 && validAll o ops
  def validAll (o : Oracle) : List Node → Bool
    | [] => true
    | x :: xs => valid o x && validAll o xs
end

end FileD.DoIf
