/-
  Commits against saves: the snapshot-under-lock mechanism of the file input plugin.

    jobProvider.commit (provider.go:267-310)   under job.mu: value := offsets.Get(stream);
                                               value >= event.Offset → panic "offset corruption";
                                               offsets.Set(stream, event.Offset)
    jobProvider.truncateJob                    under job.mu: every stream := 0
    offsetDB.save (offset.go:233-291)          o.mu.Lock; snapshotJobs (the job pointers, under
                                               jobsMu.RLock); then for each job of the snapshot:
                                               job.mu.Lock, append its offsets to the buffer, Unlock

  Each `job.mu` critical section is one op; the scheduler is the list of ops, so commits may fall
  between any two visits of a running save. `hist` is a ghost log of every value any job's offsets
  map ever had; a finished snapshot remembers how long `hist` was when its buffer was complete.
-/
import FileD.Model.OffsetsFile
import FileD.Prelude.TS
namespace FileD.CommitSnap
open FileD FileD.OffsetsFile

abbrev SMap := List (Bytes × Int)          -- pipeline.SliceMap
abbrev Entry := Nat × SMap                 -- (source id, its offsets)

structure St where
  jobs    : List Entry                              -- jp.jobs
  hist    : List Entry                              -- ghost: every (source, offsets) value so far
  pending : Option (List Nat × List Entry)          -- running save: jobs still to visit, buffer
  snaps   : List (List Entry × Nat)                 -- finished buffers, with |hist| at that moment
deriving Repr

inductive Op
  | addJob (src : Nat)
  | commit (src : Nat) (stream : Bytes) (off : Int)
  | truncate (src : Nat)
  | saveBegin (order : List Nat)   -- snapshotJobs; `order` = the map iteration order
  | saveVisit                      -- one job.mu critical section of the save loop
  | saveEnd                        -- buffer complete (handed to write)
deriving Repr, DecidableEq

def lookup (jobs : List Entry) (src : Nat) : Option SMap :=
  match jobs.find? (fun e => e.1 == src) with
  | some e => some e.2
  | none => none

def update (jobs : List Entry) (src : Nat) (m : SMap) : List Entry :=
  jobs.map (fun e => if e.1 == src then (e.1, m) else e)

def sameKeys (order : List Nat) (jobs : List Entry) : Bool :=
  order.all (fun s => jobs.any (fun e => e.1 == s)) &&
  jobs.all (fun e => order.contains e.1) && order.length == jobs.length

def init : St := ⟨[], [], none, []⟩

def step? (s : St) : Op → Option St
  | .addJob src =>
    match lookup s.jobs src with
    | some _ => none
    | none => some { s with jobs := s.jobs ++ [(src, [])], hist := s.hist ++ [(src, [])] }
  | .commit src stream off =>
    match lookup s.jobs src with
    | none => some s                                          -- `if !has { return }`
    | some m =>
      let value := match getOffset m stream with | some v => v | none => 0
      if value ≥ off then none                                -- panic "offset corruption"
      else
        let m' := setOffset m stream off
        some { s with jobs := update s.jobs src m', hist := s.hist ++ [(src, m')] }
  | .truncate src =>
    match lookup s.jobs src with
    | none => none
    | some m =>
      let m' := m.map (fun kv => (kv.1, (0 : Int)))
      some { s with jobs := update s.jobs src m', hist := s.hist ++ [(src, m')] }
  | .saveBegin order =>
    match s.pending with
    | some _ => none                                          -- o.mu serialises saves
    | none => if sameKeys order s.jobs then some { s with pending := some (order, []) } else none
  | .saveVisit =>
    match s.pending with
    | some (src :: rest, buf) =>
      match lookup s.jobs src with
      | some m => some { s with pending := some (rest, buf ++ [(src, m)]) }
      | none => none
    | _ => none
  | .saveEnd =>
    match s.pending with
    | some ([], buf) => some { s with pending := none, snaps := s.snaps ++ [(buf, s.hist.length)] }
    | _ => none

def run : St → List Op → Option St := TS.run step?

end FileD.CommitSnap
