/-
  Model of the legacy `match_fields` selector: `pipeline/processor.go` isMatch / isMatchOr /
  isMatchAnd and `pipeline/plugin.go` MatchCondition.valueExists, statement by statement.
  `regexp.MatchString` is the oracle `reMatch pattern value`.
-/
import FileD.Model.DoIf
namespace FileD.MatchFields
open FileD FileD.DoIf

/-- `pipeline.MatchCondition` -/
structure Cond where
  path   : List Bytes          -- Field
  values : List Bytes          -- Values
  regexp : Option Bytes        -- Regexp (pattern source), `none` = nil
deriving Repr

inductive Mode | and | or | andPrefix | orPrefix
deriving DecidableEq, Repr

/-- `valueExists`: the loop leaves `match` at the last comparison made; it breaks on a hit -/
def valueExists (vals : List Bytes) (sv : Bytes) (byPrefix : Bool) : Bool :=
  match vals with
  | [] => false
  | v :: vs =>
    let m := if byPrefix then v.isPrefixOf sv else v == sv
    if m then true else valueExists vs sv byPrefix

/-- `isMatchOr` -/
def isMatchOr (re : Bytes → Bytes → Bool) (conds : List Cond) (ev : JTree) (byPrefix : Bool) : Bool :=
  match conds with
  | [] => false
  | c :: cs =>
    match dig ev c.path with
    | none => isMatchOr re cs ev byPrefix                     -- node == nil: continue
    | some node =>
      let value := asString node
      let hit := (match c.regexp with
        | some p => re p value
        | none => false)
      if hit then true else
      if valueExists c.values value byPrefix then true else
      isMatchOr re cs ev byPrefix

/-- `isMatchAnd` -/
def isMatchAnd (re : Bytes → Bytes → Bool) (conds : List Cond) (ev : JTree) (byPrefix : Bool) : Bool :=
  match conds with
  | [] => true
  | c :: cs =>
    match dig ev c.path with
    | none => false
    | some node =>
      let value := asString node
      match c.regexp with
      | some p =>
        if !re p value then false else
        isMatchAnd re cs ev byPrefix                          -- continue
      | none =>
        if !valueExists c.values value byPrefix then false else
        isMatchAnd re cs ev byPrefix

/-- `processor.isMatch` without a do_if checker -/
def isMatch (re : Bytes → Bytes → Bool) (mode : Mode) (conds : List Cond) (invert : Bool) (ev : JTree) : Bool :=
  let m := if mode = .or ∨ mode = .orPrefix then isMatchOr re conds ev (mode = .orPrefix)
           else isMatchAnd re conds ev (mode = .andPrefix)
  if invert then !m else m

end FileD.MatchFields
