/-
  The offsets save protocol as a transition system over a two-level file system.

  File system: two names matter, the current offsets file `cur` and the temp file `tmp`. Each
  name has a *volatile* content (what processes see, what survives a process kill: page cache)
  and a *durable* content (what survives power loss). `none` = the name does not exist.

      open(tmp, O_CREAT|O_TRUNC)   tmp := empty on both levels
      open(tmp, O_CREAT)           tmp := empty if absent, else unchanged (not issued by the real code)
      write(n bytes of data)       tmp.vol[0:n] := data[:n], rest kept (short write + error possible)
      fsync                        tmp.dur := tmp.vol
      rename(tmp, cur)             cur := tmp on both levels, tmp disappears   (atomic)
      unlink(tmp)                  tmp disappears
      close                        no effect on content
  Every syscall can fail (flag `ok = false`): then it has no effect, except `write`, which may
  have appended a prefix. `crashKill` keeps the volatile level, `crashPower` only the durable one.

  Programs (the ORDER THE CODE ISSUES the syscalls, as a program counter):

    fileOrig   plugin/input/file/offset.go as found:  open · write · fsync · rename · close
               (write / fsync errors are only logged; the rename is issued regardless)
    fileFixed  after `fix:` (return before the rename):
               open · write · fsync · rename · close ;  on write/fsync error: unlink · close
    genOrig    offset/offset.go as found:  open · write · close · rename   (write error: close, stop)
    genFixed   after `fix:` (Sync before close):  open · write · fsync · close · rename
               (write / fsync error: close, stop)

  A run is any list of ops enabled by the program counter; a crash point is the end of any run
  (every prefix of a run is a run), so quantifying over runs quantifies over all failure
  patterns and all crash points at once.
-/
import FileD.Prelude.Bytes
import FileD.Prelude.TS
namespace FileD.SaveProto
open FileD

structure FileSt where
  dur : Option Bytes
  vol : Option Bytes
deriving Repr, DecidableEq

structure FS where
  cur : FileSt
  tmp : FileSt
deriving Repr, DecidableEq

inductive Op
  | openTrunc (ok : Bool)
  | openKeep (ok : Bool)          -- open with O_CREAT but WITHOUT O_TRUNC: an existing file keeps its content
  | write (n : Nat) (ok : Bool)   -- n bytes of the snapshot reached the file; ok = no error returned
  | fsync (ok : Bool)
  | rename (ok : Bool)
  | close (ok : Bool)
  | unlink (ok : Bool)
deriving Repr, DecidableEq

inductive Variant | fileOrig | fileFixed | genOrig | genFixed | genNoTrunc
deriving Repr, DecidableEq

inductive PC
  | start | opened | written | synced | renamed | failing | unlinked | closedOk | done
deriving Repr, DecidableEq

structure St where
  fs : FS
  pc : PC
deriving Repr, DecidableEq

def absent : FileSt := ⟨none, none⟩

/-- effect of a syscall on the file system (`data` = the buffer the save writes) -/
def apply (data : Bytes) (fs : FS) : Op → FS
  | .openTrunc true => { fs with tmp := ⟨some [], some []⟩ }
  | .openKeep true =>
    match fs.tmp.vol with
    | some _ => fs                                     -- a leftover temp file keeps its bytes
    | none => { fs with tmp := ⟨some [], some []⟩ }
  | .write n _ =>                                      -- the one write of a save, at file position 0
    match fs.tmp.vol with
    | some c => { fs with tmp := { fs.tmp with vol := some (data.take n ++ c.drop n) } }
    | none => fs
  | .fsync true => { fs with tmp := { fs.tmp with dur := fs.tmp.vol } }
  | .rename true => { cur := fs.tmp, tmp := absent }
  | .unlink true => { fs with tmp := absent }
  | _ => fs

/-- outcome constraint of `write`: at most the buffer, and a successful write wrote all of it -/
def writeValid (data : Bytes) (n : Nat) (ok : Bool) : Bool :=
  decide (n ≤ data.length) && (!ok || decide (n = data.length))

/-- program counter: which syscall the code issues next, depending on the previous outcomes -/
def next (data : Bytes) : Variant → PC → Op → Option PC
  -- plugin/input/file/offset.go, as found
  | .fileOrig, .start, .openTrunc ok => some (if ok then .opened else .done)
  | .fileOrig, .opened, .write n ok => if writeValid data n ok then some .written else none
  | .fileOrig, .written, .fsync _ => some .synced
  | .fileOrig, .synced, .rename _ => some .renamed
  | .fileOrig, .renamed, .close _ => some .done
  -- plugin/input/file/offset.go, fixed
  | .fileFixed, .start, .openTrunc ok => some (if ok then .opened else .done)
  | .fileFixed, .opened, .write n ok =>
    if writeValid data n ok then some (if ok then .written else .failing) else none
  | .fileFixed, .written, .fsync ok => some (if ok then .synced else .failing)
  | .fileFixed, .synced, .rename _ => some .renamed
  | .fileFixed, .renamed, .close _ => some .done
  | .fileFixed, .failing, .unlink _ => some .unlinked
  | .fileFixed, .unlinked, .close _ => some .done
  -- offset/offset.go, as found
  | .genOrig, .start, .openTrunc ok => some (if ok then .opened else .done)
  | .genOrig, .opened, .write n ok =>
    if writeValid data n ok then some (if ok then .written else .failing) else none
  | .genOrig, .written, .close _ => some .closedOk
  | .genOrig, .failing, .close _ => some .done
  | .genOrig, .closedOk, .rename _ => some .done
  -- offset/offset.go, fixed
  | .genFixed, .start, .openTrunc ok => some (if ok then .opened else .done)
  | .genFixed, .opened, .write n ok =>
    if writeValid data n ok then some (if ok then .written else .failing) else none
  | .genFixed, .written, .fsync ok => some (if ok then .synced else .failing)
  | .genFixed, .synced, .close _ => some .closedOk
  | .genFixed, .failing, .close _ => some .done
  | .genFixed, .closedOk, .rename _ => some .done
  -- offset/offset.go with the temp file opened without O_TRUNC (a seeded change; kept as a program
  -- to show what the truncation is needed for)
  | .genNoTrunc, .start, .openKeep ok => some (if ok then .opened else .done)
  | .genNoTrunc, .opened, .write n ok =>
    if writeValid data n ok then some (if ok then .written else .failing) else none
  | .genNoTrunc, .written, .fsync ok => some (if ok then .synced else .failing)
  | .genNoTrunc, .synced, .close _ => some .closedOk
  | .genNoTrunc, .failing, .close _ => some .done
  | .genNoTrunc, .closedOk, .rename _ => some .done
  | _, _, _ => none

def step? (v : Variant) (data : Bytes) (s : St) (op : Op) : Option St :=
  match next data v s.pc op with
  | none => none
  | some pc => some ⟨apply data s.fs op, pc⟩

/-- before a save: the previous snapshot `old` (`none`: no offsets file yet) is in place on both
    levels, the temp name is free -/
def init (old : Option Bytes) : St := ⟨⟨⟨old, old⟩, absent⟩, .start⟩

def run (v : Variant) (data : Bytes) : St → List Op → Option St := TS.run (step? v data)

/-- does the program use a fresh temp name for every save? (file plugin: random suffix; the
    generic package always uses `<path>.tmp`, so a temp file left by an interrupted save is still
    there when the next save starts) -/
def freshTmp : Variant → Bool
  | .fileOrig => true
  | .fileFixed => true
  | _ => false

/-- the file system a save starts on -/
def beginSave (v : Variant) (fs : FS) : FS := if freshTmp v then { fs with tmp := absent } else fs

/-- a history of saves: each save writes its own buffer and has its own op list (its failure
    pattern, and where it stopped: a killed save is a run that ends early); the file system —
    including a temp file left behind — is carried from one save to the next -/
def runHist (v : Variant) : FS → List (Bytes × List Op) → Option FS
  | fs, [] => some fs
  | fs, (data, ops) :: rest =>
    match run v data ⟨beginSave v fs, .start⟩ ops with
    | none => none
    | some s => runHist v s.fs rest

/-! ### the object's own state carried from save to save: the formatting buffer `o.buf`

    `offsetDB` is long-lived: `o.buf` survives a save. The code resets it (`o.buf = o.buf[:0]`) right
    before it formats the snapshot, so what is handed to `write` is the rendering of THIS save's
    snapshot whatever happened to earlier saves. `atEnd` is a seeded variant that resets after the
    rename instead: the early returns after a failed write / sync skip the reset. (The generic
    `offset.Offset` keeps nothing between saves: path and callback only.) -/

inductive Reset | beforeFormat | atEnd
deriving Repr, DecidableEq

/-- the bytes a save hands to `write`, given what the buffer held and the rendering of its snapshot -/
def saveData : Reset → Bytes → Bytes → Bytes
  | .beforeFormat, _, snap => snap
  | .atEnd, buf, snap => buf ++ snap

/-- did the save return early after a failed write / sync (file plugin as fixed)? -/
def returnedEarly (ops : List Op) : Bool :=
  ops.any (fun op => match op with | .write _ false => true | .fsync false => true | _ => false)

/-- the buffer the object is left with. A save whose open failed returns before it formats. -/
def bufAfter (r : Reset) (buf snap : Bytes) (ops : List Op) : Bytes :=
  match ops with
  | .openTrunc false :: _ => buf
  | .openKeep false :: _ => buf
  | _ =>
    match r with
    | .beforeFormat => snap
    | .atEnd => if returnedEarly ops then buf ++ snap else []

/-- a history of saves on ONE long-lived object in one process: file system and buffer are carried -/
def runObjHist (v : Variant) (r : Reset) : FS → Bytes → List (Bytes × List Op) → Option (FS × Bytes)
  | fs, buf, [] => some (fs, buf)
  | fs, buf, (snap, ops) :: rest =>
    match run v (saveData r buf snap) ⟨beginSave v fs, .start⟩ ops with
    | none => none
    | some s => runObjHist v r s.fs (bufAfter r buf snap ops) rest

/-- what a restarted process finds in the offsets file after a process kill -/
def crashKill (fs : FS) : Option Bytes := fs.cur.vol
/-- … after power loss -/
def crashPower (fs : FS) : Option Bytes := fs.cur.dur

/-- the offsets file holds the previous or the new snapshot, on both levels -/
def Good (old : Option Bytes) (new : Bytes) (fs : FS) : Prop :=
  (fs.cur.vol = old ∨ fs.cur.vol = some new) ∧ (fs.cur.dur = old ∨ fs.cur.dur = some new)

def goodB (old : Option Bytes) (new : Bytes) (fs : FS) : Bool :=
  (fs.cur.vol == old || fs.cur.vol == some new) && (fs.cur.dur == old || fs.cur.dur == some new)

/-- executable: is the offsets file good after every prefix of `ops`? (`none`: some op is not
    enabled by the program) -/
def goodAlong (v : Variant) (data : Bytes) (old : Option Bytes) : St → List Op → Option Bool
  | s, [] => some (goodB old data s.fs)
  | s, op :: ops =>
    match step? v data s op with
    | none => none
    | some s' =>
      match goodAlong v data old s' ops with
      | none => none
      | some b => some (goodB old data s.fs && b)

end FileD.SaveProto
