/-
  M3 — one processor working on one stream: pipeline/processor.go (dischargeStream,
  processSequence, processEvent, doActions, tryMarkBusy / tryResetBusy, timeoutAction,
  Propagate, Spawn) with three kinds of action plugin:

    plain    an action that is never busy: per event it passes, discards or breaks
             (the scripted verdict action of the harness; any shipped plugin that only returns
             ActionPass / ActionDiscard / ActionBreak)
    holder   plugin/action/join/join.go `Do` + `flush`: holds the start line, collapses
             continuations, re-injects the held event with Propagate when the run ends or a
             time-out event arrives
    spawner  plugin/action/split/split.go `Do`: Spawn(children) then ActionBreak

  The functions follow the Go control flow call by call; a call that the Go code makes
  recursively (Do → flush → Propagate → processSequence → processEvent → doActions → …) is a
  recursive call here, bounded by a fuel argument (every call consumes one unit). What the
  processor does to the stream is emitted as M2 operations (`StreamProc.Op`): get / getTimeout /
  leave for what it takes, hold / drop / propagate / out for what it does with an event.

  Inputs are the results of the successive instantGet / blockGet calls of the attached
  processor (`Item`): a regular event with what the case says about it (`EvSpec`), a time-out
  event, or `gap` = instantGet found the stream empty (the processor leaves).

  Match conditions are an input (`EvSpec.skip`: the positions whose condition the event fails);
  a busy action gets every event. Not modelled: metrics,
  the action watcher, unlock events, several processors taking turns on one stream with their
  own plugin instances (one action state is kept; under the discipline of M2 nothing is held
  when a processor leaves, so the instances are interchangeable).
-/
import FileD.Model.StreamProc
namespace FileD.Proc
open FileD.StreamProc (Op)

inductive Verdict | pass | discard | brk
deriving Repr, DecidableEq

/-- how join.Do classifies the event's field: start line, continuation, neither, field absent -/
inductive JCls | start | cont | other | absent
deriving Repr, DecidableEq

structure EvSpec where
  seq  : Nat
  vs   : List Verdict := []   -- verdict of the plain action that reads position i (missing: pass)
  js   : List JCls := []      -- class under join field f (missing: absent)
  kids : Nat := 0             -- object elements of the split field
  skip : List Nat := []       -- chain positions whose match condition this event does not satisfy
  kidSkip : List Nat := []    -- the same for its children (they carry none of the matched fields)
  cs   : List Nat := []       -- the collapse-only actions (by the position they read) that collapse this event
deriving Repr, DecidableEq

inductive Act | plain (i : Nat) | holder (f : Nat) | spawner | collapser (i : Nat)
deriving Repr, DecidableEq

/-- the chain has no collapse-only action (an action that answers ActionCollapse without holding an
    event, like the k8s multi-line or parse_es actions): the discipline theorems are proved for chains
    of plain, join-like and split-like actions; the executable model covers collapse-only actions too -/
class NoCol (acts : List Act) : Prop where
  out : ∀ (j i : Nat), acts[j]? ≠ some (Act.collapser i)

/-- an event as doActions sees it -/
inductive Ev
  | reg (e : EvSpec)
  | tmo
  | child (skip : List Nat)
deriving Repr, DecidableEq

inductive Item | ev (e : EvSpec) | tmo | gap
deriving Repr, DecidableEq

inductive Res
  | passed
  | stopped (last : Nat)
  | halt (why : String)     -- end of the known input inside blockGet, fuel, a logger.Panicf, an unmodelled turn
deriving Repr, DecidableEq

structure PS where
  busy : List Nat := []               -- indexes i with busyActions[i] set, in the order they were set
  held : List (Nat × EvSpec) := []    -- (i, join.initial of action i) for the actions that hold an event
  toks : List Op := []                -- operations on the stream, in order
  ins  : List Item := []
deriving Repr

def PS.init (ins : List Item) : PS := { ins := ins }

def isBusy (ps : PS) (i : Nat) : Bool := ps.busy.contains i
/-- busyActionsTotal (tryMarkBusy / tryResetBusy keep it equal to the number of set flags) -/
def busyTotal (ps : PS) : Nat := ps.busy.length
def markBusy (ps : PS) (i : Nat) : PS := if ps.busy.contains i then ps else { ps with busy := ps.busy ++ [i] }
def resetBusy (ps : PS) (i : Nat) : PS := { ps with busy := ps.busy.filter (· != i) }
def emit (ps : PS) (t : Op) : PS := { ps with toks := ps.toks ++ [t] }
def heldAt (ps : PS) (i : Nat) : Option EvSpec := (ps.held.find? (·.1 == i)).map (·.2)
def setHeld (ps : PS) (i : Nat) (v : Option EvSpec) : PS :=
  match v with
  | none => { ps with held := ps.held.filter (·.1 != i) }
  | some e => { ps with held := (i, e) :: ps.held.filter (·.1 != i) }

/-- pipeline.finalize(event, false, back): time-out and child events are ignored -/
def fin (ps : PS) (ev : Ev) (back : Bool) : PS :=
  match ev with
  | .reg e => emit ps (if back then .drop e.seq else .hold e.seq)
  | _ => ps

/-- processor.timeoutAction -/
def timeoutAction (ps : PS) (last : Nat) : Nat :=
  if isBusy ps last then last else (ps.busy.min?).getD last

def plainVerdict (ev : Ev) (i : Nat) : Verdict :=
  match ev with
  | .reg e => e.vs.getD i .pass
  | .tmo => .discard
  | .child _ => .pass

/-- `!isMatch(index, event)`: the event does not satisfy the action's match condition -/
def skips (ev : Ev) (idx : Nat) : Bool :=
  match ev with
  | .reg e => e.skip.contains idx
  | .tmo => false
  | .child sk => sk.contains idx

def joinCls (ev : Ev) (f : Nat) : JCls :=
  match ev with
  | .reg e => e.js.getD f .absent
  | _ => .absent

mutual

/-- processor.doActions from action `idx` -/
def doActs : Nat → List Act → Nat → Ev → PS → PS × Res
  | 0, _, _, _, ps => (ps, .halt "fuel")
  | fuel+1, acts, idx, ev, ps =>
    match acts[idx]? with
    | none => (ps, .passed)
    | some a =>
    -- `if !p.busyActions[index] && !event.IsTimeoutKind() { if !p.isMatch(index, event) { continue } }`
    if !isBusy ps idx && skips ev idx then doActs fuel acts (idx+1) ev ps
    else
    match a with
    | .plain i =>
      match plainVerdict ev i with
      | .pass => doActs fuel acts (idx+1) ev (resetBusy ps idx)
      | .brk => (resetBusy ps idx, .passed)
      | .discard => (fin (resetBusy ps idx) ev true, .stopped idx)
    | .collapser i =>
      -- ActionCollapse: the event is dropped here and the action wants the next one of the stream;
      -- anything else it answers (pass, or discard for the time-out event) resets the busy flag
      match ev with
      | .reg e =>
        if e.cs.contains i then (fin (markBusy ps idx) ev true, .stopped idx)
        else doActs fuel acts (idx+1) ev (resetBusy ps idx)
      | .tmo => (resetBusy ps idx, .stopped idx)
      | .child _ => doActs fuel acts (idx+1) ev (resetBusy ps idx)
    | .spawner =>
      match ev with
      | .reg e =>
        if e.kids = 0 then doActs fuel acts (idx+1) ev (resetBusy ps idx)
        else
          match spawnKids fuel acts idx e.kidSkip e.kids ps with
          | (ps1, some why) => (ps1, .halt why)
          | (ps1, none) =>
            if busyTotal ps1 = 0 then (resetBusy ps1 idx, .passed)
            else
              match spawnTmos fuel acts 0 ps1 with
              | (ps2, some why) => (ps2, .halt why)
              | (ps2, none) => (resetBusy ps2 idx, .passed)      -- ActionBreak
      | _ => doActs fuel acts (idx+1) ev (resetBusy ps idx)
    | .holder f =>
      let joining := (heldAt ps idx).isSome
      match ev with
      | .tmo =>
        if !joining then (ps, .halt "panic:timeout-without-joining")
        else
          match flushAt fuel acts idx ps with
          | (ps1, some why) => (ps1, .halt why)
          | (ps1, none) => (resetBusy ps1 idx, .stopped idx)       -- ActionDiscard of the time-out event
      | _ =>
        match joinCls ev f with
        | .cont =>
          if joining then (fin (markBusy ps idx) ev true, .stopped idx)   -- ActionCollapse
          else doActs fuel acts (idx+1) ev (resetBusy ps idx)
        | .start =>
          match (if joining then flushAt fuel acts idx ps else (ps, none)) with
          | (ps1, some why) => (ps1, .halt why)
          | (ps1, none) =>
            match ev with
            | .reg e => (fin (markBusy (setHeld ps1 idx (some e)) idx) ev false, .stopped idx)   -- ActionHold
            | _ => (ps1, .halt "unmodelled:non-regular-start")
        | _ =>
          match (if joining then flushAt fuel acts idx ps else (ps, none)) with
          | (ps1, some why) => (ps1, .halt why)
          | (ps1, none) => doActs fuel acts (idx+1) ev (resetBusy ps1 idx)

/-- join.flush → processor.Propagate of the event held by action `i`: the rest of the actions
    run once on the re-injected event (doActions, then Out if it passed); the frame that called
    the action keeps doing the waiting -/
def flushAt : Nat → List Act → Nat → PS → PS × Option String
  | 0, _, _, ps => (ps, some "fuel")
  | fuel+1, acts, i, ps =>
    match heldAt ps i with
    | none => (ps, some "panic:first-event-is-nil")
    | some x =>
      match doActs fuel acts (i+1) (.reg x) (resetBusy (emit (setHeld ps i none) (.propagate x.seq)) i) with
      | (ps1, .halt why) => (ps1, some why)
      | (ps1, .passed) => (emit ps1 (.out x.seq), none)
      | (ps1, .stopped _) => (ps1, none)

/-- processor.processSequence -/
def procSeq : Nat → List Act → Ev → Nat → PS → PS × Option String
  | 0, _, _, _, ps => (ps, some "fuel")
  | fuel+1, acts, ev, idx, ps =>
    match procEv fuel acts ev idx ps with
    | (ps1, .halt why) => (ps1, some why)
    | (ps1, _) => (ps1, none)

/-- processor.processEvent; a passed event is handed to the output right here (the caller,
    processSequence, does nothing else with it), so the loop can stay tail recursive -/
def procEv : Nat → List Act → Ev → Nat → PS → PS × Res
  | 0, _, _, _, ps => (ps, .halt "fuel")
  | fuel+1, acts, ev, idx, ps =>
    match doActs fuel acts idx ev ps with
    | (ps1, .halt why) => (ps1, .halt why)
    | (ps1, .passed) =>
      match ev with
      | .reg e => (emit ps1 (.out e.seq), .passed)
      | .tmo => (ps1, .halt "unmodelled:timeout-event-passed")
      | .child _ => (ps1, .passed)
    | (ps1, .stopped last) =>
      if busyTotal ps1 = 0 then (ps1, .stopped last)
      else
        match ps1.ins with
        | [] => (ps1, .halt "eoi")
        | .gap :: _ => (ps1, .halt "gap-in-blockget")
        | .ev e :: rest => procEv fuel acts (.reg e) 0 (emit { ps1 with ins := rest } (.get e.seq))
        | .tmo :: rest => procEv fuel acts .tmo (timeoutAction ps1 last) (emit { ps1 with ins := rest } .getTimeout)

/-- Spawn: the children run through the actions after the spawner -/
def spawnKids : Nat → List Act → Nat → List Nat → Nat → PS → PS × Option String
  | 0, _, _, _, _, ps => (ps, some "fuel")
  | _+1, _, _, _, 0, ps => (ps, none)
  | fuel+1, acts, idx, sk, k+1, ps =>
    match doActs fuel acts (idx+1) (.child sk) ps with
    | (ps1, .halt why) => (ps1, some why)
    | (ps1, _) => spawnKids fuel acts idx sk k ps1

/-- Spawn: every action that is busy afterwards gets a time-out event -/
def spawnTmos : Nat → List Act → Nat → PS → PS × Option String
  | 0, _, _, ps => (ps, some "fuel")
  | fuel+1, acts, i, ps =>
    if i ≥ acts.length then (ps, none)
    else if isBusy ps i then
      match doActs fuel acts i .tmo ps with
      | (ps1, .halt why) => (ps1, some why)
      | (ps1, _) => spawnTmos fuel acts (i+1) ps1
    else spawnTmos fuel acts (i+1) ps

end

/-- processor.dischargeStream, continued over re-attachments (`gap`) until the known input ends -/
def discharge : Nat → List Act → PS → PS × Option String
  | 0, _, ps => (ps, some "fuel")
  | fuel+1, acts, ps =>
    match ps.ins with
    | [] => (ps, none)
    | .gap :: rest => discharge fuel acts (emit { ps with ins := rest } .leave)
    | .ev e :: rest =>
      match procSeq fuel acts (.reg e) 0 (emit { ps with ins := rest } (.get e.seq)) with
      | (ps1, some why) => (ps1, some why)
      | (ps1, none) => discharge fuel acts ps1
    | .tmo :: rest =>
      match procSeq fuel acts .tmo 0 (emit { ps with ins := rest } .getTimeout) with
      | (ps1, some why) => (ps1, some why)
      | (ps1, none) => discharge fuel acts ps1

def kidsOf : Item → Nat
  | .ev e => e.kids
  | _ => 0

/-- fuel bounds the call depth: the loops over items, actions and children are recursive calls here -/
def fuelFor (acts : List Act) (ins : List Item) : Nat :=
  (ins.length + 2) * (acts.length + 2) * 8 + (ins.map kidsOf).sum + 64

def runProc (acts : List Act) (ins : List Item) : List Op × Option String :=
  match discharge (fuelFor acts ins) acts (PS.init ins) with
  | (ps, why) => (ps.toks, why)

/-! The processor discipline of M2 on its own: the fields of `StreamProc.SS` that record what the
    processor has (in hand, held, re-injected) and the guards `StreamProc.step?` puts on them. -/

structure DS where
  inhand : Option Nat := none
  held   : List Nat := []
  propd  : List Nat := []
deriving Repr, DecidableEq

def dstep? (d : DS) : Op → Option DS
  | .get q => if d.inhand = none ∧ d.propd = [] then some { d with inhand := some q } else none
  | .getTimeout => if d.inhand = none ∧ d.propd = [] then some d else none
  | .leave => if d.inhand = none ∧ d.propd = [] ∧ d.held.isEmpty then some d else none
  | .hold q =>
    if d.inhand = some q then some { d with inhand := none, held := d.held ++ [q] }
    else if q ∈ d.propd then some { d with propd := d.propd.erase q, held := d.held ++ [q] }
    else none
  | .drop q =>
    if d.inhand = some q then some { d with inhand := none }
    else if q ∈ d.propd then some { d with propd := d.propd.erase q }
    else none
  | .propagate q => if q ∈ d.held then some { d with held := d.held.erase q, propd := q :: d.propd } else none
  | .out q =>
    if ∀ x ∈ d.propd ++ d.held ++ d.inhand.toList, q ≤ x then
      if q ∈ d.propd then some { d with propd := d.propd.erase q }
      else if d.inhand = some q then some { d with inhand := none }
      else none
    else none
  | _ => some d

def drun (d : DS) : List Op → Option DS
  | [] => some d
  | op :: ops => (dstep? d op).bind (drun · ops)

/-- the processor-side projection of an M2 state -/
def proj (s : StreamProc.SS) : DS := { inhand := s.inhand, held := s.held, propd := s.propd }

end FileD.Proc
