/-
  Concurrent saves on ONE offsetDB (`plugin/input/file/offset.go: offsetDB.save` called from several
  goroutines: `persistence_mode: sync` with commits from several processors, the async saver against
  `stop()`): who refills and who reads the shared slice `o.jobsSnapshot`.

      save:   o.mu.Lock()                         -- `lock g`
              snapshot := o.snapshotJobs(…)       -- `snap g ord`: o.jobsSnapshot = o.jobsSnapshot[:0];
                                                     append the jobs in map order `ord`; the slice header
                                                     (its length) is the saver's own, the array is SHARED
              for _, job := range snapshot {…}    -- `visit g`: reads element idx of the shared array
              …write, fsync, rename; Unlock       -- `finish g`

  Program `lockFirst` is the code (snapshot taken under o.mu); `snapFirst` takes the snapshot before
  `o.mu.Lock()` (a seeded change) and is kept as the counterexample. `done` collects, per finished save,
  the order it snapshotted and the jobs it actually formatted.
-/
import FileD.Prelude.TS
namespace FileD.SaveSnap

inductive PC
  | idle
  | locked                                            -- holds o.mu, snapshot not taken yet
  | snapped (ord : List Nat)                          -- refilled the shared slice, does not hold o.mu yet
  | fmt (ord : List Nat) (idx : Nat) (buf : List Nat) -- holds o.mu; formatted `buf`, next reads element idx
deriving Repr, DecidableEq

inductive Order | lockFirst | snapFirst
deriving Repr, DecidableEq

inductive Op
  | lock (g : Nat) | snap (g : Nat) (ord : List Nat) | visit (g : Nat) | finish (g : Nat)
deriving Repr, DecidableEq

structure St where
  pcs    : Nat → PC                     -- per saving goroutine
  shared : List Nat                     -- the backing array of o.jobsSnapshot (source ids)
  holder : Option Nat                   -- who holds o.mu
  done   : List (List Nat × List Nat)   -- finished saves: (order snapshotted, jobs formatted)

def init : St := ⟨fun _ => .idle, [], none, []⟩

def setPc (s : St) (g : Nat) (pc : PC) : Nat → PC := fun g' => if g' = g then pc else s.pcs g'

/-- refilling `o.jobsSnapshot[:0]` with `ord`: the first |ord| cells are overwritten, the rest of the
    array keeps what it had -/
def refill (shared ord : List Nat) : List Nat := ord ++ shared.drop ord.length

def step? (o : Order) (s : St) : Op → Option St
  | .lock g =>
    match s.holder with
    | some _ => none
    | none =>
      match o, s.pcs g with
      | .lockFirst, .idle => some { s with pcs := setPc s g .locked, holder := some g }
      | .snapFirst, .snapped ord => some { s with pcs := setPc s g (.fmt ord 0 []), holder := some g }
      | _, _ => none
  | .snap g ord =>
    match o, s.pcs g with
    | .lockFirst, .locked => some { s with pcs := setPc s g (.fmt ord 0 []), shared := refill s.shared ord }
    | .snapFirst, .idle => some { s with pcs := setPc s g (.snapped ord), shared := refill s.shared ord }
    | _, _ => none
  | .visit g =>
    match s.pcs g with
    | .fmt ord idx buf =>
      if idx < ord.length then
        match s.shared[idx]? with
        | some x => some { s with pcs := setPc s g (.fmt ord (idx + 1) (buf ++ [x])) }
        | none => none
      else none
    | _ => none
  | .finish g =>
    match s.pcs g with
    | .fmt ord idx buf =>
      if idx = ord.length then
        some { s with pcs := setPc s g .idle, holder := none, done := s.done ++ [(ord, buf)] }
      else none
    | _ => none

def run (o : Order) : St → List Op → Option St := TS.run (step? o)

end FileD.SaveSnap
