/-
  Trace vocabulary of one Batcher and its replay through `Batcher.step?` (DESIGN §3.1, §12).

  Boundary log of the real `pipeline.Batcher`, one token group per boundary event, in the order
  in which the code serialises them:

    a <id> <size> <kind>      event appended in Batcher.Add       (logged inside b.mu)   kind 0 regular 1 child 2 child-parent
    h                         heartbeat iteration after getBatch  (logged inside b.mu)
    s <seq> <status>          batch sealed: seq assigned           (logged inside b.mu)   status 1 size 2 timeout
    q <seq>                   `fullBatches <- batch` after Unlock  (only in the unlock-before-send shape)
    o <seq> <n> <id>*n        OutFn entered; ids = what Batch.ForEach yields
    d <seq> <keep>            OutFn returned; keep = 0: batch was reset / InDeadQueue
    cb <seq> <n> <id>*n       commit critical section of the batch (logged inside seqMu); ids = Commit calls
    x                         Stop: shouldStop set, channel closed (logged inside b.mu)
    w <0|1>                   harness observation after waiting for the idle flush: 1 = everything added is committed
    panic:<kind>              a goroutine of the case panicked
    k                         tick of the harness's own reference clock (a goroutine sleeping 100 ms per tick); used to
                              read the heartbeat period off the trace: no state change in the model

  `o`/`d` are logged outside any lock of the batcher. They only touch the flags of their own
  batch in the model, so `step?` accepts them wherever the log happens to put them after the
  batch's `s` (the log's own mutex respects happens-before: `s k` < `o k` < `d k` < `cb k`).
  Time is not in the trace: the only thing the implementation's clock decides is whether
  `updateStatus` took the timeout branch, and that is visible as the status of the following `s`.
  `replay` feeds `now = start + timeout + 1` to the op in front of an `s _ 2` and `now = start`
  otherwise (a look-ahead to the next token logged under b.mu, no search); `t0` (the clock read of
  `reset()`) is the replay's running clock.
-/
import FileD.Prelude.Tok
import FileD.Model.Batcher
namespace FileD.Batcher

inductive Tk
  | a (e : Ev) | h | s (k st : Nat) | q (k : Nat) | o (k : Nat) (ids : List Nat)
  | d (k : Nat) (keep : Bool) | cb (k : Nat) (ids : List Nat) | x | w (ok : Bool) | panic (kind : String)
  | clk   -- a tick of the harness's own 100 ms reference clock (not an event of the batcher)
deriving Repr

def Kind.ofNat? : Nat → Option Kind
  | 0 => some .regular | 1 => some .child | 2 => some .childParent | _ => none
def Kind.toNat : Kind → Nat
  | .regular => 0 | .child => 1 | .childParent => 2

open FileD.Tok in
/-- parse one token group from the front of the token list -/
def parseTk : List String → Option (Tk × List String)
  | "a" :: i :: sz :: k :: r => do
    let kind ← Kind.ofNat? (← nat? k)
    pure (.a ⟨← nat? i, ← nat? sz, kind⟩, r)
  | "h" :: r => some (.h, r)
  | "s" :: k :: st :: r => do pure (.s (← nat? k) (← nat? st), r)
  | "q" :: k :: r => do pure (.q (← nat? k), r)
  | "o" :: k :: r => do
    let (ids, r') ← listOf nat? r
    pure (.o (← nat? k) ids, r')
  | "d" :: k :: kp :: r => do pure (.d (← nat? k) (← bool? kp), r)
  | "cb" :: k :: r => do
    let (ids, r') ← listOf nat? r
    pure (.cb (← nat? k) ids, r')
  | "x" :: r => some (.x, r)
  | "k" :: r => some (.clk, r)
  | "w" :: b :: r => do pure (.w (← bool? b), r)
  | t :: r => if t.startsWith "panic:" then some (.panic ((t.drop 6).toString), r) else none
  | [] => none

def parseTks (fuel : Nat) (ts : List String) : Option (List Tk) :=
  match fuel, ts with
  | _, [] => some []
  | 0, _ => none
  | f+1, ts => do
    let (t, r) ← parseTk ts
    let rest ← parseTks f r
    pure (t :: rest)

open FileD.Tok in
def Tk.render : Tk → String
  | .a e => unwords ["a", toString e.id, toString e.size, toString e.kind.toNat]
  | .h => "h"
  | .s k st => unwords ["s", toString k, toString st]
  | .q k => unwords ["q", toString k]
  | .o k ids => unwords ["o", toString k, encList toString ids]
  | .d k kp => unwords ["d", toString k, ofBool kp]
  | .cb k ids => unwords ["cb", toString k, encList toString ids]
  | .x => "x"
  | .clk => "k"
  | .w ok => unwords ["w", ofBool ok]
  | .panic kind => "panic:" ++ kind

/-- does the next token logged under b.mu say "sealed by timeout"? -/
def expiredNext : List Tk → Bool
  | [] => false
  | .s _ st :: _ => st == 2
  | .a _ :: _ => false
  | .h :: _ => false
  | .x :: _ => false
  | _ :: r => expiredNext r

structure Replay where
  st : State
  clock : Nat := 0

/-- the two clock values of an Add / heartbeat step: `t0` (read in `reset()` if a batch is taken from
    freeBatches) is the replay's clock; `now` (read in `updateStatus`) lies beyond the timeout exactly
    when the implementation took the timeout branch -/
def nowFor (c : Cfg) (r : Replay) (expired : Bool) : Nat × Nat :=
  let start := match r.st.cur with
    | some b => b.start
    | none => r.clock
  (r.clock, if expired then start + c.timeout + 1 else start)

/-- everything that was appended has been committed or handed over -/
def State.drained (s : State) : Bool :=
  s.full.isEmpty && (match s.cur with | none => true | some b => b.evs.isEmpty)

/-- one trace token: the model op it stands for, and the token the model prints for it -/
def replayTk (c : Cfg) (r : Replay) (t : Tk) (rest : List Tk) : Option (Replay × Tk) :=
  match t with
  | .a e =>
    let (t0, now) := nowFor c r (expiredNext rest)
    (step? c r.st (.add e t0 now)).map fun s' => ({ st := s', clock := max t0 now }, .a e)
  | .h =>
    let (t0, now) := nowFor c r (expiredNext rest)
    (step? c r.st (.heartbeat t0 now)).map fun s' => ({ st := s', clock := max t0 now }, .h)
  | .s _ _ =>
    match r.st.cur with
    | none => none
    | some b =>
      (step? c r.st .sealB).map fun s' => ({ r with st := s' }, .s r.st.outSeq b.status.toNat)
  | .q k => (step? c r.st (.enqueue k)).map fun s' => ({ r with st := s' }, .q k)
  | .o k _ =>
    match findBatch k r.st.full with
    | none => none
    | some b =>
      (step? c r.st (.sendStart k)).map fun s' => ({ r with st := s' }, .o k ((forEach b.evs).map (·.id)))
  | .d k kp => (step? c r.st (.sendDone k kp)).map fun s' => ({ r with st := s' }, .d k kp)
  | .cb k _ =>
    match findBatch k r.st.full with
    | none => none
    | some b =>
      (step? c r.st (.commit k)).map fun s' =>
        ({ r with st := s' }, .cb k (if b.reset then [] else b.evs.map (·.id)))
  | .x =>
    -- a second Stop is a no-op in the code and is not logged
    if r.st.stopped then none else
    (step? c r.st .stop).map fun s' => ({ r with st := s' }, .x)
  | .w _ => some (r, .w r.st.drained)
  | .clk => some (r, .clk)
  | .panic kind => if r.st.panicked && kind == "closed-channel" then some (r, .panic kind) else none

/-- replay a whole trace; result = the tokens the model prints, or the index of the first
    token the model does not enable -/
def replay (c : Cfg) : Replay → List Tk → Nat → List Tk → List Tk × Option (Nat × Tk)
  | _, [], _, acc => (acc.reverse, none)
  | r, t :: rest, i, acc =>
    match replayTk c r t rest with
    | none => (acc.reverse, some (i, t))
    | some (r', t') => replay c r' rest (i + 1) (t' :: acc)

def renderReplay (res : List Tk × Option (Nat × Tk)) : String :=
  let body := res.1.map Tk.render
  match res.2 with
  | none => Tok.unwords body
  | some (i, t) => Tok.unwords (body ++ [s!"reject@{i}", t.render])

end FileD.Batcher
