/-
  Model of the key bookkeeping of `plugin/action/rename/rename.go: Do` and
  `plugin/action/move/move.go: Do` over a JSON tree. The insane-json operations they are built
  from are modelled at tree level (their agreement with the library is checked on every run):

    Dig(path…)                    first matching key at every level, objects only   (`JTree.dig`)
    node.Suicide()                swap-remove from the owning object: the last field takes the
                                  place of the removed one                          (`swapRemove`)
    obj.AddFieldNoAlloc(name)     the existing first field of that name, else a new last field
    x.MutateToNode(node)          x takes node's value                              (`setField`)
    CreateNestedField(root, path) walks / creates objects along path, overriding non-objects

  Assumptions of the tree view: keys of an object are unique (with duplicates or more than the
  library's map threshold of fields, Dig may pick another occurrence) and a moved node is not an
  ancestor of the place it is moved to, except where stated (`detached`).
-/
import FileD.Prelude.JTree
import FileD.Prelude.GoSlice
namespace FileD.Act.Fields
open FileD JTree

abbrev KVs := List (Bytes × JTree)

def findKey (k : Bytes) : KVs → Option Nat
  | [] => none
  | (k', _) :: r => if k' = k then some 0 else (findKey k r).map (· + 1)

/-- `Suicide` of the field at index `i` of an object -/
def swapRemove (i : Nat) (kvs : KVs) : KVs :=
  match kvs.getLast? with
  | none => kvs
  | some last => (kvs.set i last).dropLast

/-- `AddFieldNoAlloc(name).MutateToNode(v)` on an object's fields -/
def setField (kvs : KVs) (name : Bytes) (v : JTree) : KVs :=
  match findKey name kvs with
  | some i => kvs.set i (name, v)
  | none => kvs ++ [(name, v)]

/-- remove the node `Dig(path…)` finds (the root itself is immortal) -/
def removeAt : List Bytes → JTree → JTree
  | [], t => t
  | [k], .obj kvs =>
    match findKey k kvs with
    | some i => .obj (swapRemove i kvs)
    | none => .obj kvs
  | k :: k2 :: ks, .obj kvs =>
    match findKey k kvs, lookup k kvs with
    | some i, some v => .obj (kvs.set i (k, removeAt (k2 :: ks) v))
    | _, _ => .obj kvs
  | _ :: _, t => t

/-- replace the node at `path` (which exists) by `f node` -/
def updateAt (f : JTree → JTree) : List Bytes → JTree → JTree
  | [], t => f t
  | k :: ks, .obj kvs =>
    match findKey k kvs, lookup k kvs with
    | some i, some v => .obj (kvs.set i (k, updateAt f ks v))
    | _, _ => .obj kvs
  | _ :: _, t => t

/-- `pipeline.CreateNestedField(root, path)` on an object root: every step takes the existing
    field or appends a new one, and turns a non-object into `{}` -/
def createNested : List Bytes → JTree → JTree
  | [], t => t
  | k :: ks, .obj kvs =>
    let child : JTree :=
      match lookup k kvs with
      | some (.obj c) => .obj c
      | _ => .obj []
    .obj (setField kvs k (createNested ks child))
  | _ :: _, t => t

/-! ### rename -/

/-- one `(path, name)` pair of `rename.Do` -/
def renameOne (preserve : Bool) (root : JTree) (path : List Bytes) (name : Bytes) : JTree :=
  match root with
  | .obj kvs =>
    if preserve && (lookup name kvs).isSome then root
    else
      match path, dig root path with
      | [], _ => root                        -- cannot be configured (empty selectors are skipped)
      | _ :: _, none => root
      | _ :: _, some v =>
        match removeAt path root with
        | .obj kvs' => .obj (setField kvs' name v)
        | t => t
  | _ => root

def rename (preserve : Bool) (pairs : List (List Bytes × Bytes)) (root : JTree) : JTree :=
  pairs.foldl (fun r pn => renameOne preserve r pn.1 pn.2) root

/-! ### move -/

/-- `field[len(field)-1]` -/
def lastElem (path : List Bytes) : GoM Bytes :=
  GoSlice.idx? path ((path.length : Int) - 1)

/-- state of the allow-mode loop: the tree and whether the target node is still reachable from
    the root (moving one of its ancestors detaches it: later moves then vanish with it) -/
structure MoveSt where
  root : JTree
  detached : Bool

def isPrefix (a b : List Bytes) : Bool := a.length < b.length && a == b.take a.length

/-- one allowed field: `if node := Root.Dig(field…); node != nil && node != targetNode { moveNode(last, node) }` -/
def moveAllowOne (target : List Bytes) (st : MoveSt) (field : List Bytes) : GoM MoveSt :=
  match dig st.root field with
  | none => .ok st
  | some v =>
    if !st.detached && field == target then .ok st
    else do
      let name ← lastElem field
      let removed := removeAt field st.root
      if st.detached then .ok { st with root := removed }
      else if isPrefix field target then .ok { root := removed, detached := true }
      else
        let put : JTree → JTree
          | .obj kvs => .obj (setField kvs name v)
          | t => t
        .ok { st with root := updateAt put target removed }

def moveAllow (target : List Bytes) (fields : List (List Bytes)) (root : JTree) : GoM JTree :=
  match root with
  | .obj _ => do
    let st ← fields.foldlM (moveAllowOne target) ⟨createNested target root, false⟩
    pure st.root
  | _ => .ok root

/-- block mode: `for _, node := range Root.AsFields()` while `Suicide` swap-removes from the very
    array that is being ranged over. `mem` is that array (stale tail entries included), `live`
    the current number of fields, `tgt` the fields collected in the target so far. -/
structure BlockSt where
  mem : KVs
  live : Nat
  tgt : KVs

def blockStep (tkey : Bytes) (blocked : List Bytes) (st : BlockSt) (i : Nat) : BlockSt :=
  match st.mem[i]? with
  | none => st
  | some (name, value) =>
    if name = tkey then st
    else if blocked.contains name then st
    else
      -- value.Suicide(): find the live field, put the last live field in its place
      let st1 : BlockSt :=
        match findKey name (st.mem.take st.live) with
        | none => st
        | some j =>
          match st.mem[st.live - 1]? with
          | none => st
          | some lastKV => { st with mem := st.mem.set j lastKV, live := st.live - 1 }
      { st1 with tgt := setField st1.tgt name value }

def moveBlock (tkey : Bytes) (blocked : List Bytes) (root : JTree) : JTree :=
  match createNested [tkey] root with
  | .obj kvs =>
    let tgt0 : KVs := match lookup tkey kvs with
      | some (.obj c) => c
      | _ => []
    let st := (List.range kvs.length).foldl (blockStep tkey blocked) ⟨kvs, kvs.length, tgt0⟩
    let liveKVs := st.mem.take st.live
    .obj (liveKVs.map (fun kv => if kv.1 = tkey then (kv.1, .obj st.tgt) else kv))
  | t => t

end FileD.Act.Fields
