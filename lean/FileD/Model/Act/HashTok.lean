/-
  Model of the by-bytes tokenizer of the `hash` plugin's normalizer
  (`plugin/action/hash/normalize/token_normalizer.go`: `tokenizer.nextToken`,
  `processOpenBracket`, `processCloseBracket`, `processQuotes`, `normalizeByTokenizer`):
  `{…}`, `[…]`, `(…)`, `"…"`, `'…'`, `` `…` `` runs of the hashed field are replaced by
  placeholders. Hand-written index arithmetic on event-controlled bytes:

      out = append(out, tok.data[prevEnd:t.begin]...) ;  prevEnd = t.end ;  t.pos = pos + t.counter

  Patterns are numbered 1..6 (curly, square, paren, double, single, grave quote); `has p` says
  whether pattern `p` is enabled (`hasPattern(t.patterns, p)`). `prevEnd` always equals `t.pos`,
  so the model keeps one variable for both.
-/
import FileD.Prelude.GoSlice
namespace FileD.Act.HashTok
open FileD GoSlice

inductive Cls
  | opn (p : Nat)
  | cls (p : Nat)
  | quote (p : Nat)
  | other
deriving Repr, DecidableEq

/-- the `switch` of `nextToken`: which case a byte selects -/
def classify (has : Nat → Bool) (b : UInt8) : Cls :=
  if b = 123 ∧ has 1 then .opn 1 else if b = 125 ∧ has 1 then .cls 1
  else if b = 91 ∧ has 2 then .opn 2 else if b = 93 ∧ has 2 then .cls 2
  else if b = 40 ∧ has 3 then .opn 3 else if b = 41 ∧ has 3 then .cls 3
  else if b = 34 ∧ has 4 then .quote 4
  else if b = 39 ∧ has 5 then .quote 5
  else if b = 96 ∧ has 6 then .quote 6
  else .other

structure St where
  cur : Nat       -- t.curPattern (0 = none)
  counter : Nat   -- t.counter
  start : Nat     -- t.startPattern
deriving Repr, DecidableEq

/-- `for i := pos + 1; i < len(t.data) && t.data[i] == c; i++` : number of iterations -/
def runLen (data : Bytes) (start : Nat) (c : UInt8) : Nat :=
  ((data.drop start).takeWhile (· == c)).length

/-- `pos > 0 && t.data[pos-1] == '\\'` -/
def escaped (data : Bytes) (i : Nat) : GoM Bool :=
  if i > 0 then do
    let prev ← idx? data ((i : Int) - 1)
    pure (prev == 92)
  else pure false

/-- the `for i := t.pos; i < len(t.data); i++` loop of `nextToken` from index `i`:
    `some (pattern, begin, end)` for a token (`end` is also the new `t.pos`), `none` at the end -/
def scan (has : Nat → Bool) (data : Bytes) : Nat → Nat → St → GoM (Option (Nat × Nat × Nat))
  | 0, _, _ => .error .other
  | fuel + 1, i, st =>
    if i < data.length then do
      let b ← idx? data i
      match classify has b with
      | .opn p =>
        let st' : St :=
          if st.cur = 0 then ⟨p, 1, i⟩
          else if st.cur = p then { st with counter := st.counter + 1 } else st
        scan has data fuel (i + 1) st'
      | .cls p =>
        if st.cur ≠ p then scan has data fuel (i + 1) st
        else if st.counter - 1 > 0 then scan has data fuel (i + 1) { st with counter := st.counter - 1 }
        else pure (some (p, st.start, i + 1))
      | .quote p =>
        if st.cur = 0 then
          let k := runLen data (i + 1) b
          scan has data fuel (i + k + 1) ⟨p, 1 + k, i⟩
        else if st.cur = p then do
          let esc ← escaped data i
          if esc then scan has data fuel (i + 1) st
          else
            let k := runLen data (i + 1) b
            let tmp : Int := (st.counter : Int) - 1 - k
            if tmp > 0 then scan has data fuel (i + k + 1) st
            else pure (some (p, st.start, i + st.counter))
        else scan has data fuel (i + 1) st
      | .other => scan has data fuel (i + 1) st
    else if st.cur ≠ 0 then pure (some (st.cur, st.start, data.length))
    else pure none

/-- `placeholderByPattern` as bytes (ASCII) -/
def placeholder : Nat → Bytes
  | 1 => [60, 99, 117, 114, 108, 121, 95, 98, 114, 97, 99, 107, 101, 116, 101, 100, 62]   -- <curly_bracketed>
  | 2 => [60, 115, 113, 117, 97, 114, 101, 95, 98, 114, 97, 99, 107, 101, 116, 101, 100, 62]   -- <square_bracketed>
  | 3 => [60, 112, 97, 114, 101, 110, 116, 104, 101, 115, 105, 122, 101, 100, 62]   -- <parenthesized>
  | 4 => [60, 100, 111, 117, 98, 108, 101, 95, 113, 117, 111, 116, 101, 100, 62]   -- <double_quoted>
  | 5 => [60, 115, 105, 110, 103, 108, 101, 95, 113, 117, 111, 116, 101, 100, 62]   -- <single_quoted>
  | 6 => [60, 103, 114, 97, 118, 101, 95, 113, 117, 111, 116, 101, 100, 62]   -- <grave_quoted>
  | _ => []

/-- `nextToken` from `t.pos = pos` -/
def nextToken (has : Nat → Bool) (data : Bytes) (pos : Nat) : GoM (Option (Nat × Nat × Nat)) :=
  scan has data (data.length + 1) pos ⟨0, 0, 0⟩

/-- `normalizeByTokenizer` -/
def norm (has : Nat → Bool) (data : Bytes) : Nat → Nat → Bytes → GoM Bytes
  | 0, _, _ => .error .other
  | fuel + 1, pos, out => do
    match ← nextToken has data pos with
    | none =>
      let tail ← sliceFrom? data pos
      pure (out ++ tail)
    | some (p, b, e) =>
      let pre ← slice? data pos b
      norm has data fuel e (out ++ pre ++ placeholder p)

def normalize (has : Nat → Bool) (data : Bytes) : GoM Bytes :=
  norm has data (data.length + 2) 0 []

end FileD.Act.HashTok
