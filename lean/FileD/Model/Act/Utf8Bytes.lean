/-
  Model of `plugin/action/convert_utf8_bytes/convert_utf8_bytes.go: (*Plugin).convert`, the
  hand-written scanner that turns `\xNN`, `\NNN` (octal), `\uNNNN` (with UTF-16 surrogate pairs)
  and `\UNNNNNNNN` sequences of a string field into the bytes / characters they denote.
  Statement by statement; every Go slice expression is a checked `GoSlice` access.

  Library calls modelled concretely: `strings.IndexByte`, `strconv.ParseUint(s, 16|8, 64)` on
  4/8/3-character inputs (error iff a character is not a digit of the base), `hex.DecodeString`
  on an even-length input, `string(rune(u))` (UTF-8 encoding, U+FFFD for invalid code points,
  `rune(u)` being the int32 truncation), `utf16.IsSurrogate`, `utf16.DecodeRune`.
  `unicode.IsGraphic` is a parameter (`graphic`): the theorems hold for every such function.
-/
import FileD.Prelude.GoSlice
namespace FileD.Act.Utf8Bytes
open FileD GoSlice

def BS : UInt8 := 92   -- '\\'

def hexVal? (c : UInt8) : Option Nat :=
  if 48 ≤ c ∧ c ≤ 57 then some (c.toNat - 48)
  else if 97 ≤ c ∧ c ≤ 102 then some (c.toNat - 87)
  else if 65 ≤ c ∧ c ≤ 70 then some (c.toNat - 55)
  else none

def octVal? (c : UInt8) : Option Nat :=
  if 48 ≤ c ∧ c ≤ 55 then some (c.toNat - 48) else none

/-- `strconv.ParseUint(s, base, 64)` for short all-digit inputs; `none` = error -/
def parseDigits (digit? : UInt8 → Option Nat) (base : Nat) : Bytes → Nat → Option Nat
  | [], acc => some acc
  | c :: cs, acc =>
    match digit? c with
    | none => none
    | some d => parseDigits digit? base cs (acc * base + d)

def parseHex (s : Bytes) : Option Nat := if s = [] then none else parseDigits hexVal? 16 s 0
def parseOct (s : Bytes) : Option Nat := if s = [] then none else parseDigits octVal? 8 s 0

/-- `hex.DecodeString` on an even-length string -/
def hexDecode : Bytes → Option Bytes
  | [] => some []
  | [_] => none
  | a :: b :: rest =>
    match hexVal? a, hexVal? b, hexDecode rest with
    | some x, some y, some r => some (UInt8.ofNat (x * 16 + y) :: r)
    | _, _, _ => none

def replacement : Bytes := [0xEF, 0xBF, 0xBD]

/-- `string(rune(u))` for `u < 2^32`: `rune` is int32, so `u ≥ 2^31` is negative (invalid) -/
def encodeRune (u : Nat) : Bytes :=
  if u < 0x80 then [UInt8.ofNat u]
  else if u < 0x800 then [UInt8.ofNat (0xC0 + u / 64), UInt8.ofNat (0x80 + u % 64)]
  else if 0xD800 ≤ u ∧ u < 0xE000 then replacement
  else if u < 0x10000 then
    [UInt8.ofNat (0xE0 + u / 4096), UInt8.ofNat (0x80 + u / 64 % 64), UInt8.ofNat (0x80 + u % 64)]
  else if u < 0x110000 then
    [UInt8.ofNat (0xF0 + u / 262144), UInt8.ofNat (0x80 + u / 4096 % 64),
     UInt8.ofNat (0x80 + u / 64 % 64), UInt8.ofNat (0x80 + u % 64)]
  else replacement

def isSurrogate (u : Nat) : Bool := 0xD800 ≤ u && u < 0xE000

/-- `utf16.DecodeRune(r1, r2)` as a code point (0xFFFD when not a valid pair) -/
def decodeSurrogates (r1 r2 : Nat) : Nat :=
  if 0xD800 ≤ r1 ∧ r1 < 0xDC00 ∧ 0xDC00 ≤ r2 ∧ r2 < 0xE000 then
    (r1 - 0xD800) * 1024 + (r2 - 0xDC00) + 0x10000
  else 0xFFFD

structure Cfg where
  replaceNonGraphic : Bool
  graphic : Nat → Bool      -- unicode.IsGraphic(rune(u))

/-- the `for { if len(nodeStr)-pos >= 4 && nodeStr[pos:pos+2] == "\\x" … }` loop of the hex case:
    returns (sb, pos). `fuel` bounds the number of iterations (each one advances `pos` by 4). -/
def hexRun (s : Bytes) : Nat → Bytes → Nat → GoM (Bytes × Nat)
  | 0, sb, pos => .ok (sb, pos)
  | fuel + 1, sb, pos =>
    if (s.length : Int) - pos ≥ 4 then do
      let pre ← slice? s pos (pos + 2)
      if pre = [BS, 120] then do
        let d ← slice? s (pos + 2) (pos + 4)
        hexRun s fuel (sb ++ d) (pos + 4)
      else .ok (sb, pos)
    else .ok (sb, pos)

/-- one execution of the `switch ch` on a non-empty `nodeStr`: (bytes appended to buf, new nodeStr) -/
def switchStep (cfg : Cfg) (s : Bytes) : GoM (Bytes × Bytes) := do
  let ch ← idx? s 0
  if ch = BS then do
    let s1 ← sliceFrom? s 1
    pure ([BS, BS], s1)
  else if ch = 117 ∨ ch = 85 then do        -- 'u', 'U'
    let s1 ← sliceFrom? s 1
    let size : Nat := if ch = 85 then 8 else 4
    if s1.length < size then pure ([BS, ch], s1) else do
    let ss ← sliceTo? s1 size
    match parseHex ss with
    | none => pure ([BS, ch], s1)
    | some u0 => do
      let s2 ← sliceFrom? s1 size
      let u := if !cfg.graphic u0 && cfg.replaceNonGraphic then 0xFFFD else u0
      if size = 8 ∨ !isSurrogate u then pure (encodeRune u, s2) else do
      if s2.length < 6 then pure ([BS, 117] ++ ss, s2) else do
      let pre ← sliceTo? s2 2
      if pre ≠ [BS, 117] then pure ([BS, 117] ++ ss, s2) else do
      let lo ← slice? s2 2 6
      match parseHex lo with
      | none => pure ([BS, 117] ++ ss, s2)
      | some u2 => do
        let s3 ← sliceFrom? s2 6
        pure (encodeRune (decodeSurrogates u u2), s3)
  else if ch = 120 then do                    -- 'x'
    let s1 ← sliceFrom? s 1
    if s1.length < 2 then pure ([BS, 120], s1) else do
    let first ← sliceTo? s1 2
    let (sb, pos) ← hexRun s1 s1.length first 2
    let rest ← sliceFrom? s1 pos
    match hexDecode sb with
    | none => do
      let raw ← sliceTo? s1 pos
      pure ([BS, 120] ++ raw, rest)
    | some bs => pure (bs, rest)
  else if 48 ≤ ch ∧ ch ≤ 51 then do           -- '0'..'3'
    if s.length < 3 then pure ([BS], s) else do
    let o ← sliceTo? s 3
    match parseOct o with
    | none => pure ([BS], s)
    | some u => do
      let s1 ← sliceFrom? s 3
      pure ([UInt8.ofNat u], s1)
  else pure ([BS], s)

/-- the `for nodeStr != ""` loop; `fuel` ≥ length of `s` + 1 always suffices -/
def loop (cfg : Cfg) : Nat → Bytes → Bytes → GoM Bytes
  | 0, _, _ => .error .other
  | fuel + 1, s, buf =>
    if s = [] then .ok buf else do
    let (out, s1) ← switchStep cfg s
    let buf := buf ++ out
    let idx := indexByte s1 BS
    if idx < 0 then .ok (buf ++ s1) else do
    let pre ← sliceTo? s1 idx
    let s2 ← sliceFrom? s1 (idx + 1)
    loop cfg fuel s2 (buf ++ pre)

/-- `convert`: the new value of the node (`none` = node left untouched: no backslash) -/
def convert (cfg : Cfg) (s : Bytes) : GoM (Option Bytes) :=
  let idx := indexByte s BS
  if idx < 0 then .ok none else do
  let pre ← sliceTo? s idx
  let s1 ← sliceFrom? s (idx + 1)
  let r ← loop cfg (s1.length + 1) s1 pre
  pure (some r)

end FileD.Act.Utf8Bytes
