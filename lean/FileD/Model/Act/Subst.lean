/-
  Model of the field filters of `cfg/substitution` (`cut_filter.go`, `trim_filter.go`,
  `trim_to_filter.go`, `regex_filter.go`: the `Apply` methods) and of the filter loop of
  `plugin/action/modify/modify.go: (*Plugin).Do`:

      p.fieldBuf = append(p.fieldBuf[:0], fieldData...)
      for i := 0; i < len(op.Filters); i++ { p.fieldBuf = op.Filters[i].Apply(p.fieldBuf, p.fieldBuf) }

  Go slicing is `GoSlice.slice?` (a Go panic is `.error .bounds`; capacity is not modelled:
  `b[:hi]` needs `hi ≤ len b`). `bytes.Index` / `bytes.LastIndex` are modelled concretely.
  `regexp.FindAllSubmatchIndex` is an oracle parameter: its result for the filter's input is
  part of the `re` filter value. `bytes.Trim*` with an all-ASCII cutset is a set of bytes
  (what the Go implementation does for ASCII cutsets); non-ASCII cutsets are outside the model.
-/
import FileD.Prelude.GoSlice
namespace FileD.Act.Subst
open FileD GoSlice

inductive CutMode | first | last
deriving Repr, DecidableEq

inductive TrimMode | all | left | right
deriving Repr, DecidableEq

inductive Filter
  | cut (mode : CutMode) (count : Nat)
  | trimTo (mode : TrimMode) (cutset : Bytes)
  | trim (mode : TrimMode) (cutset : Bytes)
  /-- `matches` = `re.FindAllSubmatchIndex(src, limit)` for this filter's input -/
  | re (groups : List Nat) (sep : Bytes) (emptyOnNotMatched : Bool) (matchIdx : List (List Int))
deriving Repr

/-- `bytes.Index(s, sub)` counted from position `i` of the original slice; -1 when absent -/
def indexFrom (sub : Bytes) : Bytes → Nat → Int
  | [], i => if sub = [] then (i : Int) else -1
  | c :: cs, i => if sub.isPrefixOf (c :: cs) then (i : Int) else indexFrom sub cs (i + 1)

def index (s sub : Bytes) : Int := indexFrom sub s 0

/-- `bytes.LastIndex(s, sub)`; -1 when absent (`len s` for the empty `sub`) -/
def lastIndexFrom (sub : Bytes) : Bytes → Nat → Int
  | [], i => if sub = [] then (i : Int) else -1
  | c :: cs, i =>
    let r := lastIndexFrom sub cs (i + 1)
    if r ≠ -1 then r else if sub.isPrefixOf (c :: cs) then (i : Int) else -1

def lastIndex (s sub : Bytes) : Int := lastIndexFrom sub s 0

/-- `CutFilter.Apply` -/
def applyCut (mode : CutMode) (count : Nat) (src : Bytes) : GoM Bytes :=
  if src.length < count then .ok src else
  match mode with
  | .first => sliceTo? src count
  | .last => sliceFrom? src ((src.length : Int) - count)

/-- `if idx := bytes.Index(src, cutset); idx != -1 { src = src[idx:] }` -/
def trimToLeft (cutset src : Bytes) : GoM Bytes :=
  if index src cutset ≠ -1 then sliceFrom? src (index src cutset) else .ok src

/-- `if idx := bytes.LastIndex(src, cutset); idx != -1 { src = src[:idx+len(cutset)] }` -/
def trimToRight (cutset src : Bytes) : GoM Bytes :=
  if lastIndex src cutset ≠ -1 then sliceTo? src (lastIndex src cutset + cutset.length) else .ok src

/-- `TrimToFilter.Apply` -/
def applyTrimTo (mode : TrimMode) (cutset : Bytes) (src : Bytes) : GoM Bytes :=
  match mode with
  | .left => trimToLeft cutset src
  | .right => trimToRight cutset src
  | .all => do
    let s1 ← trimToLeft cutset src
    trimToRight cutset s1

def trimLeft (cutset s : Bytes) : Bytes := s.dropWhile (fun b => cutset.contains b)
def trimRight (cutset s : Bytes) : Bytes := (s.reverse.dropWhile (fun b => cutset.contains b)).reverse

/-- `TrimFilter.Apply` for an ASCII cutset -/
def applyTrim (mode : TrimMode) (cutset : Bytes) (src : Bytes) : Bytes :=
  match mode with
  | .left => trimLeft cutset src
  | .right => trimRight cutset src
  | .all => trimRight cutset (trimLeft cutset src)

/-- inner loop of `RegexFilter.Apply` over the groups of one match -/
def reGroups (src sep : Bytes) (index : List Int) : List Nat → Bytes → GoM Bytes
  | [], buf => .ok buf
  | grp :: gs, buf => do
    let start ← idx? index ((grp * 2 : Nat) : Int)
    let stop ← idx? index ((grp * 2 + 1 : Nat) : Int)
    if start = -1 ∨ stop = -1 then reGroups src sep index gs buf
    else
      let buf := if sep.length > 0 ∧ buf.length ≠ 0 then buf ++ sep else buf
      let part ← slice? src start stop
      reGroups src sep index gs (buf ++ part)

/-- outer loop over the matches -/
def reMatches (src sep : Bytes) (groups : List Nat) : List (List Int) → Bytes → GoM Bytes
  | [], buf => .ok buf
  | ix :: rest, buf => do
    let buf ← reGroups src sep ix groups buf
    reMatches src sep groups rest buf

/-- `RegexFilter.Apply(src, dst)` with `dst` aliasing `src` as in modify -/
def applyRe (groups : List Nat) (sep : Bytes) (emptyOnNotMatched : Bool) (matchIdx : List (List Int))
    (src : Bytes) : GoM Bytes :=
  if groups.length = 0 then .ok src
  else if matchIdx.length = 0 then
    if emptyOnNotMatched then .ok [] else .ok src
  else reMatches src sep groups matchIdx []

def apply (f : Filter) (src : Bytes) : GoM Bytes :=
  match f with
  | .cut m c => applyCut m c src
  | .trimTo m cs => applyTrimTo m cs src
  | .trim m cs => .ok (applyTrim m cs src)
  | .re g s e ms => applyRe g s e ms src

/-- the filter loop of modify.Do -/
def run : List Filter → Bytes → GoM Bytes
  | [], src => .ok src
  | f :: fs, src => do
    let s ← apply f src
    run fs s

end FileD.Act.Subst
