/-
  Trace vocabulary of an output built on RetriableBatcher + Router with an optional dead-queue
  output, and its replay (DESIGN §C09). Superset of the Batcher vocabulary (BatcherTrace.lean):

    main batcher        a h s o d cb x w              (lower case, as in C08; `o k` is logged at the first
                                                        attempt of batch k, `d k keep` when Out has returned)
    dead-queue batcher  A H S O D CB X                (same tokens in upper case)
    t <k> <ok>          a call of the send function for main batch k returned (1 = nil error)
    n <k> <tries> <stop> <pauseNs>  NextBackOff() was called for batch k with numTries = tries; stop = 1: it returned
                        Stop; pauseNs = the pause it asked for (0 with stop)
    e <k> <n> <id>*n    onRetryError was called for batch k with these events
    f <k> <id>          Router.Fail(event) handed the event to the dead-queue output's Out
    C <id>              a synchronous dead-queue output committed the event inside its Out
    z                   the case ended while an Out call was still in a pause too long to sit through

  The retry tokens of one batch are checked against `Retry.out` run on the oracle values seen so
  far (send results, NextBackOff results): the j-th retry token of batch k must be the j-th
  observable entry of the model's log. Tokens of different batches interleave freely (each
  worker runs its own Out), so no order between batches is imposed — by construction.
-/
import FileD.Model.BatcherTrace
import FileD.Model.Retry
namespace FileD.Retry
open FileD FileD.Batcher

inductive CTk
  | m (t : Tk) | q (t : Tk)
  | t (k : Nat) (ok : Bool) | n (k tries : Nat) (stop : Bool) (pause : Nat) | e (k : Nat) (ids : List Nat)
  | f (k id : Nat) | c (id : Nat) | z
deriving Repr

def lowerHead : String → Option String
  | "A" => some "a" | "H" => some "h" | "S" => some "s" | "O" => some "o" | "D" => some "d"
  | "CB" => some "cb" | "X" => some "x"
  | _ => none

def upperHead : String → String
  | "a" => "A" | "h" => "H" | "s" => "S" | "o" => "O" | "d" => "D" | "cb" => "CB" | "x" => "X"
  | s => s

open FileD.Tok in
def parseCTk : List String → Option (CTk × List String)
  | "t" :: k :: ok :: r => do pure (.t (← nat? k) (← bool? ok), r)
  | "n" :: k :: tr :: st :: pz :: r => do pure (.n (← nat? k) (← nat? tr) (← bool? st) (← nat? pz), r)
  | "e" :: k :: r => do
    let (ids, r') ← listOf nat? r
    pure (.e (← nat? k) ids, r')
  | "f" :: k :: id :: r => do pure (.f (← nat? k) (← nat? id), r)
  | "C" :: id :: r => do pure (.c (← nat? id), r)
  | "z" :: r => some (.z, r)
  | hd :: r =>
    match lowerHead hd with
    | some l => (parseTk (l :: r)).map fun (tk, r') => (.q tk, r')
    | none => (parseTk (hd :: r)).map fun (tk, r') => (.m tk, r')
  | [] => none

def parseCTks (fuel : Nat) (ts : List String) : Option (List CTk) :=
  match fuel, ts with
  | _, [] => some []
  | 0, _ => none
  | f+1, ts => do
    let (t, r) ← parseCTk ts
    let rest ← parseCTks f r
    pure (t :: rest)

open FileD.Tok in
def CTk.render : CTk → String
  | .m tk => tk.render
  | .q tk =>
    match words tk.render with
    | hd :: r => unwords (upperHead hd :: r)
    | [] => ""
  | .t k ok => unwords ["t", toString k, ofBool ok]
  | .n k tr st pz => unwords ["n", toString k, toString tr, ofBool st, toString pz]
  | .e k ids => unwords ["e", toString k, encList toString ids]
  | .f k id => unwords ["f", toString k, toString id]
  | .c id => unwords ["C", toString id]
  | .z => "z"

def mainOf : CTk → Option Tk | .m t => some t | _ => none
def dqOf : CTk → Option Tk | .q t => some t | _ => none

/-- oracle values seen so far for the `Out` call of one main batch -/
structure RRec where
  k : Nat
  sends : List Bool := []
  backs : List BackOff := []
  seen : Nat := 0          -- retry tokens of this batch consumed so far

structure CReplay where
  main : Replay
  dq : Replay
  recs : List RRec := []
  pending : List Ev := []      -- passed to deadQueue.Out, not yet appended / committed there
  dqSync : List Nat := []      -- committed by a synchronous dead-queue output

def getRec (k : Nat) : List RRec → RRec
  | [] => { k := k }
  | r :: rs => if r.k = k then r else getRec k rs

def putRec (r : RRec) : List RRec → List RRec
  | [] => [r]
  | x :: xs => if x.k = r.k then r :: xs else x :: putRec r xs

def takePending (id : Nat) : List Ev → Option (Ev × List Ev)
  | [] => none
  | e :: es => if e.id = id then some (e, es) else (takePending id es).map fun (x, r) => (x, e :: r)

/-- model's view of the `Out` call of batch k on the oracle seen so far -/
def outOf (rc : RCfg) (cr : CReplay) (rr : RRec) : Option OutRes :=
  (findBatch rr.k cr.main.st.full).map fun b => out rc b.evs rr.sends rr.backs 0

def replayC (mc dc : Cfg) (rc : RCfg) (cr : CReplay) (t : CTk) (rest : List CTk) : Option (CReplay × CTk) :=
  match t with
  | .m (.d k _) =>
    -- Out returned: the model must have finished on the oracle seen, all its entries observed
    let rr := getRec k cr.recs
    match outOf rc cr rr with
    | none => none
    | some res =>
      if res.finished && rr.seen == (observable res.log).length then
        (replayTk mc cr.main (.d k res.keep) []).map fun (m', tk) => ({ cr with main := m' }, .m tk)
      else none
  | .m (.w _) =>
    -- harness observation after the drain wait: every sealed main batch is resolved, the dead queue is empty
    some (cr, .m (.w (cr.main.st.full.isEmpty && cr.dq.st.drained && cr.pending.isEmpty)))
  | .m tk =>
    (replayTk mc cr.main tk (rest.filterMap mainOf)).map fun (m', tk') => ({ cr with main := m' }, .m tk')
  | .q (.a e) =>
    match takePending e.id cr.pending with
    | none => none
    | some (e', pend) =>
      (replayTk dc cr.dq (.a e') (rest.filterMap dqOf)).map fun (d', tk') =>
        ({ cr with dq := d', pending := pend }, .q tk')
  | .q tk =>
    (replayTk dc cr.dq tk (rest.filterMap dqOf)).map fun (d', tk') => ({ cr with dq := d' }, .q tk')
  | .t k ok =>
    let rr := getRec k cr.recs
    let rr' := { rr with sends := rr.sends ++ [ok], seen := rr.seen + 1 }
    match outOf rc cr rr' with
    | none => none
    | some res =>
      match (observable res.log)[rr.seen]? with
      | some (.send ok') => some ({ cr with recs := putRec rr' cr.recs }, .t k ok')
      | _ => none
  | .n k _ stop pause =>
    let rr := getRec k cr.recs
    let rr' := { rr with backs := rr.backs ++ [if stop then .stop else .dur pause], seen := rr.seen + 1 }
    match outOf rc cr rr' with
    | none => none
    | some res =>
      match (observable res.log)[rr.seen]? with
      | some (.next tries b) =>
        some ({ cr with recs := putRec rr' cr.recs }, .n k tries (b == .stop) (match b with | .dur d => d | .stop => 0))
      | _ => none
  | .e k _ =>
    let rr := getRec k cr.recs
    match outOf rc cr rr with
    | none => none
    | some res =>
      match (observable res.log)[rr.seen]? with
      | some (.onError ids) => some ({ cr with recs := putRec { rr with seen := rr.seen + 1 } cr.recs }, .e k ids)
      | _ => none
  | .f k _ =>
    let rr := getRec k cr.recs
    match outOf rc cr rr, findBatch k cr.main.st.full with
    | some res, some b =>
      match (observable res.log)[rr.seen]? with
      | some (.fail id) =>
        match b.evs.find? (·.id == id) with
        | some ev => some ({ cr with recs := putRec { rr with seen := rr.seen + 1 } cr.recs,
                                     pending := cr.pending ++ [ev] }, .f k id)
        | none => none
      | _ => none
    | _, _ => none
  | .z => some (cr, .z)   -- the observation ended while an Out call was still pausing
  | .c id =>
    match takePending id cr.pending with
    | none => none
    | some (_, pend) => some ({ cr with pending := pend, dqSync := cr.dqSync ++ [id] }, .c id)

def replayAll (mc dc : Cfg) (rc : RCfg) : CReplay → List CTk → Nat → List CTk → List CTk × Option (Nat × CTk)
  | _, [], _, acc => (acc.reverse, none)
  | cr, t :: rest, i, acc =>
    match replayC mc dc rc cr t rest with
    | none => (acc.reverse, some (i, t))
    | some (cr', t') => replayAll mc dc rc cr' rest (i + 1) (t' :: acc)

def renderReplayC (res : List CTk × Option (Nat × CTk)) : String :=
  let body := res.1.map CTk.render
  match res.2 with
  | none => Tok.unwords body
  | some (i, t) => Tok.unwords (body ++ [s!"reject@{i}", t.render])

end FileD.Retry
