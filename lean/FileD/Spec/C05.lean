/-
  C05 — executable oracle on an observed pool trace (gated schedules): in every quiescent block
  the events out of the pool never exceed the capacity, the in-use counter equals the number of
  holders (plus returns still spinning), no event is with two holders.
-/
import FileD.Model.PoolRun
namespace FileD.SpecC05
open FileD.Pool

def gots (b : Block) : List Int := b.obs.filterMap fun (_, st) => match st with | .got e => some e | _ => none
def nSpin (b : Block) : Nat := b.obs.countP fun (_, st) => st == .spin

def distinctEv : List Int → Bool
  | [] => true
  | e :: es => (e < 0 || !es.contains e) && distinctEv es

/-- capacity, counter and exclusivity clauses for one block -/
def blockOk (cap : Nat) (b : Block) : Bool :=
  !b.dup && !b.unsettled && (gots b).length ≤ cap && b.inUse == (gots b).length + nSpin b
    && distinctEv (gots b) && (gots b).all (fun e => e < cap)

def holds (cap : Nat) (bs : List Block) : Bool := bs.all (blockOk cap)

/-! ## free-running readers: the abstract pool every observed got/back log must be a run of
    (Props/C05 `*_held_le_capacity` and `slot_exclusive` show the fine models refine it) -/

inductive FOp
  | got (r : Nat) (e : Int)   -- logged after get returned
  | back (r : Nat)            -- logged before back is called
  | sample (n : Nat)          -- pool.inUse()
  | maxHeld (m : Nat)         -- most events held at once, counted by the harness itself
  | fin (inUse waiters : Nat) -- after every reader finished
  | wedged
  deriving DecidableEq, Repr

structure APool where
  cap : Nat
  /-- slack of the pool's own counter over the holders: 0 for the low-memory pool (`inUse()` clips to the
      capacity); for the standard pool the readers whose `back` has refilled its slot but not yet done
      `inUseEvents.Dec()` (Props/C05 `std_held_le_capacity`: inUse = #(holding … bdec)), at most the
      number of readers -/
  slack : Nat := 0
  held : List (Nat × Int) := []
  deriving Repr

def APool.step? (p : APool) : FOp → Option APool
  | .got r e =>
    if p.held.length < p.cap ∧ !(p.held.any (·.1 == r)) ∧ (e < 0 ∨ !(p.held.any (·.2 == e))) ∧ e < p.cap
    then some { p with held := (r, e) :: p.held } else none
  | .back r => if p.held.any (·.1 == r) then some { p with held := p.held.filter (·.1 != r) } else none
  | .sample n => if n ≤ p.cap + p.slack then some p else none
  | .maxHeld m => if m ≤ p.cap then some p else none
  | .fin a w => if a = 0 ∧ w = 0 ∧ p.held.isEmpty then some p else none
  | .wedged => none

def FOp.render : FOp → String
  | .got r e => s!"g{r}.{e}"
  | .back r => s!"b{r}"
  | .sample n => s!"u{n}"
  | .maxHeld m => s!"max {m}"
  | .fin a w => s!"end {a} {w}"
  | .wedged => "wedged"

/-! ## whole pipeline: per event the finalize flag words, and the idle state -/

/-- observed: (offset, kind letter, finalize words) per event, maxok, end counters -/
def pipeEventOk (k : String) (fins : List Nat) : Bool :=
  if k = "p" ∨ k = "s" then fins == [3] else if k = "d" ∨ k = "q" then fins == [1] else if k = "h" then fins == [0, 3]
  else if k = "x" ∨ k = "r" then fins.isEmpty else false

end FileD.SpecC05
