/-
  C05 — executable oracle on an observed pool trace (gated schedules): in every quiescent block
  the events out of the pool never exceed the capacity, the in-use counter equals the number of
  holders (plus returns still spinning), no event is with two holders.
-/
import FileD.Model.PoolRun
namespace FileD.SpecC05
open FileD.Pool

def gots (b : Block) : List Int := b.obs.filterMap fun (_, st) => match st with | .got e => some e | _ => none
def nSpin (b : Block) : Nat := b.obs.countP fun (_, st) => st == .spin

def distinctEv : List Int → Bool
  | [] => true
  | e :: es => (e < 0 || !es.contains e) && distinctEv es

/-- capacity, counter and exclusivity clauses for one block -/
def blockOk (cap : Nat) (b : Block) : Bool :=
  !b.dup && !b.unsettled && (gots b).length ≤ cap && b.inUse == (gots b).length + nSpin b
    && distinctEv (gots b) && (gots b).all (fun e => e < cap)

def holds (cap : Nat) (bs : List Block) : Bool := bs.all (blockOk cap)

end FileD.SpecC05
