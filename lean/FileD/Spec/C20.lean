/-
  Spec of C20 (admission control) and the executable oracles the check applies to the
  *implementation's* observed behaviour.

  Admission: `admitRec` says, declaratively, what must happen to one record — the listed refusal
  reasons in the order the property names them, the bytes the decoder must see (`specBytes`), the
  event that must be delivered. `Props/C20.lean` proves the model of `Pipeline.In` equal to it.
  The one stateful reason ("the antispam currently bans the source") is the `banned` argument.

  Antispam: `checkSpam` replays a sequence of IsSpam / Maintenance calls with the implementation's
  answers and `Dump()`s and checks, on those observations only, the consequences of the theorems
  `disabled_never_drops`, `exception_never_drops`, `ban_needs_threshold`, `silent_source_unbanned`.
-/
import FileD.Prelude.Bytes
import FileD.Prelude.JTree
import FileD.Model.Antispam
import FileD.Model.Admission
import FileD.Model.MatchRule
namespace FileD.SpecC20
open FileD FileD.Admission

/-! ## admission -/

def isEmptyRec (rec : Bytes) : Prop := rec = [] ∨ rec = [NL]
instance (rec : Bytes) : Decidable (isEmptyRec rec) := by unfold isEmptyRec; exact inferInstance

def oversize (max : Int) (rec : Bytes) : Prop := max ≠ 0 ∧ (rec.length : Int) > max
instance (max : Int) (rec : Bytes) : Decidable (oversize max rec) := by unfold oversize; exact inferInstance

def endsNL (rec : Bytes) : Bool := rec.getLast? == some NL

/-- the bytes that must reach the decoder: the record itself when it is within the limit,
    otherwise its first `max` bytes plus "\n" if the record ended in "\n" -/
def specBytes (max : Int) (rec : Bytes) : Bytes :=
  if oversize max rec then rec.take max.toNat ++ (if endsNL rec then [NL] else []) else rec

/-- the raw decoder's event: `message` = the bytes without their last byte -/
def rawEvent (b : Bytes) : JTree := .obj [(str "message", .str b.dropLast)]

/-- the event to deliver for decoder input `b` (`none`: undecodable) -/
def specDecode (s : Settings) (decode : Bytes → Option JTree) (b : Bytes) : Option JTree :=
  match s.dec with
  | .json => decode b
  | .raw => some (rawEvent b)

def committed (s : Settings) (r : Rec) : Prop :=
  s.as.threshold ≥ 0 ∧ ∃ o, r.streamOff = some o ∧ o > 0 ∧ r.cur < o
instance (s : Settings) (r : Rec) : Decidable (committed s r) := by
  unfold committed
  cases r.streamOff with
  | none => exact isFalse (by simp)
  | some o =>
    by_cases h : o > 0 ∧ r.cur < o
    · by_cases h2 : s.as.threshold ≥ 0
      · exact isTrue ⟨h2, o, rfl, h.1, h.2⟩
      · exact isFalse (fun ⟨a, _⟩ => h2 a)
    · exact isFalse (fun ⟨_, o', ho, h1, h2⟩ => by cases ho; exact h ⟨h1, h2⟩)

/-- what must happen to record `r`; `banned` = the antispam is enabled and answers "spam" for it -/
def admitRec (s : Settings) (decode : Bytes → Option JTree) (banned : Bool) (r : Rec) : Outcome :=
  if isEmptyRec r.data then .refused .empty
  else if oversize s.maxEventSize r.data ∧ s.cutOff = false then .refused .oversize
  else if committed s r then .refused .committed
  else if banned then .refused .spam
  else
    match specDecode s decode (specBytes s.maxEventSize r.data) with
    | none => .refused .undecodable
    | some t =>
      if r.pass = false then .refused .notPassed
      else
        let t1 := addMeta t r.md
        .delivered (if oversize s.maxEventSize r.data ∧ s.cutOffField ≠ []
                    then setFieldObj s.cutOffField (.bool true) t1 else t1)

/-- "the antispam currently bans the source of `r`": it is enabled, the record got as far as
    `IsSpam`, and `IsSpam` answers true in antispam state `st` -/
def bannedNow (s : Settings) (st : Antispam.State) (r : Rec) : Bool :=
  decide (s.as.threshold ≥ 0) &&
  (Antispam.isSpam s.as st (spamEv s r (specBytes s.maxEventSize r.data))).1

/-- does the record get as far as `IsSpam` (so that the antispam state moves)? -/
def reachesAntispam (s : Settings) (r : Rec) : Bool :=
  !decide (isEmptyRec r.data) && !(decide (oversize s.maxEventSize r.data) && !s.cutOff) &&
  decide (s.as.threshold ≥ 0) && !decide (committed s r)

def nextState (s : Settings) (st : Antispam.State) (r : Rec) : Antispam.State :=
  if reachesAntispam s r then
    (Antispam.isSpam s.as st (spamEv s r (specBytes s.maxEventSize r.data))).2
  else st

def admitSeq (s : Settings) (decode : Bytes → Option JTree) : Antispam.State → List Rec → List Outcome
  | _, [] => []
  | st, r :: rs => admitRec s decode (bannedNow s st r) r :: admitSeq s decode (nextState s st r) rs

/-- canonical token of an outcome as the harness prints it: `r` | `d <tree>` -/
def outcomeTok : Outcome → String
  | .refused _ => "r"
  | .delivered t => "d " ++ JTree.enc t

/-- property oracle for a `c20.in` case: the implementation's per-record result tokens are
    exactly what `admitRec` demands -/
def holdsIn (s : Settings) (decode : Bytes → Option JTree) (recs : List Rec) (impl : String) : Bool :=
  Tok.unwords ((admitSeq s decode Antispam.init recs).map outcomeTok) == impl

/-! ## matchrule: what "an exception matches" means -/

section MR
open FileD.MatchRule

/-- a rule matches iff some (prepared) value is a prefix / suffix / substring of the (lowered, when
    case-insensitive) data — negated by `invert` -/
def specRule (lower : Bytes → Bytes) (r : Rule) (raw : Bytes) : Bool :=
  (prepared lower r).any (fun v => modeHolds r.mode v (if r.ci then lower raw else raw)) != r.invert

/-- a rule set matches iff it has rules and all (`and`) / some (`or`) of them match -/
def specRuleSet (lower : Bytes → Bytes) (isOr : Bool) (rules : List Rule) (raw : Bytes) : Bool :=
  if rules = [] then false
  else if isOr then rules.any (specRule lower · raw) else rules.all (specRule lower · raw)

/-- executable form of `LowerNice` for a rule (trivially true when it is case-sensitive) -/
def lowerNiceB (lower : Bytes → Bytes) (r : Rule) (raw : Bytes) : Bool :=
  !r.ci ||
  (let M := maxLen (prepared lower r)
   (lower raw).length == raw.length && lower (raw.take M) == (lower raw).take M &&
   lower (raw.drop (raw.length - M)) == (lower raw).drop (raw.length - M))

/-- property oracle for a `c20.mr` case: the implementation's answer is the literal one. Outside the
    spec's domain (a rule without values: `Match` panics; lowering that changes lengths, i.e.
    non-ASCII data under case_insensitive) nothing is demanded. -/
def holdsMr (lower : Bytes → Bytes) (isOr : Bool) (rules : List Rule) (raw : Bytes) (impl : String) : Bool :=
  if rules.any (fun r => r.values.isEmpty) || !(rules.all (lowerNiceB lower · raw)) then true
  else impl == Tok.ofBool (specRuleSet lower isOr rules raw)

end MR

/-! ## antispam: observations and the trace oracle -/

open FileD.Antispam in
/-- what the harness saw for one op: an IsSpam answer, or all source counters just before and just
    after a Maintenance round -/
inductive Obs
  | ans (b : Bool)
  | maint (before after : List (Bytes × Int))

/-- what is known of one source from the observations so far -/
structure Book where
  pot    : Nat := 0          -- its events that got as far as the counter since the last round
  before : Option Int := none -- its counter just before the last round (none: no round / no entry)
  after  : Option Int := none -- its counter just after the last round (none: no round / no entry);
                              --   an isNewSource event (counter reset) makes both `some 0`
  silent : Nat := 0          -- maintenance rounds since its last counter-reaching event
deriving Repr

def getBook (id : Bytes) : List (Bytes × Book) → Book
  | [] => {}
  | (k, b) :: r => if k = id then b else getBook id r

def setBook (id : Bytes) (b : Book) : List (Bytes × Book) → List (Bytes × Book)
  | [] => [(id, b)]
  | (k, b') :: r => if k = id then (k, b) :: r else (k, b') :: setBook id b r

/-- thresholds of the events of `id` that get as far as the counter -/
def thrsOf (cfg : Antispam.Cfg) (id : Bytes) : List Antispam.Op → List Int
  | [] => []
  | .maint :: ops => thrsOf cfg id ops
  | .event e :: ops =>
    match Antispam.verdict cfg e with
    | .count t => if e.id = id then t :: thrsOf cfg id ops else thrsOf cfg id ops
    | _ => thrsOf cfg id ops

/-- all equal -/
def uniform (ts : List Int) : Bool :=
  match ts with
  | [] => true
  | t :: r => r.all (· == t)

def minOf : List Int → Int → Int
  | [], d => d
  | t :: r, d => minOf r (if t < d then t else d)

/-- the threshold is positive and it and its ban value fit an int32 (the conversions in the code
    are the identity); outside of this the literal property is not demanded -/
def fits (cfg : Antispam.Cfg) (t : Int) : Bool :=
  decide (0 < t) && decide (0 ≤ cfg.unban) && decide (cfg.unban * t < 2147483648) && decide (t < 2147483648)

def shown (d : List (Bytes × Int)) (id : Bytes) : Option Int :=
  match d with
  | [] => none
  | (k, c) :: r => if k = id then some c else shown r id

/-- result of the replay: `bad` = an observation violates the property in a way no recorded finding
    explains; `residue` / `mixed` = violations of the literal ban clause of the two recorded kinds -/
structure Acc where
  bad     : Bool := false
  residue : Bool := false
  mixed   : Bool := false
deriving Repr

def Acc.badIf (a : Acc) (c : Bool) : Acc := if c then { a with bad := true } else a

/-- The literal ban clause for one true answer. `T` = the threshold the event resolves to, `pot` =
    the source's events that reached the counter since the last round (this one included), `b` =
    what was seen of the source at that round, `ts` = the thresholds of all its counted events in
    the case. Not banned after the round (counter < T, or no round / no entry) ⇒ `pot ≥ T` is demanded.
    A miss is *mixed* when the source's events resolve to different thresholds (the counter and the
    stored threshold are per source) and at least the smallest of them was reached; it is *residue*
    when the round unbanned the source (counter ≥ T before, 0 < counter < T after) and the events
    that arrived while it was banned explain the early ban (after + pot ≥ T); otherwise it is `bad`. -/
def banClause (a : Acc) (T : Int) (pot : Nat) (b : Book) (ts : List Int) : Acc :=
  let c0 : Int := match b.after with | some c => c | none => 0
  if decide (c0 ≥ T) || decide ((pot : Int) ≥ T) then a
  else if !uniform ts then
    (if decide (c0 + pot ≥ minOf ts T) then { a with mixed := true } else { a with bad := true })
  else
    let bef : Int := match b.before with | some c => c | none => 0
    if decide (c0 > 0) && decide (bef ≥ T) && decide (c0 + pot ≥ T) then { a with residue := true }
    else { a with bad := true }

/-- replay; `all` = the complete op list (for the thresholds of a source) -/
def checkSpamGo (cfg : Antispam.Cfg) (all : List Antispam.Op) :
    Acc → List (Bytes × Book) → List Antispam.Op → List Obs → Acc
  | a, _, [], [] => a
  | a, bs, .event e :: ops, .ans ans :: os =>
    match Antispam.verdict cfg e with
    | .pass => checkSpamGo cfg all (a.badIf ans) bs ops os       -- disabled / exception / unlimited rule
    | .block => checkSpamGo cfg all (a.badIf (!ans)) bs ops os
    | .count t =>
      let b := getBook e.id bs
      let ts := thrsOf cfg e.id all
      let ok := ts.all (fits cfg)
      if e.isNew then
        -- isNewSource: answered false, the counter is reset
        checkSpamGo cfg all (a.badIf ans) (setBook e.id { b with before := some 0, after := some 0 } bs) ops os
      else
        let pot := b.pot + 1
        -- ban_needs_threshold, literal reading
        let a1 := if ans && ok then banClause a t pot b ts else a
        -- silent_source_unbanned: after unban+1 silent rounds the source counts from zero
        let a2 := a1.badIf (ans && ok && decide ((b.silent : Int) ≥ cfg.unban + 1) && decide (t > 1))
        checkSpamGo cfg all a2 (setBook e.id { b with pot := pot, silent := 0 } bs) ops os
  | a, bs, .maint :: ops, .maint before after :: os =>
    let bs' := bs.map fun (id, b) =>
      (id, { b with pot := 0, before := shown before id, after := shown after id, silent := b.silent + 1 })
    -- silent_source_unbanned: gone from the table or at counter 0
    let badSilent := bs'.any fun (id, b) =>
      (thrsOf cfg id all).all (fits cfg) && decide ((b.silent : Int) ≥ cfg.unban + 1) &&
        (match shown after id with | none => false | some c => c != 0)
    checkSpamGo cfg all (a.badIf badSilent) bs' ops os
  | a, _, _, _ => { a with bad := true }

/-- property oracle for a `c20.spam` case -/
def holdsSpam (cfg : Antispam.Cfg) (ops : List Antispam.Op) (obs : List Obs) : Acc :=
  checkSpamGo cfg ops {} [] ops obs

/-- `ok`, `fail` (unexplained), or `fail:` + the recorded kinds that occurred -/
def verdictTok (a : Acc) : String :=
  if a.bad then "fail"
  else if a.mixed && a.residue then "fail:mixed,residue"
  else if a.mixed then "fail:mixed"
  else if a.residue then "fail:residue"
  else "ok"

end FileD.SpecC20
