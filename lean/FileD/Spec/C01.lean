/-
  Spec oracles of C01 (commit frontier safety) and C02 (per-stream commits in read order, once
  per event, nothing unaccounted for when idle), evaluated directly on an op list — i.e. on the
  boundary trace observed on the implementation — without going through the model's `step?`.
-/
import FileD.Model.Core
namespace FileD.SpecC01
open FileD.Core

structure Acc where
  hasDQ    : Bool
  accepted : List Ev := []
  dropped  : List Ev := []
  acked    : List Ev := []
  gaveUp   : List Ev := []
  routed   : List Ev := []   -- handed to the dead queue (Router.Fail)
  commits  : List Ev := []
  parents  : List Ev := []     -- split parents (Batch.ForEach skips them: they carry no payload of their own)
  kidsAdded : List Kid := []   -- children of split parents handed to the output
  kidsDone  : List Kid := []   -- children seen by a send that returned nil (or given up)
  /-- first violation: (kind, committed event, offending earlier event) -/
  bad      : Option (String × Ev × Ev) := none
deriving Repr

/-- finished for the output: acknowledged or given up; a split parent is finished when every
    child of it that was handed to the output was seen by a send that returned nil -/
def finished (a : Acc) (e : Ev) : Bool :=
  if a.parents.contains e then a.kidsAdded.all (fun kid => kid.1 != e || a.kidsDone.contains kid)
  else a.acked.contains e || a.gaveUp.contains e

def note (a : Acc) (kind : String) (e e' : Ev) : Acc :=
  match a.bad with
  | some (k, _, _) =>
    -- keep the first violation, but prefer one that is not explained by dead-queue routing
    if k == "dq" && kind != "dq" then { a with bad := some (kind, e, e') } else a
  | none => { a with bad := some (kind, e, e') }

/-- C01: at a commit of `e`: `e` acknowledged (or given up through the error callback) and every
    earlier event of its stream acknowledged, given up or dropped. -/
def frontierStep (a : Acc) : Op → Acc
  | .accept e => { a with accepted := a.accepted ++ [e] }
  | .drop e => { a with dropped := a.dropped ++ [e] }
  | .sendOk _ _ evs => { a with acked := a.acked ++ evs }
  | .giveUp d _ evs =>
    if !d && a.hasDQ then { a with routed := a.routed ++ evs } else { a with gaveUp := a.gaveUp ++ evs }
  | .spawn p _ => if a.parents.contains p then a else { a with parents := a.parents ++ [p] }
  | .addKid p k => { a with kidsAdded := a.kidsAdded ++ [(p, k)] }
  | .kidAck p k => { a with kidsDone := a.kidsDone ++ [(p, k)] }
  | .commit e =>
    let a1 := if finished a e then a else note a (if a.parents.contains e then "kids" else "unacked") e e
    let a2 := a.accepted.foldl (fun acc e' =>
      if e'.st == e.st && decide (e'.seq < e.seq) && !(finished a e' || a.dropped.contains e') then
        note acc (if a.routed.contains e' || a.routed.contains e then "dq" else "passed") e e'
      else acc) a1
    { a2 with commits := a2.commits ++ [e] }
  | _ => a

def frontier (hasDQ : Bool) (ops : List Op) : Acc := ops.foldl frontierStep { hasDQ := hasDQ }

/-- C02: commits of a stream strictly increase in seq and offset, no event is committed or
    dropped twice, and (when the run ended idle) every accepted event was committed or dropped. -/
def orderStep (a : Acc) : Op → Acc
  | .accept e => { a with accepted := a.accepted ++ [e] }
  | .drop e =>
    let a1 := if a.dropped.contains e || a.commits.contains e then note a "twice" e e else a
    { a1 with dropped := a1.dropped ++ [e] }
  | .giveUp d _ evs =>
    if !d && a.hasDQ then { a with routed := a.routed ++ evs } else a
  | .commit e =>
    let a1 := if a.dropped.contains e || a.commits.contains e then note a "twice" e e else a
    let a2 := a.commits.foldl (fun acc c =>
      if c.st == e.st && !(decide (c.seq < e.seq) && decide (c.off < e.off)) then
        note acc (if a.routed.contains e || a.routed.contains c then "dq" else "order") e c
      else acc) a1
    { a2 with commits := a2.commits ++ [e] }
  | _ => a

def order (hasDQ : Bool) (idle : Bool) (ops : List Op) : Acc :=
  let a := ops.foldl orderStep { hasDQ := hasDQ }
  if idle then
    a.accepted.foldl (fun acc e =>
      if acc.commits.contains e || acc.dropped.contains e then acc else note acc "lost" e e) a
  else a

def verdict (a : Acc) : String :=
  match a.bad with
  | none => "ok"
  | some (k, e, e') => s!"fail:{k}:{e.off}:{e'.off}"

end FileD.SpecC01
