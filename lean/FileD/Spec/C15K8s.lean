/-
  Spec of C15 for the k8s `MultilineAction`: the partial chunks of one container log line
  become ONE event whose `log` is the in-order concatenation of the chunks' contents.

  Everything is stated on the ESCAPED text (the plugin never unescapes: the concatenation of
  escaped strings is the escaped concatenation). A string `log` value arrives as the quoted
  fragment `"…"`; its CONTENT is what is between the quotes.

    * a chunk ENDS its line iff its content ends with an escaped newline: `\n` preceded by an
      even number of further backslashes (`\\n` is a backslash and the letter n);
    * a LINE is the maximal block of chunks up to and including the first one that ends it —
      or up to the chunk at which the size look-ahead says "split" (`split_event_size`);
    * the line's event is the LAST chunk's event with `log` = quote(concatenation of contents);
      all earlier chunks are collapsed;
    * `max_event_size`: if adding a non-final chunk would bring the buffer (opening quote +
      contents + that chunk's quoted fragment) to the limit, the line is OVER the limit:
      skip mode drops the whole line (at the chunk that ends it), cut mode keeps the first
      `max-3` content bytes, appends the escaped newline, and marks the event;
    * a time-out, or an event whose `log` is absent / not a string, abandons the unfinished line
      (the plugin has collapsed its chunks and has no event left to carry them: known finding
      for the time-out) and is itself discarded.
-/
import FileD.Model.K8sMultiline
namespace FileD.SpecC15K8s
open FileD FileD.K8s
open FileD.Join (Res)

/-- what is between the quotes -/
def inner (frag : Bytes) : Bytes := (frag.drop 1).dropLast

def quote (content : Bytes) : Bytes := QUOTE :: (content ++ [QUOTE])

/-- shape of the oracle for a string node: a quoted text -/
def Quoted (frag : Bytes) : Prop := frag = quote (inner frag)

/-- number of backslashes at the end -/
def trailingSlashes (b : Bytes) : Nat := (b.reverse.takeWhile (· == BSLASH)).length

/-- the content ends with an escaped newline -/
def contentEndsLine (content : Bytes) : Bool :=
  match content.reverse with
  | [] => false
  | c :: rest => c == LOWER_N && (rest.takeWhile (· == BSLASH)).length % 2 == 1

def endsLine (frag : Bytes) : Bool := contentEndsLine (inner frag)

/-- what the end-of-line test is about, on a small model of JSON string escaping: a backslash
    is written `\\`, a newline `\n`, every other byte as itself (the escapes of the other
    bytes — `\"`, `\t`, `\u00XX` — neither end in a backslash nor in an `n`) -/
def escByte (b : UInt8) : Bytes :=
  if b = BSLASH then [BSLASH, BSLASH] else if b = NL then [BSLASH, LOWER_N] else [b]

def esc (text : Bytes) : Bytes := text.flatMap escByte

/-- the unfinished line -/
structure Line where
  inners : List Bytes     -- contents of its chunks so far, in order
  size   : Nat            -- sum of their `event.Size`
  over   : Bool           -- it hit `max_event_size`
deriving Repr, DecidableEq

def Line.empty : Line := ⟨[], 0, false⟩

def Line.content (ln : Line) : Bytes := ln.inners.flatten

def discard : Out := ⟨.discard, none, false, false⟩
def collapse (exceeded : Bool) : Out := ⟨.collapse, none, false, exceeded⟩

/-- one call, in terms of the line -/
def specStep (cfg : Cfg) (ln : Line) : In → Line × Out
  | .timeout _ => (Line.empty, discard)
  | .ev e =>
    match e.log with
    | .absent => (Line.empty, discard)
    | .nonString => (Line.empty, discard)
    | .str frag =>
      let size := ln.size + e.size
      let split := decide ((((size + lookahead : Nat)) : Int) > cfg.splitSize)
      let isEnd := endsLine frag
      if ln.over then
        if !isEnd then ({ ln with size := size }, collapse false)
        else if cfg.cutOff then
          (Line.empty,
            ⟨.pass, some (quote (ln.content.take (cfg.maxSize - 3) ++ [BSLASH, LOWER_N])), cfg.cutField, false⟩)
        else (Line.empty, discard)
      else if isEnd || split then
        (Line.empty, ⟨.pass, some (quote (ln.content ++ inner frag)), false, false⟩)
      else if cfg.maxSize = 0 ∨ 1 + ln.content.length + frag.length < cfg.maxSize then
        (⟨ln.inners ++ [inner frag], size, false⟩, collapse false)
      else
        (⟨if cfg.cutOff then ln.inners ++ [inner frag] else ln.inners, size, true⟩, collapse true)

/-- **the spec** of a call sequence -/
def specK (cfg : Cfg) : Line → List In → List Out
  | _, [] => []
  | ln, x :: r => (specStep cfg ln x).2 :: specK cfg (specStep cfg ln x).1 r

/-- shape hypothesis on the oracle: every string fragment is quoted -/
def quotedItems : List In → Prop
  | [] => True
  | .ev ⟨_, _, .str frag⟩ :: r => Quoted frag ∧ quotedItems r
  | _ :: r => quotedItems r

/-- limits the theorems cover: no limit, or at least `"` + one byte + `\n"` -/
def LimitOK (cfg : Cfg) : Prop := cfg.maxSize = 0 ∨ 4 ≤ cfg.maxSize

/-! ### executable oracle on the implementation's observed result -/

def quotedB (frag : Bytes) : Bool := frag == quote (inner frag)

def quotedItemsB : List In → Bool
  | [] => true
  | .ev ⟨_, _, .str frag⟩ :: r => quotedB frag && quotedItemsB r
  | _ :: r => quotedItemsB r

/-- observed calls = spec (the implementation must not panic or exit on any input) -/
def holds (cfg : Cfg) (items : List In) (outs : List Out) (ended : Bool) : Bool :=
  !ended && outs == specK cfg Line.empty items

/-- FULL STATEMENT helper ("keeps every byte"): the content bytes that went in and the content
    bytes that came out on passed events -/
def contentIn : List In → Bytes
  | [] => []
  | .ev ⟨_, _, .str frag⟩ :: r => inner frag ++ contentIn r
  | _ :: r => contentIn r

def contentOut : List Out → Bytes
  | [] => []
  | ⟨.pass, some l, _, _⟩ :: r => inner l ++ contentOut r
  | _ :: r => contentOut r

/-- the unfinished line after a call sequence -/
def finalLine (cfg : Cfg) : Line → List In → Line
  | ln, [] => ln
  | ln, x :: r => finalLine cfg (specStep cfg ln x).1 r

/-- does an unfinished line get abandoned by a time-out / malformed event in this sequence -/
def abandons (cfg : Cfg) : Line → List In → Bool
  | _, [] => false
  | ln, x :: r =>
    (match x with
     | .timeout _ => !ln.inners.isEmpty
     | .ev ⟨_, _, .str _⟩ => false
     | .ev _ => !ln.inners.isEmpty) || abandons cfg (specStep cfg ln x).1 r

end FileD.SpecC15K8s
