/-
  C17 — abstract spec of the mask action and the executable property oracle.

  What a mask does to a value, said without the implementation's loops:
    * per match, the ranges of the selected groups that took part, ordered by position, ranges
      that overlap united (`sections`);
    * the value with exactly those sections replaced (`replaceSections`): asterisks per rune (at
      most max_count), the replace word, or nothing; every byte outside the sections is kept.
  What the action does to an event: every non-empty string / number leaf runs through the masks
  that are left for its path by the process / ignore lists (prefix semantics: a listed path
  covers everything below it), the do_if verdict and the match rules, each mask working on the
  result of the previous one; nothing else changes; marks and metrics are set iff some mask applied.
-/
import FileD.Model.Mask
namespace FileD.SpecC17
open FileD FileD.Mask

abbrev Range := Nat × Nat

/-- ranges of the selected groups that took part in the match -/
def selRanges (groups : List Nat) (index : Match) : List Range :=
  groups.filterMap fun g =>
    match index[2 * g]?, index[2 * g + 1]? with
    | some s, some e => if 0 ≤ s ∧ 0 ≤ e then some (s.toNat, e.toNat) else none
    | _, _ => none

def rangeLe (a b : Range) : Bool := a.1 < b.1 || (a.1 == b.1 && a.2 ≤ b.2)

/-- unite overlapping neighbours of a position-ordered list (touching ranges stay apart) -/
def unite : List Range → List Range
  | [] => []
  | [r] => [r]
  | a :: b :: rest =>
    if b.1 < a.2 then unite ((a.1, max a.2 b.2) :: rest) else a :: unite (b :: rest)
termination_by l => l.length

/-- the sections one match contributes -/
def sections (groups : List Nat) (index : Match) : List Range :=
  unite ((selRanges groups index).mergeSort rangeLe)

/-- what a section is replaced with -/
def replacement (m : MaskCfg) (secret : Bytes) : Bytes :=
  match m.mode with
  | .replace => m.replaceWord
  | .cut => []
  | .mask =>
    let n := runeCount secret
    List.replicate (if m.maxCount > 0 then min n m.maxCount else n) star

/-- `value` from position `pos` on with the (ordered, disjoint) sections replaced -/
def replaceFrom (m : MaskCfg) (value : Bytes) : Nat → List Range → Bytes
  | pos, [] => value.drop pos
  | pos, (s, e) :: rest =>
    (value.drop pos).take (s - pos) ++ replacement m ((value.drop s).take (e - s)) ++ replaceFrom m value e rest

def allSections (groups : List Nat) (idx : Matches) : List Range :=
  idx.flatMap (sections groups)

/-- the masked value, given the matches -/
def maskedValue (m : MaskCfg) (idx : Matches) (value : Bytes) : Bytes :=
  replaceFrom m value 0 (allSections m.groups idx)

/-! ### which masks see a leaf -/

/-- a listed path covers the node itself and everything below it -/
def covers (paths : List (List Bytes)) (path : List Bytes) : Bool :=
  paths.any (fun l => l.isPrefixOf path)

/-- process / ignore lists: the mask's own list replaces the plugin's -/
def pathEligible (c : Cfg) (m : MaskCfg) (path : List Bytes) : Bool :=
  if m.fkind == 1 then !covers m.paths path
  else if m.fkind == 2 then covers m.paths path
  else if c.gkind == 1 then !covers c.gpaths path
  else if c.gkind == 2 then covers c.gpaths path
  else true

/-- one leaf through the mask list: current value, "changed", indices of the masks that applied
    (`none`: the oracle table has no row for a value that is asked for) -/
def leafLoop (c : Cfg) (re : Oracle) (path : List Bytes) (value : Bytes) :
    Nat → List MaskCfg → Bytes × Bool × List Nat → Option (Bytes × Bool × List Nat)
  | _, [], s => some s
  | i, m :: ms, (cur, ch, ap) =>
    if !(pathEligible c m path && m.use && checkMatchRules m value) then leafLoop c re path value (i + 1) ms (cur, ch, ap)
    else if m.hasRe && !m.groups.isEmpty then
      match re i cur with
      | none => none
      | some [] => leafLoop c re path value (i + 1) ms (cur, ch, ap)
      | some idx => leafLoop c re path value (i + 1) ms (maskedValue m idx cur, true, ap ++ [i])
    else leafLoop c re path value (i + 1) ms (cur, ch, ap ++ [i])

def specLeaf (c : Cfg) (re : Oracle) (path : List Bytes) (value : Bytes) : Option (Option Bytes × List Nat) :=
  if value.isEmpty then some (none, []) else
  match leafLoop c re path value 0 c.masks (value, false, []) with
  | none => none
  | some (cur, ch, ap) => some (if ch then some cur else none, ap)

mutual
  /-- the expected event and the masks that applied, leaf by leaf in document order -/
  def specTree (c : Cfg) (re : Oracle) : List Bytes → JTree → Option (JTree × List Nat)
    | path, .str s =>
      match specLeaf c re path s with
      | none => none
      | some (some b, ap) => some (.str b, ap)
      | some (none, ap) => some (.str s, ap)
    | path, .num s =>
      match specLeaf c re path s with
      | none => none
      | some (some b, ap) => some (.str b, ap)
      | some (none, ap) => some (.num s, ap)
    | path, .obj kvs =>
      match specKVs c re path kvs with
      | none => none
      | some (kvs', ap) => some (.obj kvs', ap)
    | path, .arr xs =>
      match specArr c re path 0 xs with
      | none => none
      | some (xs', ap) => some (.arr xs', ap)
    | _, t => some (t, [])
  def specKVs (c : Cfg) (re : Oracle) : List Bytes → List (Bytes × JTree) → Option (List (Bytes × JTree) × List Nat)
    | _, [] => some ([], [])
    | path, (k, v) :: rest =>
      match specTree c re (path ++ [k]) v, specKVs c re path rest with
      | some (v', a1), some (rest', a2) => some ((k, v') :: rest', a1 ++ a2)
      | _, _ => none
  def specArr (c : Cfg) (re : Oracle) : List Bytes → Nat → List JTree → Option (List JTree × List Nat)
    | _, _, [] => some ([], [])
    | path, i, x :: rest =>
      match specTree c re (path ++ [itoa i]) x, specArr c re path (i + 1) rest with
      | some (x', a1), some (rest', a2) => some (x' :: rest', a1 ++ a2)
      | _, _ => none
end

/-! ### the property oracle applied to an observed result -/

def markNames (c : Cfg) : List Bytes :=
  (c.masks.filterMap (fun m => if m.appliedField.isEmpty then none else some m.appliedField)) ++
  (if c.gField.isEmpty then [] else [c.gField])

def rootKeys : JTree → List Bytes
  | .obj kvs => kvs.map (·.1)
  | _ => []

/-- a mark field that is already a key of the event, or that a process path points at: the
    order of the writes is then the implementation's business, the model is the only reference -/
def collision (c : Cfg) (root : JTree) : Bool :=
  (markNames c).any (fun n => (rootKeys root).contains n || c.gpaths.any (fun p => p.head? == some n))

def stripMarks (names : List Bytes) : JTree → JTree
  | .obj kvs => .obj (kvs.filter (fun kv => !names.contains kv.1))
  | t => t

def treeEq (a b : JTree) : Bool := a.enc == b.enc

def countOf (i : Nat) (l : List Nat) : Nat := (l.filter (· == i)).length

def expectedMaskMetrics (ap : List Nat) : Nat → List MaskCfg → List Nat
  | _, [] => []
  | i, m :: ms => (if m.metric then countOf i ap else 0) :: expectedMaskMetrics ap (i + 1) ms

def firedNames (c : Cfg) (ap : List Nat) : Nat → List MaskCfg → List Bytes
  | _, [] => if ap.isEmpty || c.gField.isEmpty then [] else [c.gField]
  | i, m :: ms =>
    (if ap.contains i && !m.appliedField.isEmpty then [m.appliedField] else []) ++ firedNames c ap (i + 1) ms

def verdict (c : Cfg) (re : Oracle) (root : JTree) (r : Result) : String :=
  if collision c root then "ok" else
  match specTree c re [] root with
  | none => "oracle-miss"
  | some (exp, ap) =>
    let names := markNames c
    if !treeEq (stripMarks names r.root) (stripMarks names exp) then "fail:tree"
    else
      let fired := firedNames c ap 0 c.masks
      let keys := rootKeys r.root
      if !(fired.all keys.contains) then "fail:mark-missing"
      else if names.any (fun n => keys.contains n && !fired.contains n) then "fail:mark-spurious"
      else if r.globalMetric != (if !ap.isEmpty && c.metricOn then 1 else 0) then "fail:metric"
      else if r.maskMetrics != expectedMaskMetrics ap 0 c.masks then "fail:mask-metric"
      else "ok"

end FileD.SpecC17
