/-
  C17 — abstract spec of the mask action and the executable property oracle.

  What a mask does to a value, said without the implementation's loops:
    * per match, the ranges of the selected groups that took part, ordered by position, ranges
      that overlap united (`sections`);
    * the value with exactly those sections replaced (`replaceSections`): asterisks per rune (at
      most max_count), the replace word, or nothing; every byte outside the sections is kept.
  What the action does to an event: every non-empty string / number leaf runs through the masks
  that are left for its path by the process / ignore lists (prefix semantics: a listed path
  covers everything below it), the do_if verdict and the match rules, each mask working on the
  result of the previous one; nothing else changes; marks and metrics are set iff some mask applied.
-/
import FileD.Model.Mask
namespace FileD.SpecC17
open FileD FileD.Mask

abbrev Range := Int × Int

/-- start and end of group `g` in the flat index slice of one match -/
def groupOf (index : Match) (g : Nat) : Option Range :=
  match index[2 * g]?, index[2 * g + 1]? with
  | some s, some e => some (s, e)
  | _, _ => none

/-- ranges of the selected groups that took part in the match (a negative index = did not),
    in the order the groups are listed -/
def selRanges (groups : List Nat) (index : Match) : List Range :=
  groups.filterMap fun g =>
    match groupOf index g with
    | some (s, e) => if s < 0 ∨ e < 0 then none else some (s, e)
    | none => none

/-- position order -/
def rangeLe (a b : Range) : Bool := a.1 < b.1 || (a.1 == b.1 && a.2 ≤ b.2)

/-- unite overlapping neighbours of a position-ordered list (touching ranges stay apart) -/
def unite : List Range → List Range
  | [] => []
  | [r] => [r]
  | a :: b :: rest =>
    if b.1 < a.2 then unite ((a.1, max a.2 b.2) :: rest) else a :: unite (b :: rest)
termination_by l => l.length

/-- the sections one match contributes -/
def sections (groups : List Nat) (index : Match) : List Range :=
  unite ((selRanges groups index).mergeSort rangeLe)

/-- what a section is replaced with -/
def replacement (m : MaskCfg) (secret : Bytes) : Bytes :=
  match m.mode with
  | .replace => m.replaceWord
  | .cut => []
  | .mask =>
    let n := runeCount secret
    List.replicate (if m.maxCount > 0 then min n m.maxCount else n) star

/-- bytes `lo..hi` of the value -/
def segment (value : Bytes) (lo hi : Int) : Bytes := (value.drop lo.toNat).take (hi.toNat - lo.toNat)

/-- `value` from position `pos` on with the (ordered, disjoint) sections replaced -/
def replaceFrom (m : MaskCfg) (value : Bytes) : Int → List Range → Bytes
  | pos, [] => value.drop pos.toNat
  | pos, sec :: rest =>
    segment value pos sec.1 ++ replacement m (segment value sec.1 sec.2) ++ replaceFrom m value sec.2 rest

def allSections (groups : List Nat) (idx : Matches) : List Range :=
  idx.flatMap (sections groups)

/-- the masked value, given the matches -/
def maskedValue (m : MaskCfg) (idx : Matches) (value : Bytes) : Bytes :=
  replaceFrom m value 0 (allSections m.groups idx)

/-! ### what is assumed of FindAllSubmatchIndex (checked on every case by the harness)

Every match carries `nsub + 1` index pairs; group 0 lies within the value and after the previous
match; every other group either did not take part (a negative index) or lies within group 0. -/

def groupOk (s0 e0 : Int) (index : Match) (g : Nat) : Bool :=
  match groupOf index g with
  | some (s, e) => (s < 0 || e < 0) || (s0 ≤ s && s ≤ e && e ≤ e0)
  | none => false

def matchShape (nsub : Nat) (lo hi : Int) (index : Match) : Bool :=
  match groupOf index 0 with
  | some (s0, e0) => lo ≤ s0 && s0 ≤ e0 && e0 ≤ hi && (List.range (nsub + 1)).all (groupOk s0 e0 index)
  | none => false

def re2Shape (nsub : Nat) (len : Int) : Int → Matches → Bool
  | _, [] => true
  | lo, index :: rest =>
    matchShape nsub lo len index &&
      match groupOf index 0 with
      | some (_, e0) => re2Shape nsub len e0 rest
      | none => false

/-- `cfg.VerifyGroupNumbers` passed: every selected group exists in the expression -/
def groupsOk (groups : List Nat) (nsub : Nat) : Bool := groups.all (· ≤ nsub)

/-! ### which masks see a leaf -/

/-- a listed path covers the node itself and everything below it -/
def covers (paths : List (List Bytes)) (path : List Bytes) : Bool :=
  paths.any (fun l => l.isPrefixOf path)

/-- process / ignore lists: the mask's own list replaces the plugin's -/
def pathEligible (c : Cfg) (m : MaskCfg) (path : List Bytes) : Bool :=
  if m.fkind == 1 then !covers m.paths path
  else if m.fkind == 2 then covers m.paths path
  else if c.gkind == 1 then !covers c.gpaths path
  else if c.gkind == 2 then covers c.gpaths path
  else true

/-- state of a leaf going through the mask list: current value, "changed", the masks that
    applied so far (index and mask) -/
structure LeafSt where
  cur : Bytes
  changed : Bool := false
  applied : List (Nat × MaskCfg) := []

/-- one mask on a leaf; `el` says which masks the field lists leave for the leaf, `value` is the
    leaf's original value (match rules look at it, not at the running value);
    `none`: the oracle table has no row for a value that is asked for -/
def leafStep (el : Nat → MaskCfg → Bool) (re : Oracle) (value : Bytes) (i : Nat) (m : MaskCfg)
    (s : LeafSt) : Option LeafSt :=
  if !el i m then some s
  else if !(m.use && checkMatchRules m value) then some s
  else if m.hasRe && !m.groups.isEmpty then
    match re i s.cur with
    | none => none
    | some idx =>
      if idx.isEmpty then some s
      else some { cur := maskedValue m idx s.cur, changed := true, applied := s.applied ++ [(i, m)] }
  else some { s with applied := s.applied ++ [(i, m)] }

/-- one leaf through the mask list, each mask on the result of the previous one -/
def leafLoop (el : Nat → MaskCfg → Bool) (re : Oracle) (value : Bytes) :
    Nat → List MaskCfg → LeafSt → Option LeafSt
  | _, [], s => some s
  | i, m :: ms, s =>
    match leafStep el re value i m s with
    | none => none
    | some s' => leafLoop el re value (i + 1) ms s'

/-- the `applied_field` writes the applied masks cause, in order -/
def marks (ap : List (Nat × MaskCfg)) : List (Bytes × Bytes) :=
  ap.filterMap (fun p => if p.2.appliedField.isEmpty then none else some (p.2.appliedField, p.2.appliedValue))

/-- the per-mask metric counters after the applied masks -/
def bumps (counts : List Nat) (ap : List (Nat × MaskCfg)) : List Nat :=
  ap.foldl (fun cs p => if p.2.metric then bump cs p.1 else cs) counts

/-- new value of the leaf (`none`: untouched) and the masks that applied -/
def specLeaf (el : Nat → MaskCfg → Bool) (masks : List MaskCfg) (re : Oracle) (value : Bytes) :
    Option (Option Bytes × List (Nat × MaskCfg)) :=
  if value.isEmpty then some (none, []) else
  match leafLoop el re value 0 masks { cur := value } with
  | none => none
  | some s => some (if s.changed then some s.cur else none, s.applied)

mutual
  /-- the expected event and the masks that applied, leaf by leaf in document order -/
  def specTree (c : Cfg) (re : Oracle) : List Bytes → JTree → Option (JTree × List (Nat × MaskCfg))
    | path, .str s =>
      match specLeaf (fun _ m => pathEligible c m path) c.masks re s with
      | none => none
      | some (some b, ap) => some (.str b, ap)
      | some (none, ap) => some (.str s, ap)
    | path, .num s =>
      match specLeaf (fun _ m => pathEligible c m path) c.masks re s with
      | none => none
      | some (some b, ap) => some (.str b, ap)
      | some (none, ap) => some (.num s, ap)
    | path, .obj kvs =>
      match specKVs c re path kvs with
      | none => none
      | some (kvs', ap) => some (.obj kvs', ap)
    | path, .arr xs =>
      match specArr c re path 0 xs with
      | none => none
      | some (xs', ap) => some (.arr xs', ap)
    | _, t => some (t, [])
  def specKVs (c : Cfg) (re : Oracle) : List Bytes → List (Bytes × JTree) → Option (List (Bytes × JTree) × List (Nat × MaskCfg))
    | _, [] => some ([], [])
    | path, (k, v) :: rest =>
      match specTree c re (path ++ [k]) v, specKVs c re path rest with
      | some (v', a1), some (rest', a2) => some ((k, v') :: rest', a1 ++ a2)
      | _, _ => none
  def specArr (c : Cfg) (re : Oracle) : List Bytes → Nat → List JTree → Option (List JTree × List (Nat × MaskCfg))
    | _, _, [] => some ([], [])
    | path, i, x :: rest =>
      match specTree c re (path ++ [itoa i]) x, specArr c re path (i + 1) rest with
      | some (x', a1), some (rest', a2) => some (x' :: rest', a1 ++ a2)
      | _, _ => none
end

/-! ### "touches nothing else" -/

mutual
  /-- same structure, same keys, same non-string/number values; a string / number leaf may have
      become another string -/
  def sameShape : JTree → JTree → Bool
    | .null, .null => true
    | .bool a, .bool b => a == b
    | .num a, .num b => a == b
    | .num _, .str _ => true
    | .str _, .str _ => true
    | .arr xs, .arr ys => sameShapeList xs ys
    | .obj kvs, .obj kvs' => sameShapeKVs kvs kvs'
    | _, _ => false
  def sameShapeList : List JTree → List JTree → Bool
    | [], [] => true
    | x :: xs, y :: ys => sameShape x y && sameShapeList xs ys
    | _, _ => false
  def sameShapeKVs : List (Bytes × JTree) → List (Bytes × JTree) → Bool
    | [], [] => true
    | (k, x) :: xs, (k', y) :: ys => k == k' && sameShape x y && sameShapeKVs xs ys
    | _, _ => false
end

/-! ### the property oracle applied to an observed result -/

def markNames (c : Cfg) : List Bytes :=
  (c.masks.filterMap (fun m => if m.appliedField.isEmpty then none else some m.appliedField)) ++
  (if c.gField.isEmpty then [] else [c.gField])

def rootKeys : JTree → List Bytes
  | .obj kvs => kvs.map (·.1)
  | _ => []

/-- a mark field that is already a key of the event, or that a process path points at: the
    order of the writes is then the implementation's business, the model is the only reference -/
def collision (c : Cfg) (root : JTree) : Bool :=
  (markNames c).any (fun n => (rootKeys root).contains n || c.gpaths.any (fun p => p.head? == some n))

def stripMarks (names : List Bytes) : JTree → JTree
  | .obj kvs => .obj (kvs.filter (fun kv => !names.contains kv.1))
  | t => t

def treeEq (a b : JTree) : Bool := a.enc == b.enc

def countOf (i : Nat) (l : List (Nat × MaskCfg)) : Nat := (l.filter (·.1 == i)).length

def expectedMaskMetrics (ap : List (Nat × MaskCfg)) : Nat → List MaskCfg → List Nat
  | _, [] => []
  | i, m :: ms => (if m.metric then countOf i ap else 0) :: expectedMaskMetrics ap (i + 1) ms

def firedNames (c : Cfg) (ap : List (Nat × MaskCfg)) : Nat → List MaskCfg → List Bytes
  | _, [] => if ap.isEmpty || c.gField.isEmpty then [] else [c.gField]
  | i, m :: ms =>
    (if ap.any (·.1 == i) && !m.appliedField.isEmpty then [m.appliedField] else []) ++ firedNames c ap (i + 1) ms

def verdict (c : Cfg) (re : Oracle) (root : JTree) (r : Result) : String :=
  if collision c root then "ok" else
  match specTree c re [] root with
  | none => "oracle-miss"
  | some (exp, ap) =>
    let names := markNames c
    if !treeEq (stripMarks names r.root) (stripMarks names exp) then "fail:tree"
    else
      let fired := firedNames c ap 0 c.masks
      let keys := rootKeys r.root
      if !(fired.all keys.contains) then "fail:mark-missing"
      else if names.any (fun n => keys.contains n && !fired.contains n) then "fail:mark-spurious"
      else if r.globalMetric != (if !ap.isEmpty && c.metricOn then 1 else 0) then "fail:metric"
      else if r.maskMetrics != expectedMaskMetrics ap 0 c.masks then "fail:mask-metric"
      else "ok"

end FileD.SpecC17
