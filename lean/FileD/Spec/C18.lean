/-
  Spec of C18: what remove_fields / keep_fields are supposed to compute, by plain recursion over the
  event tree, order-preserving:

    subtract paths t   delete the values at the configured paths (a path only walks through objects)
    project  paths t   keep the values at the configured paths plus the objects on the way to them

  plus the executable property oracle applied to the *implementation's* result:
    exact equality with the spec (the property as stated: survivors keep their order), and the
    key-order-insensitive comparison `eqvb` used to classify a failure as "order only".
-/
import FileD.Model.Fields
namespace FileD.SpecC18
open FileD FileD.Fields

/-! ## path sets -/

/-- the suffixes of the paths whose first element is `k` -/
def tailsOf (k : Bytes) : List Path → List Path
  | [] => []
  | [] :: ps => tailsOf k ps
  | (h :: r) :: ps => if h = k then r :: tailsOf k ps else tailsOf k ps

/-- `[] ∈ ps`: a configured path ends exactly here -/
def hasNil : List Path → Bool
  | [] => false
  | [] :: _ => true
  | (_ :: _) :: ps => hasNil ps

/-! ## the two specs -/

mutual
  /-- delete every value whose path (through objects only) is listed; everything else — values, types,
      nesting, order of the surviving keys — is untouched. A listed descendant of a listed path is
      irrelevant by construction. -/
  def subtract (ps : List Path) : JTree → JTree
    | .obj kvs => .obj (subtractKVs ps kvs)
    | .arr xs => .arr xs
    | .null => .null
    | .bool b => .bool b
    | .num r => .num r
    | .str s => .str s
  def subtractKVs (ps : List Path) : KVs → KVs
    | [] => []
    | (k, v) :: r =>
      if hasNil (tailsOf k ps) then subtractKVs ps r
      else (k, subtract (tailsOf k ps) v) :: subtractKVs ps r
end

mutual
  /-- what is left of a value below the root: `none` when nothing under it is listed -/
  def projectV (ps : List Path) : JTree → Option JTree
    | .obj kvs => if (projectKVs ps kvs).isEmpty then none else some (.obj (projectKVs ps kvs))
    | .arr _ => none
    | .null => none
    | .bool _ => none
    | .num _ => none
    | .str _ => none
  def projectKVs (ps : List Path) : KVs → KVs
    | [] => []
    | (k, v) :: r =>
      if hasNil (tailsOf k ps) then (k, v) :: projectKVs ps r       -- a listed path ends here: keep the whole value
      else
        match projectV (tailsOf k ps) v with
        | some v' => (k, v') :: projectKVs ps r                      -- an object on the way to a kept value
        | none => projectKVs ps r
end

/-- keep_fields on the event root: the root object always stays (possibly empty) -/
def project (ps : List Path) : JTree → JTree
  | .obj kvs => .obj (projectKVs ps kvs)
  | t => t

/-- does `path` lead, through objects only, to a value that exists? (what "the path exists" means in the
    property; a path that stops at a scalar or an array, or names a missing key, does not resolve) -/
def resolves : JTree → Path → Bool
  | _, [] => true
  | .obj kvs, k :: r =>
    match lookup k kvs with
    | some v => resolves v r
    | none => false
  | _, _ :: _ => false

/-! ## unique keys, key-order-insensitive equality -/

def hasKey (k : Bytes) : KVs → Bool
  | [] => false
  | (k', _) :: r => k' = k || hasKey k r

def nodupKeys : KVs → Bool
  | [] => true
  | (k, _) :: r => !hasKey k r && nodupKeys r

mutual
  /-- every object in the tree has pairwise distinct keys -/
  def uniq : JTree → Bool
    | .obj kvs => nodupKeys kvs && uniqKVs kvs
    | .arr xs => uniqL xs
    | .null => true
    | .bool _ => true
    | .num _ => true
    | .str _ => true
  def uniqL : List JTree → Bool
    | [] => true
    | x :: xs => uniq x && uniqL xs
  def uniqKVs : KVs → Bool
    | [] => true
    | (_, v) :: r => uniq v && uniqKVs r
end

def keysIn (a : KVs) : KVs → Bool
  | [] => true
  | (k, _) :: r => hasKey k a && keysIn a r

mutual
  /-- equality of JSON trees that ignores the order of the keys of every object (array order, values,
      types and nesting are exact). On trees with unique keys: every field of the left object has an
      equivalent field in the right one and the right one has no other key. -/
  def eqvb : JTree → JTree → Bool
    | .null, u => u.isNull
    | .bool a, u => (match u with | .bool b => a == b | _ => false)
    | .num a, u => (match u with | .num b => a == b | _ => false)
    | .str a, u => (match u with | .str b => a == b | _ => false)
    | .arr xs, u => (match u with | .arr ys => eqvL xs ys | _ => false)
    | .obj a, u => (match u with | .obj b => eqvKVs a b && keysIn a b | _ => false)
  def eqvL : List JTree → List JTree → Bool
    | [], ys => ys.isEmpty
    | x :: xs, ys => (match ys with | y :: ys' => eqvb x y && eqvL xs ys' | [] => false)
  def eqvKVs : KVs → KVs → Bool
    | [], _ => true
    | (k, v) :: r, b =>
      (match lookup k b with
       | some v' => eqvb v v'
       | none => false) && eqvKVs r b
end

/-- `t ≈ u` -/
def Eqv (t u : JTree) : Prop := eqvb t u = true

instance (t u : JTree) : Decidable (Eqv t u) := inferInstanceAs (Decidable (eqvb t u = true))

/-! ## order-preserving variant of the library semantics (classification of failures) -/

def eraseKey (k : Bytes) : KVs → KVs
  | [] => []
  | (k', v) :: r => if k' = k then r else (k', v) :: eraseKey k r

/-- `Dig(path).Suicide()` if Suicide kept the order of the remaining fields (arrays are entered by index,
    exactly like `Fields.removeAt`) -/
def eraseAt : JTree → Path → JTree
  | t, [] => t
  | .obj kvs, k :: r =>
    match lookup k kvs with
    | none => .obj kvs
    | some v =>
      match r with
      | [] => .obj (eraseKey k kvs)
      | _ :: _ => .obj (setKey k (eraseAt v r) kvs)
  | .arr xs, k :: r =>
    match atoiIdx k xs.length with
    | none => .arr xs
    | some i =>
      match r with
      | [] => .arr (xs.eraseIdx i)
      | _ :: _ =>
        match xs[i]? with
        | none => .arr xs
        | some x => .arr (xs.set i (eraseAt x r))
  | t, _ :: _ => t

/-- does Dig enter an array by index while walking `path`? -/
def crossArr : JTree → Path → Bool
  | _, [] => false
  | .obj kvs, k :: r =>
    match lookup k kvs with
    | some v => crossArr v r
    | none => false
  | .arr xs, k :: _ => (atoiIdx k xs.length).isSome
  | _, _ :: _ => false

def noCross (ps : List Path) (t : JTree) : Bool := ps.all (fun p => !crossArr t p)

/-- field-name lists for which `BuildFieldSelector` is invertible: no empty name, and no name that is followed
    by the separator ends in a backslash (the separator would read as an escaped dot) -/
def validNames : List Bytes → Bool
  | [] => true
  | [f] => !f.isEmpty
  | f :: g :: r => !f.isEmpty && f.getLast? != some BSL && validNames (g :: r)

/-! ## the property oracle -/

def same (t u : JTree) : Bool := t.toToks == u.toToks

/-- verdict on an implementation result `impl` for `remove_fields` configured with selectors that parse
    to `raw` (normalised to `norm`) on event `t`:
      ok      impl is exactly the spec
      order   only the order of surviving keys differs (same trees as key-order-insensitive values, unique keys)
      arridx  additionally array elements selected by numeric path elements were deleted, and nothing else
      other   anything else -/
def verdictRemove (raw norm : List Path) (t impl : JTree) : String :=
  let spec := if t.isObj then subtract raw t else t
  if same impl spec then "ok"
  else if uniq impl && eqvb impl spec then "order"
  else if !noCross norm t && uniq impl && eqvb impl (norm.foldl eraseAt t) then "arridx"
  else "other"

def verdictKeep (raw : List Path) (t impl : JTree) : String :=
  let spec := project raw t
  if same impl spec then "ok"
  else if uniq impl && eqvb impl spec then "order"
  else "other"

end FileD.SpecC18
