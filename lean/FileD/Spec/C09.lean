/-
  C09 property oracle, evaluated on the observed trace itself: retries no fewer than configured
  before a batch is given up (never for a negative setting), no commit while retrying, a
  given-up batch goes exactly one way (dead queue: every event handed over once, main commits
  nothing, the dead queue commits each once; no dead queue: error callback once, main commits
  each once), no event both ways. Main and dead-queue batcher tokens are also checked by the
  C08 oracle.
-/
import FileD.Model.RetryTrace
import FileD.Spec.C08
namespace FileD.SpecC09
open FileD.Batcher FileD.Retry

structure BRec where
  k : Nat
  fails : Nat := 0            -- failed sends so far
  ok : Bool := false          -- a send succeeded
  nexts : Nat := 0            -- NextBackOff calls so far
  err : Option (List Nat) := none   -- onRetryError called with these ids
  failed : List Nat := []     -- ids handed to the dead queue
  done : Bool := false

structure PS9 where
  mainP : SpecC08.PS := {}
  dqP : SpecC08.PS := {}
  recs : List BRec := []
  handed : List Nat := []       -- ids passed to the dead-queue output
  dqTaken : List Nat := []      -- ids appended by the dead-queue batcher / committed synchronously
  dqCommitted : List Nat := []
  mainCommitted : List Nat := []
  drainedSeen : Bool := false

def getB (k : Nat) : List BRec → BRec
  | [] => { k := k }
  | r :: rs => if r.k = k then r else getB k rs

def putB (r : BRec) : List BRec → List BRec
  | [] => [r]
  | x :: xs => if x.k = r.k then r :: xs else x :: putB r xs

structure Conf where
  mainCount : Nat
  mainBytes : Nat
  dqCount : Nat
  attemptNum : Int
  dq : Bool
  minRetNs : Nat := 0      -- BackoffOpts.MinRetention in ns (0: pauses not checked)
  mult : Nat := 2          -- BackoffOpts.Multiplier

/-- the retry clause: giving up is allowed only after at least `attemptNum` retries (that is
    `attemptNum + 1` failed sends), never for a negative setting -/
def mayGiveUp (c : Conf) (fails : Nat) : Bool :=
  decide (c.attemptNum ≥ 0) && decide ((fails : Int) ≥ c.attemptNum + 1)

def stepP (c : Conf) (p : PS9) : CTk → Option PS9
  | .m tk => do
    let mp ← SpecC08.stepP c.mainCount c.mainBytes p.mainP tk
    let p := { p with mainP := mp }
    match tk with
    | .cb _ ids => pure { p with mainCommitted := p.mainCommitted ++ ids }
    | .d k keep =>
      let r := getB k p.recs
      -- Out returned: either a send succeeded, or the batch was given up and went one way
      let okWay := match r.err with
        | none => r.ok && keep
        | some ids => !r.ok && (if c.dq then !keep && r.failed == ids else keep && r.failed.isEmpty)
      if okWay && !r.done then pure { p with recs := putB { r with done := true } p.recs } else none
    | .w ok => if ok then pure { p with drainedSeen := true } else none
    | _ => pure p
  | .q tk => do
    let dp ← SpecC08.stepP c.dqCount 0 p.dqP tk
    let p := { p with dqP := dp }
    match tk with
    | .a e =>
      if p.handed.contains e.id && !p.dqTaken.contains e.id then pure { p with dqTaken := e.id :: p.dqTaken } else none
    | .cb _ ids => pure { p with dqCommitted := p.dqCommitted ++ ids }
    | _ => pure p
  | .t k ok =>
    let r := getB k p.recs
    -- sends only between OutFn entry and return, never after a success or after giving up;
    -- a retry needs the NextBackOff call of the previous failure
    if p.mainP.started.contains k && !r.done && !r.ok && r.err.isNone && r.nexts == r.fails then
      some { p with recs := putB (if ok then { r with ok := true } else { r with fails := r.fails + 1 }) p.recs }
    else none
  | .n k tries stop pause =>
    let r := getB k p.recs
    -- "growing pauses": the pause asked for at this batch's own retry index lies in that index's interval of
    -- the schedule min·mult^n (± 50 %), whatever other workers do with their batches in the meantime
    let pauseFine := stop || c.minRetNs == 0 || pauseOk c.minRetNs c.mult r.nexts pause
    if !r.done && !r.ok && r.err.isNone && r.fails == r.nexts + 1 && tries == r.nexts && pauseFine then
      some { p with recs := putB { r with nexts := r.nexts + 1 } p.recs }
    else none
  | .e k ids =>
    let r := getB k p.recs
    match p.mainP.sealed[k]? with
    | none => none
    | some evs =>
      if !r.done && !r.ok && r.err.isNone && r.nexts == r.fails && mayGiveUp c r.fails && ids == evs.map (·.id) then
        some { p with recs := putB { r with err := some ids } p.recs }
      else none
  | .f k id =>
    let r := getB k p.recs
    match r.err with
    | none => none
    | some ids =>
      -- handed over in order, each once, only when a dead queue exists
      if c.dq && !r.done && ids[r.failed.length]? == some id && !p.handed.contains id then
        some { p with recs := putB { r with failed := r.failed ++ [id] } p.recs, handed := id :: p.handed }
      else none
  | .c id =>
    if p.handed.contains id && !p.dqTaken.contains id then
      some { p with dqTaken := id :: p.dqTaken, dqCommitted := p.dqCommitted ++ [id] }
    else none
  | .z => some p

def nodup : List Nat → Bool
  | [] => true
  | x :: xs => !xs.contains x && nodup xs

/-- end of trace: nothing went both ways, nothing twice; after an observed drain every appended
    event was committed by exactly one of the two outputs -/
def finalOk (p : PS9) : Bool :=
  nodup p.mainCommitted && nodup p.dqCommitted &&
  p.mainCommitted.all (fun id => !p.handed.contains id) &&
  p.dqCommitted.all (fun id => p.handed.contains id) &&
  (!p.drainedSeen ||
    (p.mainP.seen.all (fun id => (p.mainCommitted.contains id || p.dqCommitted.contains id) || p.mainP.cur.any (·.id == id)) &&
     p.handed.all (fun id => p.dqCommitted.contains id)))

def holdsFrom (c : Conf) : PS9 → List CTk → Bool
  | p, [] => finalOk p
  | p, t :: ts =>
    match stepP c p t with
    | none => false
    | some p' => holdsFrom c p' ts

def holds (c : Conf) (ts : List CTk) : Bool := holdsFrom c {} ts

end FileD.SpecC09
