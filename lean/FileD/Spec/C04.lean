/-
  C04 — executable oracle on an observed pool trace (gated schedules): after the heartbeat that
  closes every block no reader may sit in Cond.Wait while an event it could take is available.
-/
import FileD.Model.PoolRun
namespace FileD.SpecC04
open FileD.Pool

def nGate (b : Block) : Nat := b.obs.countP fun (_, st) => st == .gate
def waiting (b : Block) : List Nat := b.obs.filterMap fun (r, st) => if st == .wait then some r else none

/-- low-memory pool: somebody is in Cond.Wait although the counter is below the capacity -/
def lmWedged (cap : Nat) (b : Block) : Bool := b.cw > 0 && b.inUse < cap

/-- i-th slot of a dump "110,00-,…" has free1 = 1 -/
def slotFree (dump : String) (x : Nat) : Bool :=
  match (dump.splitOn ",")[x]? with
  | some t => t.startsWith "1"
  | none => false

/-- standard pool: nobody holds the lock (no reader at the gate), so every waiting reader is parked;
    one of them waits for a slot whose event is there, and the counter is below the capacity -/
def stdWedged (cap : Nat) (tickets : List (Nat × Nat)) (b : Block) : Bool :=
  nGate b == 0 && b.inUse < cap && b.cw > 0 &&
    (waiting b).any fun r =>
      match tickets.find? (·.1 = r), b.slots with
      | some (_, t), some d => slotFree d (t % cap)
      | _, _ => false

/-- tickets are handed out in the order of the get ops (each get runs alone up to its ticket) -/
def stdWedgeFree (cap : Nat) : List Block → Nat → List (Nat × Nat) → Bool
  | [], _, _ => true
  | b :: bs, next, tk =>
    let (next', tk') := match b.op with
      | .get r _ => (next + 1, (r, next) :: tk.filter (·.1 ≠ r))
      | _ => (next, tk)
    !stdWedged cap tk' b && stdWedgeFree cap bs next' tk'

def lmWedgeFree (cap : Nat) (bs : List Block) : Bool := bs.all (fun b => !lmWedged cap b)

def holds (std : Bool) (cap : Nat) (bs : List Block) : Bool :=
  if std then stdWedgeFree cap bs 0 [] else lmWedgeFree cap bs

end FileD.SpecC04
