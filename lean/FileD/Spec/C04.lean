/-
  C04 — executable oracle on an observed pool trace (gated schedules): after the heartbeat that
  closes every block no reader may sit in Cond.Wait while an event it could take is available.
-/
import FileD.Model.PoolRun
import FileD.Model.Stream
namespace FileD.SpecC04
open FileD.Pool

def nGate (b : Block) : Nat := b.obs.countP fun (_, st) => st == .gate
def waiting (b : Block) : List Nat := b.obs.filterMap fun (r, st) => if st == .wait then some r else none

/-- low-memory pool: somebody is in Cond.Wait although the counter is below the capacity -/
def lmWedged (cap : Nat) (b : Block) : Bool := b.cw > 0 && b.inUse < cap

/-- i-th slot of a dump "110,00-,…" has free1 = 1 -/
def slotFree (dump : String) (x : Nat) : Bool :=
  match (dump.splitOn ",")[x]? with
  | some t => t.startsWith "1"
  | none => false

/-- standard pool: nobody holds the lock (no reader at the gate), so every waiting reader is parked;
    one of them waits for a slot whose event is there, and the counter is below the capacity -/
def stdWedged (cap : Nat) (tickets : List (Nat × Nat)) (b : Block) : Bool :=
  nGate b == 0 && b.inUse < cap && b.cw > 0 &&
    (waiting b).any fun r =>
      match tickets.find? (·.1 = r), b.slots with
      | some (_, t), some d => slotFree d (t % cap)
      | _, _ => false

/-- tickets are handed out in the order of the get ops (each get runs alone up to its ticket) -/
def stdWedgeFree (cap : Nat) : List Block → Nat → List (Nat × Nat) → Bool
  | [], _, _ => true
  | b :: bs, next, tk =>
    let (next', tk') := match b.op with
      | .get r _ => (next + 1, (r, next) :: tk.filter (·.1 ≠ r))
      | _ => (next, tk)
    !stdWedged cap tk' b && stdWedgeFree cap bs next' tk'

def lmWedgeFree (cap : Nat) (bs : List Block) : Bool := bs.all (fun b => !lmWedged cap b)

def holds (std : Bool) (cap : Nat) (bs : List Block) : Bool :=
  if std then stdWedgeFree cap bs 0 [] else lmWedgeFree cap bs


/-! ## streams: the safety shapes of "no wedge", evaluated on an observed trace alone
    (counters only — independent of Model/Stream.lean's step relation) -/

structure SView where
  pending : Nat := 0            -- events put (or time-outs injected) and not yet taken
  owner : Option Nat := none    -- attach … detach
  poppedBy : Option Nat := none -- pop … attach
  charged : Nat := 0            -- occurrences in streamer.charged
  deriving Repr, Inhabited

structure View where
  ss : List SView
  asleep : List Nat := []       -- processors in joinStream's Wait
  bad : Option String := none

def View.upd (v : View) (s : Nat) (f : SView → SView) : View :=
  match v.ss[s]? with
  | some x => { v with ss := v.ss.set s (f x) }
  | none => { v with bad := some "stream-index" }

def View.fail (v : View) (why : String) : View := if v.bad.isSome then v else { v with bad := some why }
def View.total (v : View) : Nat := (v.ss.map (·.charged)).foldl (· + ·) 0

def vstep (v : View) : FileD.Stream.Op → View
  | .put s _ _ => v.upd s fun x => { x with pending := x.pending + 1 }
  | .timeout s =>
    -- tryUnblock installs its event as first AND last: over a queued event it would erase it
    let x := v.ss[s]?.getD {}
    let v := if x.pending ≠ 0 then v.fail "timeout-over-queued-event" else v
    v.upd s fun x => { x with pending := x.pending + 1 }
  | .charge s =>
    let x := v.ss[s]?.getD {}
    let v := if x.charged ≠ 0 then v.fail "charged-twice" else v
    let v := if x.owner.isSome ∨ x.poppedBy.isSome then v.fail "owned-stream-charged" else v
    let v := if x.pending = 0 then v.fail "empty-stream-charged" else v
    -- whether the Signal reaches a sleeper is NOT assumed here: a processor leaves `asleep` only
    -- when it is seen popping
    v.upd s (fun x => { x with charged := x.charged + 1 })
  | .pop p s =>
    let x := v.ss[s]?.getD {}
    let v := if x.charged = 0 then v.fail "pop-of-uncharged" else v
    let v := if x.owner.isSome then v.fail "pop-of-owned" else v
    { v.upd s (fun x => { x with charged := x.charged - 1, poppedBy := some p }) with
      asleep := v.asleep.filter (· ≠ p) }
  | .park p =>
    let v := if v.total ≠ 0 then v.fail "sleeps-with-work" else v
    { v with asleep := v.asleep ++ [p] }
  | .attach p s =>
    let x := v.ss[s]?.getD {}
    let v := if x.owner.isSome then v.fail "two-owners" else v
    let v := if x.poppedBy ≠ some p then v.fail "attach-without-pop" else v
    v.upd s fun x => { x with owner := some p, poppedBy := none }
  | .get p s _ _ _ =>
    let x := v.ss[s]?.getD {}
    let v := if x.owner ≠ some p then v.fail "get-by-non-owner" else v
    let v := if x.pending = 0 then v.fail "get-of-empty" else v
    v.upd s fun x => { x with pending := x.pending - 1 }
  | .leave p s =>
    let x := v.ss[s]?.getD {}
    if x.owner ≠ some p then v.fail "leave-by-non-owner" else v
  | .detach s => v.upd s fun x => { x with owner := none }
  | .bwait p s =>
    let x := v.ss[s]?.getD {}
    let v := if x.owner ≠ some p then v.fail "wait-by-non-owner" else v
    if x.pending ≠ 0 then v.fail "owner-sleeps-with-events" else v
  | .commit _ _ => v
  | .stale _ _ => v

/-- at a quiescent end: a stream with pending events and no owner is charged exactly once (or
    popped and about to be attached), any other is not charged; nobody sleeps while work is charged -/
def endOk (v : View) : Bool :=
  v.ss.all (fun x =>
    if x.pending > 0 ∧ x.owner.isNone ∧ x.poppedBy.isNone then x.charged == 1 else x.charged == 0)
  && (v.asleep.isEmpty || v.total == 0)

/-- `obs` = the streamer's own state observed at the quiescent end: (goroutines in joinStream's Wait,
    length of `charged`): nobody may sleep there while a charged stream is unclaimed -/
def streamVerdict (nstreams : Nat) (ops : List FileD.Stream.Op) (settled : Bool)
    (obs : Option (Nat × Nat) := none) : String :=
  let v := ops.foldl vstep { ss := List.replicate nstreams {} }
  match v.bad with
  | some why => "fail:" ++ why
  | none =>
    if !settled then "fail:unsettled"
    else if !endOk v then "fail:end-state"
    else match obs with
      | some (w, c) => if w > 0 ∧ c > 0 then "fail:asleep-with-charged" else "ok"
      | none => "ok"

end FileD.SpecC04
