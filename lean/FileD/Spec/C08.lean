/-
  C08 property oracle, evaluated on the observed trace itself (never on the model's state):
  bounded size, in-order commit after the batch's own send, committed = prefix of added
  (exactly once, nothing skipped), ForEach skips parents, no panic, idle flush happened.
-/
import FileD.Model.BatcherTrace
namespace FileD.SpecC08
open FileD.Batcher

structure PS where
  cur : List Ev := []            -- appended since the last seal
  sealed : List (List Ev) := []  -- content of batch k at index k
  seen : List Nat := []          -- ids appended so far
  started : List Nat := []
  done : List Nat := []
  handed : List Nat := []        -- batches whose OutFn reset them (dead queue)
  ncommit : Nat := 0
  stopped : Bool := false

def bytesOf (evs : List Ev) : Nat := (evs.map (·.size)).sum

/-- the size clause of C08 for one sealed batch -/
def sizeOk (maxCount maxBytes : Nat) (evs : List Ev) : Bool :=
  (maxCount == 0 || evs.length ≤ maxCount) &&
  (maxBytes == 0 || match evs.getLast? with
    | none => true
    | some l => bytesOf evs - l.size < maxBytes)

def sizeReady (maxCount maxBytes : Nat) (evs : List Ev) : Bool :=
  (maxCount != 0 && evs.length ≥ maxCount) || (maxBytes != 0 && maxBytes ≤ bytesOf evs)

def stepP (maxCount maxBytes : Nat) (p : PS) : Tk → Option PS
  | .a e =>
    if p.stopped || p.seen.contains e.id then none
    else some { p with cur := p.cur ++ [e], seen := e.id :: p.seen }
  | .h => some p
  | .s k st =>
    if k == p.sealed.length && !p.cur.isEmpty && sizeOk maxCount maxBytes p.cur
        && ((st == 1 && sizeReady maxCount maxBytes p.cur) || (st == 2 && !sizeReady maxCount maxBytes p.cur))
    then some { p with sealed := p.sealed ++ [p.cur], cur := [] } else none
  | .q _ => some p
  | .o k ids =>
    match p.sealed[k]? with
    | none => none
    | some evs =>
      let it := (forEach evs).map (·.id)
      if !p.started.contains k && !it.isEmpty && ids == it then some { p with started := k :: p.started } else none
  | .d k keep =>
    if p.started.contains k && !p.done.contains k then
      some { p with done := k :: p.done, handed := if keep then p.handed else k :: p.handed }
    else none
  | .cb k ids =>
    match p.sealed[k]? with
    | none => none
    | some evs =>
      let needSend := !(forEach evs).isEmpty
      let expect := if p.handed.contains k then [] else evs.map (·.id)
      if k == p.ncommit && (!needSend || p.done.contains k) && ids == expect
      then some { p with ncommit := p.ncommit + 1 } else none
  | .x => some { p with stopped := true }
  | .w ok => if ok then some p else none
  | .panic _ => none
  | .clk => some p

def holdsFrom (maxCount maxBytes : Nat) : PS → List Tk → Bool
  | _, [] => true
  | p, t :: ts =>
    match stepP maxCount maxBytes p t with
    | none => false
    | some p' => holdsFrom maxCount maxBytes p' ts

def holds (maxCount maxBytes : Nat) (ts : List Tk) : Bool := holdsFrom maxCount maxBytes {} ts

/-- The staleness clause read literally off the trace, in heartbeat iterations: `pend` holds, for
    every event appended and not yet sealed, the number of `h` tokens logged since its own `a`.
    An event may see at most `maxTicks` heartbeat iterations before the `s` of its batch
    (heartbeat iterations are at least 100 ms apart, so this is a lower bound of its real age). -/
def staleTicksFrom (maxTicks : Nat) : List Nat → List Tk → Bool
  | _, [] => true
  | pend, .a _ :: ts => staleTicksFrom maxTicks (pend ++ [0]) ts
  | pend, .h :: ts =>
    let pend' := pend.map (· + 1)
    if pend'.all (· ≤ maxTicks) then staleTicksFrom maxTicks pend' ts else false
  | _, .s _ _ :: ts => staleTicksFrom maxTicks [] ts
  | pend, _ :: ts => staleTicksFrom maxTicks pend ts

def staleTicksOk (maxTicks : Nat) (ts : List Tk) : Bool := staleTicksFrom maxTicks [] ts

/-- The heartbeat period read off the trace against the harness's reference clock (`k` = 100 ms of a
    sleeper in the same process): while the batcher runs, at most `maxK` clock ticks may pass without a
    heartbeat iteration (`h`). `since` = clock ticks since the last `h` (or since the start). -/
def hbPeriodFrom (maxK : Nat) : Nat → List Tk → Bool
  | _, [] => true
  | _, .h :: ts => hbPeriodFrom maxK 0 ts
  | since, .clk :: ts => if since + 1 > maxK then false else hbPeriodFrom maxK (since + 1) ts
  | _, .x :: _ => true
  | since, _ :: ts => hbPeriodFrom maxK since ts

def hbPeriodOk (maxK : Nat) (ts : List Tk) : Bool := hbPeriodFrom maxK 0 ts

end FileD.SpecC08
