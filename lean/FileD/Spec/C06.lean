/-
  Spec of C06: the complete newline-terminated lines of a content, each with the byte
  offset just after its newline; and the executable oracle the check applies to the
  *implementation's* observed calls.
-/
import FileD.Prelude.Bytes
import FileD.Model.Worker
namespace FileD.SpecC06
open FileD

/-- every '\n'-terminated line with the offset just after its newline (`off` = offset of the
    next byte, `cur` = bytes of the line read so far) -/
def specLines : Bytes → Nat → Bytes → List (Nat × Bytes)
  | [], _, _ => []
  | b :: bs, off, cur =>
    if b = NL then (off + 1, cur ++ [b]) :: specLines bs (off + 1) []
    else specLines bs (off + 1) (cur ++ [b])

/-- the unterminated tail -/
def specTail : Bytes → Bytes → Bytes
  | [], cur => cur
  | b :: bs, cur => if b = NL then specTail bs [] else specTail bs (cur ++ [b])

/-- what a reader that skips its first line (job.shouldSkip) must emit -/
def dropFirst (skip : Bool) (l : List (Nat × Bytes)) : List (Nat × Bytes) :=
  if skip then l.drop 1 else l

/-- lines the skip mode keeps -/
def fits (max : Nat) (x : Nat × Bytes) : Bool := max == 0 || decide (x.2.length ≤ max)

/-- relation between an emitted record and the spec line in cut mode -/
def cutOk (max : Nat) (got want : Nat × Bytes) : Bool :=
  got.1 == want.1 &&
  (if want.2.length ≤ max then got.2 == want.2
   else decide (got.2.length > max) && got.2.take max == want.2.take max && got.2.getLast? == some NL)

def allCut (max : Nat) : List (Nat × Bytes) → List (Nat × Bytes) → Bool
  | [], [] => true
  | g :: gs, w :: ws => cutOk max g w && allCut max gs ws
  | _, _ => false

/-- the cut branch of `Pipeline.checkInputBytes` (pipeline/pipeline.go; its own model and tie are
    C20's): data longer than `max` is cut to `max` bytes, the newline is kept -/
def cutAtLimit (max : Nat) (data : Bytes) : Bytes :=
  if data.length > max then data.take max ++ (if data.getLast? = some NL then [NL] else []) else data

/-- the property oracle: do `calls` satisfy C06 for this content? -/
def holds (cfg : Worker.Cfg) (skip : Bool) (base : Nat) (content : Bytes) (calls : List (Nat × Bytes)) : Bool :=
  let want := dropFirst skip (specLines content base [])
  if cfg.maxSize = 0 then calls == want
  else if cfg.cutOff then allCut cfg.maxSize calls want
  else calls == want.filter (fits cfg.maxSize)

/-- what the pipeline's output must receive for one complete line (offset, line incl. newline)
    when worker and pipeline share `max`/`cut` and the decoder is `raw` (message = bytes without the
    final newline): an empty line is not an event; a line of at most `max` bytes — the line of
    exactly `max` bytes included — arrives unchanged; a longer one is dropped (skip) or arrives as
    its first `max` bytes (cut). -/
def wantEvent (cfg : Worker.Cfg) (x : Nat × Bytes) : Option (Nat × Bytes) :=
  if x.2 = [] ∨ x.2 = [NL] then none
  else if cfg.maxSize ≠ 0 ∧ x.2.length > cfg.maxSize then
    (if cfg.cutOff then some (x.1, x.2.take cfg.maxSize) else none)
  else some (x.1, x.2.dropLast)

/-- the events of a file life behind the real pipeline -/
def pipeSpec (cfg : Worker.Cfg) (skip : Bool) (base : Nat) (content : Bytes) : List (Nat × Bytes) :=
  (dropFirst skip (specLines content base [])).filterMap (wantEvent cfg)

/-- the property oracle of the worker-plus-pipeline cases: exactly these events, in order -/
def pipeHolds (cfg : Worker.Cfg) (skip : Bool) (base : Nat) (content : Bytes) (events : List (Nat × Bytes)) : Bool :=
  events == pipeSpec cfg skip base content

end FileD.SpecC06
