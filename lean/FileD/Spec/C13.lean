/-
  C13 — executable property oracle on the implementation's observed behaviour.

  `c13.act` result tokens (harness/cmd/fdharness/c13.go):
      cfg-rejected | <n> (<res> <status>)×n <stability>
  The property holds on a case iff every event that was processed ended with one of the five
  defined `ActionResult`s, the event re-encoded to a document that re-parses (`status = ok`),
  nothing panicked / exited / hung, and no event that had left the plugin changed afterwards.
-/
import FileD.Prelude.Tok
import FileD.Prelude.JTree
namespace FileD.SpecC13
open FileD

/-- the five values of `pipeline.ActionResult` -/
def definedResults : List String := ["pass", "collapse", "discard", "hold", "break"]

/-- statuses of events that were not run (not decodable by the pipeline's decoder, a time-out
    event the processor would not send, the rest of a sequence after a panic) -/
def skipStatuses : List String := ["skip:undecodable", "skip:no-timeout", "skip:after-panic"]

def isSkip (status : String) : Bool := skipStatuses.contains status

/-- the only result a *time-out* event (kind time-out, `Root == nil`) may get, written `t:<res>` by
    the harness. `processor.doActions`: Pass hands the event to the next actions, Break to the
    output (`processSequence` → `router.Out`), Hold leaves the plugin with a document-less event
    to `Propagate` later: each dereferences the nil root; Collapse keeps the processor pinned to
    the silent stream with nothing held. Discard ends it (`finalize` ignores time-out events). -/
def timeoutResults : List String := ["t:discard"]

/-- one (result, status) pair -/
def pairOk (res status : String) : Bool :=
  if isSkip status then res == "-"
  else (definedResults.contains res || timeoutResults.contains res) && status == "ok"

def pairsOk : Nat → List String → Bool
  | 0, rest => rest == ["st:ok"]
  | n + 1, res :: status :: rest => pairOk res status && pairsOk n rest
  | _ + 1, _ => false

def actOk (impl : List String) : Bool :=
  match impl with
  | ["cfg-rejected"] => true
  | n :: rest =>
    match n.toNat? with
    | some k => pairsOk k rest
    | none => false
  | [] => false

/-- number of events that were really processed (not skipped) -/
def processed : List String → Nat
  | _ :: status :: rest => (if isSkip status then 0 else 1) + processed rest
  | _ => 0

/-- `c13.pipe` (the action inside a real pipeline): `in=<n> out=<k> <status>×k left=<m>`; every
    event handed to the output must be `ok` and no event may be left in flight. A panic on the
    processor goroutine ends the child process: the result is then `crash:…`, which fails here. -/
def pipeOk (impl : List String) : Bool :=
  match impl with
  | ["cfg-rejected"] => true
  | i :: o :: rest =>
    i.startsWith "in=" && o.startsWith "out=" &&
      (match rest.reverse with
       | l :: sts => l == "left=0" && sts.all (· == "ok")
       | [] => false)
  | _ => false

/-- modelled cores: the implementation must have produced a value, not a panic -/
def coreOk (impl : List String) : Bool :=
  match impl with
  | "ok" :: _ => true
  | ["cfg-rejected"] => true
  | _ => false

/-! ### well-formed trees: what "encodes and re-parses" means for a `JTree`

  Keys and strings are arbitrary bytes (the encoder escapes them), `null` / `true` / `false` are
  fixed words, arrays and objects are brackets around their items: the only way a tree can encode
  to something that is not JSON is a number node whose literal is not a JSON number (insane-json
  emits number literals verbatim). -/

def isDigit (b : UInt8) : Bool := 48 ≤ b && b ≤ 57

def digits1 : Bytes → Option Bytes     -- one or more digits, rest
  | [] => none
  | b :: r => if isDigit b then some (r.dropWhile isDigit) else none

/-- `-? (0 | [1-9][0-9]*) (. [0-9]+)? ([eE] [+-]? [0-9]+)?` -/
def validNumber (raw : Bytes) : Bool :=
  let s := match raw with | 45 :: r => r | r => r
  let afterInt : Option Bytes :=
    match s with
    | 48 :: r => some r
    | b :: r => if isDigit b then some (r.dropWhile isDigit) else none
    | [] => none
  match afterInt with
  | none => false
  | some r =>
    let afterFrac : Option Bytes :=
      match r with
      | 46 :: r' => digits1 r'
      | _ => some r
    match afterFrac with
    | none => false
    | some r2 =>
      match r2 with
      | [] => true
      | e :: r3 =>
        if e = 101 || e = 69 then
          let r4 := match r3 with | 43 :: x => x | 45 :: x => x | x => x
          match digits1 r4 with
          | some [] => true
          | _ => false
        else false

mutual
  def wf : JTree → Bool
    | .num r => validNumber r
    | .arr xs => wfList xs
    | .obj kvs => wfKVs kvs
    | _ => true
  def wfList : List JTree → Bool
    | [] => true
    | x :: xs => wf x && wfList xs
  def wfKVs : List (Bytes × JTree) → Bool
    | [] => true
    | (_, v) :: r => wf v && wfKVs r
end

end FileD.SpecC13
