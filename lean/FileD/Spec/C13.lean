/-
  C13 — executable property oracle on the implementation's observed behaviour.

  `c13.act` result tokens (harness/cmd/fdharness/c13.go):
      cfg-rejected | <n> (<res> <status>)×n <stability>
  The property holds on a case iff every event that was processed ended with one of the five
  defined `ActionResult`s, the event re-encoded to a document that re-parses (`status = ok`),
  nothing panicked / exited / hung, and no event that had left the plugin changed afterwards.
-/
import FileD.Prelude.Tok
namespace FileD.SpecC13
open FileD

/-- the five values of `pipeline.ActionResult` -/
def definedResults : List String := ["pass", "collapse", "discard", "hold", "break"]

def isSkip (status : String) : Bool := status.startsWith "skip:"

/-- one (result, status) pair -/
def pairOk (res status : String) : Bool :=
  if isSkip status then res == "-"
  else definedResults.contains res && status == "ok"

def pairsOk : Nat → List String → Bool
  | 0, rest => rest == ["st:ok"]
  | n + 1, res :: status :: rest => pairOk res status && pairsOk n rest
  | _ + 1, _ => false

def actOk (impl : List String) : Bool :=
  match impl with
  | ["cfg-rejected"] => true
  | n :: rest =>
    match n.toNat? with
    | some k => pairsOk k rest
    | none => false
  | [] => false

/-- number of events that were really processed (not skipped) -/
def processed : List String → Nat
  | _ :: status :: rest => (if isSkip status then 0 else 1) + processed rest
  | _ => 0

/-- modelled cores: the implementation must have produced a value, not a panic -/
def coreOk (impl : List String) : Bool :=
  match impl with
  | "ok" :: _ => true
  | ["cfg-rejected"] => true
  | _ => false

end FileD.SpecC13
