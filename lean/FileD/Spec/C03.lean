/-
  Spec of C03. Two parts:

  * the statement vocabulary of the theorems about `Model/FileRestart` (complete lines of a file,
    "covered by an event", idle state, the no-loss predicate, the hypothesis of the partial theorem);
  * the executable oracle the check applies to the *implementation's* observed trace: it folds the
    records into (file contents, acked ids, ids handed to the output in the last run, offsets saved
    at the last crash) and lists the complete lines that were lost, with their class.
-/
import FileD.Prelude.Bytes
import FileD.Model.FileRestart
import FileD.Spec.C06
namespace FileD.SpecC03
open FileD FileD.FileRestart

/-! ### vocabulary of the theorems -/

/-- the complete lines of a file: (offset just after the newline, bytes including the newline) -/
def lines (f : FileSt) : List (Nat × Bytes) := SpecC06.specLines f.content 0 []

/-- some event of `evs` is the line `l` of file `i` -/
def Covers (evs : List Ev) (i : Nat) (l : Nat × Bytes) : Prop :=
  ∃ e ∈ evs, e.ino = i ∧ e.off = l.1 ∧ e.data = l.2

/-- file.d is up, every file has been read to its end, everything in flight has reached the output -/
def Idle (s : State) : Prop :=
  s.up = true ∧ s.panicked = false ∧
  (∀ i f, s.files i = some f → ∃ j, s.jobs i = some j ∧ j.w.curOffset = f.content.length) ∧
  (∀ e ∈ s.inflight, e ∈ s.delivered)

/-- every complete line the pipeline admits was acked in some run or handed to the output in this run -/
def AllDelivered (cfg : Cfg) (s : State) : Prop :=
  ∀ i f l, s.files i = some f → l ∈ lines f → cfg.accept l.2 = true →
    Covers (s.acked ++ s.delivered) i l

/-- the hypothesis of the partial theorem, about the state in which a crash happens: every stream
    of a file that has an un-acked line already has an entry in that file's saved offsets -/
def CrashCovered (cfg : Cfg) (s : State) : Prop :=
  ∀ i f p l, s.files i = some f → s.persisted i = some p → l ∈ lines f → cfg.accept l.2 = true →
    ¬ Covers s.acked i l → (oget p (cfg.streamOf l.2)).isSome

def isTruncate : Op → Bool
  | .truncate _ => true
  | _ => false

/-! ### the oracle on observed traces -/

inductive Rec
  | new (f : Nat) | app (f : Nat) (b : Bytes) | ren (f g : Nat) | trunc (f : Nat)
  | up | disc (f : Nat) | scan | away (f : Nat) | gone (f : Nat) | reuse (f : Nat) | back (f : Nat)
  | inp (f off : Nat) (pass : Bool) | out (f off seq id : Nat) | ack (f off id : Nat) | com (f off id : Nat)
  | eof (f size : Nat) | idle | stuck | crash | saved (f : Nat) (o : Offsets) | died
  | bad (tok : String)

/-- the line table of a case: (id, stream, bytes) of every line ever written -/
abbrev Table := List (Nat × Stream × Bytes)

def idOf (t : Table) (d : Bytes) : Option Nat := (t.find? (fun x => x.2.2 == d)).map (·.1)
def streamOfT (t : Table) (d : Bytes) : Stream := ((t.find? (fun x => x.2.2 == d)).map (·.2.1)).getD []

def cfgOf (t : Table) : Cfg := ⟨fun d => (idOf t d).isSome, streamOfT t⟩

structure Obs where
  content  : List (Nat × Bytes) := []     -- file ↦ bytes, in creation order
  acked    : List Nat := []
  outLast  : List Nat := []
  saved    : List (Nat × Offsets) := []   -- at the last crash
  snaps    : List (List (Nat × Offsets)) := []   -- at every crash (head = last)
  hadCrash : Bool := false
  broken   : Bool := false                -- died / stuck / unreadable offsets file

def setContent (c : List (Nat × Bytes)) (f : Nat) (g : Bytes → Bytes) : List (Nat × Bytes) :=
  if c.any (·.1 == f) then c.map (fun x => if x.1 == f then (x.1, g x.2) else x) else c ++ [(f, g [])]

def observe1 (o : Obs) : Rec → Obs
  | .new f => { o with content := setContent o.content f (fun _ => []) }
  | .app f b => { o with content := setContent o.content f (· ++ b) }
  | .ren _ g => { o with content := setContent o.content g (fun _ => []) }
  | .trunc f => { o with content := setContent o.content f (fun _ => []) }
  | .reuse f => { o with content := setContent o.content f (fun _ => []) }
  | .ack _ _ id => { o with acked := id :: o.acked }
  | .out _ _ _ id => { o with outLast := id :: o.outLast }
  | .crash => { o with outLast := [], saved := [], hadCrash := true, snaps := [] :: o.snaps }
  | .saved f p =>
    { o with saved := o.saved ++ [(f, p)],
             snaps := match o.snaps with | [] => [[(f, p)]] | sn :: rest => (sn ++ [(f, p)]) :: rest }
  | .died => { o with broken := true }
  | .stuck => { o with broken := true }
  | .bad _ => { o with broken := true }
  | _ => o

def observe (rs : List Rec) : Obs := rs.foldl observe1 {}

def insertSorted (x : Nat × Bytes) : List (Nat × Bytes) → List (Nat × Bytes)
  | [] => [x]
  | y :: ys => if x.1 ≤ y.1 then x :: y :: ys else y :: insertSorted x ys

/-- class of a lost line: 0 = at some crash its stream is absent from the offsets saved for its file
    and it ends at or before the minimum saved offset (the recorded finding); 1 = anything else -/
def lostClass (o : Obs) (f : Nat) (stream : Stream) (off : Nat) : Nat :=
  if o.snaps.any (fun sn =>
      match sn.find? (·.1 == f) with
      | none => false
      | some (_, p) => (oget p stream).isNone && p ≠ [] && decide (off ≤ minOff p))
  then 0 else 1

/-- complete lines that are neither acked (any run) nor handed to the output (last run):
    (id or none for a line that is not in the table, class) -/
def lost (t : Table) (o : Obs) : List (Option Nat × Nat) :=
  (o.content.foldr insertSorted []).flatMap fun (f, c) =>
    (SpecC06.specLines c 0 []).filterMap fun (off, d) =>
      match idOf t d with
      | none => some (none, 1)
      | some id =>
        if o.acked.contains id || o.outLast.contains id then none
        else some (some id, lostClass o f (streamOfT t d) off)

def verdict (t : Table) (rs : List Rec) : String :=
  let o := observe rs
  if (lost t o).isEmpty && !o.broken then "ok" else "fail"

end FileD.SpecC03
