/-
  C19 — abstract spec and executable property oracle.

  The spec of every sink is an UNFRAMER: the function a receiver applies to the bytes it gets
  (split file/http bodies at '\n', GELF streams at NUL, Elasticsearch bulk bodies into
  action/document line pairs, Splunk bodies into concatenated JSON objects, the Loki push request
  into its `values` entries). The property: unframing what the sink built for a batch gives the
  deliverable events of the batch, once each, in order, and every frame is valid JSON.
  Core Lean only.
-/
import FileD.Model.Payload
namespace FileD.SpecC19
open FileD FileD.Payload

/-! ### unframers -/

/-- split at `sep`; every frame must be terminated (a non-terminated rest is a framing error) -/
def unframeSepGo (sep : UInt8) : Bytes → Bytes → Option (List Bytes)
  | acc, [] => if acc = [] then some [] else none
  | acc, b :: bs =>
    if b = sep then (unframeSepGo sep [] bs).map (acc :: ·) else unframeSepGo sep (acc ++ [b]) bs

def unframeSep (sep : UInt8) (p : Bytes) : Option (List Bytes) := unframeSepGo sep [] p

/-- lines → (action, document) pairs -/
def pairUp : List Bytes → Option (List (Bytes × Bytes))
  | [] => some []
  | [_] => none
  | a :: d :: rest => (pairUp rest).map ((a, d) :: ·)

/-- Elasticsearch `_bulk` body: newline-delimited, action line then document line per event -/
def unframeES (p : Bytes) : Option (List (Bytes × Bytes)) := (unframeSep NL p).bind pairUp

/-- bracket scanner state: nesting depth, inside a string, after a backslash -/
structure SSt where
  depth : Nat
  inStr : Bool
  esc : Bool
deriving Repr, DecidableEq

def sstep (s : SSt) (b : UInt8) : Option SSt :=
  if s.inStr then
    if s.esc then some { s with esc := false }
    else if b = 92 then some { s with esc := true }
    else if b = 34 then some { s with inStr := false }
    else some s
  else if b = 34 then some { s with inStr := true }
  else if b = 123 ∨ b = 91 then some { s with depth := s.depth + 1 }
  else if b = 125 ∨ b = 93 then (if s.depth = 0 then none else some { s with depth := s.depth - 1 })
  else some s

def scanGo : SSt → Bytes → Bytes → Option (Bytes × Bytes)
  | _, _, [] => none
  | s, acc, b :: bs =>
    match sstep s b with
    | none => none
    | some s' => if s'.depth = 0 then some (acc ++ [b], bs) else scanGo s' (acc ++ [b]) bs

/-- cut the first `{…}` / `[…]` value off a byte string -/
def scanOne : Bytes → Option (Bytes × Bytes)
  | [] => none
  | b :: bs => if b = 123 ∨ b = 91 then scanGo ⟨1, false, false⟩ [b] bs else none

/-- `v` is exactly one bracketed value (true of every valid JSON object / array) -/
def wellBracketed (v : Bytes) : Bool := scanOne v == some (v, [])

/-- Splunk HEC body: JSON objects back to back -/
def unframeConcat : Nat → Bytes → Option (List Bytes)
  | _, [] => some []
  | 0, _ => none
  | fuel + 1, p =>
    match scanOne p with
    | none => none
    | some (v, rest) => (unframeConcat fuel rest).map (v :: ·)

def lokiPrefix (labels : Bytes) : Bytes := lit "{\"streams\":[{\"stream\":" ++ labels ++ lit ",\"values\":["
def lokiSuffix : Bytes := lit "]}]}"

/-- the entries of a `values` array up to the closing suffix -/
def lokiEntries : Nat → Bytes → Option (List Bytes)
  | 0, _ => none
  | fuel + 1, p =>
    match scanOne p with
    | none => none
    | some (v, rest) =>
      if rest = lokiSuffix then some [v] else
      match rest with
      | 44 :: rest' => (lokiEntries fuel rest').map (v :: ·)
      | _ => none

def stripPrefix (pre : Bytes) (p : Bytes) : Option Bytes :=
  if pre.isPrefixOf p then some (p.drop pre.length) else none

/-- Loki push request → the entries of its single stream -/
def unframeLoki (labels : Bytes) (p : Bytes) : Option (List Bytes) :=
  match stripPrefix (lokiPrefix labels) p with
  | none => none
  | some rest => if rest = lokiSuffix then some [] else lokiEntries (rest.length + 1) rest

/-! ### JSON validity (RFC 8259 grammar; bytes ≥ 0x80 inside strings are accepted as they are) -/

def isWs (b : UInt8) : Bool := b = 32 || b = 9 || b = 10 || b = 13
def skipWs : Bytes → Bytes
  | [] => []
  | b :: bs => if isWs b then skipWs bs else b :: bs

def isHex (b : UInt8) : Bool := (48 ≤ b && b ≤ 57) || (97 ≤ b && b ≤ 102) || (65 ≤ b && b ≤ 70)
def isDigit (b : UInt8) : Bool := 48 ≤ b && b ≤ 57

/-- after the opening quote: the rest after the closing quote -/
def strBody : Bytes → Option Bytes
  | [] => none
  | 34 :: rest => some rest
  | 92 :: 117 :: a :: b :: c :: d :: rest => if isHex a && isHex b && isHex c && isHex d then strBody rest else none
  | 92 :: e :: rest =>
    if e = 34 || e = 92 || e = 47 || e = 98 || e = 102 || e = 110 || e = 114 || e = 116 then strBody rest else none
  | [92] => none
  | b :: rest => if b < 32 then none else strBody rest

def digits : Bytes → Bytes
  | [] => []
  | b :: bs => if isDigit b then digits bs else b :: bs

def digits1 (p : Bytes) : Option Bytes :=
  match p with
  | b :: bs => if isDigit b then some (digits bs) else none
  | [] => none

def numBody (p : Bytes) : Option Bytes := do
  let p := match p with | 45 :: r => r | _ => p
  let p ← match p with
    | 48 :: r => some r
    | b :: r => if isDigit b then some (digits r) else none
    | [] => none
  let p ← match p with
    | 46 :: r => digits1 r
    | _ => some p
  match p with
  | e :: r =>
    if e = 101 || e = 69 then
      match r with
      | s :: r' => if s = 43 || s = 45 then digits1 r' else digits1 r
      | [] => none
    else some p
  | [] => some p

mutual
  /-- one JSON value (leading whitespace allowed); returns the rest -/
  def jvalue : Nat → Bytes → Option Bytes
    | 0, _ => none
    | fuel + 1, p =>
      match skipWs p with
      | [] => none
      | 34 :: r => strBody r
      | 123 :: r =>
        (match skipWs r with
         | 125 :: r' => some r'
         | _ => jmembers fuel r)
      | 91 :: r =>
        (match skipWs r with
         | 93 :: r' => some r'
         | _ => jelems fuel r)
      | 116 :: 114 :: 117 :: 101 :: r => some r
      | 102 :: 97 :: 108 :: 115 :: 101 :: r => some r
      | 110 :: 117 :: 108 :: 108 :: r => some r
      | b :: r => if b = 45 || isDigit b then numBody (b :: r) else none
  def jelems : Nat → Bytes → Option Bytes
    | 0, _ => none
    | fuel + 1, p =>
      match jvalue fuel p with
      | none => none
      | some r =>
        match skipWs r with
        | 44 :: r' => jelems fuel r'
        | 93 :: r' => some r'
        | _ => none
  def jmembers : Nat → Bytes → Option Bytes
    | 0, _ => none
    | fuel + 1, p =>
      match skipWs p with
      | 34 :: r =>
        (match strBody r with
         | none => none
         | some r1 =>
           match skipWs r1 with
           | 58 :: r2 =>
             (match jvalue fuel r2 with
              | none => none
              | some r3 =>
                match skipWs r3 with
                | 44 :: r4 => jmembers fuel r4
                | 125 :: r4 => some r4
                | _ => none)
           | _ => none)
      | _ => none
end

def validJSON (p : Bytes) : Bool :=
  match jvalue (p.length + 1) p with
  | some r => skipWs r == []
  | none => false

/-- `{"<op>":{"_index":<one JSON string>}}` -/
def validAction (op : Bytes) (a : Bytes) : Bool :=
  match stripPrefix (lit "{\"" ++ op ++ lit "\":{\"_index\":\"") a with
  | none => false
  | some r => match strBody r with
    | some r' => r' == lit "}}"
    | none => false

/-! ### decoding a JSON string literal (to compare a routing value with what the receiver reads) -/

def hexVal (b : UInt8) : Option Nat :=
  if 48 ≤ b && b ≤ 57 then some (b.toNat - 48)
  else if 97 ≤ b && b ≤ 102 then some (b.toNat - 87)
  else if 65 ≤ b && b ≤ 70 then some (b.toNat - 55)
  else none

/-- UTF-8 of a code point of the basic plane (surrogates are refused by the caller) -/
def utf8 (cp : Nat) : Bytes :=
  if cp < 0x80 then [UInt8.ofNat cp]
  else if cp < 0x800 then [UInt8.ofNat (0xC0 + cp / 64), UInt8.ofNat (0x80 + cp % 64)]
  else [UInt8.ofNat (0xE0 + cp / 4096), UInt8.ofNat (0x80 + cp / 64 % 64), UInt8.ofNat (0x80 + cp % 64)]

def unescapeChar (e : UInt8) : Option UInt8 :=
  if e = 34 then some 34 else if e = 92 then some 92 else if e = 47 then some 47
  else if e = 98 then some 8 else if e = 102 then some 12 else if e = 110 then some 10
  else if e = 114 then some 13 else if e = 116 then some 9 else none

/-- after the opening quote: (decoded content, rest after the closing quote) -/
def strDecode : Bytes → Option (Bytes × Bytes)
  | [] => none
  | 34 :: rest => some ([], rest)
  | 92 :: 117 :: a :: b :: c :: d :: rest =>
    match hexVal a, hexVal b, hexVal c, hexVal d with
    | some x, some y, some z, some w =>
      let cp := ((x * 16 + y) * 16 + z) * 16 + w
      if 0xD800 ≤ cp ∧ cp < 0xE000 then none
      else (strDecode rest).map (fun r => (utf8 cp ++ r.1, r.2))
    | _, _, _, _ => none
  | 92 :: e :: rest =>
    match unescapeChar e with
    | some ch => (strDecode rest).map (fun r => (ch :: r.1, r.2))
    | none => none
  | [92] => none
  | b :: rest => if b < 32 then none else (strDecode rest).map (fun r => (b :: r.1, r.2))

/-- the index name a receiver reads out of `{"<op>":{"_index":"…"}}` -/
def actionIndex (op : Bytes) (a : Bytes) : Option Bytes :=
  match stripPrefix (lit "{\"" ++ op ++ lit "\":{\"_index\":\"") a with
  | none => none
  | some r => match strDecode r with
    | some (v, r') => if r' == lit "}}" then some v else none
    | none => none

/-- spec of the index name: `index_format` with every `%` replaced by the value of its field
    (`not_set` when empty) or the time text -/
def specIndex (c : EsCfg) (e : Ev) : Option Bytes := expandFormat false c e c.format 0 []

/-- spec of the kafka topic: the event's own topic field when `use_topic_field` is on and the
    value is not empty, the default topic otherwise -/
def specTopic (c : KCfg) (e : Ev) : Bytes :=
  match c.useTopicField, e.route with
  | true, v :: _ => if v = [] then c.defaultTopic else v
  | _, _ => c.defaultTopic

/-! ### the property oracle, applied to what the implementation produced -/

/-- file / gelf: what one `out` call wrote is the deliverable events, each terminated -/
def holdsSep (sep : UInt8) (doc : Ev → Bytes) (batch : List Ev) (obs : Bytes) : Bool :=
  unframeSep sep obs == some ((deliverable batch).map doc)
  && (deliverable batch).all (fun e => validJSON (doc e))

/-- kafka: one record per deliverable event, value = the event, topic = the event's own topic -/
def holdsKafka (c : KCfg) (batch : List Ev) (recs : List (Bytes × Bytes)) : Bool :=
  recs.map (·.2) == (deliverable batch).map (·.enc) && recs.all (fun r => validJSON r.2)
  && recs.map (·.1) == (deliverable batch).map (specTopic c)

/-- an observed request with its body unframed into per-event frames of type `F` -/
structure ObsReq (F : Type) where
  status : Nat
  events : Option (List F)

def allZip {α β : Type} (f : α → β → Bool) : List α → List β → Bool
  | [], [] => true
  | a :: as, b :: bs => f a b && allZip f as bs
  | _, _ => false

/-- A committed attempt (`out` returned nil) must have delivered every event exactly once, in order:
    the events of the accepted requests, plus the events the server refused one by one with 413
    (those cannot be delivered at all), are the batch (`matchEv` compares an event with its frame).
    A 400 (and a 413 when splitting is off) is the server refusing the request for good: the
    plugins drop such a batch by design. Every request body, committed or not, must unframe. -/
def holdsAttempt {F : Type} (split : Bool) (okStatus : Nat → Bool) (matchEv : Ev → F → Bool)
    (batch : List Ev) (ok : Bool) (reqs : List (ObsReq F)) : Bool :=
  reqs.all (fun q => q.events.isSome) &&
  (if !ok then true
   else if reqs.any (fun q => q.status = 400 || (!split && q.status = 413)) then true
   else
     allZip matchEv (deliverable batch)
       ((reqs.filter (fun q => okStatus q.status || (q.status = 413 && (q.events.map List.length) == some 1))).flatMap
          (fun q => match q.events with | some l => l | none => [])))

/-- the action line is well-formed and names the event's OWN index; the document is the event -/
def esEventOk (c : EsCfg) (e : Ev) (f : Bytes × Bytes) : Bool :=
  validAction c.op f.1 && f.2 == e.enc && validJSON f.2
  && (match specIndex c e with
      | some idx => actionIndex c.op f.1 == some idx
      | none => false)

def frameOk (frame : Ev → Bytes) (e : Ev) (f : Bytes) : Bool := f == frame e && validJSON f

/-- raw http encoder: the value of the field, nothing when the field is absent -/
def rawOk (e : Ev) (f : Bytes) : Bool :=
  match e.route with
  | v :: _ => f == v && validJSON f
  | [] => f == []

end FileD.SpecC19
