/-
  Spec of C11: the events of a request are the newline-separated lines of its body, a final
  non-empty unterminated line included, `\r` untouched; the 200 comes after all of them; and the
  executable oracle the check applies to the *implementation's* observed actions.
-/
import FileD.Prelude.Bytes
import FileD.Model.HttpBulk
namespace FileD.SpecC11
open FileD FileD.HttpBulk

/-- the lines of a body (`cur` = bytes of the line read so far) -/
def splitLines : Bytes → Bytes → List Bytes
  | [], cur => if cur.length > 0 then [cur] else []
  | b :: bs, cur => if b = NL then cur :: splitLines bs [] else splitLines bs (cur ++ [b])

/-- only the terminated lines (what has been handed over when a read fails) -/
def completeLines : Bytes → Bytes → List Bytes
  | [], _ => []
  | b :: bs, cur => if b = NL then cur :: completeLines bs [] else completeLines bs (cur ++ [b])

/-- the unterminated rest (what `eventBuff` must hold between reads) -/
def tailOf : Bytes → Bytes → Bytes
  | [], cur => cur
  | b :: bs, cur => if b = NL then tailOf bs [] else tailOf bs (cur ++ [b])

/-- linear-time version of `splitLines` for the driver (the current line is kept reversed);
    proved equal below and substituted at compile time by `@[csimp]` -/
def splitLinesFast : Bytes → Bytes → List Bytes
  | [], rc => if rc.length > 0 then [rc.reverse] else []
  | b :: bs, rc => if b = NL then rc.reverse :: splitLinesFast bs [] else splitLinesFast bs (b :: rc)

theorem splitLinesFast_eq (body rc : Bytes) : splitLinesFast body rc = splitLines body rc.reverse := by
  induction body generalizing rc with
  | nil => simp [splitLinesFast, splitLines]
  | cons b bs ih =>
    by_cases h : b = NL
    · simp [splitLinesFast, splitLines, h, ih]
    · simp [splitLinesFast, splitLines, h, ih]

def splitLinesImpl (body cur : Bytes) : List Bytes := splitLinesFast body cur.reverse

@[csimp] theorem splitLines_eq_impl : @splitLines = @splitLinesImpl := by
  funext body cur; simp [splitLinesImpl, splitLinesFast_eq]

/-- the body a sequence of read results delivers: the bytes up to the first `(0, EOF)` or error
    (bytes returned together with an error are not part of it: `processBulk` returns first) -/
def bodyOf : List Rd → Bytes
  | [] => []
  | .data b :: rs => b ++ bodyOf rs
  | .dataEof b :: rs => if b.length = 0 then [] else b ++ bodyOf rs
  | .err _ :: _ => []

/-- does the sequence end in a read error (before any `(0, EOF)`)? -/
def failed : List Rd → Bool
  | [] => false
  | .data _ :: rs => failed rs
  | .dataEof b :: rs => if b.length = 0 then false else failed rs
  | .err _ :: _ => true

def isPrefix : List Bytes → List Bytes → Bool
  | [], _ => true
  | _ :: _, [] => false
  | a :: as, b :: bs => a == b && isPrefix as bs

def inputs : List Act → List Bytes
  | [] => []
  | .inp b :: r => b :: inputs r
  | .resp _ :: r => inputs r

def codes : List Act → List Nat
  | [] => []
  | .inp _ :: r => codes r
  | .resp c :: r => c :: codes r

/-- the property oracle for one request: do the observed actions satisfy C11?
    * body delivered completely: exactly the lines, then the 200, nothing after it;
    * read error (or unreadable gzip header): exactly one response, it is the last action and it
      is not a 200; what was handed over before is a prefix of the body's lines. -/
def holdsReq (q : Req) (acts : List Act) : Bool :=
  if q.hdrErr then acts == [.resp 400]
  else if failed q.reads then
    (match acts.getLast? with
     | some (.resp c) => c != 200
     | _ => false) &&
    (codes acts).length == 1 &&
    isPrefix (inputs acts) (splitLines (bodyOf q.reads) [])
  else acts == (splitLines (bodyOf q.reads) []).map .inp ++ [.resp 200]

def allReqs : List Req → List (List Act) → Bool
  | [], [] => true
  | q :: qs, a :: as => holdsReq q a && allReqs qs as
  | _, _ => false

/-- number of requests that handed at least one event to the pipeline and read their body to its
    end (`ended`: a gzip request whose stream is corrupt stops reading early — it may leave before
    the others have started, and its source id may legitimately be taken again) -/
def countLive : List Bool → List (List Act) → Nat
  | e :: es, a :: as => (if e && !(inputs a).isEmpty then 1 else 0) + countLive es as
  | _, _ => 0

/-- what the harness must report about source ids besides "one id per request":
    mode 1 (free-running concurrent requests, all held at their last read until every one has got
    there): the number of distinct ids among the requests that made `In` calls and got there — all
    different; mode 2 (requests advanced park point by park point in a fixed order): 1 = no two
    requests whose `In` calls interleave used the same id. -/
def sidWant (mode : Nat) (ended : List Bool) (acts : List (List Act)) : Nat :=
  if mode = 2 then 1 else countLive ended acts

/-- the oracle for a case (mode 0 sequential, 1 concurrent, 2 scheduled overlap): every request
    satisfies `holdsReq` — its own lines, in order, each once, then its 200, whatever the other
    requests do; every request used one source id for all its events (`sidConst`); requests in
    flight together used different ids (`sidWant`). -/
def holds (mode : Nat) (qs : List Req) (ended : List Bool) (acts : List (List Act))
    (sidConst : Bool) (sidCount : Nat) : Bool :=
  allReqs qs acts && sidConst && (mode == 0 || sidCount == sidWant mode ended acts)

end FileD.SpecC11
