/-
  Spec of C12 and the executable oracles the check applies to the *implementation's* result.

  * scanners: the call must not panic and the caller's buffer after the call must equal the
    buffer before it, except for the one documented rewrite (CSV turns a final "\r\n" into "\n\n").
    (Fidelity is carried by the `<dec>_fields` theorems about the models plus model = impl.)
  * json_max_fields_size: the result must parse as JSON and be the input document with some string
    values (not keys) replaced by a prefix of their literal; everything else untouched.
  * JSON fidelity: the tree read back from insane-json equals the tree that was written
    (numbers compared by their spelling).
-/
import FileD.Prelude.JTree
import FileD.Model.Dec.Json
namespace FileD.SpecC12
open FileD FileD.Dec

/-- allowed effect of a decoder call on the line buffer -/
def frameOk (isCSV : Bool) (before after : Bytes) : Bool :=
  after == before ||
  (isCSV && decide (before.length ≥ 2) && before.drop (before.length - 2) == [CR, NL] &&
    after == before.take (before.length - 2) ++ [NL, NL])

def isPrefixOf : Bytes → Bytes → Bool
  | [], _ => true
  | _ :: _, [] => false
  | a :: as, b :: bs => a == b && isPrefixOf as bs

mutual
  /-- `cutRel orig res`: same document, string values possibly shortened to a prefix (raw literals) -/
  def cutRel : JTree → JTree → Bool
    | .null, .null => true
    | .bool a, .bool b => a == b
    | .num a, .num b => a == b
    | .str a, .str b => isPrefixOf b a
    | .arr xs, .arr ys => cutRelList xs ys
    | .obj xs, .obj ys => cutRelKVs xs ys
    | _, _ => false
  def cutRelList : List JTree → List JTree → Bool
    | [], [] => true
    | x :: xs, y :: ys => cutRel x y && cutRelList xs ys
    | _, _ => false
  def cutRelKVs : List (Bytes × JTree) → List (Bytes × JTree) → Bool
    | [], [] => true
    | (k, x) :: xs, (k', y) :: ys => k == k' && cutRel x y && cutRelKVs xs ys
    | _, _ => false
end

/-- oracle for `cutFieldsBySize`: `valid` is gjson's verdict on the input -/
def cutOk (valid : Bool) (data result : Bytes) : Bool :=
  if !valid then result == data else
  match Json.parseRaw data, Json.parseRaw result with
  | some t, some t' => cutRel t t'
  | none, _ => result == data      -- outside the reference grammar: only "untouched" is accepted
  | _, none => false

end FileD.SpecC12
