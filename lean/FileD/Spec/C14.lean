/-
  Spec of C14, written from the documentation (pipeline/doif/README.md, pipeline/README.md
  "Match modes"), with no short-cuts:

  do_if
    * a field op looks at the byte representation of the value at the field path; arrays and
      objects are "considered as not matched"; case-insensitive = lower-case BOTH sides, THEN
      compare; `equal` = the value is one of the list (a null list entry stands for a null /
      absent field and is different from the empty string); `contains`, `prefix`, `suffix`,
      `regex` = some list entry is contained / is a prefix / is a suffix / matches;
      `contains_any` = the value contains one of the characters;
    * `byte_len_cmp` compares the length in bytes of the value (of its compact JSON text for
      arrays and objects), `array_len_cmp` the number of elements, `int_val_cmp` the integer;
    * `ts_cmp` compares the parsed timestamp with `value (+ update_interval for now) + value_shift`;
    * `check_type`: the node has one of the listed types;
    * `and` / `or` / `not` are the boolean connectives: plain recursion over the operands.
  match_fields
    * a condition holds when the field exists and its string form is one of the values
      (is prefixed by one of them in the *_prefix modes) or matches the regular expression;
      `and` = every condition holds, `or` = some condition holds; `match_invert` negates.

  The path resolution (`dig`), the string form of a scalar and the oracle functions are shared
  with the model: the property is about the boolean semantics, not about JSON access.
-/
import FileD.Model.DoIf
import FileD.Model.MatchFields
namespace FileD.SpecC14
open FileD FileD.DoIf FileD.MatchFields

/-! ## do_if -/

/-- field op on a scalar / null / absent value `d` -/
def specFieldVal (o : Oracle) (f : FieldOp) (d : Option Bytes) : Bool :=
  let low : Bytes → Bytes := lowIf f.cs o.lower
  match f.op with
  | .equal => f.values.any (fun v => decide (v.map low = d.map low))
  | .contains => f.values.any (fun v => containsB (low (bytesOf d)) (bytesOf (v.map low)))
  | .containsAny =>
    (match f.values with
     | v :: _ => o.containsAny (low (bytesOf d)) (bytesOf (v.map low))
     | [] => false)
  | .prefix => f.values.any (fun v => hasPrefix (low (bytesOf d)) (bytesOf (v.map low)))
  | .suffix => f.values.any (fun v => hasSuffix (low (bytesOf d)) (bytesOf (v.map low)))
  | .regex => f.values.any (fun v => o.reMatch (bytesOf v) (bytesOf d))

def isContainer : Option JTree → Bool
  | some (.arr _) => true
  | some (.obj _) => true
  | _ => false

/-- arrays and objects are not matched -/
def specField (o : Oracle) (f : FieldOp) (node : Option JTree) : Bool :=
  if isContainer node then false else specFieldVal o f (getOf node)

/-- commas between n elements -/
def commas (n : Nat) : Int := if n = 0 then 0 else (n : Int) - 1

mutual
  /-- length of the compact JSON text of the value as it stands in the event -/
  def encLen : JTree → Int
    | .arr xs => 2 + encLenList xs + commas xs.length
    | .obj kvs => 2 + encLenFields kvs + commas kvs.length
    | .str s => (escLen s : Int) + 2
    | .null => 4
    | .bool true => 4
    | .bool false => 5
    | .num r => r.length
  def encLenList : List JTree → Int
    | [] => 0
    | x :: xs => encLen x + encLenList xs
  def encLenFields : List (Bytes × JTree) → Int
    | [] => 0
    | (k, v) :: kvs => (escLen k : Int) + 3 + encLen v + encLenFields kvs
end

def specLen (o : Oracle) (l : LenCmp) (ev : JTree) : Bool :=
  match l.kind, dig ev l.path with
  | .byte, some (.arr xs) => l.cmp.compare (encLen (.arr xs)) l.value
  | .byte, some (.obj kvs) => l.cmp.compare (encLen (.obj kvs)) l.value
  | .byte, some t => l.cmp.compare (asString t).length l.value
  | .byte, none => false
  | .array, some (.arr xs) => l.cmp.compare xs.length l.value
  | .array, _ => false
  | .int, some (.num r) => intOk o r && l.cmp.compare (o.asInt r) l.value
  | .int, some (.str r) => intOk o r && l.cmp.compare (o.asInt r) l.value
  | .int, _ => false
where
  /-- the text is an integer: a zero result is believed only for the text "0" -/
  intOk (o : Oracle) (r : Bytes) : Bool := !(o.asInt r == 0 && r != [48])

def specTs (o : Oracle) (now : Int) (t : TsCmp) (ev : JTree) : Bool :=
  match dig ev t.path with
  | some (.str sv) =>
    (match o.parseTime t.format sv with
     | some lhs =>
       t.cmp.compare lhs (match t.mode with
         | .now => now + t.interval + t.shift
         | .const => t.constVal + t.shift)
     | none => false)
  | _ => false

def specType (c : TypeCheck) (ev : JTree) : Bool :=
  c.values.any (fun v => typeFn v (dig ev c.path))

mutual
  /-- the naive evaluator: plain recursion, boolean connectives -/
  def spec (o : Oracle) (now : Int) (ev : JTree) : Node → Bool
    | .field f => specField o f (dig ev f.path)
    | .lenCmp l => specLen o l ev
    | .tsCmp t => specTs o now t ev
    | .checkType c => specType c ev
    | .and ops => specAll o now ev ops
    | .or ops => specAny o now ev ops
    | .not ops => specNot o now ev ops
  def specAll (o : Oracle) (now : Int) (ev : JTree) : List Node → Bool
    | [] => true
    | x :: xs => spec o now ev x && specAll o now ev xs
  def specAny (o : Oracle) (now : Int) (ev : JTree) : List Node → Bool
    | [] => false
    | x :: xs => spec o now ev x || specAny o now ev xs
  def specNot (o : Oracle) (now : Int) (ev : JTree) : List Node → Bool
    | [] => false
    | x :: _ => !spec o now ev x
end

/-! ## known shapes (used by the check to tell a recorded finding from a new violation)

  A leaf *exhibits a known shape* when it is of the kind a recorded finding is about; on such
  a leaf both the documented answer and the as-coded answer are admitted, everywhere else only
  the documented answer. `admits` evaluates the tree over sets of admitted answers
  `(canBeTrue, canBeFalse)`. -/

structure Relax where
  lower     : Bool   -- case-insensitive short-cuts see lengths that lower-casing changes
  container : Bool   -- array / object seen as one NUL byte by a field op
  escapes   : Bool   -- byte_len_cmp over an array / object holding strings or keys with JSON escapes
deriving Repr

/-- the lower-casing oracle changes a length, or does not commute with the truncation the code
    performs before lower-casing -/
def lowerShape (o : Oracle) (f : FieldOp) (d : Option Bytes) : Bool :=
  !f.cs &&
  (f.values.any (fun v => blen (v.map o.lower) != blen v) ||
   (o.lower (bytesOf d)).length != blen d ||
   (match f.op with
    | .prefix =>
      let m := maxValLen f.values
      o.lower ((bytesOf d).take m) != (o.lower (bytesOf d)).take m
    | .suffix =>
      let m := maxValLen f.values
      o.lower ((bytesOf d).drop (blen d - m)) != (o.lower (bytesOf d)).drop (blen d - m)
    | _ => false))

mutual
  /-- some string or key inside needs JSON escaping -/
  def hasEsc : JTree → Bool
    | .arr xs => hasEscList xs
    | .obj kvs => hasEscFields kvs
    | .str s => escLen s != s.length
    | _ => false
  def hasEscList : List JTree → Bool
    | [] => false
    | x :: xs => hasEsc x || hasEscList xs
  def hasEscFields : List (Bytes × JTree) → Bool
    | [] => false
    | (k, v) :: kvs => escLen k != k.length || hasEsc v || hasEscFields kvs
end

def both (quirk : Bool) (sv cv : Bool) : Bool × Bool :=
  if quirk then (sv || cv, !sv || !cv) else (sv, !sv)

mutual
  def admits (r : Relax) (o : Oracle) (now : Int) (ev : JTree) : Node → Bool × Bool
    | .field f =>
      let node := dig ev f.path
      both ((r.container && isContainer node) || (r.lower && lowerShape o f (getOf node)))
        (specField o f node) (fieldCheck o f (getOf node))
    | .lenCmp l =>
      -- the as-coded count lies anywhere between "all unescaped" and "all raw": admit both answers
      if r.escapes && l.kind == .byte && isContainer (dig ev l.path) &&
          (match dig ev l.path with | some t => hasEsc t | none => false)
      then (true, true) else both false (specLen o l ev) false
    | .tsCmp t => both false (specTs o now t ev) false
    | .checkType c => both false (specType c ev) false
    | .and ops => admitsAll r o now ev ops
    | .or ops => admitsAny r o now ev ops
    | .not ops =>
      match ops with
      | [] => (false, true)
      | x :: _ => let a := admits r o now ev x; (a.2, a.1)
  def admitsAll (r : Relax) (o : Oracle) (now : Int) (ev : JTree) : List Node → Bool × Bool
    | [] => (true, false)
    | x :: xs =>
      let a := admits r o now ev x
      let b := admitsAll r o now ev xs
      (a.1 && b.1, a.2 || b.2)
  def admitsAny (r : Relax) (o : Oracle) (now : Int) (ev : JTree) : List Node → Bool × Bool
    | [] => (false, true)
    | x :: xs =>
      let a := admits r o now ev x
      let b := admitsAny r o now ev xs
      (a.1 || b.1, a.2 && b.2)
end

def admitted (r : Relax) (o : Oracle) (now : Int) (ev : JTree) (n : Node) (res : Bool) : Bool :=
  let a := admits r o now ev n
  if res then a.1 else a.2

/-! ## match_fields -/

/-- one condition, as documented -/
def condHolds (re : Bytes → Bytes → Bool) (byPrefix : Bool) (ev : JTree) (c : Cond) : Bool :=
  match dig ev c.path with
  | none => false
  | some node =>
    let value := asString node
    match c.regexp with
    | some p => re p value
    | none => c.values.any (fun v => if byPrefix then v.isPrefixOf value else v == value)

def specMatch (re : Bytes → Bytes → Bool) (mode : Mode) (conds : List Cond) (invert : Bool) (ev : JTree) : Bool :=
  let m := match mode with
    | .and => conds.all (condHolds re false ev)
    | .andPrefix => conds.all (condHolds re true ev)
    | .or => conds.any (condHolds re false ev)
    | .orPrefix => conds.any (condHolds re true ev)
  if invert then !m else m

end FileD.SpecC14
