/-
  C10 — specification and executable oracle.

  The property, per observation point (after a `Commit`): every marked head `(topic, partition) ↦
  (epoch, offset)` of the Kafka client
    * is a record's own: some record of that topic/partition that was acknowledged has exactly
      this leader epoch and `offset = record.offset + 1` (hence: at most one past a consumed
      record, own topic / partition / epoch)                                           — `Own`
    * does not pass an unfinished record: every consumed record of that topic/partition that is
      neither acknowledged nor dropped has `record.offset ≥ offset`                     — `NoPass`
  `Own` is parametrised by the set of records a mark may be one past: the theorems instantiate it
  with the ACKNOWLEDGED records (what the code does), the run-time oracle with every CONSUMED record
  (what the property demands); a mark one past a refused / dropped record with nothing unfinished
  before it is not a violation.
  The Bool versions are what `fdmodel` evaluates on the implementation's observed marks; Props/C10
  proves them equivalent to the Prop versions (`ownB_iff`, `noPassB_iff`).
-/
import FileD.Model.KafkaCommit
namespace FileD.SpecC10
open FileD.KafkaCommit

/-- the quantifier range of the property: topic index below 2^48 (the real layout leaves 48 bits),
    partitions and leader epochs 0..65535, offsets 0..2^47-1 -/
def inRange (index part offset epoch : Int) : Bool :=
  decide (0 ≤ index ∧ index < 2 ^ 48 ∧ 0 ≤ part ∧ part < 2 ^ 16 ∧ 0 ≤ offset ∧ offset < 2 ^ 47 ∧
          0 ≤ epoch ∧ epoch < 2 ^ 16)

/-- packing round trip on the implementation's results: unpacked index / partition are the
    record's, the marked head is (epoch, offset + 1) -/
def packOk (index part offset epoch : Int) (idx' part' markOff markEpoch : Int) : Bool :=
  decide (idx' = index ∧ part' = part ∧ markOff = offset + 1 ∧ markEpoch = epoch)

def Own (recs : List Rec) (acked : List Nat) (m : TP × EO) : Prop :=
  ∃ i r, i ∈ acked ∧ recs[i]? = some r ∧ r.tp = m.1 ∧ r.eo = m.2

def ownB (recs : List Rec) (acked : List Nat) (m : TP × EO) : Bool :=
  acked.any fun i =>
    match recs[i]? with
    | some r => decide (r.tp = m.1) && decide (r.eo = m.2)
    | none => false

def NoPass (recs : List Rec) (finished : List Nat) (m : TP × EO) : Prop :=
  ∀ j r, recs[j]? = some r → j ∉ finished → r.tp = m.1 → m.2.2 ≤ r.offset

def noPassB (recs : List Rec) (finished : List Nat) (m : TP × EO) : Bool :=
  recs.zipIdx.all fun (r, j) =>
    decide (j ∈ finished) || !(decide (r.tp = m.1)) || decide (m.2.2 ≤ r.offset)

/-- all marks of a state satisfy both clauses -/
def Holds (recs : List Rec) (finished acked : List Nat) (marks : Marks) : Prop :=
  ∀ m ∈ marks, Own recs acked m ∧ NoPass recs finished m

/-- verdict on one observation: `own` failures (foreign topic / partition / epoch, more than one
    past a consumed record) take precedence over `pass` (the mark passes an unfinished record) -/
def verdict (recs : List Rec) (finished acked : List Nat) (marks : Marks) : String :=
  if !(marks.all (ownB recs acked)) then "fail:own"
  else if !(marks.all (noPassB recs finished)) then "fail:pass"
  else "ok"

/-- first non-ok verdict of a list of observations -/
def firstBad : List String → String
  | [] => "ok"
  | v :: vs => if v = "ok" then firstBad vs else v

/-! ### hypotheses of the partial theorems -/

/-- an acknowledgement is *in consumption order* when every earlier-consumed record of the same
    topic/partition is already finished (acknowledged or dropped) -/
def AckInOrder (s : State) : Op → Prop
  | .ack i => ∀ j ri rj, j < i → s.recs[j]? = some rj → s.recs[i]? = some ri → rj.tp = ri.tp → j ∈ s.finished
  | _ => True

/-- every acknowledgement of the run is in consumption order -/
def OrderedRun (c : Cfg) : State → List Op → Prop
  | _, [] => True
  | s, op :: ops => AckInOrder s op ∧ ∀ s', step? c s op = some s' → OrderedRun c s' ops

end FileD.SpecC10
