/-
  Spec side of the join_template classifiers: the character classes of the REGULAR EXPRESSIONS
  the fast-path checks replace (comments in `template/template.go`, `go_panic.go`,
  `cs_exception.go`), written literally:

      (^\s*$)  (^\s*at\s.*)  (\s*--->)            \s      = [\t\n\f\r ]        (RE2)
      (goroutine [0-9]+ \[)  (\.go:[0-9]+)        [0-9]
      (panic.+[0-9]x[0-9,a-f]+)                   [0-9,a-f]   — the comma IS in the class
      ([A-Za-z_]+[A-Za-z0-9_]*\)?\.[A-Za-z0-9_]+\(.*\))   [A-Za-z_]  [A-Za-z0-9_]
      (\.?\w+\.?Exception:)                       \w      = [0-9A-Za-z_]
      (?i)                                        ASCII case folding of the letters involved

  INFORMATIVE ONLY: C15 does not require the fast path to equal these regexps (they exist only in
  code comments), so nothing here is an oracle of the check. `helperSpec` gives, for every helper
  of `ascii.go`, the regexp class it stands for; Props/C15.lean states the two deviations of the
  code as plain facts about the model: `IsSpace` lacks `\f` and `\r`, `IsHexDigit` lacks `,`.
-/
import FileD.Model.JoinTemplates
namespace FileD.SpecC15Templates
open FileD

def inRange (lo hi : Nat) (c : UInt8) : Bool := decide (lo ≤ c.toNat ∧ c.toNat ≤ hi)

/-- `\s` (RE2, Perl class): tab, newline, form feed, carriage return, space -/
def reSpace (c : UInt8) : Bool := c == 9 || c == 10 || c == 12 || c == 13 || c == 32
/-- `[0-9]` -/
def reDigit (c : UInt8) : Bool := inRange 48 57 c
/-- `[0-9,a-f]` -/
def reHexClass (c : UInt8) : Bool := inRange 48 57 c || c == 44 || inRange 97 102 c
/-- `[a-z]`, `[A-Z]`, `[A-Za-z]`, `[A-Za-z_]`, `[A-Za-z0-9_]` = `\w` -/
def reLower (c : UInt8) : Bool := inRange 97 122 c
def reUpper (c : UInt8) : Bool := inRange 65 90 c
def reLetter (c : UInt8) : Bool := inRange 65 90 c || inRange 97 122 c
def reIdentStart (c : UInt8) : Bool := inRange 65 90 c || inRange 97 122 c || c == 95
def reWord (c : UInt8) : Bool := inRange 65 90 c || inRange 97 122 c || inRange 48 57 c || c == 95
/-- `(?i)` on bytes: upper-case ASCII letters fold to lower case, nothing else moves -/
def reFold (c : UInt8) : UInt8 := if inRange 65 90 c then UInt8.ofNat (c.toNat + 32) else c

def helperSpec (name : String) : Option (List Nat) :=
  let bytes := (List.range 256).map UInt8.ofNat
  let b (f : UInt8 → Bool) := some (bytes.map (fun c => if f c then 1 else 0))
  match name with
  | "IsSpace" => b reSpace
  | "IsDigit" => b reDigit
  | "IsHexDigit" => b reHexClass
  | "IsLowerCaseLetter" => b reLower
  | "IsUpperCaseLetter" => b reUpper
  | "IsLetter" => b reLetter
  | "IsLetterOrUnderscore" => b reIdentStart
  | "IsLetterOrUnderscoreOrDigit" => b reWord
  | "ToLower" => some (bytes.map (fun c => (reFold c).toNat))
  | _ => none

end FileD.SpecC15Templates
