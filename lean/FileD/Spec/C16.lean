/-
  Spec of C16. Everything here is *stateless*: it speaks about the events that were seen and the
  pass / discard answers that were given, never about rings of buckets, shifts, resets, the
  limiters map or its expiry.

  * `attr`     : the bucket an event is attributed to (its own time bucket when that lies inside
                 the retained window `[bucket(now) - count + 1, bucket(now)]`, the newest otherwise);
  * `passed`   : total amount (count or size) of passed events of one limiter key in one bucket;
  * `arrived`  : the same over all arrivals;
  * `holds`    : the executable oracle `./check` evaluates on the implementation's answers;
  * `Abs`      : the abstract machine "one unbounded counter per (limiter key, bucket id,
                 distribution column), never reset" which the model is proved to refine.
  Core Lean only.
-/
import FileD.Model.Throttle
namespace FileD.SpecC16
open FileD FileD.Throttle

def ruleOf (cfg : Cfg) (e : Ev) : Option (Nat × Rule) := firstMatch cfg.rules 0 e

def limKeyOf (cfg : Cfg) (e : Ev) : Option Bytes :=
  match ruleOf cfg e with
  | some ir => some (limKey ir.1 (throttleKey e))
  | none => none

def valOf (cfg : Cfg) (e : Ev) : Int :=
  match ruleOf cfg e with
  | some ir => evVal ir.2.kind e
  | none => 0

/-- the time bucket of an instant: floor division (Lean's `/` on `Int` with a positive divisor) -/
def bucketOf (cfg : Cfg) (t : Int) : Int := t / cfg.interval

/-- bucket id an event counts against -/
def attr (cfg : Cfg) (e : Ev) : Int :=
  if bucketOf cfg e.ts < bucketOf cfg e.now - cfg.count + 1 ∨ bucketOf cfg e.ts > bucketOf cfg e.now
  then bucketOf cfg e.now else bucketOf cfg e.ts

def hits (cfg : Cfg) (lk : Bytes) (id : Int) (e : Ev) : Bool :=
  limKeyOf cfg e == some lk && attr cfg e == id

/-- amount of all arrivals of limiter key `lk` attributed to bucket `id` -/
def arrived (cfg : Cfg) (lk : Bytes) (id : Int) : List Ev → Int
  | [] => 0
  | e :: t => (if hits cfg lk id e then valOf cfg e else 0) + arrived cfg lk id t

/-- amount of the passed events of limiter key `lk` attributed to bucket `id` -/
def passed (cfg : Cfg) (lk : Bytes) (id : Int) : List (Ev × Bool) → Int
  | [] => 0
  | x :: t => (if x.2 && hits cfg lk id x.1 then valOf cfg x.1 else 0) + passed cfg lk id t

/-- index of the listed distribution value of an event, if its value is listed -/
def listedIdx (d : Distr) (e : Ev) : Option Nat :=
  d.idxByKey.lookup (fieldVal e.fields d.field)

/-- amount of the passed events of `lk` in bucket `id` whose distribution value is listed under
    ratio index `j` of the distribution `r` -/
def passedListed (cfg : Cfg) (r : Distr) (lk : Bytes) (id : Int) (j : Nat) : List (Ev × Bool) → Int
  | [] => 0
  | x :: t => (if x.2 && hits cfg lk id x.1 && (listedIdx r x.1 == some j) then valOf cfg x.1 else 0)
      + passedListed cfg r lk id j t

def sumInts : List Int → Int
  | [] => 0
  | x :: t => x + sumInts t

/-- Σ shares of a distribution: the default share plus every listed share -/
def sumShares (d : Distr) : Int := d.defLimit + sumInts d.limits

/-! ### hypotheses of the theorems, as executable checks (the oracle is only applied inside them) -/

/-- `now` never goes back and is at least one retained window after the epoch (so that the
    `minID == 0` "not set yet" sentinel of `rebuildBuckets` is never hit by a set minID) -/
def nowOK (cfg : Cfg) : Int → List Ev → Bool
  | _, [] => true
  | last, e :: t => decide (last ≤ e.now) && decide ((cfg.count : Int) * cfg.interval ≤ e.now) && nowOK cfg e.now t

def sizesOK : List Ev → Bool
  | [] => true
  | e :: t => decide (0 ≤ e.size) && sizesOK t

def distrOK (d : Distr) : Bool :=
  d.idxByKey.all (fun kv => decide (kv.2 < d.limits.length)) &&
  d.limits.all (fun x => decide (0 ≤ x)) && decide (0 ≤ d.defLimit)

/-- the part of `cfgOK` the oracle excuses a run for (`rules.length ≤ 256` is NOT excused: with
    more rules the rule index byte of the limiter key wraps and rules share limiters) -/
def cfgScope (cfg : Cfg) : Bool :=
  decide (0 < cfg.count) && decide (0 < cfg.interval) &&
  cfg.rules.all (fun r => !r.distr.isEnabled || distrOK r.distr)

def cfgOK (cfg : Cfg) : Bool := cfgScope cfg && decide (cfg.rules.length ≤ 256)

/-- the hypothesis of the `…_partial` theorems about the limiters map's expiry: whenever an event
    finds no limiter for its key (`live` = keys that have one; a key loses it by `expire`), no
    earlier event of that key (`hist`) is attributed to a bucket that is still inside the retained
    window. First use of a key satisfies it trivially. -/
def SafeExpiry (cfg : Cfg) : List Bytes → List Ev → List Op → Prop
  | _, _, [] => True
  | live, hist, .expire k :: ops => SafeExpiry cfg (live.filter (fun k' => k' != k)) hist ops
  | live, hist, .ev e :: ops =>
    (∀ k, limKeyOf cfg e = some k → k ∈ live ∨
        ∀ e' ∈ hist, limKeyOf cfg e' = some k → attr cfg e' < bucketOf cfg e.now - cfg.count + 1) ∧
    SafeExpiry cfg (match limKeyOf cfg e with | some k => k :: live | none => live) (e :: hist) ops

/-- no `expire` op at all -/
def noExpire : List Op → Bool
  | [] => true
  | .ev _ :: t => noExpire t
  | .expire _ :: _ => false

/-- the ops that concern limiter key `k`: its events and its expiries -/
def onKey (cfg : Cfg) (k : Bytes) : List Op → List Op
  | [] => []
  | .ev e :: t => if limKeyOf cfg e = some k then .ev e :: onKey cfg k t else onKey cfg k t
  | .expire k' :: t => if k' = k then .expire k' :: onKey cfg k t else onKey cfg k t

/-- the answers given to the events of limiter key `k` -/
def answersFor (cfg : Cfg) (k : Bytes) : List Op → List Res → List Res
  | .ev e :: ops, r :: rs =>
    if limKeyOf cfg e = some k then r :: answersFor cfg k ops rs else answersFor cfg k ops rs
  | .expire _ :: ops, _ :: rs => answersFor cfg k ops rs
  | _, _ => []

/-! ### the oracle -/

def allIdx (n : Nat) (f : Nat → Bool) : Bool := (List.range n).all f

/-- an event no rule matches, or whose rule has a negative limit, passes -/
def mustPassOK (cfg : Cfg) (x : Ev × Bool) : Bool :=
  match ruleOf cfg x.1 with
  | none => x.2
  | some ir => if ir.2.limit < 0 then x.2 else true

/-- safety clause for the (limiter key, bucket) of one observed event -/
def pairOK (cfg : Cfg) (obs : List (Ev × Bool)) (x : Ev × Bool) : Bool :=
  match ruleOf cfg x.1 with
  | none => true
  | some ir =>
    let lk := limKey ir.1 (throttleKey x.1)
    let id := attr cfg x.1
    if ir.2.limit < 0 then true
    else if ir.2.distr.isEnabled then
      allIdx ir.2.distr.limits.length (fun j =>
        match ir.2.distr.limits[j]? with
        | some s => decide (passedListed cfg ir.2.distr lk id j obs ≤ s)
        | none => true) &&
      decide (passed cfg lk id obs ≤ sumShares ir.2.distr)
    else decide (passed cfg lk id obs ≤ ir.2.limit)

/-- liveness clause: a rejected event of a rule without distribution saw its bucket over the
    limit, itself included (`pre` = the events before it) -/
def rejectOK (cfg : Cfg) : List Ev → List (Ev × Bool) → Bool
  | _, [] => true
  | pre, x :: t =>
    (match ruleOf cfg x.1 with
     | none => true
     | some ir =>
       if x.2 || ir.2.distr.isEnabled || decide (ir.2.limit < 0) then true
       else decide (ir.2.limit < arrived cfg (limKey ir.1 (throttleKey x.1)) (attr cfg x.1) (pre ++ [x.1])))
    && rejectOK cfg (pre ++ [x.1]) t

def ruleIdxOf (cfg : Cfg) (e : Ev) : Option Nat :=
  match ruleOf cfg e with
  | some ir => some ir.1
  | none => none

/-- the (rule, limiter key, bucket) triples to look at: one representative event per triple -/
def reps (cfg : Cfg) : List (Ev × Bool) → List (Option Nat × Option Bytes × Int) → List (Ev × Bool)
  | [], _ => []
  | x :: t, seen =>
    if seen.contains (ruleIdxOf cfg x.1, limKeyOf cfg x.1, attr cfg x.1) then reps cfg t seen
    else x :: reps cfg t ((ruleIdxOf cfg x.1, limKeyOf cfg x.1, attr cfg x.1) :: seen)

/-- over-limit check (safety) of the observed answers -/
def safeHolds (cfg : Cfg) (obs : List (Ev × Bool)) : Bool :=
  obs.all (mustPassOK cfg) && (reps cfg obs []).all (pairOK cfg obs)

inductive Verdict
  | ok
  | outOfScope
  | overLimit
  | rejectedUnderLimit
deriving DecidableEq, Repr

/-- the oracle: inside the hypotheses `cfgScope`, `nowOK`, `sizesOK` the observed answers must not
    exceed any limit (full statement: expiry is NOT excused); `rejectOK` is only demanded of runs
    without expiry (`noExpiry`), where it is a theorem of the model -/
def verdict (cfg : Cfg) (obs : List (Ev × Bool)) (noExpiry : Bool) : Verdict :=
  if !(cfgScope cfg && nowOK cfg ((cfg.count : Int) * cfg.interval) (obs.map (·.1)) && sizesOK (obs.map (·.1))) then .outOfScope
  else if !safeHolds cfg obs then .overLimit
  else if noExpiry && !rejectOK cfg [] obs then .rejectedUnderLimit
  else .ok

/-! ### the abstract machine -/

/-- one unbounded counter per (limiter key, bucket id, distribution column) -/
abbrev Cnt := Bytes → Int → Nat → Int

def Cnt.zero : Cnt := fun _ _ _ => 0

def Cnt.add (c : Cnt) (k : Bytes) (id : Int) (col : Nat) (v : Int) : Cnt :=
  fun k' id' col' => if k' = k ∧ id' = id ∧ col' = col then c k' id' col' + v else c k' id' col'

structure PickA where
  maxDiff : Int
  col : Nat
  limit : Int

/-- the stealing loop over the listed shares, on a row given as a function -/
def stealA (get : Nat → Int) (val : Int) : List Int → Nat → PickA → PickA
  | [], _, p => p
  | dl :: ds, i, p =>
    if dl - (get (i + 1) + val) > p.maxDiff then stealA get val ds (i + 1) ⟨dl - (get (i + 1) + val), i + 1, dl⟩
    else stealA get val ds (i + 1) p

/-- column and limit an event is checked against (distribution enabled) -/
def distrA (d : Distr) (k : Kind) (get : Nat → Int) (e : Ev) : Nat × Int :=
  match listedIdx d e with
  | some j =>
    match d.limits[j]? with
    | some s => (j + 1, s)
    | none => (0, d.defLimit)     -- excluded by `distrOK`
  | none =>
    if get 0 + evVal k e ≤ d.defLimit then (0, d.defLimit)
    else ((stealA get (evVal k e) d.limits 0 ⟨-1, 0, d.defLimit⟩).col,
          (stealA get (evVal k e) d.limits 0 ⟨-1, 0, d.defLimit⟩).limit)

/-- column and limit an event of rule `r` is checked against -/
def colLim (r : Rule) (get : Nat → Int) (e : Ev) : Nat × Int :=
  if r.distr.isEnabled then distrA r.distr r.kind get e else (0, r.limit)

/-- one event on the abstract machine -/
def absStep (cfg : Cfg) (c : Cnt) (e : Ev) : Cnt × Bool :=
  match ruleOf cfg e with
  | none => (c, true)
  | some ir =>
    if ir.2.limit < 0 then (c, true) else
    let lk := limKey ir.1 (throttleKey e)
    let id := attr cfg e
    let cl := colLim ir.2 (c lk id) e
    let c' := c.add lk id cl.1 (evVal ir.2.kind e)
    (c', decide (c' lk id cl.1 ≤ cl.2))

/-- answers of the abstract machine (`expire` does nothing to it) -/
def absResults (cfg : Cfg) : Cnt → List Op → List Res
  | _, [] => []
  | c, .ev e :: ops =>
    (if (absStep cfg c e).2 then Res.pass else Res.discard) :: absResults cfg (absStep cfg c e).1 ops
  | c, .expire _ :: ops => Res.expired :: absResults cfg c ops

/-- the events of an op list -/
def evs : List Op → List Ev
  | [] => []
  | .ev e :: t => e :: evs t
  | .expire _ :: t => evs t

/-- the events of an op list with the answer each one got -/
def observe : List Op → List Res → List (Ev × Bool)
  | .ev e :: ops, r :: rs => (e, r == Res.pass) :: observe ops rs
  | .expire _ :: ops, _ :: rs => observe ops rs
  | _, _ => []

/-- hypotheses shared by the property theorems: static configuration, clock, expiry -/
structure Hyp (cfg : Cfg) (ops : List Op) : Prop where
  hcfg : cfgOK cfg = true
  hnow : nowOK cfg ((cfg.count : Int) * cfg.interval) (evs ops) = true
  hsafe : SafeExpiry cfg [] [] ops

/-- what the repaired configuration guarantees (limiter_expiration ≥ bucket_interval ×
    buckets_count, clock = wall clock): a key that lost its limiter comes back only when the
    clock's bucket is at least `buckets_count` buckets after the clock's bucket of every earlier
    event of that key -/
def SilentExpiry (cfg : Cfg) : List Bytes → List Ev → List Op → Prop
  | _, _, [] => True
  | live, hist, .expire k :: ops => SilentExpiry cfg (live.filter (fun k' => k' != k)) hist ops
  | live, hist, .ev e :: ops =>
    (∀ k, limKeyOf cfg e = some k → k ∈ live ∨
        ∀ e' ∈ hist, limKeyOf cfg e' = some k → bucketOf cfg e'.now + cfg.count ≤ bucketOf cfg e.now) ∧
    SilentExpiry cfg (match limKeyOf cfg e with | some k => k :: live | none => live) (e :: hist) ops

/-! ### the limiters map on the wall clock -/

/-- the events of an op sequence of the map -/
def mevs : List MOp → List Ev
  | [] => []
  | .ev e :: t => e :: mevs t
  | .tick _ :: t => mevs t

/-- one clock drives everything, as in production (`nowFn` = `time.Now`, maintenance reads
    `time.Now`): `cur` = time (µs) of the last maintenance iteration (the map's generation), `last` =
    clock (ns) of the last event. Events happen at or after the last maintenance iteration and at
    most `δ` ns after it (`δ` = the longest gap between two maintenance iterations: how stale a
    generation stamp can be); maintenance iterations and events never go back in time; the clock is
    at least one retained window after the epoch (`nowOK`). -/
def ClockOK (cfg : Cfg) (δ : Int) : Int → Int → List MOp → Prop
  | _, _, [] => True
  | cur, last, .ev e :: ops =>
    last ≤ e.now ∧ cur * 1000 ≤ e.now ∧ e.now ≤ cur * 1000 + δ ∧
      (cfg.count : Int) * cfg.interval ≤ e.now ∧ ClockOK cfg δ cur e.now ops
  | cur, last, .tick t :: ops => cur ≤ t ∧ last ≤ t * 1000 ∧ ClockOK cfg δ t last ops

/-- key `k` is accessed at least once per expiration: at every maintenance iteration `t` the
    generation `g` in which `k` was last accessed (`none`: never) satisfies `t - g < exp` -/
def BusyKey (cfg : Cfg) (exp : Int) (k : Bytes) : Int → Option Int → List MOp → Prop
  | _, _, [] => True
  | cur, s, .ev e :: ops => BusyKey cfg exp k cur (if limKeyOf cfg e = some k then some cur else s) ops
  | _, s, .tick t :: ops => (∀ g, s = some g → t - g < exp) ∧ BusyKey cfg exp k t s ops

end FileD.SpecC16
