/-
  Spec of C15 for `join` / `join_template`: what ONE STREAM's event sequence must turn into,
  written as "group into maximal runs, concatenate" and never mentioning the plugin's state.

    * every event is classified ON ITS OWN: `start` (field is a string and the start
      classifier accepts it), `cont` (field present, not a start, continue classifier accepts
      it, `negate` applied), `other` (field absent, or neither);
    * a RUN is a start event followed by the maximal block of `cont` events right after it;
      it is closed by whatever comes next: an `other` event, the next `start`, or a time-out;
    * a closed run becomes ONE event: the start event with the field replaced by the in-order
      concatenation of the run's field values, cut exactly where the plugin stops appending
      (`fits`: values are taken while the length so far is below `max_event_size`);
    * everything else (events outside runs, `cont` events with no run before them) goes through
      unchanged, in order; a run still open at the end of the input is still held.
-/
import FileD.Model.Join
namespace FileD.SpecC15
open FileD FileD.Join

inductive Cls | start | cont | other
deriving Repr, DecidableEq

/-- classification of an event by the event alone -/
def classify (cfg : Cfg) (e : Ev) : Cls :=
  match JTree.dig e.root cfg.path with
  | none => .other
  | some node =>
    if node.isStr && e.startOK then .start
    else if e.contOK != cfg.negate then .cont
    else .other

/-- the text the event contributes to a run (`node.AsString()`) -/
def value (cfg : Cfg) (e : Ev) : Bytes :=
  match JTree.dig e.root cfg.path with
  | none => []
  | some node => asString node

inductive Seg
  | run (first : Ev) (conts : List Ev)   -- a start event and the maximal block of continuations after it
  | orphan (e : Ev)                      -- a continuation with no run before it
  | single (e : Ev)                      -- an event that is neither
  | tmo (tag : Nat)                      -- a time-out
deriving Repr

/-- the maximal block of continuation events at the head -/
def takeOrphans : List Seg → List Ev × List Seg
  | .orphan e :: r => (e :: (takeOrphans r).1, (takeOrphans r).2)
  | .run f cs :: r => ([], .run f cs :: r)
  | .single e :: r => ([], .single e :: r)
  | .tmo t :: r => ([], .tmo t :: r)
  | [] => ([], [])

/-- a run that already has continuations `cs` absorbs the continuation block that follows -/
def openRun (f : Ev) (cs : List Ev) (ss : List Seg) : List Seg :=
  .run f (cs ++ (takeOrphans ss).1) :: (takeOrphans ss).2

/-- grouping into maximal runs (right to left: a start absorbs the block after it) -/
def segs (cfg : Cfg) : List In → List Seg
  | [] => []
  | .timeout t :: r => .tmo t :: segs cfg r
  | .ev e :: r =>
    match classify cfg e with
    | .start => openRun e [] (segs cfg r)
    | .cont => .orphan e :: segs cfg r
    | .other => .single e :: segs cfg r

/-- the values of a run that are appended: taken while the length so far is below `max` -/
def fits (max : Nat) : Nat → List Bytes → List Bytes
  | _, [] => []
  | acc, v :: vs => if max = 0 ∨ acc < max then v :: fits max (acc + v.length) vs else []

/-- the field of the joined event: first line, then every continuation that still fits -/
def joinedValue (cfg : Cfg) (f : Ev) (cs : List Ev) : Bytes :=
  value cfg f ++ (fits cfg.maxSize (value cfg f).length (cs.map (value cfg))).flatten

def joined (cfg : Cfg) (f : Ev) (cs : List Ev) : OEv :=
  ⟨f.tag, setPath cfg.path f.root (.str (joinedValue cfg f cs))⟩

/-- what leaves the action, in order -/
def emit (cfg : Cfg) : List Seg → List OEv
  | [] => []
  | .run f cs :: rest => (if rest.isEmpty then [] else [joined cfg f cs]) ++ emit cfg rest
  | .orphan e :: rest => e.out :: emit cfg rest
  | .single e :: rest => e.out :: emit cfg rest
  | .tmo _ :: rest => emit cfg rest

/-- **the spec**: output sequence of one stream's input sequence -/
def spec (cfg : Cfg) (items : List In) : List OEv := emit cfg (segs cfg items)

/-- is the instance in the middle of a run after this call -/
def busyAfter (cfg : Cfg) (busy : Bool) : In → Bool
  | .timeout _ => false
  | .ev e =>
    match classify cfg e with
    | .start => true
    | .cont => busy
    | .other => false

/-- the answers: a start is held, a continuation of an open run is collapsed, a time-out is
    discarded, everything else passes -/
def specResults (cfg : Cfg) : Bool → List In → List Res
  | _, [] => []
  | busy, .timeout t :: r => .discard :: specResults cfg (busyAfter cfg busy (.timeout t)) r
  | busy, .ev e :: r =>
    (match classify cfg e with
     | .start => Res.hold
     | .cont => if busy then .collapse else .pass
     | .other => .pass) :: specResults cfg (busyAfter cfg busy (.ev e)) r

/-- hypothesis on the input (guaranteed by the processor: a time-out event is only created by
    `blockGet`, which only runs while an action is busy): time-outs arrive mid-run only -/
def timely (cfg : Cfg) : Bool → List In → Bool
  | _, [] => true
  | busy, .timeout t :: r => busy && timely cfg (busyAfter cfg busy (.timeout t)) r
  | busy, .ev e :: r => timely cfg (busyAfter cfg busy (.ev e)) r

def tagOf : In → Nat
  | .timeout t => t
  | .ev e => e.tag

/-- the stream of the run that is open after this call -/
def openAfter (cfg : Cfg) (cur : Option Nat) : In → Option Nat
  | .timeout _ => none
  | .ev e =>
    match classify cfg e with
    | .start => some e.tag
    | .cont => cur
    | .other => none

/-- hypothesis on the per-instance view (from §C02/§C04 `single_owner` + `blockGet`): while a run
    of stream `t` is open the next call is an event or time-out of stream `t` -/
def coherent (cfg : Cfg) : Option Nat → List In → Bool
  | _, [] => true
  | cur, x :: r =>
    (match cur with
     | some t => tagOf x == t
     | none => true) && coherent cfg (openAfter cfg cur x) r

/-! ### join_template: the per-event classifier bits its closures amount to -/

/-- the current template's verdict on a continuation (false where `nextCheck` cannot be reached) -/
def contBit (tcfg : TCfg) (cur : Int) (e : TEv) : Bool :=
  match nextCheck tcfg cur e with
  | .ok b => b
  | .error _ => false

/-- plain view of a template event: `startOK` = some template's StartCheck accepts a string
    value (and that template becomes current), `contOK` = the current template's ContinueCheck,
    negated when the template says so; second component = `curTemplateIdx` after the call -/
def resolve1 (tcfg : TCfg) (cur : Int) : TIn → In × Int
  | .timeout t => (.timeout t, cur)
  | .ev e =>
    let isStr := match JTree.dig e.root tcfg.path with
      | some node => node.isStr
      | none => false
    match (if isStr then firstIdx e.starts 0 else none) with
    | some i => (.ev (e.plain true false), ((i : Nat) : Int))
    | none =>
      (.ev (e.plain false (contBit tcfg cur e)), cur)

def resolve (tcfg : TCfg) : Int → List TIn → List In
  | _, [] => []
  | cur, x :: r => (resolve1 tcfg cur x).1 :: resolve tcfg (resolve1 tcfg cur x).2 r

/-! ### executable oracle applied to the implementation's observed result -/

def oevEq (a b : OEv) : Bool := a.tag == b.tag && a.root.toToks == b.root.toToks

def oevsEq : List OEv → List OEv → Bool
  | [], [] => true
  | a :: as, b :: bs => oevEq a b && oevsEq as bs
  | _, _ => false

/-- the observed calls satisfy C15 (the values are those of the events AS THE OUTPUT SEES THEM
    WHENEVER IT ENCODES THEM: an event handed over must keep its value — the harness reads each
    one again at the end of the case and reports `changed` otherwise, see Drv/C15.lean): no panic, every call answered, the downstream sequence is
    the spec's and the answers are the spec's; with an ill-timed time-out in the input the
    plugin's documented reaction is a panic at that call and nothing is required after it -/
def holds (cfg : Cfg) (items : List In) (outs : List Out) (panicked : Bool) : Bool :=
  if timely cfg false items then
    !panicked && outs.length == items.length &&
    oevsEq (downstream outs) (spec cfg items) &&
    (outs.map (·.res)) == specResults cfg false items
  else panicked

end FileD.SpecC15
