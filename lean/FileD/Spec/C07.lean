/-
  Spec of C07 and the executable oracles the check applies to the *implementation's* results.

    * format:   what was saved loads back to exactly the live jobs of the table  (`rtHolds`)
    * protocol: after any (possibly failed / killed) save the offsets file loads to the previous
      or the new snapshot, and — derived from the observed syscall order on the two-level file
      system — it held the previous or the new snapshot on both levels after every step  (`protoHolds`)
    * commits vs saves: every loaded snapshot entry is a value that job's offsets had before  (`seqHolds`)
-/
import FileD.Model.OffsetsFile
import FileD.Model.SaveProto
import FileD.Model.CommitSnap
namespace FileD.SpecC07
open FileD FileD.OffsetsFile

/-! canonical form of a loaded table: jobs by source id, streams by name (both are Go maps) -/

def bytesLt : Bytes → Bytes → Bool
  | [], [] => false
  | [], _ :: _ => true
  | _ :: _, [] => false
  | a :: as, b :: bs => if a.toNat < b.toNat then true else if b.toNat < a.toNat then false else bytesLt as bs

def insertBy {α} (lt : α → α → Bool) (x : α) : List α → List α
  | [] => [x]
  | y :: ys => if lt x y then x :: y :: ys else y :: insertBy lt x ys

def sortBy {α} (lt : α → α → Bool) : List α → List α
  | [] => []
  | x :: xs => insertBy lt x (sortBy lt xs)

def canonJob (j : Job) : Job :=
  { j with inode := 0, offsets := sortBy (fun a b => bytesLt a.1 b.1) j.offsets }

/-- the inode is parsed but not kept by `inodeOffsets`, so it is not part of a loaded table -/
def canon (t : JobTable) : JobTable :=
  sortBy (fun a b => decide (a.sourceID < b.sourceID)) (t.map canonJob)

/-- the property's domain: offsets an event can carry (0 … 2^63−1) -/
def inDomain (t : JobTable) : Bool :=
  t.all (fun j => j.offsets.all (fun kv => decide (0 ≤ kv.2)))

/-- format oracle: the table the implementation loaded is exactly the live part of what was saved -/
def rtHolds (t : JobTable) (loaded : PM JobTable) : Bool :=
  !inDomain t ||
  (match loaded with
   | .ok l => decide (canon l = canon (live t))
   | .error _ => false)

/-- replay of observed syscalls on the two-level file system with no program counter: is the
    offsets file the previous or the new snapshot on both levels after every step? -/
def fsGoodAlong (data : Bytes) (old : Option Bytes) : SaveProto.FS → List SaveProto.Op → Bool
  | fs, [] => SaveProto.goodB old data fs
  | fs, op :: ops => SaveProto.goodB old data fs && fsGoodAlong data old (SaveProto.apply data fs op) ops

/-- protocol oracle -/
def protoHolds (data : Bytes) (old : Option Bytes) (ops : List SaveProto.Op) (disk : Option Bytes) : Bool :=
  (disk == old || disk == some data) && fsGoodAlong data old (SaveProto.init old).fs ops

/-- permissive replay of one save's observed ops (no program counter) from `fs`: the final file
    system, and whether the offsets file was, on each level, what it was when the save started or the
    save's buffer after every step -/
def saveReplay (data : Bytes) (oldv oldd : Option Bytes) : SaveProto.FS → List SaveProto.Op → SaveProto.FS × Bool
  | fs, [] => (fs, (fs.cur.vol == oldv || fs.cur.vol == some data) && (fs.cur.dur == oldd || fs.cur.dur == some data))
  | fs, op :: ops =>
    let here := (fs.cur.vol == oldv || fs.cur.vol == some data) && (fs.cur.dur == oldd || fs.cur.dur == some data)
    let (fs', rest) := saveReplay data oldv oldd (SaveProto.apply data fs op) ops
    (fs', here && rest)

/-- history oracle on the observed ops of every save: carried file system (left-over temp file
    included), good after every step of every save -/
def histGood (v : SaveProto.Variant) : SaveProto.FS → List (Bytes × List SaveProto.Op) → Bool
  | _, [] => true
  | fs, (data, ops) :: rest =>
    let fs0 := SaveProto.beginSave v fs
    let (fs', ok) := saveReplay data fs0.cur.vol fs0.cur.dur fs0 ops
    ok && histGood v fs' rest

end FileD.SpecC07
