/-
  Driver glue for C07. Case lines (`T` = table tokens `<njobs> (<file> <inode> <src> <ts> <k> (<stream> <off>)…)…`,
  `L` = load result `ok <n> (<file> <src> <ts> <k> (<stream> <off>)…)… | err | panic:bounds`, jobs by
  source id and streams by name):

    c07.rt <now> T                       | <n> <src…snapshot order> <file bytes> L
    c07.parse <now> <content>            | L
    c07.seq <nsrc> <nops> (c <src> <stream> <off> | t <src> | s)…
                                         | per op: `c` / `corrupt` / `t` / `s <n> <src…order> L`
    c07.conc <nsrc> <ncommits> <nsaves>  | event log: cs.<i>.<k> cd.<i>.<k> ss se L   (oracle only: real goroutines)
    c07.proto file <nf> (<act> <op>)… <hasold> T T
                                         | <n> <trace…> killed <0|1> disk <hex|none> load L
    c07.proto gen  <nf> (<act> <op>)… <hasold> <old> <new>
                                         | <n> <trace…> killed <0|1> disk <hex|none> load <hex|none|err>
  trace tokens: open.<ok> write.<n>.<ok> fsync.<ok> rename.<ok> close.<ok> unlink.<ok>
-/
import FileD.Prelude.Tok
import FileD.Model.OffsetsFile
import FileD.Model.SaveProto
import FileD.Model.CommitSnap
import FileD.Spec.C07
namespace FileD.DrvC07
open FileD Tok FileD.OffsetsFile FileD.SpecC07

abbrev P (α : Type) := List String → Option (α × List String)

def tok : P String
  | [] => none
  | t :: ts => some (t, ts)

def pNat : P Nat := fun ts => do let (t, r) ← tok ts; let n ← nat? t; pure (n, r)
def pInt : P Int := fun ts => do let (t, r) ← tok ts; let n ← int? t; pure (n, r)
def pBytes : P Bytes := fun ts => do let (t, r) ← tok ts; let b ← bytes? t; pure (b, r)

def pRep {α} (p : P α) : Nat → P (List α)
  | 0, ts => some ([], ts)
  | n + 1, ts => do
    let (x, r) ← p ts
    let (xs, r') ← pRep p n r
    pure (x :: xs, r')

def pCounted {α} (p : P α) : P (List α) := fun ts => do
  let (n, r) ← pNat ts
  pRep p n r

def pStream : P (Bytes × Int) := fun ts => do
  let (s, r) ← pBytes ts
  let (o, r) ← pInt r
  pure ((s, o), r)

/-- a job of a case line: streams are applied with `SliceMap.Set`, as the harness does -/
def pJob : P Job := fun ts => do
  let (f, r) ← pBytes ts
  let (ino, r) ← pNat r
  let (src, r) ← pNat r
  let (t, r) ← pInt r
  let (ss, r) ← pCounted pStream r
  pure (⟨f, ino, src, t, ss.foldl (fun m kv => setOffset m kv.1 kv.2) []⟩, r)

def pTable : P JobTable := pCounted pJob

/-- a job of a load result (no inode) -/
def pLoadedJob : P Job := fun ts => do
  let (f, r) ← pBytes ts
  let (src, r) ← pNat r
  let (t, r) ← pInt r
  let (ss, r) ← pCounted pStream r
  pure (⟨f, 0, src, t, ss⟩, r)

def pLoaded : P (PM JobTable)
  | "ok" :: ts => do
    let (js, r) ← pCounted pLoadedJob ts
    pure (.ok js, r)
  | "err" :: ts => some (.error .format, ts)
  | "panic:bounds" :: ts => some (.error .panicBounds, ts)
  | _ => none

def encStream (kv : Bytes × Int) : String := Hex.enc kv.1 ++ " " ++ toString kv.2

def encLoadedJob (j : Job) : String :=
  unwords [Hex.enc j.filename, toString j.sourceID, toString j.ts, encList encStream j.offsets]

def encLoaded : PM JobTable → String
  | .ok t => "ok " ++ encList encLoadedJob (canon t)
  | .error .format => "err"
  | .error .panicBounds => "panic:bounds"
  | .error .fuel => "model-fuel"

/-- the Go map `jobs` of the harness: a later job with the same source id replaces an earlier one -/
def lastWith (t : JobTable) (src : Nat) : Option Job :=
  (t.reverse).find? (fun j => j.sourceID == src)

def distinctNat : List Nat → Bool
  | [] => true
  | x :: xs => !xs.contains x && distinctNat xs

/-- the snapshot in the order the implementation's map iteration visited the jobs -/
def inOrder (t : JobTable) (order : List Nat) : Option JobTable :=
  if distinctNat order && t.all (fun j => order.contains j.sourceID)
     && order.all (fun s => (lastWith t s).isSome)
  then some (order.filterMap (lastWith t)) else none

/-! ### c07.rt / c07.parse -/

def handleRt (args impl : List String) : Option (String × String) := do
  let (now, r) ← pInt args
  let (t, r) ← pTable r
  if r ≠ [] then none
  match pCounted pNat impl with
  | none => some ("bad-impl", if impl.head? == some "panic:bounds" then "fail" else "bad-impl")
  | some (order, irest) =>
    match inOrder t order with
    | none => some ("bad-order", "bad-impl")
    | some snap =>
      let bytes := render snap
      let m := unwords [encList toString order, Hex.enc bytes, encLoaded (parse now bytes)]
      let p := match irest with
        | _file :: lr =>
          match pLoaded lr with
          | some (l, []) => if rtHolds snap l then "ok" else "fail"
          | _ => "bad-impl"
        | [] => "bad-impl"
      pure (m, p)

def handleParse (args impl : List String) : Option (String × String) := do
  let (now, r) ← pInt args
  let (c, r) ← pBytes r
  if r ≠ [] then none
  let p := match pLoaded impl with
    | some (_, []) => "ok"
    | _ => "bad-impl"
  pure (encLoaded (parse now c), p)

/-! ### c07.seq: real commits / truncations / saves in a sequential schedule -/

inductive SeqOp
  | c (src : Nat) (stream : Bytes) (off : Int)
  | t (src : Nat)
  | s

def pSeqOp : P SeqOp
  | "c" :: ts => do
    let (src, r) ← pNat ts
    let (st, r) ← pBytes r
    let (o, r) ← pInt r
    pure (.c src st o, r)
  | "t" :: ts => do
    let (src, r) ← pNat ts
    pure (.t src, r)
  | "s" :: ts => some (.s, ts)
  | _ => none

/-- the jobs the harness creates for source `i`: file name "f<i>", inode i, timestamp 0 -/
def seqJob (e : CommitSnap.Entry) : Job :=
  ⟨(str "f") ++ renderNat e.1, e.1, e.1, 0, e.2⟩

def visits : Nat → List CommitSnap.Op
  | 0 => []
  | n + 1 => .saveVisit :: visits n

/-- replay the sequential schedule; returns (model tokens, oracle verdict). `impl` supplies the
    map iteration order of each save and the loaded tables the oracle looks at. -/
def seqLoop : List SeqOp → List String → CommitSnap.St → List String → Bool → Option (List String × Bool)
  | [], impl, _, acc, ok => if impl = [] then some (acc, ok) else none
  | .c src st o :: ops, impl, s, acc, ok =>
    match impl with
    | _ :: irest =>
      match CommitSnap.step? s (.commit src st o) with
      | none => seqLoop ops irest s (acc ++ ["corrupt"]) ok
      | some s' => seqLoop ops irest s' (acc ++ ["c"]) ok
    | [] => none
  | .t src :: ops, impl, s, acc, ok =>
    match impl with
    | _ :: irest =>
      match CommitSnap.step? s (.truncate src) with
      | none => none
      | some s' => seqLoop ops irest s' (acc ++ ["t"]) ok
    | [] => none
  | .s :: ops, impl, s, acc, ok =>
    match impl with
    | "s" :: irest =>
      match pCounted pNat irest with
      | none => none
      | some (order, irest) =>
        match pLoaded irest with
        | none => none
        | some (loaded, irest) =>
          match CommitSnap.run s (.saveBegin order :: (visits order.length ++ [.saveEnd])) with
          | none => some (acc ++ ["bad-order"], false)
          | some s' =>
            match s'.snaps.getLast? with
            | none => none
            | some (buf, n) =>
              let snap := buf.map seqJob
              let m := encLoaded (parse 0 (render snap))
              -- oracle: every loaded (source, offsets) is a value that job's offsets had before
              let hist := (s'.hist.take n).map (fun e => (e.1, (canonJob (seqJob e)).offsets))
              let good := match loaded with
                | .ok l => l.all (fun j => hist.contains (j.sourceID, (canonJob j).offsets))
                | .error _ => false
              seqLoop ops irest s' (acc ++ ["s", encList toString order, m]) (ok && good)
    | _ => none

def handleSeq (args impl : List String) : Option (String × String) := do
  let (nsrc, r) ← pNat args
  let (ops, r) ← pCounted pSeqOp r
  if r ≠ [] then none
  let s0 ← CommitSnap.run CommitSnap.init ((List.range nsrc).map (fun i => .addJob (i + 1)))
  match seqLoop ops impl s0 [] true with
  | none => some ("bad-impl", if impl.any (·.startsWith "panic") then "fail" else "bad-impl")
  | some (m, ok) => some (unwords m, if ok then "ok" else "fail")

/-! ### c07.conc: commits racing a saver (real goroutines); the event log is the case's result -/

inductive ConcEv
  | cs (i k : Nat) | cd (i k : Nat) | ss | se (l : PM JobTable)

def pConcEvs : Nat → List String → Option (List ConcEv)
  | 0, ts => if ts = [] then some [] else none
  | _ + 1, [] => some []
  | f + 1, "ss" :: ts => (pConcEvs f ts).map (ConcEv.ss :: ·)
  | f + 1, "se" :: ts => do
    let (l, r) ← pLoaded ts
    let rest ← pConcEvs f r
    pure (.se l :: rest)
  | f + 1, t :: ts =>
    match t.splitOn "." with
    | ["cs", a, b] => do
      let i ← nat? a; let k ← nat? b
      let rest ← pConcEvs f ts
      pure (.cs i k :: rest)
    | ["cd", a, b] => do
      let i ← nat? a; let k ← nat? b
      let rest ← pConcEvs f ts
      pure (.cd i k :: rest)
    | _ => none

/-- offsets of a source after its first k commits: 10·j to stream "a" (j odd) / "b" (j even) -/
def concState : Nat → CommitSnap.SMap
  | 0 => []
  | k + 1 => setOffset (concState k) (if (k + 1) % 2 = 1 then [97] else [98]) (10 * ((k + 1 : Nat) : Int))

def bump (l : List Nat) (i : Nat) : List Nat :=
  (l.zipIdx).map (fun (x, j) => if j + 1 = i then x + 1 else x)

/-- source i's loaded entry must be its state after k commits for some k between the commits that
    had returned when the save started and those that had started when it returned -/
def concEntryOk (loaded : JobTable) (i lo hi : Nat) : Bool :=
  match loaded.find? (fun j => j.sourceID == i) with
  | none => lo == 0
  | some j =>
    j.filename == (seqJob (i, [])).filename &&
    (List.range (hi + 1)).any (fun k => decide (lo ≤ k) && decide (1 ≤ k) &&
      (canonJob j).offsets == (canonJob (seqJob (i, concState k))).offsets)

def concCheck (nsrc : Nat) : List ConcEv → List Nat → List Nat → Option (List Nat) → Bool
  | [], _, _, _ => true
  | .cs i _ :: evs, started, done, lo => concCheck nsrc evs (bump started i) done lo
  | .cd i _ :: evs, started, done, lo => concCheck nsrc evs started (bump done i) lo
  | .ss :: evs, started, done, _ => concCheck nsrc evs started done (some done)
  | .se l :: evs, started, done, lo =>
    (match l, lo with
     | .ok loaded, some los =>
       loaded.all (fun j => decide (1 ≤ j.sourceID ∧ j.sourceID ≤ nsrc)) &&
       (List.range nsrc).all (fun n => concEntryOk loaded (n + 1) (los.getD n 0) (started.getD n 0))
     | _, _ => false) && concCheck nsrc evs started done none

def handleConc (args impl : List String) : Option (String × String) := do
  let (nsrc, r) ← pNat args
  let (_, r) ← pNat r
  let (_, r) ← pNat r
  if r ≠ [] then none
  match pConcEvs (impl.length + 1) impl with
  | none => some ("bad-trace", if impl.any (·.startsWith "panic") then "fail" else "bad-impl")
  | some evs =>
    let z := List.replicate nsrc 0
    some (unwords impl, if concCheck nsrc evs z z none then "ok" else "fail")

/-! ### c07.proto: the save protocol under injected failures and kills -/

def pOk : String → Option Bool := bool?

def pTraceOp (t : String) : Option SaveProto.Op :=
  match t.splitOn "." with
  | ["open", b] => (pOk b).map .openTrunc
  | ["write", n, b] => do let k ← nat? n; let ok ← pOk b; pure (.write k ok)
  | ["fsync", b] => (pOk b).map .fsync
  | ["rename", b] => (pOk b).map .rename
  | ["close", b] => (pOk b).map .close
  | ["unlink", b] => (pOk b).map .unlink
  | _ => none

def encTraceOp : SaveProto.Op → String
  | .openTrunc b => "open." ++ ofBool b
  | .write n b => "write." ++ toString n ++ "." ++ ofBool b
  | .fsync b => "fsync." ++ ofBool b
  | .rename b => "rename." ++ ofBool b
  | .close b => "close." ++ ofBool b
  | .unlink b => "unlink." ++ ofBool b

def encOptBytes : Option Bytes → String
  | none => "none"
  | some b => Hex.enc b

def pOptBytes (t : String) : Option (Option Bytes) :=
  if t = "none" then some none else (bytes? t).map some

structure ProtoObs where
  ops    : List SaveProto.Op
  killed : Bool
  disk   : Option Bytes
  load   : List String

def pObs (impl : List String) : Option ProtoObs := do
  let (toks, r) ← pCounted tok impl
  let ops ← toks.mapM pTraceOp
  match r with
  | "killed" :: k :: "disk" :: d :: "load" :: l => do
    let kb ← bool? k
    let dk ← pOptBytes d
    pure ⟨ops, kb, dk, l⟩
  | _ => none

/-- model side of a protocol case: replay the observed ops through the program of `v` -/
def protoModel (v : SaveProto.Variant) (data : Bytes) (old : Option Bytes) (o : ProtoObs)
    (encLoad : Option Bytes → String) : String :=
  match TS.firstReject (SaveProto.step? v data) (SaveProto.init old) o.ops 0 with
  | some i => s!"reject@{i}"
  | none =>
    match SaveProto.run v data (SaveProto.init old) o.ops with
    | none => "reject"
    | some s =>
      if !o.killed && s.pc != .done then "incomplete" else
      let disk := SaveProto.crashKill s.fs
      unwords [encList encTraceOp o.ops, "killed", ofBool o.killed, "disk", encOptBytes disk,
               "load", encLoad disk]

def skipFaults : Nat → List String → Option (List String)
  | 0, ts => some ts
  | n + 1, _ :: _ :: ts => skipFaults n ts
  | _, _ => none

def handleProto (args impl : List String) : Option (String × String) :=
  match args with
  | variant :: nf :: rest => do
    let k ← nat? nf
    let r ← skipFaults k rest
    let (ho, r) ← tok r
    let hasOld ← bool? ho
    if variant = "file" then do
      let (told, r) ← pTable r
      let (tnew, r) ← pTable r
      if r ≠ [] then none
      let data := render tnew
      let old := if hasOld then some (render told) else none
      match pObs impl with
      | none => some ("bad-impl", "bad-impl")
      | some o =>
        let m := protoModel .fileFixed data old o (fun d => encLoaded (load 0 d))
        let want1 := encLoaded (.ok (if hasOld then live told else []))
        let want2 := encLoaded (.ok (live tnew))
        let l := unwords o.load
        let p := (l == want1 || l == want2) && protoHolds data old o.ops o.disk
        some (m, if p then "ok" else "fail")
    else if variant = "gen" then do
      let (bold, r) ← pBytes r
      let (bnew, r) ← pBytes r
      if r ≠ [] then none
      let old := if hasOld then some bold else none
      match pObs impl with
      | none => some ("bad-impl", "bad-impl")
      | some o =>
        let m := protoModel .genFixed bnew old o encOptBytes
        let l := unwords o.load
        let p := (l == encOptBytes old || l == encOptBytes (some bnew)) && protoHolds bnew old o.ops o.disk
        some (m, if p then "ok" else "fail")
    else none
  | _ => none

def handle (cmd : String) (args impl : List String) : Option (String × String) :=
  if cmd = "c07.rt" then handleRt args impl
  else if cmd = "c07.parse" then handleParse args impl
  else if cmd = "c07.seq" then handleSeq args impl
  else if cmd = "c07.proto" then handleProto args impl
  else if cmd = "c07.conc" then handleConc args impl
  else none

end FileD.DrvC07
