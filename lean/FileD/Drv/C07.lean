/- Driver glue for C07: case lines `c07.<sub> <args…> | <impl…>` (stub until the property is built) -/
import FileD.Prelude.Tok
namespace FileD.DrvC07

def handle (_cmd : String) (_args _impl : List String) : Option (String × String) := none

end FileD.DrvC07
