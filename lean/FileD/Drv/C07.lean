/-
  Driver glue for C07. Case lines (`T` = table tokens `<njobs> (<file> <inode> <src> <ts> <k> (<stream> <off>)…)…`,
  `L` = load result `ok <n> (<file> <src> <ts> <k> (<stream> <off>)…)… | err | panic:bounds`, jobs by
  source id and streams by name):

    c07.rt <now> T                       | <n> <src…snapshot order> <file bytes> L
    c07.parse <now> <content>            | L
    c07.seq <nsrc> <nops> (c <src> <stream> <off> | t <src> | s)…
                                         | per op: `c` / `corrupt` / `t` / `s <n> <src…order> L`
    c07.conc <nsrc> <m> <nf> <nsaves> <maxc>  | per save: s <lo_1…lo_n> <hi_1…hi_n> L   (oracle only: real goroutines)
    c07.proto file <nf> (<act> <op>)… <hasold> T T
                                         | <n> <trace…> killed <0|1> disk <hex|none> load L
    c07.proto gen  <nf> (<act> <op>)… <hasold> <old> <new>
                                         | <n> <trace…> killed <0|1> disk <hex|none> load <hex|none|err>
    c07.obj <nops> (c <stream> <off> | s)… <nf> (<save#> <act> <op>)…
                                         | per save of the ONE process / offsetDB: sv <n> <trace…> killed <0|1> disk <hex|none> load L
    c07.csave <njobs> <m> <nsavers> <iters>   | per new file content: s <lo…> <hi…> L   (concurrent saves, oracle only)
    c07.hist file|gen|yaml <hasold> OLD <nsaves> (<nf> (<act> <op>)… NEW)…
                                         | per save: sv <n> <trace…> killed <0|1> disk <hex|none> load <…>
      (OLD/NEW: file = T, gen = <hex>, yaml = <cursor> <offset> <bytes of the real encoder>)
  trace tokens: open.<ok> (openk.<ok>: opened without O_TRUNC) write.<n>.<ok> fsync.<ok> rename.<ok> close.<ok> unlink.<ok>
-/
import FileD.Prelude.Tok
import FileD.Model.OffsetsFile
import FileD.Model.SaveProto
import FileD.Model.CommitSnap
import FileD.Spec.C07
namespace FileD.DrvC07
open FileD Tok FileD.OffsetsFile FileD.SpecC07

abbrev P (α : Type) := List String → Option (α × List String)

def tok : P String
  | [] => none
  | t :: ts => some (t, ts)

def pNat : P Nat := fun ts => do let (t, r) ← tok ts; let n ← nat? t; pure (n, r)
def pInt : P Int := fun ts => do let (t, r) ← tok ts; let n ← int? t; pure (n, r)
def pBytes : P Bytes := fun ts => do let (t, r) ← tok ts; let b ← bytes? t; pure (b, r)

def pRep {α} (p : P α) : Nat → P (List α)
  | 0, ts => some ([], ts)
  | n + 1, ts => do
    let (x, r) ← p ts
    let (xs, r') ← pRep p n r
    pure (x :: xs, r')

def pCounted {α} (p : P α) : P (List α) := fun ts => do
  let (n, r) ← pNat ts
  pRep p n r

def pStream : P (Bytes × Int) := fun ts => do
  let (s, r) ← pBytes ts
  let (o, r) ← pInt r
  pure ((s, o), r)

/-- a job of a case line: streams are applied with `SliceMap.Set`, as the harness does -/
def pJob : P Job := fun ts => do
  let (f, r) ← pBytes ts
  let (ino, r) ← pNat r
  let (src, r) ← pNat r
  let (t, r) ← pInt r
  let (ss, r) ← pCounted pStream r
  pure (⟨f, ino, src, t, ss.foldl (fun m kv => setOffset m kv.1 kv.2) []⟩, r)

def pTable : P JobTable := pCounted pJob

/-- a job of a load result (no inode) -/
def pLoadedJob : P Job := fun ts => do
  let (f, r) ← pBytes ts
  let (src, r) ← pNat r
  let (t, r) ← pInt r
  let (ss, r) ← pCounted pStream r
  pure (⟨f, 0, src, t, ss⟩, r)

def pLoaded : P (PM JobTable)
  | "ok" :: ts => do
    let (js, r) ← pCounted pLoadedJob ts
    pure (.ok js, r)
  | "err" :: ts => some (.error .format, ts)
  | "panic:bounds" :: ts => some (.error .panicBounds, ts)
  | _ => none

def encStream (kv : Bytes × Int) : String := Hex.enc kv.1 ++ " " ++ toString kv.2

def encLoadedJob (j : Job) : String :=
  unwords [Hex.enc j.filename, toString j.sourceID, toString j.ts, encList encStream j.offsets]

def encLoaded : PM JobTable → String
  | .ok t => "ok " ++ encList encLoadedJob (canon t)
  | .error .format => "err"
  | .error .panicBounds => "panic:bounds"
  | .error .fuel => "model-fuel"

/-- the Go map `jobs` of the harness: a later job with the same source id replaces an earlier one -/
def lastWith (t : JobTable) (src : Nat) : Option Job :=
  (t.reverse).find? (fun j => j.sourceID == src)

def distinctNat : List Nat → Bool
  | [] => true
  | x :: xs => !xs.contains x && distinctNat xs

/-- the snapshot in the order the implementation's map iteration visited the jobs -/
def inOrder (t : JobTable) (order : List Nat) : Option JobTable :=
  if distinctNat order && t.all (fun j => order.contains j.sourceID)
     && order.all (fun s => (lastWith t s).isSome)
  then some (order.filterMap (lastWith t)) else none

/-! ### c07.rt / c07.parse -/

def handleRt (args impl : List String) : Option (String × String) := do
  let (now, r) ← pInt args
  let (t, r) ← pTable r
  if r ≠ [] then none
  match pCounted pNat impl with
  | none => some ("bad-impl", if impl.head? == some "panic:bounds" then "fail" else "bad-impl")
  | some (order, irest) =>
    match inOrder t order with
    | none => some ("bad-order", "bad-impl")
    | some snap =>
      let bytes := render snap
      let m := unwords [encList toString order, Hex.enc bytes, encLoaded (parse now bytes)]
      let p := match irest with
        | _file :: lr =>
          match pLoaded lr with
          | some (l, []) => if rtHolds snap l then "ok" else "fail"
          | _ => "bad-impl"
        | [] => "bad-impl"
      pure (m, p)

def handleParse (args impl : List String) : Option (String × String) := do
  let (now, r) ← pInt args
  let (c, r) ← pBytes r
  if r ≠ [] then none
  let p := match pLoaded impl with
    | some (_, []) => "ok"
    | _ => "bad-impl"
  pure (encLoaded (parse now c), p)

/-! ### c07.seq: real commits / truncations / saves in a sequential schedule -/

inductive SeqOp
  | c (src : Nat) (stream : Bytes) (off : Int)
  | t (src : Nat)
  | s

def pSeqOp : P SeqOp
  | "c" :: ts => do
    let (src, r) ← pNat ts
    let (st, r) ← pBytes r
    let (o, r) ← pInt r
    pure (.c src st o, r)
  | "t" :: ts => do
    let (src, r) ← pNat ts
    pure (.t src, r)
  | "s" :: ts => some (.s, ts)
  | _ => none

/-- the jobs the harness creates for source `i`: file name "f<i>", inode i, timestamp 0 -/
def seqJob (e : CommitSnap.Entry) : Job :=
  ⟨(str "f") ++ renderNat e.1, e.1, e.1, 0, e.2⟩

def visits : Nat → List CommitSnap.Op
  | 0 => []
  | n + 1 => .saveVisit :: visits n

/-- replay the sequential schedule; returns (model tokens, oracle verdict). `impl` supplies the
    map iteration order of each save and the loaded tables the oracle looks at. -/
def seqLoop : List SeqOp → List String → CommitSnap.St → List String → Bool → Option (List String × Bool)
  | [], impl, _, acc, ok => if impl = [] then some (acc, ok) else none
  | .c src st o :: ops, impl, s, acc, ok =>
    match impl with
    | _ :: irest =>
      match CommitSnap.step? s (.commit src st o) with
      | none => seqLoop ops irest s (acc ++ ["corrupt"]) ok
      | some s' => seqLoop ops irest s' (acc ++ ["c"]) ok
    | [] => none
  | .t src :: ops, impl, s, acc, ok =>
    match impl with
    | _ :: irest =>
      match CommitSnap.step? s (.truncate src) with
      | none => none
      | some s' => seqLoop ops irest s' (acc ++ ["t"]) ok
    | [] => none
  | .s :: ops, impl, s, acc, ok =>
    match impl with
    | "s" :: irest =>
      match pCounted pNat irest with
      | none => none
      | some (order, irest) =>
        match pLoaded irest with
        | none => none
        | some (loaded, irest) =>
          match CommitSnap.run s (.saveBegin order :: (visits order.length ++ [.saveEnd])) with
          | none => some (acc ++ ["bad-order"], false)
          | some s' =>
            match s'.snaps.getLast? with
            | none => none
            | some (buf, n) =>
              let snap := buf.map seqJob
              let m := encLoaded (parse 0 (render snap))
              -- oracle: every loaded (source, offsets) is a value that job's offsets had before
              let hist := (s'.hist.take n).map (fun e => (e.1, (canonJob (seqJob e)).offsets))
              let good := match loaded with
                | .ok l => l.all (fun j => hist.contains (j.sourceID, (canonJob j).offsets))
                | .error _ => false
              seqLoop ops irest s' (acc ++ ["s", encList toString order, m]) (ok && good)
    | _ => none

def handleSeq (args impl : List String) : Option (String × String) := do
  let (nsrc, r) ← pNat args
  let (ops, r) ← pCounted pSeqOp r
  if r ≠ [] then none
  let s0 ← CommitSnap.run CommitSnap.init ((List.range nsrc).map (fun i => .addJob (i + 1)))
  match seqLoop ops impl s0 [] true with
  | none => some ("bad-impl", if impl.any (·.startsWith "panic") then "fail" else "bad-impl")
  | some (m, ok) => some (unwords m, if ok then "ok" else "fail")

/-! ### c07.conc: commits racing a saver (real goroutines) on jobs with many streams -/

/-- name of the stream at position p: 5-digit zero-padded position + 'r' (racing) / 'f' (filler) -/
def concName (nf p : Nat) : Bytes :=
  [digitByte (p / 10000 % 10), digitByte (p / 1000 % 10), digitByte (p / 100 % 10),
   digitByte (p / 10 % 10), digitByte (p % 10), if p % (1 + nf) = 0 then 114 else 102]

/-- offset of the stream at position p after k commits (k > p): commit p+1 created it with offset
    p+1; a racing stream j = p/(1+nf) is then overwritten by the commits P+t with (t−1) mod m = j -/
def concOffset (m nf k p : Nat) : Nat :=
  let P := m * (1 + nf)
  if p % (1 + nf) = 0 ∧ k > P then
    let j := p / (1 + nf)
    let t := k - P
    if t ≥ j + 1 then P + (t - (t - 1 - j) % m) else p + 1
  else p + 1

/-- the table of a source after its first k commits (SliceMap order = name order) -/
def concTable (m nf k : Nat) : List (Bytes × Int) :=
  (List.range (min k (m * (1 + nf)))).map (fun p => (concName nf p, ((concOffset m nf k p : Nat) : Int)))

def maxOffset (l : List (Bytes × Int)) : Int := l.foldl (fun a kv => if kv.2 > a then kv.2 else a) 0

/-- ONE moment per source: the whole loaded stream table of source i is the job's table after k
    commits for a single k with lo ≤ k ≤ hi (k is recovered from the table: commit k carries offset
    k, so it is the largest offset). A source missing from the file had no stream when it was read. -/
def concSourceOk (m nf : Nat) (loaded : JobTable) (i lo hi : Nat) : Bool :=
  match loaded.find? (fun j => j.sourceID == i) with
  | none => lo == 0
  | some j =>
    let k := (maxOffset j.offsets).toNat
    j.filename == (seqJob (i, [])).filename && decide (lo ≤ k) && decide (k ≤ hi) && decide (1 ≤ k) &&
    j.offsets == concTable m nf k

structure ConcSave where
  lo : List Nat
  hi : List Nat
  loaded : PM JobTable

def pConcSaves (nsrc : Nat) : Nat → List String → Option (List ConcSave)
  | 0, ts => if ts = [] then some [] else none
  | _ + 1, [] => some []
  | f + 1, "s" :: ts => do
    let (lo, r) ← pRep pNat nsrc ts
    let (hi, r) ← pRep pNat nsrc r
    let (l, r) ← pLoaded r
    let rest ← pConcSaves nsrc f r
    pure (⟨lo, hi, l⟩ :: rest)
  | _ + 1, _ => none

def concSaveOk (nsrc m nf : Nat) (sv : ConcSave) : Bool :=
  match sv.loaded with
  | .ok loaded =>
    loaded.all (fun j => decide (1 ≤ j.sourceID ∧ j.sourceID ≤ nsrc)) &&
    (List.range nsrc).all (fun n => concSourceOk m nf loaded (n + 1) (sv.lo.getD n 0) (sv.hi.getD n 0))
  | .error _ => false

def handleConc (args impl : List String) : Option (String × String) := do
  let (nsrc, r) ← pNat args
  let (m, r) ← pNat r
  let (nf, r) ← pNat r
  let (_, r) ← pNat r
  let (_, r) ← pNat r
  if r ≠ [] then none
  match pConcSaves nsrc (impl.length + 1) impl with
  | none => some ("bad-trace", if impl.any (·.startsWith "panic") then "fail" else "bad-impl")
  | some svs => some (unwords impl, if svs.all (concSaveOk nsrc m nf) then "ok" else "fail")

/-- c07.csave <njobs> <m> <nsavers> <iters>: concurrent saves on one offsetDB; records as c07.conc
    (every loaded file names every job once, each job's table is one moment inside its window) -/
def handleCsave (args impl : List String) : Option (String × String) := do
  let (njobs, r) ← pNat args
  let (m, r) ← pNat r
  let (_, r) ← pNat r
  let (_, r) ← pNat r
  if r ≠ [] then none
  match pConcSaves njobs (impl.length + 1) impl with
  | none => some ("bad-trace", if impl.any (·.startsWith "panic") then "fail" else "bad-impl")
  | some svs => some (unwords impl, if svs.all (concSaveOk njobs m 0) then "ok" else "fail")

/-! ### c07.proto: the save protocol under injected failures and kills -/

def pOk : String → Option Bool := bool?

def pTraceOp (t : String) : Option SaveProto.Op :=
  match t.splitOn "." with
  | ["open", b] => (pOk b).map .openTrunc
  | ["openk", b] => (pOk b).map .openKeep
  | ["write", n, b] => do let k ← nat? n; let ok ← pOk b; pure (.write k ok)
  | ["fsync", b] => (pOk b).map .fsync
  | ["rename", b] => (pOk b).map .rename
  | ["close", b] => (pOk b).map .close
  | ["unlink", b] => (pOk b).map .unlink
  | _ => none

def encTraceOp : SaveProto.Op → String
  | .openTrunc b => "open." ++ ofBool b
  | .openKeep b => "openk." ++ ofBool b
  | .write n b => "write." ++ toString n ++ "." ++ ofBool b
  | .fsync b => "fsync." ++ ofBool b
  | .rename b => "rename." ++ ofBool b
  | .close b => "close." ++ ofBool b
  | .unlink b => "unlink." ++ ofBool b

def encOptBytes : Option Bytes → String
  | none => "none"
  | some b => Hex.enc b

def pOptBytes (t : String) : Option (Option Bytes) :=
  if t = "none" then some none else (bytes? t).map some

structure ProtoObs where
  ops    : List SaveProto.Op
  killed : Bool
  disk   : Option Bytes
  load   : List String

def pObs (impl : List String) : Option ProtoObs := do
  let (toks, r) ← pCounted tok impl
  let ops ← toks.mapM pTraceOp
  match r with
  | "killed" :: k :: "disk" :: d :: "load" :: l => do
    let kb ← bool? k
    let dk ← pOptBytes d
    pure ⟨ops, kb, dk, l⟩
  | _ => none

/-- model side of a protocol case: replay the observed ops through the program of `v` -/
def protoModel (v : SaveProto.Variant) (data : Bytes) (old : Option Bytes) (o : ProtoObs)
    (encLoad : Option Bytes → String) : String :=
  match TS.firstReject (SaveProto.step? v data) (SaveProto.init old) o.ops 0 with
  | some i => s!"reject@{i}"
  | none =>
    match SaveProto.run v data (SaveProto.init old) o.ops with
    | none => "reject"
    | some s =>
      if !o.killed && s.pc != .done then "incomplete" else
      let disk := SaveProto.crashKill s.fs
      unwords [encList encTraceOp o.ops, "killed", ofBool o.killed, "disk", encOptBytes disk,
               "load", encLoad disk]

def skipFaults : Nat → List String → Option (List String)
  | 0, ts => some ts
  | n + 1, _ :: _ :: ts => skipFaults n ts
  | _, _ => none

def handleProto (args impl : List String) : Option (String × String) :=
  match args with
  | variant :: nf :: rest => do
    let k ← nat? nf
    let r ← skipFaults k rest
    let (ho, r) ← tok r
    let hasOld ← bool? ho
    if variant = "file" then do
      let (told, r) ← pTable r
      let (tnew, r) ← pTable r
      if r ≠ [] then none
      let data := render tnew
      let old := if hasOld then some (render told) else none
      match pObs impl with
      | none => some ("bad-impl", "bad-impl")
      | some o =>
        let m := protoModel .fileFixed data old o (fun d => encLoaded (load 0 d))
        let want1 := encLoaded (.ok (if hasOld then live told else []))
        let want2 := encLoaded (.ok (live tnew))
        let l := unwords o.load
        let p := (l == want1 || l == want2) && protoHolds data old o.ops o.disk
        some (m, if p then "ok" else "fail")
    else if variant = "gen" then do
      let (bold, r) ← pBytes r
      let (bnew, r) ← pBytes r
      if r ≠ [] then none
      let old := if hasOld then some bold else none
      match pObs impl with
      | none => some ("bad-impl", "bad-impl")
      | some o =>
        let m := protoModel .genFixed bnew old o encOptBytes
        let l := unwords o.load
        let p := (l == encOptBytes old || l == encOptBytes (some bnew)) && protoHolds bnew old o.ops o.disk
        some (m, if p then "ok" else "fail")
    else none
  | _ => none

/-! ### c07.hist: a history of saves on one directory (left-over temp files are carried along) -/

inductive HVar | file | gen | yaml
deriving DecidableEq

/-- payload of a save / the old state: the bytes the save writes and how a file holding exactly
    these bytes loads (canonical string) -/
def pPayload : HVar → P (Bytes × String)
  | .file => fun ts => do
    let (t, r) ← pTable ts
    pure ((render t, encLoaded (.ok (live t))), r)
  | .gen => fun ts => do
    let (b, r) ← pBytes ts
    pure ((b, Hex.enc b), r)
  | .yaml => fun ts => do
    let (c, r) ← pBytes ts
    let (o, r) ← pInt r
    let (e, r) ← pBytes r
    pure ((e, unwords ["y", Hex.enc c, toString o]), r)

def pFaults : Nat → List String → Option (List String)
  | 0, ts => some ts
  | n + 1, _ :: _ :: ts => pFaults n ts
  | _, _ => none

def pHistSave (v : HVar) : P (Bytes × String) := fun ts => do
  let (nf, r) ← pNat ts
  let r ← pFaults nf r
  pPayload v r

/-- number of tokens of a load result in the implementation's record -/
def takeLoad (v : HVar) (ts : List String) : Option (String × List String) :=
  match v, ts with
  | .file, _ => do
    let (l, r) ← pLoaded ts
    pure (encLoaded l, r)
  | .gen, t :: r => some (t, r)
  | .yaml, "y" :: c :: o :: r => some (unwords ["y", c, o], r)
  | .yaml, t :: r => some (t, r)
  | _, [] => none

structure HistObs where
  ops : List SaveProto.Op
  killed : Bool
  disk : Option Bytes
  load : String

def pHistObs (v : HVar) : Nat → List String → Option (List HistObs)
  | 0, ts => if ts = [] then some [] else none
  | _ + 1, [] => some []
  | f + 1, "sv" :: ts => do
    let (toks, r) ← pCounted tok ts
    let ops ← toks.mapM pTraceOp
    match r with
    | "killed" :: k :: "disk" :: d :: "load" :: r => do
      let kb ← bool? k
      let dk ← pOptBytes d
      let (l, r) ← takeLoad v r
      let rest ← pHistObs v f r
      pure (⟨ops, kb, dk, l⟩ :: rest)
    | _ => none
  | _ + 1, _ => none

/-- how the model says a disk content loads -/
def histLoad (v : HVar) (known : List (Bytes × String)) (disk : Option Bytes) : String :=
  match v with
  | .file => encLoaded (load 0 disk)
  | .gen => encOptBytes disk
  | .yaml =>
    match disk with
    | none => "none"
    | some b =>
      match known.find? (fun kv => kv.1 == b) with
      | some kv => kv.2
      | none => "undecodable"

def histVariant : HVar → SaveProto.Variant
  | .file => .fileFixed
  | _ => .genFixed

/-- model side: replay save after save through the fixed program, carrying the file system -/
def histModel (v : HVar) (known : List (Bytes × String)) :
    SaveProto.FS → List (Bytes × String) → List HistObs → List String → List String
  | _, [], _, acc => acc
  | _, _ :: _, [], acc => acc ++ ["missing-save"]
  | fs, (data, _) :: saves, o :: obs, acc =>
    let s0 : SaveProto.St := ⟨SaveProto.beginSave (histVariant v) fs, .start⟩
    match TS.firstReject (SaveProto.step? (histVariant v) data) s0 o.ops 0 with
    | some i => acc ++ [s!"reject@{i}"]
    | none =>
      match SaveProto.run (histVariant v) data s0 o.ops with
      | none => acc ++ ["reject"]
      | some s =>
        if !o.killed && s.pc != .done then acc ++ ["incomplete"] else
        let disk := SaveProto.crashKill s.fs
        histModel v known s.fs saves obs
          (acc ++ ["sv", encList encTraceOp o.ops, "killed", ofBool o.killed, "disk", encOptBytes disk,
                   "load", histLoad v known disk])

/-- oracle on the implementation's records: after every save the file under the real name is what
    it was before that save or exactly that save's buffer, it loads to the old state or to a state
    saved so far, and the observed syscalls keep it so on both levels -/
def histOracle (allowed : List String) (prev : Option Bytes) :
    List (Bytes × String) → List HistObs → Bool
  | [], _ => true
  | _ :: _, [] => false
  | (data, ld) :: saves, o :: obs =>
    let allowed' := allowed ++ [ld]
    (o.disk == prev || o.disk == some data) && allowed'.contains o.load &&
    histOracle allowed' o.disk saves obs

def handleHist (args impl : List String) : Option (String × String) :=
  match args with
  | vt :: ho :: rest => do
    let v ← if vt = "file" then some HVar.file else if vt = "gen" then some HVar.gen
            else if vt = "yaml" then some HVar.yaml else none
    let hasOld ← bool? ho
    let (oldp, r) ← pPayload v rest
    let (saves, r) ← pCounted (pHistSave v) r
    if r ≠ [] then none
    let old := if hasOld then some oldp.1 else none
    let oldLoad := if hasOld then oldp.2 else
      (match v with | .file => encLoaded (.ok []) | _ => "none")
    let known := (if hasOld then [oldp] else []) ++ saves
    match pHistObs v (impl.length + 1) impl with
    | none => some ("bad-impl", "bad-impl")
    | some obs =>
      let fs0 := (SaveProto.init old).fs
      let m := unwords (histModel v known fs0 saves obs [])
      let p := histOracle [oldLoad] old saves obs &&
               histGood (histVariant v) fs0 ((saves.zip obs).map (fun (sv, o) => (sv.1, o.ops)))
      some (m, if p then "ok" else "fail")
  | _ => none

/-! ### c07.obj: saves on ONE long-lived offsetDB in one process (the buffer o.buf is carried) -/

/-- the snapshots of the saves of an op list on one job (source 1): rendering and how it loads -/
def objSaves : List SeqOp → CommitSnap.SMap → List (Bytes × String)
  | [], _ => []
  | .c _ st o :: ops, m =>
    let value := match getOffset m st with | some v => v | none => 0
    if value ≥ o then objSaves ops m else objSaves ops (setOffset m st o)
  | .t _ :: ops, m => objSaves ops m
  | .s :: ops, m =>
    let t : JobTable := [seqJob (1, m)]
    (render t, encLoaded (.ok (live t))) :: objSaves ops m

def pObjOp : P SeqOp
  | "c" :: ts => do
    let (st, r) ← pBytes ts
    let (o, r) ← pInt r
    pure (.c 1 st o, r)
  | "s" :: ts => some (.s, ts)
  | _ => none

def handleObj (args impl : List String) : Option (String × String) := do
  let (ops, r) ← pCounted pObjOp args
  let (nf, r) ← pNat r
  if r.length ≠ 3 * nf then none
  let saves := objSaves ops []
  match pHistObs .file (impl.length + 1) impl with
  | none => some ("bad-impl", "bad-impl")
  | some obs =>
    -- a killed process makes no further saves
    let saves := if obs.any (·.killed) then saves.take obs.length else saves
    let fs0 := (SaveProto.init none).fs
    let m := unwords (histModel .file saves fs0 saves obs [])
    let p := histOracle [encLoaded (.ok [])] none saves obs &&
             histGood .fileFixed fs0 ((saves.zip obs).map (fun (sv, o) => (sv.1, o.ops)))
    some (m, if p then "ok" else "fail")

def handle (cmd : String) (args impl : List String) : Option (String × String) :=
  if cmd = "c07.rt" then handleRt args impl
  else if cmd = "c07.parse" then handleParse args impl
  else if cmd = "c07.seq" then handleSeq args impl
  else if cmd = "c07.proto" then handleProto args impl
  else if cmd = "c07.conc" then handleConc args impl
  else if cmd = "c07.hist" then handleHist args impl
  else if cmd = "c07.csave" then handleCsave args impl
  else if cmd = "c07.obj" then handleObj args impl
  else none

end FileD.DrvC07
