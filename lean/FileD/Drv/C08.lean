/- Driver glue for C08: case lines `c08.<sub> <args…> | <impl…>` (stub until the property is built) -/
import FileD.Prelude.Tok
namespace FileD.DrvC08

def handle (_cmd : String) (_args _impl : List String) : Option (String × String) := none

end FileD.DrvC08
