/-
  Driver glue for C08. Case line:
    c08.trace <workers> <count> <bytes> <tmode> <adders> <seed> <stopAt> <race> <nev> (<size> <kind>)*n | <trace tokens>
  The trace is the implementation result; the model replays it (Model/BatcherTrace.lean) and
  prints the tokens it computes itself; `P` is SpecC08.holds on the observed trace.
-/
import FileD.Prelude.Tok
import FileD.Model.BatcherTrace
import FileD.Spec.C08
namespace FileD.DrvC08
open FileD Tok Batcher

/-- logical timeout used by the replay (any value works: time enters only through the status of `s`) -/
def logicalTimeout : Nat := 10

/-- `c08.stopstress …`: gate-free Stop stress; the model's answer is the theorem
    `stop_never_panics` / `stop_commits_only_sent`: always `ok` -/
def handleStress (impl : List String) : Option (String × String) :=
  some ("ok", if impl == ["ok"] then "ok" else "fail")

/-- `c08.trickle <workers> <timeoutMs> <gapMs> <count> <bytes> <n> …`: same replay as c08.trace; the oracle adds
    the literal staleness clause in heartbeat iterations (timeoutMs/100 + 4 of them at most) -/
def handleTrickle (args impl : List String) : Option (String × String) :=
  match args with
  | w :: tmo :: _gap :: cnt :: byt :: _ => do
    let workers ← nat? w
    let timeoutMs ← nat? tmo
    let maxCount ← nat? cnt
    let maxBytes ← nat? byt
    let cfg : Cfg := { workers, maxCount, maxBytes, timeout := logicalTimeout, enqueueLocked := true }
    match parseTks (impl.length + 1) impl with
    | none => pure ("bad-trace", "bad-impl")
    | some tks =>
      let m := renderReplay (replay cfg { st := init cfg } tks 0 [])
      let p := if SpecC08.holds maxCount maxBytes tks && SpecC08.staleTicksOk (timeoutMs / 100 + 4) tks then "ok" else "fail"
      pure (m, p)
  | _ => none

/-- `c08.hbperiod <workers> <timeoutMs> <count> <n> …`: FlushTimeout far above 100 ms; the trace carries the ticks of the
    harness's reference clock (`k`); the oracle: never more than 4 clock ticks without a heartbeat iteration, i.e. the
    heartbeat period H of the staleness bound `timeout + H` does not grow with FlushTimeout -/
def handleHb (args impl : List String) : Option (String × String) :=
  match args with
  | w :: _tmo :: cnt :: _ => do
    let workers ← nat? w
    let maxCount ← nat? cnt
    let cfg : Cfg := { workers, maxCount, maxBytes := 0, timeout := logicalTimeout, enqueueLocked := true }
    match parseTks (impl.length + 1) impl with
    | none => pure ("bad-trace", "bad-impl")
    | some tks =>
      let m := renderReplay (replay cfg { st := init cfg } tks 0 [])
      let p := if SpecC08.holds maxCount 0 tks && SpecC08.hbPeriodOk 4 tks then "ok" else "fail"
      pure (m, p)
  | _ => none

def handle (cmd : String) (args impl : List String) : Option (String × String) :=
  if cmd = "c08.stopstress" then handleStress impl else
  if cmd = "c08.hbperiod" then handleHb args impl else
  if cmd = "c08.trickle" then handleTrickle args impl else
  if cmd ≠ "c08.trace" then none else
  match args with
  | w :: cnt :: byt :: _ => do
    let workers ← nat? w
    let maxCount ← nat? cnt
    let maxBytes ← nat? byt
    let cfg : Cfg := { workers, maxCount, maxBytes, timeout := logicalTimeout, enqueueLocked := true }
    match parseTks (impl.length + 1) impl with
    | none => pure ("bad-trace", "bad-impl")
    | some tks =>
      let m := renderReplay (replay cfg { st := init cfg } tks 0 [])
      let p := if SpecC08.holds maxCount maxBytes tks then "ok" else "fail"
      pure (m, p)
  | _ => none

end FileD.DrvC08
