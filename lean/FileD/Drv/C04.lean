/-
  Driver glue for C04.
    c04.pool <std|lowmem> <cap> <nreaders> <script…> | <blocks…>      (see harness c04.go)
  M = the model's replay of the observed blocks; P = no reader left in Cond.Wait with an event
  available after a heartbeat (SpecC04) and the capacity clauses (SpecC05).
-/
import FileD.Prelude.Tok
import FileD.Drv.PoolTrace
import FileD.Spec.C04
import FileD.Spec.C05
namespace FileD.DrvC04
open FileD

def handlePool (args impl : List String) : Option (String × String) := do
  let (m, bs, isStd, cap) ← Drv.PoolTrace.run args impl
  if m = "bad-impl" then pure (m, "bad-impl") else
  let p := if SpecC04.holds isStd cap bs && SpecC05.holds cap bs then "ok" else "fail"
  pure (m, p)

def handle (cmd : String) (args impl : List String) : Option (String × String) :=
  if cmd = "c04.pool" then handlePool args impl
  else none

end FileD.DrvC04
