/- Driver glue for C04: case lines `c04.<sub> <args…> | <impl…>` (stub until the property is built) -/
import FileD.Prelude.Tok
namespace FileD.DrvC04

def handle (_cmd : String) (_args _impl : List String) : Option (String × String) := none

end FileD.DrvC04
