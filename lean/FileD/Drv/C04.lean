/-
  Driver glue for C04.
    c04.pool <std|lowmem> <cap> <nreaders> <script…> | <blocks…>      (see harness c04.go)
  M = the model's replay of the observed blocks; P = no reader left in Cond.Wait with an event
  available after a heartbeat (SpecC04) and the capacity clauses (SpecC05).
-/
import FileD.Prelude.Tok
import FileD.Drv.PoolTrace
import FileD.Drv.StreamTrace
import FileD.Prelude.TS
import FileD.Spec.C04
import FileD.Spec.C05
import FileD.Drv.C01
namespace FileD.DrvC04
open FileD

def handlePool (args impl : List String) : Option (String × String) := do
  let (m, bs, isStd, cap) ← Drv.PoolTrace.run args impl
  if m = "bad-impl" then pure (m, "bad-impl") else
  let p := if SpecC04.holds isStd cap bs && SpecC05.holds cap bs then "ok" else "fail"
  pure (m, p)

/-- c04.stream <nprocs> <nstreams> <script…> | <trace tokens…> [unsettled] -/
def handleStream (args impl : List String) : Option (String × String) :=
  match args with
  | np :: ns :: _ => do
    let np ← Tok.nat? np; let ns ← Tok.nat? ns
    let settled := !impl.contains "unsettled"
    let toks := impl.filter (fun t => t ≠ "-" ∧ t ≠ "unsettled")
    -- trailing observation: end <joinWaiters> <len charged>
    let (toks, obs) := match toks.reverse with
      | c :: w :: "end" :: rest =>
        (match Tok.nat? w, Tok.nat? c with
         | some w, some c => (rest.reverse, some (w, c))
         | _, _ => (toks, none))
      | _ => (toks, none)
    match Drv.StreamTrace.parseOps (toks.length + 1) toks with
    | none => pure ("bad-impl", "bad-impl")
    | some ops =>
      let m := Drv.StreamTrace.replay (Stream.init ns np) ops
      let m := match obs, TS.run Stream.step? (Stream.init ns np) ops with
        | some _, some st => (if m = "-" then "" else m ++ " ") ++ s!"end {st.parkedQ.length} {st.charged.length}"
        | _, _ => m
      pure (m, SpecC04.streamVerdict ns ops settled obs)
  | _ => none

def handle (cmd : String) (args impl : List String) : Option (String × String) :=
  if cmd = "c04.pool" then handlePool args impl
  else if cmd = "c04.stream" then handleStream args impl
  else if cmd = "c04.hbstress" then
    -- real heartbeat goroutine vs owners in blockGet: the lock order stream.mu → blockedMu is never
    -- inverted (Props/C04 no_wait_cycle_copy_then_unlock), so events keep being taken
    let want := "progress 1 stalled 0 taken 1"
    some (want, if Tok.unwords impl = want then "ok" else "fail")
  else if cmd = "c04.burst" then
    -- liveness oracle of the whole-pipeline burst runs: the stream charged together with a never-drying
    -- one is attended by another processor while the first still flows (Props/C04
    -- no_sleeper_with_work_holds), nothing is lost, the pool is idle at the end
    let want := "bearly 1 lost 0 end 0 0"
    some (want, if Tok.unwords impl = want then "ok" else "fail")
  -- whole-pipeline liveness: the C01/C02 pipeline trace (streams, processors, real join/split, batcher);
  -- P fails iff the run never went idle or an accepted event was neither committed nor dropped
  else if cmd = "c04.run" then FileD.DrvC01.handle cmd args impl
  else none

end FileD.DrvC04
