/-
  Driver glue for C20. Case lines (tokens the model does not need are marked ·):

  c20.spam <thr> <unban> <intervalNs> <rulesNil> <nExc> <checkSourceName>… <nRules> <ruleThr>…
           <defs·> (per exception: <isOr> <nRules> (<mode> <ci> <inv> <nVals> <value>…)…)
           <nLower> (<bytes> <lowered>)… <nOps> op…
      op = e <id> <name> <isNew> <timeNs> <event> <meta·> <excbits·> <rulebits>   |   m
      the exception results are computed here from the rule sets (model of matchrule for M, the
      literal reading for P); excbits (the library's answers) are only re-checked by exec;
      rulebits: 1 char per rule (doif oracle)
    impl: per op `0|1`  or  `B <k> (<id> <counter>)… A <k> (<id> <counter>)…` (all source counters
          before / after the round); then `D <k> …` (Dump(): counters >= default threshold)

  c20.in <max> <cut> <field> <j|r> <asThr> <intervalNs> <metaField> <nExc> <checkSourceName>… <defs·>
         <nRecs> rec…
      rec = <sourceID> <name·> <cur> <streamOff|x> <isNew> <hasMeta> <metaKey> <metaVal> <pass> <data>
            <nCand> (<bytes> <excbits> (E | V <tree>))…
    impl: per record `r` | `d <tree>`

  c20.mr <isOr> <nRules> (<mode 0 prefix|1 contains|2 suffix> <ci> <invert> <nVals> <value>…)… <data>
         <nLower> (<bytes> <lowered bytes>)…
      the (bytes, lowered) table is the ToLower oracle for every byte string the code lowers
    impl: `0|1` (RuleSet.Match) | panic:<kind>
-/
import FileD.Prelude.Tok
import FileD.Model.Antispam
import FileD.Model.Admission
import FileD.Model.MatchRule
import FileD.Spec.C20
namespace FileD.DrvC20
open FileD Tok

def bits? (s : String) : Option (List Bool) :=
  if s = "-" then some [] else
  s.toList.mapM fun c => if c = '1' then some true else if c = '0' then some false else none

def pairs : List Bool → List (Bool × Bool)
  | a :: b :: r => (a, b) :: pairs r
  | _ => []

def takeN {α} (p : String → Option α) : Nat → List String → Option (List α × List String)
  | 0, ts => some ([], ts)
  | _+1, [] => none
  | n+1, t :: ts => do
    let x ← p t
    let (xs, r) ← takeN p n ts
    pure (x :: xs, r)

/-! ### c20.in -/

structure Cand where
  bytes : Bytes
  excM  : List (Bool × Bool)
  dec   : Option JTree

def parseCands : Nat → List String → Option (List Cand × List String)
  | 0, ts => some ([], ts)
  | n+1, b :: eb :: "E" :: ts => do
    let b ← bytes? b
    let eb ← bits? eb
    let (cs, r) ← parseCands n ts
    pure (⟨b, pairs eb, none⟩ :: cs, r)
  | n+1, b :: eb :: "V" :: ts => do
    let b ← bytes? b
    let eb ← bits? eb
    let (t, r0) ← JTree.parse? ts
    let (cs, r) ← parseCands n r0
    pure (⟨b, pairs eb, some t⟩ :: cs, r)
  | _, _ => none

def findCand (b : Bytes) : List Cand → Option Cand
  | [] => none
  | c :: cs => if c.bytes = b then some c else findCand b cs

def parseRecs : Nat → List String → Option (List (Admission.Rec × List Cand) × List String)
  | 0, ts => some ([], ts)
  | n+1, sid :: _name :: cur :: so :: nw :: hm :: mk :: mv :: ps :: data :: nc :: ts => do
    let sid ← nat? sid
    let cur ← int? cur
    let so ← if so = "x" then some none else (int? so).map some
    let nw ← bool? nw
    let hm ← bool? hm
    let mk ← bytes? mk
    let mv ← bytes? mv
    let ps ← bool? ps
    let data ← bytes? data
    let k ← nat? nc
    let (cands, r1) ← parseCands k ts
    let (rest, r2) ← parseRecs n r1
    let rec_ : Admission.Rec :=
      { sourceID := sid, cur := cur, streamOff := so, isNew := nw,
        md := if hm then [(mk, mv)] else [], pass := ps, data := data,
        excM := fun b => match findCand b cands with | some c => c.excM | none => [] }
    pure ((rec_, cands) :: rest, r2)
  | _, _ => none

/-- every byte string the model hands to the oracles must be in the case's table -/
def oracleCovered (s : Admission.Settings) : List (Admission.Rec × List Cand) → Bool
  | [] => true
  | (r, cands) :: rest =>
    (match Admission.checkInputBytes s r.data with
     | .ok (b, _, true) => (findCand b cands).isSome
     | _ => true) && oracleCovered s rest

def handleIn (args impl : List String) : Option (String × String) :=
  match args with
  | mx :: cut :: fld :: dc :: thr :: iv :: mf :: rest => do
    let mx ← int? mx
    let cut ← bool? cut
    let fld ← bytes? fld
    let dc ← if dc = "j" then some Admission.Dec.json else if dc = "r" then some Admission.Dec.raw else none
    let thr ← int? thr
    let iv ← int? iv
    let mf ← bytes? mf
    let (excs, r1) ← listOf bool? rest
    match r1 with
    | _defs :: nrec :: r2 =>
      let n ← nat? nrec
      let (recs, r3) ← parseRecs n r2
      if r3 ≠ [] then none
      let s : Admission.Settings :=
        { maxEventSize := mx, cutOff := cut, cutOffField := fld, dec := dc, metaField := mf,
          as := ⟨thr, 4, iv, true, excs, []⟩ }
      let allCands := recs.flatMap (·.2)
      let decode : Bytes → Option JTree := fun b =>
        match findCand b allCands with | some c => c.dec | none => none
      let rs := recs.map (·.1)
      let m := if !oracleCovered s recs then "oracle-miss" else
        match Admission.inSeq s decode Antispam.init rs with
        | .ok os => unwords (os.map SpecC20.outcomeTok)
        | .error p => panicTok p
      let p := if SpecC20.holdsIn s decode rs (unwords impl) then "ok" else "fail"
      pure (m, p)
    | _ => none
  | _ => none

/-! ### c20.mr -/

def parseRules : Nat → List String → Option (List MatchRule.Rule × List String)
  | 0, ts => some ([], ts)
  | n+1, md :: ci :: inv :: ts => do
    let mode ← if md = "0" then some MatchRule.Mode.pre else if md = "1" then some MatchRule.Mode.contains
               else if md = "2" then some MatchRule.Mode.suf else none
    let ci ← bool? ci
    let inv ← bool? inv
    let (vals, r1) ← listOf bytes? ts
    let (rest, r2) ← parseRules n r1
    pure (⟨vals, mode, ci, inv⟩ :: rest, r2)
  | _, _ => none

def parsePairs : Nat → List String → Option (List (Bytes × Bytes) × List String)
  | 0, ts => some ([], ts)
  | n+1, a :: b :: ts => do
    let a ← bytes? a
    let b ← bytes? b
    let (rest, r) ← parsePairs n ts
    pure ((a, b) :: rest, r)
  | _, _ => none

def lookupLower (tbl : List (Bytes × Bytes)) (b : Bytes) : Option Bytes :=
  match tbl with
  | [] => none
  | (k, v) :: r => if k = b then some v else lookupLower r b

/-- every byte string the model lowers for this rule must be in the table -/
def lowerCovered (tbl : List (Bytes × Bytes)) (r : MatchRule.Rule) (raw : Bytes) : Bool :=
  !r.ci ||
  (r.values.all (fun v => (lookupLower tbl v).isSome) &&
   (let lower : Bytes → Bytes := fun b => match lookupLower tbl b with | some l => l | none => b
    let M := MatchRule.maxLen (MatchRule.prepared lower r)
    (lookupLower tbl raw).isSome && (lookupLower tbl (raw.take M)).isSome &&
      (lookupLower tbl (raw.drop (raw.length - M))).isSome))

def handleMr (args impl : List String) : Option (String × String) :=
  match args with
  | isOr :: nr :: rest => do
    let isOr ← bool? isOr
    let n ← nat? nr
    let (rules, r1) ← parseRules n rest
    match r1 with
    | data :: nl :: r2 =>
      let raw ← bytes? data
      let k ← nat? nl
      let (tbl, r3) ← parsePairs k r2
      if r3 ≠ [] then none
      let lower : Bytes → Bytes := fun b => match lookupLower tbl b with | some l => l | none => b
      let m := if !(rules.all (lowerCovered tbl · raw)) then "oracle-miss" else
        match MatchRule.rsMatch lower isOr rules raw with
        | .ok b => ofBool b
        | .error p => panicTok p
      let p := if SpecC20.holdsMr lower isOr rules raw (unwords impl) then "ok" else "fail"
      pure (m, p)
    | _ => none
  | _ => none

/-! ### c20.spam -/

/-- an exception: `Cond == CondOr`, its rules -/
abbrev Exc := Bool × List MatchRule.Rule

def parseExcs : Nat → List String → Option (List Exc × List String)
  | 0, ts => some ([], ts)
  | n+1, isOr :: nr :: ts => do
    let isOr ← bool? isOr
    let k ← nat? nr
    let (rules, r1) ← parseRules k ts
    let (rest, r2) ← parseExcs n r1
    pure ((isOr, rules) :: rest, r2)
  | _, _ => none

/-- model: the exception's `RuleSet.Match` (model of matchrule) on the event bytes and on the name -/
def bitsModel (lower : Bytes → Bytes) (excs : List Exc) (event name : Bytes) : List (Bool × Bool) :=
  excs.map fun x =>
    let f := fun d => match MatchRule.rsMatch lower x.1 x.2 d with | .ok b => b | .error _ => false
    (f event, f name)

/-- spec: the literal reading; where the spec says nothing (lowering not length-preserving) the model's -/
def bitsSpec (lower : Bytes → Bytes) (excs : List Exc) (event name : Bytes) : List (Bool × Bool) :=
  excs.map fun x =>
    let f := fun d =>
      if x.2.any (fun r => r.values.isEmpty) || !(x.2.all (SpecC20.lowerNiceB lower · d)) then
        (match MatchRule.rsMatch lower x.1 x.2 d with | .ok b => b | .error _ => false)
      else SpecC20.specRuleSet lower x.1 x.2 d
    (f event, f name)

/-- ops with the exception bits computed by `bits` from the event bytes and the source name -/
def parseOps (bits : Bytes → Bytes → List (Bool × Bool)) :
    Nat → List String → Option (List Antispam.Op × List String)
  | 0, ts => some ([], ts)
  | n+1, "m" :: ts => do
    let (ops, r) ← parseOps bits n ts
    pure (.maint :: ops, r)
  | n+1, "e" :: id :: name :: nw :: tm :: ev :: _meta :: _eb :: rb :: ts => do
    let id ← bytes? id
    let name ← bytes? name
    let nw ← bool? nw
    let tm ← int? tm
    let ev ← bytes? ev
    let rb ← bits? rb
    let (ops, r) ← parseOps bits n ts
    pure (.event { id := id, isNew := nw, time := tm, excM := bits ev name, ruleM := rb } :: ops, r)
  | _, _ => none

def encDump (tag : String) (d : List (Bytes × Int)) : String :=
  unwords (tag :: toString d.length :: d.flatMap (fun x => [Hex.enc x.1, toString x.2]))

def parseDump (tag : String) : List String → Option (List (Bytes × Int) × List String)
  | t :: n :: ts =>
    if t ≠ tag then none else do
    let k ← nat? n
    let rec go : Nat → List String → Option (List (Bytes × Int) × List String)
      | 0, ts => some ([], ts)
      | k+1, id :: c :: ts => do
        let id ← bytes? id
        let c ← int? c
        let (r, ts') ← go k ts
        pure ((id, c) :: r, ts')
      | _, _ => none
    go k ts
  | _ => none

/-- the model's result tokens for a run -/
def runSpam (cfg : Antispam.Cfg) : Antispam.State → List Antispam.Op → List String
  | st, [] => [encDump "D" (Antispam.dump cfg st)]
  | st, .event e :: ops =>
    ofBool (Antispam.isSpam cfg st e).1 :: runSpam cfg (Antispam.isSpam cfg st e).2 ops
  | st, .maint :: ops =>
    let st' := Antispam.maintenance cfg st
    encDump "B" (Antispam.dumpAll st) :: encDump "A" (Antispam.dumpAll st') :: runSpam cfg st' ops

/-- the implementation's observations (final dump dropped) -/
def parseObs : List Antispam.Op → List String → Option (List SpecC20.Obs)
  | [], ts => (parseDump "D" ts).bind fun (_, r) => if r = [] then some [] else none
  | .event _ :: ops, t :: ts => do
    let a ← bool? t
    let r ← parseObs ops ts
    pure (.ans a :: r)
  | .maint :: ops, ts => do
    let (b, r1) ← parseDump "B" ts
    let (a, r2) ← parseDump "A" r1
    let r ← parseObs ops r2
    pure (.maint b a :: r)
  | _, _ => none

/-- everything the model lowers is in the table: per CI rule, its values and the cuts of each data -/
def spamLowerCovered (tbl : List (Bytes × Bytes)) (excs : List Exc) (datas : List Bytes) : Bool :=
  excs.all fun x => x.2.all fun r => datas.all fun d => lowerCovered tbl r d

def opDatas : List String → List Bytes
  | "e" :: _ :: name :: _ :: _ :: ev :: ts =>
    (match bytes? name, bytes? ev with | some n, some e => [e, n] | _, _ => []) ++ opDatas ts
  | _ :: ts => opDatas ts
  | [] => []

def handleSpam (args impl : List String) : Option (String × String) :=
  match args with
  | thr :: ub :: iv :: rn :: rest => do
    let thr ← int? thr
    let ub ← int? ub
    let iv ← int? iv
    let rn ← bool? rn
    let (excs, r1) ← listOf bool? rest
    let (rules, r2) ← listOf int? r1
    match r2 with
    | _defs :: r3 =>
      let (xs, r4) ← parseExcs excs.length r3
      match r4 with
      | nl :: r5 =>
        let k ← nat? nl
        let (tbl, r6) ← parsePairs k r5
        match r6 with
        | nops :: r7 =>
          let n ← nat? nops
          let lower : Bytes → Bytes := fun b => match lookupLower tbl b with | some l => l | none => b
          let (opsM, r8) ← parseOps (bitsModel lower xs) n r7
          if r8 ≠ [] then none
          let (opsS, _) ← parseOps (bitsSpec lower xs) n r7
          let cfg : Antispam.Cfg := ⟨thr, ub, iv, rn, excs, rules⟩
          let m := if !spamLowerCovered tbl xs (opDatas r7) then "oracle-miss"
                   else unwords (runSpam cfg Antispam.init opsM)
          let p := match parseObs opsS impl with
            | some obs => SpecC20.verdictTok (SpecC20.holdsSpam cfg opsS obs)
            | none => match impl with
              | t :: _ => if t.startsWith "panic" then "fail" else "bad-impl"
              | [] => "bad-impl"
          pure (m, p)
        | _ => none
      | _ => none
    | _ => none
  | _ => none

def handle (cmd : String) (args impl : List String) : Option (String × String) :=
  if cmd = "c20.mr" then handleMr args impl else
  if cmd = "c20.spam" then handleSpam args impl
  else if cmd = "c20.in" then handleIn args impl
  else none

end FileD.DrvC20
