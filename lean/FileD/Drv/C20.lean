/- Driver glue for C20: case lines `c20.<sub> <args…> | <impl…>` (stub until the property is built) -/
import FileD.Prelude.Tok
namespace FileD.DrvC20

def handle (_cmd : String) (_args _impl : List String) : Option (String × String) := none

end FileD.DrvC20
