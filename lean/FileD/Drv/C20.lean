/-
  Driver glue for C20. Case lines (tokens the model does not need are marked ·):

  c20.spam <thr> <unban> <intervalNs> <rulesNil> <nExc> <checkSourceName>… <nRules> <ruleThr>…
           <defs·> <nOps> op…
      op = e <id> <name·> <isNew> <timeNs> <event·> <meta·> <excbits> <rulebits>   |   m
      excbits: 2 chars per exception (Match(event), Match(name)), `-` if none; rulebits: 1 char per rule
    impl: per op `0|1`  or  `B <k> (<id> <counter>)… A <k> (<id> <counter>)…` (all source counters
          before / after the round); then `D <k> …` (Dump(): counters >= default threshold)

  c20.in <max> <cut> <field> <j|r> <asThr> <intervalNs> <metaField> <nExc> <checkSourceName>… <defs·>
         <nRecs> rec…
      rec = <sourceID> <name·> <cur> <streamOff|x> <isNew> <hasMeta> <metaKey> <metaVal> <pass> <data>
            <nCand> (<bytes> <excbits> (E | V <tree>))…
    impl: per record `r` | `d <tree>`
-/
import FileD.Prelude.Tok
import FileD.Model.Antispam
import FileD.Model.Admission
import FileD.Spec.C20
namespace FileD.DrvC20
open FileD Tok

def bits? (s : String) : Option (List Bool) :=
  if s = "-" then some [] else
  s.toList.mapM fun c => if c = '1' then some true else if c = '0' then some false else none

def pairs : List Bool → List (Bool × Bool)
  | a :: b :: r => (a, b) :: pairs r
  | _ => []

def takeN {α} (p : String → Option α) : Nat → List String → Option (List α × List String)
  | 0, ts => some ([], ts)
  | _+1, [] => none
  | n+1, t :: ts => do
    let x ← p t
    let (xs, r) ← takeN p n ts
    pure (x :: xs, r)

/-! ### c20.spam -/

def parseOps : Nat → List String → Option (List Antispam.Op × List String)
  | 0, ts => some ([], ts)
  | n+1, "m" :: ts => do
    let (ops, r) ← parseOps n ts
    pure (.maint :: ops, r)
  | n+1, "e" :: id :: _name :: nw :: tm :: _ev :: _meta :: eb :: rb :: ts => do
    let id ← bytes? id
    let nw ← bool? nw
    let tm ← int? tm
    let eb ← bits? eb
    let rb ← bits? rb
    let (ops, r) ← parseOps n ts
    pure (.event { id := id, isNew := nw, time := tm, excM := pairs eb, ruleM := rb } :: ops, r)
  | _, _ => none

def encDump (tag : String) (d : List (Bytes × Int)) : String :=
  unwords (tag :: toString d.length :: d.flatMap (fun x => [Hex.enc x.1, toString x.2]))

def parseDump (tag : String) : List String → Option (List (Bytes × Int) × List String)
  | t :: n :: ts =>
    if t ≠ tag then none else do
    let k ← nat? n
    let rec go : Nat → List String → Option (List (Bytes × Int) × List String)
      | 0, ts => some ([], ts)
      | k+1, id :: c :: ts => do
        let id ← bytes? id
        let c ← int? c
        let (r, ts') ← go k ts
        pure ((id, c) :: r, ts')
      | _, _ => none
    go k ts
  | _ => none

/-- the model's result tokens for a run -/
def runSpam (cfg : Antispam.Cfg) : Antispam.State → List Antispam.Op → List String
  | st, [] => [encDump "D" (Antispam.dump cfg st)]
  | st, .event e :: ops =>
    ofBool (Antispam.isSpam cfg st e).1 :: runSpam cfg (Antispam.isSpam cfg st e).2 ops
  | st, .maint :: ops =>
    let st' := Antispam.maintenance cfg st
    encDump "B" (Antispam.dumpAll st) :: encDump "A" (Antispam.dumpAll st') :: runSpam cfg st' ops

/-- the implementation's observations (final dump dropped) -/
def parseObs : List Antispam.Op → List String → Option (List SpecC20.Obs)
  | [], ts => (parseDump "D" ts).bind fun (_, r) => if r = [] then some [] else none
  | .event _ :: ops, t :: ts => do
    let a ← bool? t
    let r ← parseObs ops ts
    pure (.ans a :: r)
  | .maint :: ops, ts => do
    let (b, r1) ← parseDump "B" ts
    let (a, r2) ← parseDump "A" r1
    let r ← parseObs ops r2
    pure (.maint b a :: r)
  | _, _ => none

def handleSpam (args impl : List String) : Option (String × String) :=
  match args with
  | thr :: ub :: iv :: rn :: rest => do
    let thr ← int? thr
    let ub ← int? ub
    let iv ← int? iv
    let rn ← bool? rn
    let (excs, r1) ← listOf bool? rest
    let (rules, r2) ← listOf int? r1
    match r2 with
    | _defs :: nops :: r3 =>
      let n ← nat? nops
      let (ops, r4) ← parseOps n r3
      if r4 ≠ [] then none
      let cfg : Antispam.Cfg := ⟨thr, ub, iv, rn, excs, rules⟩
      let m := unwords (runSpam cfg Antispam.init ops)
      let p := match parseObs ops impl with
        | some obs => SpecC20.verdictTok (SpecC20.holdsSpam cfg ops obs)
        | none => match impl with
          | t :: _ => if t.startsWith "panic" then "fail" else "bad-impl"
          | [] => "bad-impl"
      pure (m, p)
    | _ => none
  | _ => none

/-! ### c20.in -/

structure Cand where
  bytes : Bytes
  excM  : List (Bool × Bool)
  dec   : Option JTree

def parseCands : Nat → List String → Option (List Cand × List String)
  | 0, ts => some ([], ts)
  | n+1, b :: eb :: "E" :: ts => do
    let b ← bytes? b
    let eb ← bits? eb
    let (cs, r) ← parseCands n ts
    pure (⟨b, pairs eb, none⟩ :: cs, r)
  | n+1, b :: eb :: "V" :: ts => do
    let b ← bytes? b
    let eb ← bits? eb
    let (t, r0) ← JTree.parse? ts
    let (cs, r) ← parseCands n r0
    pure (⟨b, pairs eb, some t⟩ :: cs, r)
  | _, _ => none

def findCand (b : Bytes) : List Cand → Option Cand
  | [] => none
  | c :: cs => if c.bytes = b then some c else findCand b cs

def parseRecs : Nat → List String → Option (List (Admission.Rec × List Cand) × List String)
  | 0, ts => some ([], ts)
  | n+1, sid :: _name :: cur :: so :: nw :: hm :: mk :: mv :: ps :: data :: nc :: ts => do
    let sid ← nat? sid
    let cur ← int? cur
    let so ← if so = "x" then some none else (int? so).map some
    let nw ← bool? nw
    let hm ← bool? hm
    let mk ← bytes? mk
    let mv ← bytes? mv
    let ps ← bool? ps
    let data ← bytes? data
    let k ← nat? nc
    let (cands, r1) ← parseCands k ts
    let (rest, r2) ← parseRecs n r1
    let rec_ : Admission.Rec :=
      { sourceID := sid, cur := cur, streamOff := so, isNew := nw,
        md := if hm then [(mk, mv)] else [], pass := ps, data := data,
        excM := fun b => match findCand b cands with | some c => c.excM | none => [] }
    pure ((rec_, cands) :: rest, r2)
  | _, _ => none

/-- every byte string the model hands to the oracles must be in the case's table -/
def oracleCovered (s : Admission.Settings) : List (Admission.Rec × List Cand) → Bool
  | [] => true
  | (r, cands) :: rest =>
    (match Admission.checkInputBytes s r.data with
     | .ok (b, _, true) => (findCand b cands).isSome
     | _ => true) && oracleCovered s rest

def handleIn (args impl : List String) : Option (String × String) :=
  match args with
  | mx :: cut :: fld :: dc :: thr :: iv :: mf :: rest => do
    let mx ← int? mx
    let cut ← bool? cut
    let fld ← bytes? fld
    let dc ← if dc = "j" then some Admission.Dec.json else if dc = "r" then some Admission.Dec.raw else none
    let thr ← int? thr
    let iv ← int? iv
    let mf ← bytes? mf
    let (excs, r1) ← listOf bool? rest
    match r1 with
    | _defs :: nrec :: r2 =>
      let n ← nat? nrec
      let (recs, r3) ← parseRecs n r2
      if r3 ≠ [] then none
      let s : Admission.Settings :=
        { maxEventSize := mx, cutOff := cut, cutOffField := fld, dec := dc, metaField := mf,
          as := ⟨thr, 4, iv, true, excs, []⟩ }
      let allCands := recs.flatMap (·.2)
      let decode : Bytes → Option JTree := fun b =>
        match findCand b allCands with | some c => c.dec | none => none
      let rs := recs.map (·.1)
      let m := if !oracleCovered s recs then "oracle-miss" else
        match Admission.inSeq s decode Antispam.init rs with
        | .ok os => unwords (os.map SpecC20.outcomeTok)
        | .error p => panicTok p
      let p := if SpecC20.holdsIn s decode rs (unwords impl) then "ok" else "fail"
      pure (m, p)
    | _ => none
  | _ => none

def handle (cmd : String) (args impl : List String) : Option (String × String) :=
  if cmd = "c20.spam" then handleSpam args impl
  else if cmd = "c20.in" then handleIn args impl
  else none

end FileD.DrvC20
