/-
  Driver glue for C12. Case lines (see harness/cmd/fdharness/c12.go for the implementation side):

    c12.cri   <hex>                                   | ok <time> <stream> <partial> <log> B <buf>
    c12.pg    <hex>                                   | ok <time> <pid> <pmn> <client> <db> <user> <log> B <buf> J <tree>
    c12.nginx <custom> <n> (<keyhex> <0|1>)… <hex>    | ok <time> <level> <pid> <tid> <cid> <msg> <n> (<k> <v>)… B <buf> J <tree>
    c12.s3164 <facStr> <sevStr> <hex>                 | ok <pri> <fac> <sev> <ts> <host> <app> <procid> <msg> B <buf> J <tree>
    c12.s5424 <facStr> <sevStr> <hex>                 | ok <pri> <fac> <sev> <ver> <ts> <host> <app> <procid> <msgid> <msg>
                                                           <nsd> (<id> <np> (<k> <v>)…)… B <buf> J <tree>
    c12.csv   <delim> <mode> <prefix> <nc> <col>… <trimmed> <hex>
                                                      | ok <n> <field>… B <buf> J <tree>
    c12.raw   <hex>                                   | ok <message> | refused
    c12.jcut  <valid> <n> (<path> <limit> <found> <index> <strlen> <rawlen>)… <hex>   | <hex result>
    c12.json  <tree>                                  | ok <tree> | err
    c12.pb    <hex>                                   | ok | err            (library: echoed, only "no panic" is judged)
    c12.conc  <workers> <iters> <k> <inner case> ;; … <inner case>      (one shared decoder, concurrent callers)
                                                      | <inner result> ;; … | `unstable <n> …` for a document whose calls disagreed
    c12.in    <max_event_size> <cut_off> <following> <inner cmd> <inner args… line>   (real Pipeline.In on buf[:len(line)])
                                                      | ok <event, keys sorted> L <line after> A <following after> | refused L … A …
    c12.row   <one of the scanner cases above> E <expected field tokens>
                                                      | the inner case's result; P additionally requires
                                                        `ok <expected field tokens> B …` (fidelity on the implementation)
  every scanner prints `err B <buf> J err` when the decoder returned its error and `panic:<kind>` on a panic.
  `J` is the event DecodeToJson builds (object, fields stably sorted by key).
-/
import FileD.Prelude.Tok
import FileD.Model.Dec.CRI
import FileD.Model.Dec.Raw
import FileD.Model.Dec.Postgres
import FileD.Model.Dec.Nginx
import FileD.Model.Dec.Syslog3164
import FileD.Model.Dec.Syslog5424
import FileD.Model.Dec.CSV
import FileD.Model.Dec.JsonCut
import FileD.Model.Dec.Json
import FileD.Model.Dec.Input
import FileD.Spec.C12
namespace FileD.DrvC12
open FileD Tok FileD.Dec

def hx (b : Bytes) : String := Hex.enc b

/-- insert keeping earlier elements with an equal key in front (stable) -/
def insertStable (kv : Bytes × JTree) : List (Bytes × JTree) → List (Bytes × JTree)
  | [] => [kv]
  | x :: xs => if !bytesLt x.1 kv.1 then kv :: x :: xs else x :: insertStable kv xs

def sortFields (m : List (Bytes × JTree)) : List (Bytes × JTree) := m.foldr insertStable []

/-- insane-json `AddFieldNoAlloc` returns the existing field when the name is already present:
    adding fields is insert-or-replace; the view is sorted by key -/
def jview (fields : List (Bytes × JTree)) : String :=
  JTree.enc (.obj (sortFields (fields.foldl (fun m kv => mapSet m kv.1 kv.2) [])))

def s (x : String) : Bytes := x.toUTF8.toList

def strField (k : String) (v : Bytes) : Bytes × JTree := (s k, .str v)
def optField (k : String) (v : Bytes) : List (Bytes × JTree) := if v.length > 0 then [strField k v] else []

/-- print a scanner result: `f` renders (row tokens, json view) -/
def scan {α} (hasJ : Bool) (r : GoM (Option α × Bytes)) (f : α → String × Option String) : String :=
  match r with
  | .error p => panicTok p
  | .ok (none, buf) => if hasJ then unwords ["err", "B", hx buf, "J", "err"] else unwords ["err", "B", hx buf]
  | .ok (some row, buf) =>
    let (toks, j) := f row
    match j with
    | some j => unwords ["ok", toks, "B", hx buf, "J", j]
    | none => unwords ["ok", toks, "B", hx buf]

def withBuf {α} (buf : Bytes) (r : GoM (Option α)) : GoM (Option α × Bytes) := r.map (fun x => (x, buf))

/-- the tokens after the first `B` -/
def afterB : List String → Option String
  | [] => none
  | "B" :: h :: _ => some h
  | _ :: ts => afterB ts

def scannerP (isCSV : Bool) (input : Bytes) (impl : List String) : String :=
  if impl.any (fun t => t.startsWith "panic" || t == "frame-violated") then "fail" else
  match afterB impl with
  | some h =>
    match Hex.dec? h with
    | some buf => if SpecC12.frameOk isCSV input buf then "ok" else "fail"
    | none => "bad-impl"
  | none => "bad-impl"

def pgJ (r : Postgres.Row) : String :=
  jview [strField "time" r.time, strField "pid" r.pid, strField "pid_message_number" r.pidMessageNumber,
         strField "client" r.client, strField "db" r.db, strField "user" r.user, strField "log" r.log]

def kvToks (m : List (Bytes × Bytes)) : String :=
  unwords (toString m.length :: (sortMap m).flatMap (fun kv => [hx kv.1, hx kv.2]))

def nginxJ (r : Nginx.Row) : String :=
  jview ([strField "time" r.time, strField "level" r.level, strField "pid" r.pid, strField "tid" r.tid]
         ++ optField "cid" r.cid ++ optField "message" r.message
         ++ (sortMap r.custom).map (fun kv => (kv.1, JTree.str kv.2)))

def syslogJ (pri fac sev ver ts host app procid msgid msg : Bytes) (sd : Syslog5424.SD) : String :=
  jview ([strField "priority" pri, strField "facility" fac, strField "severity" sev]
         ++ optField "proto_version" ver ++ optField "timestamp" ts ++ optField "hostname" host
         ++ optField "app_name" app ++ optField "process_id" procid ++ optField "message_id" msgid
         ++ optField "message" msg
         ++ ((sortMap sd).filter (fun e => e.2.length > 0)).map
              (fun e => (e.1, JTree.obj ((sortMap e.2).map (fun kv => (kv.1, JTree.str kv.2))))))

def sdToks (sd : Syslog5424.SD) : String :=
  unwords (toString sd.length :: (sortMap sd).flatMap (fun e => [hx e.1, kvToks e.2]))

def parsePairs : Nat → List String → Option (List (Bytes × Bool) × List String)
  | 0, ts => some ([], ts)
  | n+1, k :: b :: ts => do
    let key ← bytes? k
    let v ← bool? b
    let (rest, r) ← parsePairs n ts
    pure ((key, v) :: rest, r)
  | _, _ => none

def parseProbes : Nat → List String → Option (List JsonCut.Probe × List String)
  | 0, ts => some ([], ts)
  | n+1, _path :: lim :: fnd :: ix :: sl :: rl :: ts => do
    let limit ← int? lim
    let found ← bool? fnd
    let index ← int? ix
    let strLen ← int? sl
    let rawLen ← int? rl
    let (rest, r) ← parseProbes n ts
    pure (⟨limit, found, index, strLen, rawLen⟩ :: rest, r)
  | _, _ => none

/-- CSV: `CheckInvalidLine` + `GenerateColumnName` -/
def csvJ (cont : Bool) (pre : Bytes) (cols : List Bytes) (row : List Bytes) : String :=
  if cols.length ≠ 0 ∧ row.length ≠ cols.length ∧ !cont then "err" else
  let rec names (i : Nat) : List Bytes → List (Bytes × JTree)
    | [] => []
    | f :: fs => ((match cols[i]? with | some c => c | none => pre ++ itoa i), JTree.str f) :: names (i + 1) fs
  jview (names 0 row)

def handleBase (cmd : String) (args impl : List String) : Option (String × String) :=
  match cmd, args with
  | "c12.cri", [h] => do
    let data ← bytes? h
    let m := scan false (withBuf data (CRI.decode data)) (fun r =>
      (unwords [hx r.time, hx r.stream, ofBool r.isPartial, hx r.log], none))
    pure (m, scannerP false data impl)
  | "c12.pg", [h] => do
    let data ← bytes? h
    let m := scan true (Postgres.decode data) (fun r =>
      (unwords [hx r.time, hx r.pid, hx r.pidMessageNumber, hx r.client, hx r.db, hx r.user, hx r.log], some (pgJ r)))
    pure (m, scannerP false data impl)
  | "c12.nginx", c :: n :: rest => do
    let custom ← bool? c
    let k ← nat? n
    let (tbl, r) ← parsePairs k rest
    match r with
    | [h] =>
      let data ← bytes? h
      let letters : Bytes → Bool := fun key => match tbl.find? (·.1 == key) with | some e => e.2 | none => false
      let m := scan true (withBuf data (Nginx.decode custom letters data)) (fun r =>
        (unwords [hx r.time, hx r.level, hx r.pid, hx r.tid, hx r.cid, hx r.message, kvToks r.custom], some (nginxJ r)))
      pure (m, scannerP false data impl)
    | _ => none
  | "c12.s3164", [f, sv, h] => do
    let fs ← bool? f
    let ss ← bool? sv
    let data ← bytes? h
    let m := scan true (withBuf data (Syslog3164.decode fs ss data)) (fun r =>
      (unwords [hx r.priority, hx r.facility, hx r.severity, hx r.timestamp, hx r.hostname, hx r.appName,
                hx r.procID, hx r.message],
       some (syslogJ r.priority r.facility r.severity [] r.timestamp r.hostname r.appName r.procID [] r.message [])))
    pure (m, scannerP false data impl)
  | "c12.s5424", [f, sv, h] => do
    let fs ← bool? f
    let ss ← bool? sv
    let data ← bytes? h
    let m := scan true (withBuf data (Syslog5424.decode fs ss data)) (fun r =>
      (unwords [hx r.priority, hx r.facility, hx r.severity, hx r.protoVersion, hx r.timestamp, hx r.hostname,
                hx r.appName, hx r.procID, hx r.msgID, hx r.message, sdToks r.sd],
       some (syslogJ r.priority r.facility r.severity r.protoVersion r.timestamp r.hostname r.appName r.procID
               r.msgID r.message r.sd)))
    pure (m, scannerP false data impl)
  | "c12.csv", d :: md :: pre :: rest => do
    let delim ← nat? d
    let cont ← bool? md
    let prefix_ ← bytes? pre
    let (cols, r) ← listOf bytes? rest
    match r with
    | [t, h] =>
      let trimmed ← bytes? t
      let data ← bytes? h
      let m := scan true (CSV.decode (UInt8.ofNat delim) (fun _ => trimmed) data) (fun row =>
        (encList hx row, some (csvJ cont prefix_ cols row)))
      pure (m, scannerP true data impl)
    | _ => none
  | "c12.raw", [h] => do
    let data ← bytes? h
    let m := match Raw.decode data with
      | .error p => panicTok p
      | .ok none => "refused"
      | .ok (some msg) => unwords ["ok", hx msg]
    pure (m, if impl.any (·.startsWith "panic") then "fail" else "ok")
  | "c12.jcut", v :: n :: rest => do
    let valid ← bool? v
    let k ← nat? n
    let (probes, r) ← parseProbes k rest
    match r with
    | [h] =>
      let data ← bytes? h
      let m := match JsonCut.cutFields valid probes data with
        | .error p => panicTok p
        | .ok res => hx res
      let p := match impl with
        | [ih] => match Hex.dec? ih with
                  | some res => if SpecC12.cutOk valid data res then "ok" else "fail"
                  | none => if ih.startsWith "panic" || ih == "frame-violated" then "fail" else "bad-impl"
        | _ => "bad-impl"
      pure (m, p)
    | _ => none
  | "c12.json", ts => do
    let (t, r) ← JTree.parse? ts
    if r ≠ [] then none
    let m := match Json.decode (Json.encode t) with
      | some t' => unwords ["ok", JTree.enc t']
      | none => "err"
    -- oracle: what insane-json read back is the tree that was written
    let p := if impl = "ok" :: JTree.toToks t then "ok" else "fail"
    pure (m, p)
  | "c12.pb", _ =>
    -- protobuf decoder: library code (protocompile / dynamicpb), compared for "no panic" only
    pure (unwords impl, if impl.any (·.startsWith "panic") then "fail" else "ok")
  | _, _ => none

mutual
  /-- keys sorted (stably) at every level: the canonical print of an event -/
  def sortRec : JTree → JTree
    | .obj kvs => .obj (sortFields (sortRecKVs kvs))
    | .arr xs => .arr (sortRecList xs)
    | t => t
  def sortRecList : List JTree → List JTree
    | [] => []
    | x :: xs => sortRec x :: sortRecList xs
  def sortRecKVs : List (Bytes × JTree) → List (Bytes × JTree)
    | [] => []
    | (k, v) :: kvs => (k, sortRec v) :: sortRecKVs kvs
end

def lastTok : List String → Option String
  | [] => none
  | [x] => some x
  | _ :: xs => lastTok xs

def replaceLast (l : List String) (x : String) : List String := l.dropLast ++ [x]

/-- the tokens after the first occurrence of `tag` -/
def afterTok (tag : String) : List String → Option (List String)
  | [] => none
  | t :: ts => if t = tag then some ts else afterTok tag ts

/-- `c12.in <max> <cutoff> <following> <inner cmd> <inner args… line>`: the real `Pipeline.In` on
    `buf[:len(line)]` of the buffer `line ++ following`. Model: `checkInputBytes`, then the decoder
    model on the effective bytes, the event `In` builds, the cut-off mark; result
    `ok <event, keys sorted> L <line after> A <following after>` | `refused L … A …`.
    P: no panic, the bytes after the line untouched, the line's length unchanged. -/
def handleIn (args impl : List String) : Option (String × String) :=
  match args with
  | mx :: co :: fol :: icmd :: iargs => do
    let max ← nat? mx
    let cutOff ← bool? co
    let following ← bytes? fol
    let line ← (lastTok iargs).bind bytes?
    let p :=
      if impl.any (fun t => t.startsWith "panic" || t == "frame-violated" || t == "timeout") then "fail" else
      match (afterTok "L" impl).bind List.head?, (afterTok "A" impl).bind List.head? with
      | some l, some a =>
        match Hex.dec? l, Hex.dec? a with
        | some lb, some ab => if ab == following && lb.length == line.length then "ok" else "fail"
        | _, _ => "bad-impl"
      | _, _ => "bad-impl"
    match Input.checkInputBytes ⟨max, cutOff⟩ line following with
    | .error e => pure (panicTok e, p)
    | .ok r =>
      let lineAfter0 := r.buf.take line.length
      let folAfter := r.buf.drop line.length
      let refused (la : Bytes) := unwords ["refused", "L", hx la, "A", hx folAfter]
      if !r.accepted then pure (refused lineAfter0, p) else
      let eff := r.bytes
      let withEff (effAfter : Bytes) : Bytes := effAfter ++ lineAfter0.drop effAfter.length
      let finish (root : JTree) (effAfter : Bytes) : String :=
        let root := match root with
          | .obj kvs => if r.cutoff then JTree.obj (mapSet kvs (s "cut") (.bool true)) else root
          | t => t
        unwords ["ok", JTree.enc (sortRec root), "L", hx (withEff effAfter), "A", hx folAfter]
      if icmd = "c12.raw" then
        match GoSlice.sliceTo? eff ((eff.length : Int) - 1) with
        | .error e => pure (panicTok e, p)
        | .ok m => pure (finish (.obj [strField "message" m]) eff, p)
      else if icmd = "c12.jsonl" then
        match Json.decode eff with
        | some t => pure (finish t eff, p)
        | none => pure (refused lineAfter0, p)
      else
        let (m, _) ← handleBase icmd (replaceLast iargs (hx eff)) []
        let mt := words m
        match mt with
        | [] => none
        | h :: _ =>
          if h.startsWith "panic" then pure (m, p) else
          let effAfter := match (afterTok "B" mt).bind List.head? with
            | some b => (Hex.dec? b).getD eff
            | none => eff
          if h = "err" then pure (refused (withEff effAfter), p) else
          if icmd = "c12.cri" then
            match mt with
            | _ :: t :: st :: _ :: lg :: _ => do
              let time ← bytes? t
              let stream ← bytes? st
              let log ← bytes? lg
              pure (finish (.obj [strField "log" log, strField "time" time, strField "stream" stream]) effAfter, p)
            | _ => none
          else
            match afterTok "J" mt with
            | some jt =>
              if jt.head? == some "err" then pure (refused (withEff effAfter), p) else
              match JTree.parse? jt with
              | some (t, _) => pure (finish t effAfter, p)
              | none => none
            | none => none
  | _ => none

/-- split at the first `E` token -/
def splitE : List String → List String × List String
  | [] => ([], [])
  | t :: ts => if t = "E" then ([], ts) else
      let (a, b) := splitE ts
      (t :: a, b)

/-- the implementation's field tokens: between the leading `ok` and `B` -/
def fieldToks : List String → List String
  | [] => []
  | t :: ts => if t = "B" then [] else t :: fieldToks ts

/-- split a token list at every `;;` -/
def splitSemi : List String → List (List String)
  | [] => [[]]
  | t :: ts =>
    match splitSemi ts with
    | [] => [[t]]
    | seg :: rest => if t = ";;" then [] :: seg :: rest else (t :: seg) :: rest

/-- `c12.conc <workers> <iters> <k> <inner case> ;; … | <inner result> ;; …`: one shared decoder,
    concurrent callers. Decoding is a function of (document, parameters): the model answer for every
    document is the sequential one, whatever the other callers do. P fails when any document got a
    result that violates its own oracle or got different results in different calls (`unstable`). -/
def handleConc (args impl : List String) : Option (String × String) :=
  match args with
  | _w :: _it :: _k :: rest =>
    let cases := splitSemi rest
    let impls := splitSemi impl
    let rec go : List (List String) → List (List String) → Option (List String × Bool)
      | [], _ => some ([], true)
      | c :: cs, is =>
        let (i, is') := match is with
          | i :: r => (i, r)
          | [] => ([], [])
        match c with
        | icmd :: iargs =>
          match handleBase icmd iargs i, go cs is' with
          | some (m, p), some (ms, ok) =>
            some (m :: ms, ok && p == "ok" && !(i.head? == some "unstable"))
          | _, _ => none
        | [] => none
    match go cases impls with
    | some (ms, ok) => some (" ;; ".intercalate ms, if ok && cases.length = impls.length then "ok" else "fail")
    | none => none
  | _ => none

/-- `c12.row <inner case> E <expected field tokens>`: the inner case is the rendering of a
    well-formed row; besides the inner oracle, P fails unless the implementation decoded exactly
    the row's fields (`decode (render row) = row`, the statement of the `<dec>_fields` theorems,
    evaluated on the implementation's result). -/
def handle (cmd : String) (args impl : List String) : Option (String × String) :=
  if cmd = "c12.row" then
    let (inner, expected) := splitE args
    match inner with
    | icmd :: iargs =>
      match handleBase icmd iargs impl with
      | some (m, p) =>
        let p' := if p ≠ "ok" then p else
          match impl with
          | "ok" :: rest => if fieldToks rest = expected then "ok" else "fail"
          | _ => "fail"
        some (m, p')
      | none => none
    | [] => none
  else if cmd = "c12.conc" then handleConc args impl
  else if cmd = "c12.in" then handleIn args impl
  else handleBase cmd args impl

end FileD.DrvC12
