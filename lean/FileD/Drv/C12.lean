/- Driver glue for C12: case lines `c12.<sub> <args…> | <impl…>` (stub until the property is built) -/
import FileD.Prelude.Tok
namespace FileD.DrvC12

def handle (_cmd : String) (_args _impl : List String) : Option (String × String) := none

end FileD.DrvC12
