/-
  Driver glue for C09. Case line:
    c09.trace <workers> <count> <bytes> <retry> <retentionMs> <dqmode> <dqworkers> <dqcount> <adders> <seed>
              <nev> (<size> <kind>)*nev <nscript> (<fails>)* | <trace tokens>
  The trace is the implementation result; the model replays it (Model/RetryTrace.lean);
  `P` is SpecC09.holds on the observed trace.
-/
import FileD.Prelude.Tok
import FileD.Model.RetryTrace
import FileD.Spec.C09
namespace FileD.DrvC09
open FileD Tok Batcher Retry

def handle (cmd : String) (args impl : List String) : Option (String × String) :=
  if cmd ≠ "c09.trace" then none else
  match args with
  | w :: cnt :: byt :: rt :: _ret :: dqm :: dqw :: dqc :: _ => do
    let workers ← nat? w
    let maxCount ← nat? cnt
    let maxBytes ← nat? byt
    let retry ← int? rt
    let dqmode ← nat? dqm
    let dqworkers ← nat? dqw
    let dqcount ← nat? dqc
    let mc : Cfg := { workers, maxCount, maxBytes, timeout := 10, enqueueLocked := true }
    let dc : Cfg := { workers := dqworkers, maxCount := dqcount, maxBytes := 0, timeout := 10, enqueueLocked := true }
    let rc : RCfg := { attemptNum := retry, dq := dqmode != 0 }
    match parseCTks (impl.length + 1) impl with
    | none => pure ("bad-trace", "bad-impl")
    | some tks =>
      let m := renderReplayC (replayAll mc dc rc { main := { st := init mc }, dq := { st := init dc } } tks 0 [])
      let conf : SpecC09.Conf := { mainCount := maxCount, mainBytes := maxBytes, dqCount := dqcount, attemptNum := retry, dq := dqmode != 0 }
      let p := if SpecC09.holds conf tks then "ok" else "fail"
      pure (m, p)
  | _ => none

end FileD.DrvC09
