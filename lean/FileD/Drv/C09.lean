/- Driver glue for C09: case lines `c09.<sub> <args…> | <impl…>` (stub until the property is built) -/
import FileD.Prelude.Tok
namespace FileD.DrvC09

def handle (_cmd : String) (_args _impl : List String) : Option (String × String) := none

end FileD.DrvC09
