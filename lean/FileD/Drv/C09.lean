/-
  Driver glue for C09. Case line:
    c09.trace <workers> <count> <bytes> <retry> <retentionMs> <dqmode> <dqworkers> <dqcount> <adders> <seed>
              <nev> (<size> <kind>)*nev <nscript> (<fails>)* | <trace tokens>
  The trace is the implementation result; the model replays it (Model/RetryTrace.lean);
  `P` is SpecC09.holds on the observed trace.
-/
import FileD.Prelude.Tok
import FileD.Model.RetryTrace
import FileD.Spec.C09
namespace FileD.DrvC09
open FileD Tok Batcher Retry

def parseKinds : List String → Nat → Option (List Ev)
  | [], _ => some []
  | k :: r, i => do
    let kind ← Kind.ofNat? (← nat? k)
    let rest ← parseKinds r (i + 1)
    pure (⟨i + 1, 8, kind⟩ :: rest)

/-- `c09.es <retry> <dq> <n> (<kind>)*n | sends <a> f <n> ids… c <n> ids… C <n> ids…`: one batch through the real
    elasticsearch output against an endpoint that always fails -/
def handleES (args impl : List String) : Option (String × String) :=
  match args with
  | rt :: dqs :: _n :: kinds => do
    let retry ← nat? rt
    let dq ← bool? dqs
    let evs ← parseKinds kinds 0
    let ids := evs.map (·.id)
    let enc (tag : String) (l : List Nat) := unwords [tag, encList toString l]
    if (forEach evs).isEmpty then
      -- nothing to send: the batch is committed without calling OutFn
      let m := unwords ["sends", "0", enc "f" [], enc "c" ids, enc "C" []]
      pure (m, if unwords impl == m then "ok" else "fail")
    else
      let res := out ⟨retry, dq⟩ evs (List.replicate (retry + 3) false) (List.replicate (retry + 3) (.dur 1)) 0
      let f := failedIds res.log
      let m := unwords ["sends", toString (failedSends res.log), enc "f" f, enc "c" (if res.keep then ids else []), enc "C" f]
      -- property on the observed result itself: exactly one way, every event once
      let want := if dq then unwords [enc "f" ids, enc "c" [], enc "C" ids] else unwords [enc "f" [], enc "c" ids, enc "C" []]
      let p := match impl with
        | "sends" :: a :: rest =>
          match nat? a with
          | some sends => if unwords rest == want && sends ≥ retry + 1 then "ok" else "fail"
          | none => "bad-impl"
        | _ => "fail"
      pure (m, p)
  | _ => none

def parseFails : List String → Option (List Bool)
  | [] => some []
  | f :: r => do
    let b ← bool? f
    let rest ← parseFails r
    pure (b :: rest)

def countOf (x : Nat) (l : List Nat) : Nat := (l.filter (· == x)).length

/-- `c09.esdq <retry> <batchsize> <nbatches> (<fail>)* | f <n> ids… c <n> ids… C <n> ids…`: the real elasticsearch output,
    several batches, a dead-queue output that blocks on its first call. Model: every batch goes through `Retry.out` on the
    all-fail / first-success oracle (one worker: batches in order). Oracle, on the observed result alone and
    independent of order: every event of an exhausted batch reaches the dead queue exactly once and is committed
    exactly once, by the dead queue alone; no other event reaches the dead queue; no nil event (id 0); every event
    of a succeeding batch is committed exactly once by the main output. -/
def handleESDQ (args impl : List String) : Option (String × String) :=
  match args with
  | rt :: bs :: _nb :: fs => do
    let retry ← nat? rt
    let bsize ← nat? bs
    let fails ← parseFails fs
    let batches : List (List Ev × Bool) := (List.range fails.length).zip fails |>.map fun (k, f) =>
      ((List.range bsize).map (fun j => (⟨k * bsize + j + 1, 8, .regular⟩ : Ev)), f)
    let results : List (List Nat × List Nat) := batches.map fun ((evs : List Ev), (f : Bool)) =>
      let res := if f then out ⟨retry, true⟩ evs (List.replicate (retry + 3) false) (List.replicate (retry + 3) (.dur 1)) 0
                 else out ⟨retry, true⟩ evs [true] [] 0
      (failedIds res.log, if res.keep then evs.map Ev.id else [])
    let mf := (results.map (·.1)).flatten
    let mc := (results.map (·.2)).flatten
    let enc (tag : String) (l : List Nat) := unwords [tag, encList toString l]
    let m := unwords [enc "f" mf, enc "c" mc, enc "C" mf]
    let exhausted : List Nat := ((batches.filter (·.2)).map (fun b => b.1.map Ev.id)).flatten
    let others : List Nat := ((batches.filter (fun b => !b.2)).map (fun b => b.1.map Ev.id)).flatten
    let p := match impl with
      | "f" :: r0 =>
        match listOf nat? r0 with
        | some (f, "c" :: r1) =>
          match listOf nat? r1 with
          | some (c, "C" :: r2) =>
            match listOf nat? r2 with
            | some (cq, []) =>
              if exhausted.all (fun id => countOf id f == 1 && countOf id cq == 1 && countOf id c == 0)
                && others.all (fun id => countOf id f == 0 && countOf id cq == 0 && countOf id c == 1)
                && f.length == exhausted.length && cq.length == exhausted.length && c.length == others.length
                && !f.contains 0 && !c.contains 0
              then "ok" else "fail"
            | _ => "bad-impl"
          | _ => "bad-impl"
        | _ => "bad-impl"
      | _ => "fail"
    pure (m, p)
  | _ => none

/-- replay + oracle of a RetriableBatcher/Router trace; independent of the command token (c09.trace, c09.overlap,
    c09.stop, or the same family registered under another property's prefix) -/
def handleTrace (args impl : List String) : Option (String × String) :=
  match args with
  | w :: cnt :: byt :: rt :: ret :: dqm :: dqw :: dqc :: _ => do
    let retentionMs ← nat? ret
    let workers ← nat? w
    let maxCount ← nat? cnt
    let maxBytes ← nat? byt
    let retry ← int? rt
    let dqmode ← nat? dqm
    let dqworkers ← nat? dqw
    let dqcount ← nat? dqc
    let mc : Cfg := { workers, maxCount, maxBytes, timeout := 10, enqueueLocked := true }
    let dc : Cfg := { workers := dqworkers, maxCount := dqcount, maxBytes := 0, timeout := 10, enqueueLocked := true }
    let rc : RCfg := { attemptNum := retry, dq := dqmode != 0 }
    match parseCTks (impl.length + 1) impl with
    | none => pure ("bad-trace", "bad-impl")
    | some tks =>
      let m := renderReplayC (replayAll mc dc rc { main := { st := init mc }, dq := { st := init dc } } tks 0 [])
      let conf : SpecC09.Conf := { mainCount := maxCount, mainBytes := maxBytes, dqCount := dqcount, attemptNum := retry, dq := dqmode != 0,
                                      minRetNs := retentionMs * 1000000, mult := 2 }
      let p := if SpecC09.holds conf tks then "ok" else "fail"
      pure (m, p)
  | _ => none

end FileD.DrvC09

namespace FileD.DrvC09

def handle (cmd : String) (args impl : List String) : Option (String × String) :=
  if cmd = "c09.es" then handleES args impl else
  if cmd = "c09.esdq" then handleESDQ args impl else
  if cmd = "c09.trace" ∨ cmd = "c09.overlap" ∨ cmd = "c09.stop" then handleTrace args impl else none

end FileD.DrvC09
