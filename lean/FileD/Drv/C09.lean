/-
  Driver glue for C09. Case line:
    c09.trace <workers> <count> <bytes> <retry> <retentionMs> <dqmode> <dqworkers> <dqcount> <adders> <seed>
              <nev> (<size> <kind>)*nev <nscript> (<fails>)* | <trace tokens>
  The trace is the implementation result; the model replays it (Model/RetryTrace.lean);
  `P` is SpecC09.holds on the observed trace.
-/
import FileD.Prelude.Tok
import FileD.Model.RetryTrace
import FileD.Spec.C09
namespace FileD.DrvC09
open FileD Tok Batcher Retry

def parseKinds : List String → Nat → Option (List Ev)
  | [], _ => some []
  | k :: r, i => do
    let kind ← Kind.ofNat? (← nat? k)
    let rest ← parseKinds r (i + 1)
    pure (⟨i + 1, 8, kind⟩ :: rest)

/-- `c09.es <retry> <dq> <n> (<kind>)*n | sends <a> f <n> ids… c <n> ids… C <n> ids…`: one batch through the real
    elasticsearch output against an endpoint that always fails -/
def handleES (args impl : List String) : Option (String × String) :=
  match args with
  | rt :: dqs :: _n :: kinds => do
    let retry ← nat? rt
    let dq ← bool? dqs
    let evs ← parseKinds kinds 0
    let ids := evs.map (·.id)
    let enc (tag : String) (l : List Nat) := unwords [tag, encList toString l]
    if (forEach evs).isEmpty then
      -- nothing to send: the batch is committed without calling OutFn
      let m := unwords ["sends", "0", enc "f" [], enc "c" ids, enc "C" []]
      pure (m, if unwords impl == m then "ok" else "fail")
    else
      let res := out ⟨retry, dq⟩ evs (List.replicate (retry + 3) false) (List.replicate (retry + 3) (.dur 1)) 0
      let f := failedIds res.log
      let m := unwords ["sends", toString (failedSends res.log), enc "f" f, enc "c" (if res.keep then ids else []), enc "C" f]
      -- property on the observed result itself: exactly one way, every event once
      let want := if dq then unwords [enc "f" ids, enc "c" [], enc "C" ids] else unwords [enc "f" [], enc "c" ids, enc "C" []]
      let p := match impl with
        | "sends" :: a :: rest =>
          match nat? a with
          | some sends => if unwords rest == want && sends ≥ retry + 1 then "ok" else "fail"
          | none => "bad-impl"
        | _ => "fail"
      pure (m, p)
  | _ => none

def handle (cmd : String) (args impl : List String) : Option (String × String) :=
  if cmd = "c09.es" then handleES args impl else
  if cmd ≠ "c09.trace" then none else
  match args with
  | w :: cnt :: byt :: rt :: _ret :: dqm :: dqw :: dqc :: _ => do
    let workers ← nat? w
    let maxCount ← nat? cnt
    let maxBytes ← nat? byt
    let retry ← int? rt
    let dqmode ← nat? dqm
    let dqworkers ← nat? dqw
    let dqcount ← nat? dqc
    let mc : Cfg := { workers, maxCount, maxBytes, timeout := 10, enqueueLocked := true }
    let dc : Cfg := { workers := dqworkers, maxCount := dqcount, maxBytes := 0, timeout := 10, enqueueLocked := true }
    let rc : RCfg := { attemptNum := retry, dq := dqmode != 0 }
    match parseCTks (impl.length + 1) impl with
    | none => pure ("bad-trace", "bad-impl")
    | some tks =>
      let m := renderReplayC (replayAll mc dc rc { main := { st := init mc }, dq := { st := init dc } } tks 0 [])
      let conf : SpecC09.Conf := { mainCount := maxCount, mainBytes := maxBytes, dqCount := dqcount, attemptNum := retry, dq := dqmode != 0 }
      let p := if SpecC09.holds conf tks then "ok" else "fail"
      pure (m, p)
  | _ => none

end FileD.DrvC09
