/- Driver glue for C17: case lines `c17.<sub> <args…> | <impl…>` (stub until the property is built) -/
import FileD.Prelude.Tok
namespace FileD.DrvC17

def handle (_cmd : String) (_args _impl : List String) : Option (String × String) := none

end FileD.DrvC17
