/-
  Driver glue for C17. Case line (see harness/cmd/fdharness/c17.go):
    c17.do <gField> <gValue> <metricOn> <gkind> <paths> <nmasks> <mask>… <root> @ <oracle> | <impl>
  model column:  ok <root'> <global metric> <n> <mask metric>… | panic:<kind> | oracle-miss | bad-case
-/
import FileD.Prelude.Tok
import FileD.Model.Mask
import FileD.Spec.C17
namespace FileD.DrvC17
open FileD Tok FileD.Mask

abbrev P := StateT (List String) Option

def tok : P String := fun ts => match ts with | [] => none | t :: r => some (t, r)
def pNat : P Nat := do let t ← tok; match nat? t with | some n => pure n | none => failure
def pInt : P Int := do let t ← tok; match int? t with | some n => pure n | none => failure
def pBool : P Bool := do let t ← tok; match bool? t with | some n => pure n | none => failure
def pBytes : P Bytes := do let t ← tok; match bytes? t with | some n => pure n | none => failure

def pRep {α} (p : P α) : Nat → P (List α)
  | 0 => pure []
  | n+1 => do let x ← p; let xs ← pRep p n; pure (x :: xs)

def pList {α} (p : P α) : P (List α) := do let n ← pNat; pRep p n

def pPaths : P (List (List Bytes)) := pList (pList pBytes)

def pTree : P JTree := fun ts => JTree.parse? ts

def pRule : P Rule := do
  let mode ← pNat
  let ci ← pBool
  let inv ← pBool
  let vals ← pList pBytes
  let md ← (match mode with | 0 => pure RMode.pre | 1 => pure RMode.contains | 2 => pure RMode.suf | _ => failure : P RMode)
  pure { values := vals, mode := md, ci := ci, invert := inv }

def pRuleSet : P RuleSet := do
  let o ← pBool
  let rules ← pList pRule
  pure { condOr := o, rules := rules }

/-- a mask as configured: raw groups; `hasRe`; verification needs NumSubexp from the oracle part -/
structure RawMask where
  m : MaskCfg
  rawGroups : List Nat

def pMask : P RawMask := do
  let re ← pBytes
  let groups ← pList pNat
  let maxCount ← pNat
  let word ← pBytes
  let cut ← pBool
  let aField ← pBytes
  let aValue ← pBytes
  let metric ← pBool
  let doif ← pBool
  if doif then
    let _ ← pBytes
    let _ ← pBytes
  let fkind ← pNat
  let paths ← pPaths
  let rules ← pList pRuleSet
  let mode := if !word.isEmpty then Mode.replace else if cut then Mode.cut else Mode.mask
  pure { m := { rules := rules, hasRe := !re.isEmpty, groups := [], maxCount := maxCount, replaceWord := word,
                mode := mode, use := true, appliedField := aField, appliedValue := aValue, metric := metric,
                fkind := fkind, paths := paths },
         rawGroups := groups }

def pEntry : P (Nat × Bytes × Matches) := do
  let i ← pNat
  let v ← pBytes
  let ms ← pList (pList pInt)
  pure (i, v, ms)

structure Case where
  cfg : Cfg
  root : JTree
  table : List (Nat × Bytes × Matches)
  valid : Bool

/-- complete the masks with the oracle columns (NumSubexp → verified groups, do_if verdict) -/
def finishMasks : List RawMask → P (List MaskCfg × Bool)
  | [] => pure ([], true)
  | r :: rs => do
    let nsubTok ← tok
    let use ← pBool
    let (ms, ok) ← finishMasks rs
    if r.m.hasRe then
      match nat? nsubTok with
      | none => failure
      | some nsub =>
        match verifyGroups r.rawGroups nsub with
        | some g => pure ({ r.m with groups := g, use := use } :: ms, ok)
        | none => pure ({ r.m with use := use } :: ms, false)
    else pure ({ r.m with groups := r.rawGroups, use := use } :: ms, ok)

def pCase : P Case := do
  let gField ← pBytes
  let gValue ← pBytes
  let metricOn ← pBool
  let gkind ← pNat
  let gpaths ← pPaths
  let raws ← pList pMask
  let root ← pTree
  let sep ← tok
  if sep ≠ "@" then failure
  let (masks, ok) ← finishMasks raws
  let table ← pList pEntry
  pure { cfg := { masks := masks, gField := gField, gValue := gValue, metricOn := metricOn, gkind := gkind, gpaths := gpaths },
         root := root, table := table, valid := ok }

def lookupTable (t : List (Nat × Bytes × Matches)) : Oracle := fun i v =>
  match t.find? (fun e => e.1 == i && e.2.1 == v) with
  | some e => some e.2.2
  | none => none

def encResult (r : Result) : String :=
  unwords (["ok", r.root.enc, toString r.globalMetric, toString r.maskMetrics.length] ++ r.maskMetrics.map toString)

def failTok : Fail → String
  | .panic p => panicTok p
  | .oracleMiss => "oracle-miss"

/-- `ok <tree> <global> <n> <counts…>` of the implementation column -/
def pImpl : P Result := do
  let t ← tok
  if t ≠ "ok" then failure
  let root ← pTree
  let g ← pNat
  let per ← pList pNat
  pure { root := root, globalMetric := g, maskMetrics := per }

def handle (cmd : String) (args impl : List String) : Option (String × String) :=
  if cmd ≠ "c17.do" then none else
  match pCase.run args with
  | none => none
  | some (c, rest) =>
    if rest ≠ [] then none
    else if !c.valid then some ("bad-case", "ok")
    else
      let re := lookupTable c.table
      let m := match doEvent fixedImpl c.cfg re c.root with
        | .ok r => encResult r
        | .error e => failTok e
      let p := match pImpl.run impl with
        | some (r, []) => SpecC17.verdict c.cfg re c.root r
        | _ =>
          match impl with
          | t :: _ => if t.startsWith "panic" then "fail:panic" else if t.startsWith "bad-" then "ok" else "fail:" ++ t
          | [] => "bad-impl"
      some (m, p)

end FileD.DrvC17
