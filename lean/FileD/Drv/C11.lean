/- Driver glue for C11: case lines `c11.<sub> <args…> | <impl…>` (stub until the property is built) -/
import FileD.Prelude.Tok
namespace FileD.DrvC11

def handle (_cmd : String) (_args _impl : List String) : Option (String × String) := none

end FileD.DrvC11
