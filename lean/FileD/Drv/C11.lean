/-
  Driver glue for C11. Case line:
    c11.reqs <es> <mode> <n> (<gz> <ntrans> <rd>… [<hdrerr> <ended> <ndec> <rd>…])… [<nsched> <req>…]
        | (<nact> <act>…)… sids <const> <k> [<id>…]
  <rd>  = d:<hex> (n, nil) | e:<hex> (n, io.EOF) | x:<hex> (n, other error)
  <act> = i:<hex> (controller.In payload) | r:<code> (response status)
  For a gzip request (<gz> = 1) the transport reads are followed by the oracle parameter: did
  opening the gzip reader fail, did it read the transport stream to its end, and the results of the
  gzip reader's Read calls. The model runs
  on the reads `processBulk` sees: the transport reads (plain) or the gzip reader's (gzip).
  `sids`: did every request use one source id for all its In calls; number of distinct ids over
  the requests that read their body to the end (concurrent) /
  all requests; sequential cases also list them.
-/
import FileD.Prelude.Tok
import FileD.Model.HttpBulk
import FileD.Model.HttpConc
import FileD.Spec.C11
namespace FileD.DrvC11
open FileD Tok HttpBulk

def rd? (t : String) : Option Rd :=
  match t.splitOn ":" with
  | [k, h] => do
    let b ← bytes? h
    if k = "d" then some (.data b) else if k = "e" then some (.dataEof b)
    else if k = "x" then some (.err b) else none
  | _ => none

def act? (t : String) : Option Act :=
  match t.splitOn ":" with
  | [k, h] =>
    if k = "i" then (bytes? h).map .inp
    else if k = "r" then (nat? h).map .resp else none
  | _ => none

def encAct : Act → String
  | .inp b => "i:" ++ Hex.enc b
  | .resp c => "r:" ++ toString c

def parseReq (ts : List String) : Option ((Req × Bool) × List String) :=
  match ts with
  | gz :: rest => do
    let g ← bool? gz
    let (trans, r1) ← listOf rd? rest
    if g then
      match r1 with
      | he :: en :: r2 => do
        let h ← bool? he
        let e ← bool? en
        let (dec, r3) ← listOf rd? r2
        pure ((⟨h, dec⟩, e), r3)
      | _ => none
    else pure ((⟨false, trans⟩, true), r1)
  | [] => none

def parseReqs : Nat → List String → Option (List (Req × Bool) × List String)
  | 0, ts => some ([], ts)
  | n+1, ts => do
    let (q, r) ← parseReq ts
    let (qs, r') ← parseReqs n r
    pure (q :: qs, r')

def parseActs : Nat → List String → Option (List (List Act) × List String)
  | 0, ts => some ([], ts)
  | n+1, ts => do
    let (a, r) ← listOf act? ts
    let (as, r') ← parseActs n r
    pure (a :: as, r')

def handle (cmd : String) (args impl : List String) : Option (String × String) :=
  if cmd ≠ "c11.reqs" then none else
  match args with
  | _es :: cc :: nn :: rest => do
    let mode ← nat? cc
    if mode > 2 then none
    let conc := mode == 1
    let n ← nat? nn
    let (qes, r0) ← parseReqs n rest
    -- mode 2: the schedule (i < n: request i to its next park point; n+i: request i to its end;
    -- 2n: every started request to its end); the
    -- model's answer does not depend on it: that is what `requests_isolated` states
    let r ← if mode == 2 then (listOf nat? r0).bind (fun x => if x.1.all (· ≤ 2 * n) then some x.2 else none) else some r0
    if r ≠ [] then none
    let qs := qes.map (·.1)
    let ended := qes.map (·.2)
    let acts := qs.map serve
    let k := SpecC11.countLive ended acts
    let ids := HttpConc.seqIds qs
    let sids := if mode == 2 then ["sids", "1", "1"]
                else if conc then ["sids", "1", toString k]
                else ["sids", "1", toString ids.length] ++ ids.map toString
    let m := unwords (acts.map (encList encAct) ++ sids)
    let p := match parseActs n impl with
      | some (ia, "sids" :: c :: kk :: _) =>
        match bool? c, nat? kk with
        | some sc, some sk => if SpecC11.holds mode qs ended ia sc sk then "ok" else "fail"
        | _, _ => "bad-impl"
      | _ => match impl with
        | t :: _ => if t.startsWith "panic" then "fail" else "bad-impl"
        | [] => "bad-impl"
    pure (m, p)
  | _ => none

end FileD.DrvC11
