/- Driver glue for C16: case lines `c16.<sub> <args…> | <impl…>` (stub until the property is built) -/
import FileD.Prelude.Tok
namespace FileD.DrvC16

def handle (_cmd : String) (_args _impl : List String) : Option (String × String) := none

end FileD.DrvC16
