/-
  Driver glue for C16. Case line:
    c16.run <count> <interval> <expMs> <nrules> RULE… <nops> OP…
      RULE := <limit> <c|s> <nconds> (<field> <value>)… <dfield> <nratios> (<pct> <share> <nvals> <value>…)… <defshare>
      OP   := E <key> <ts> <now> <size> <nfields> (<field> <value>)…   |   X<ticks>   |   T<nowUs>   |   I<genUs>
    (the last rule is the default rule; byte strings are hex tokens; I = initial generation of the
     limiters map, first op only; T = one maintenance iteration at that wall clock; X = wait for
     real maintenance runs; X and T/I are not mixed)
  Implementation result:
    H <nrules> (<defshare> <n> <share>…)… E <limitersExp µs>  R <p|d|x:<key>,…|t:<key>,…|panic:…>…
      [S <nlims> (<key> <minID> <maxID> <nrows> <ncols> <v>…)…] [G <curGen> <nlims> <gen>…]
  The keys an `X` op (wall-clock maintenance of the limiters map) deleted are an observation of
  the implementation's environment; the model replays them as `expire` ops.
-/
import FileD.Prelude.Tok
import FileD.Model.Throttle
import FileD.Spec.C16
namespace FileD.DrvC16
open FileD Tok FileD.Throttle

abbrev P := StateT (List String) Option

def tok : P String := fun ts =>
  match ts with
  | [] => none
  | t :: r => some (t, r)

def pNat : P Nat := do
  let t ← tok
  match t.toNat? with
  | some n => pure n
  | none => failure

def pInt : P Int := do
  let t ← tok
  match t.toInt? with
  | some n => pure n
  | none => failure

def pBytes : P Bytes := do
  let t ← tok
  match Hex.dec? t with
  | some b => pure b
  | none => failure

def many {α} (p : P α) : Nat → P (List α)
  | 0 => pure []
  | n + 1 => do
    let x ← p
    let xs ← many p n
    pure (x :: xs)

def counted {α} (p : P α) : P (List α) := do
  let n ← pNat
  many p n

def pPair : P (Bytes × Bytes) := do
  let f ← pBytes
  let v ← pBytes
  pure (f, v)

structure Ratio where
  share : Int
  vals : List Bytes

def pRatio : P Ratio := do
  let _pct ← pNat
  let share ← pInt
  let vals ← counted pBytes
  pure ⟨share, vals⟩

def idxByKeyOf : List Ratio → Nat → List (Bytes × Nat)
  | [], _ => []
  | r :: rs, i => r.vals.map (fun v => (v, i)) ++ idxByKeyOf rs (i + 1)

def pRule : P Rule := do
  let limit ← pInt
  let k ← tok
  let kind ← match k with
    | "c" => pure Kind.count
    | "s" => pure Kind.size
    | _ => failure
  let conds ← counted pPair
  let dfield ← pBytes
  let ratios ← counted pRatio
  let defShare ← pInt
  -- parseLimitDistribution: no field → the zero value
  let distr : Distr := if dfield = [] then Distr.empty
    else ⟨dfield, idxByKeyOf ratios 0, ratios.map (·.share), defShare, true⟩
  pure ⟨conds, limit, kind, distr⟩

inductive COp
  | ev (e : Ev)
  | x (ticks : Nat)
  | t (nowUs : Int)

def pOp : P COp := do
  let t ← tok
  if t = "E" then do
    let key ← pBytes
    let ts ← pInt
    let now ← pInt
    let size ← pInt
    let fields ← counted pPair
    pure (COp.ev ⟨key, ts, now, size, fields⟩)
  else if t.startsWith "X" then
    match (t.drop 1).toNat? with
    | some n => pure (COp.x n)
    | none => failure
  else if t.startsWith "T" then
    match (t.drop 1).toInt? with
    | some n => pure (COp.t n)
    | none => failure
  else failure

structure Case where
  cfg : Cfg
  expMs : Int
  g0 : Int
  ops : List COp

/-- `n` ops; an `I<gen>` token in first position sets the initial generation and counts as an op -/
def pOps : P (Int × List COp) := do
  let n ← pNat
  let ts ← get
  match ts with
  | t :: rest =>
    if t.startsWith "I" then
      match (t.drop 1).toInt? with
      | some g => do
        set rest
        let ops ← many pOp (n - 1)
        pure (g, ops)
      | none => failure
    else do
      let ops ← many pOp n
      pure (0, ops)
  | [] => if n = 0 then pure (0, []) else failure

def pCase : P Case := do
  let count ← pNat
  let interval ← pInt
  let exp ← pInt
  let rules ← counted pRule
  let gops ← pOps
  pure ⟨⟨count, interval, rules⟩, exp, gops.1, gops.2⟩

/-! rendering -/

def ltBytes : Bytes → Bytes → Bool
  | [], [] => false
  | [], _ :: _ => true
  | _ :: _, [] => false
  | a :: as, b :: bs => if a < b then true else if b < a then false else ltBytes as bs

def insertSorted (kv : Bytes × Lim) : List (Bytes × Lim) → List (Bytes × Lim)
  | [] => [kv]
  | x :: t => if ltBytes kv.1 x.1 then kv :: x :: t else x :: insertSorted kv t

def sortLims (l : List (Bytes × Lim)) : List (Bytes × Lim) := l.foldr insertSorted []

def encLim (kv : Bytes × Lim) : String :=
  let ncols := match kv.2.b with
    | r :: _ => r.length
    | [] => 0
  unwords ([Hex.enc kv.1, toString kv.2.minID, toString kv.2.maxID, toString kv.2.b.length, toString ncols]
    ++ kv.2.b.flatten.map toString)

def encShares (rs : List Rule) : String :=
  unwords (toString rs.length :: rs.map (fun r =>
    unwords (toString r.distr.defLimit :: toString r.distr.limits.length :: r.distr.limits.map toString)))

def panicStr : Panic → String
  | .bounds => "panic:bounds"
  | .nilDeref => "panic:nil"
  | .other => "panic:other"

/-- keys deleted by the i-th `X` op, read from the implementation's `x:` tokens -/
def xKeys (t : String) : Option (List Bytes) :=
  if t.startsWith "x:" then
    let body := (t.drop 2).toString
    if body = "" then some [] else (body.splitOn ",").mapM Hex.dec?
  else none

def encX (ks : List Bytes) : String := "x:" ++ ",".intercalate (ks.map Hex.enc)

structure Run where
  toks : List String
  fin : State
  gens : Gens
  panicked : Bool

def encT (ks : List Bytes) : String := "t:" ++ ",".intercalate (ks.map Hex.enc)

def sortKeys (ks : List Bytes) : List Bytes :=
  ks.foldr (fun k acc =>
    let rec ins : List Bytes → List Bytes
      | [] => [k]
      | x :: t => if ltBytes k x then k :: x :: t else x :: ins t
    ins acc) []

/-- run the model op by op (the same `step` and `expandStep` the theorems are about), rendering
    result tokens. `xs` = the deletions the implementation observed at its `X` ops -/
def runCase (cfg : Cfg) (exp : Int) : State → Gens → List COp → List (List Bytes) → Run
  | s, g, [], _ => ⟨[], s, g, false⟩
  | s, g, .ev e :: t, xs =>
    match step cfg s (.ev e) with
    | .error p => ⟨[panicStr p], s, g, true⟩
    | .ok sr =>
      let r := runCase cfg exp sr.1 (expandStep cfg exp true g (.ev e)).2 t xs
      { r with toks := (if sr.2 == Res.pass then "p" else "d") :: r.toks }
  | s, g, .x _ :: t, xs =>
    let ks := match xs with
      | k :: _ => k
      | [] => []
    let s' := ks.foldl (fun st k =>
      match step cfg st (.expire k) with
      | .ok sr => sr.1
      | .error _ => st) s
    let r := runCase cfg exp s' g t xs.tail
    { r with toks := encX ks :: r.toks }
  | s, g, .t us :: t, xs =>
    let eg := expandStep cfg exp true g (.tick us)
    let s' := eg.1.foldl (fun st op =>
      match step cfg st op with
      | .ok sr => sr.1
      | .error _ => st) s
    let r := runCase cfg exp s' eg.2 t xs
    { r with toks := encT (sortKeys (expiredKeys exp g us)) :: r.toks }

/-- observed answers of the implementation: one per event op, `none` once it panicked / ran out -/
def implObs : List COp → List String → Option (List (Ev × Bool))
  | [], _ => some []
  | .ev e :: t, r :: rs =>
    if r = "p" then (implObs t rs).map ((e, true) :: ·)
    else if r = "d" then (implObs t rs).map ((e, false) :: ·)
    else none
  | .x _ :: t, _ :: rs => implObs t rs
  | .t _ :: t, _ :: rs => implObs t rs
  | _ :: _, [] => none

def hasX : List COp → Bool
  | [] => false
  | .x _ :: _ => true
  | _ :: t => hasX t

/-- an op that can delete limiters -/
def hasExpiry : List COp → Bool
  | [] => false
  | .ev _ :: t => hasExpiry t
  | _ :: _ => true

def encGens (lims : List (Bytes × Lim)) (g : Gens) : List String :=
  ["G", toString g.cur, toString lims.length] ++ (sortLims lims).map (fun kv =>
    match g.stamps.lookup kv.1 with
    | some s => toString s
    | none => "none")

def verdictStr : SpecC16.Verdict → String
  | .ok => "ok"
  | .outOfScope => "ok"
  | .overLimit => "fail:over-limit"
  | .rejectedUnderLimit => "fail:rejected-under-limit"

/-- tokens between `R` and `S` (or the end) -/
def resultToks (impl : List String) : List String :=
  ((impl.dropWhile (· ≠ "R")).drop 1).takeWhile (· ≠ "S")

def handle (cmd : String) (args impl : List String) : Option (String × String) :=
  if cmd ≠ "c16.run" then none else
  match pCase.run args with
  | none => none
  | some (c, rest) =>
    if rest ≠ [] then none else
    let rtoks := resultToks impl
    let xs := rtoks.filterMap xKeys
    let exp := effExp (c.expMs * 1000000) c.cfg.interval c.cfg.count
    let r := runCase c.cfg exp State.init ⟨c.g0, []⟩ c.ops xs
    let dump := if r.panicked then [] else
      ["S", toString r.fin.lims.length] ++ (sortLims r.fin.lims).map encLim ++
      (if hasX c.ops then [] else encGens r.fin.lims r.gens)
    let m := unwords (["H", encShares c.cfg.rules, "E", toString exp, "R"] ++ r.toks ++ dump)
    let p := match implObs c.ops rtoks with
      | some obs => verdictStr (SpecC16.verdict c.cfg obs (!hasExpiry c.ops))
      | none =>
        -- the implementation panicked: outside the property's scope only for buckets_count = 0
        if c.cfg.count = 0 then "ok" else "fail:panic"
    some (m, p)

end FileD.DrvC16
