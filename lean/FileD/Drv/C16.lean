/-
  Driver glue for C16. Case line:
    c16.run <count> <interval> <expMs> <nrules> RULE… <nops> OP…
      RULE := <limit> <c|s> <nconds> (<field> <value>)… <dfield> <nratios> (<pct> <share> <nvals> <value>…)… <defshare>
      OP   := E <key> <ts> <now> <size> <nfields> (<field> <value>)…   |   X<ticks>
    (the last rule is the default rule; byte strings are hex tokens)
  Implementation result:
    H <nrules> (<defshare> <n> <share>…)…  R <p|d|x:<key>,…|panic:…>…  [S <nlims> (<key> <minID> <maxID> <nrows> <ncols> <v>…)…]
  The keys an `X` op (wall-clock maintenance of the limiters map) deleted are an observation of
  the implementation's environment; the model replays them as `expire` ops.
-/
import FileD.Prelude.Tok
import FileD.Model.Throttle
import FileD.Spec.C16
namespace FileD.DrvC16
open FileD Tok FileD.Throttle

abbrev P := StateT (List String) Option

def tok : P String := fun ts =>
  match ts with
  | [] => none
  | t :: r => some (t, r)

def pNat : P Nat := do
  let t ← tok
  match t.toNat? with
  | some n => pure n
  | none => failure

def pInt : P Int := do
  let t ← tok
  match t.toInt? with
  | some n => pure n
  | none => failure

def pBytes : P Bytes := do
  let t ← tok
  match Hex.dec? t with
  | some b => pure b
  | none => failure

def many {α} (p : P α) : Nat → P (List α)
  | 0 => pure []
  | n + 1 => do
    let x ← p
    let xs ← many p n
    pure (x :: xs)

def counted {α} (p : P α) : P (List α) := do
  let n ← pNat
  many p n

def pPair : P (Bytes × Bytes) := do
  let f ← pBytes
  let v ← pBytes
  pure (f, v)

structure Ratio where
  share : Int
  vals : List Bytes

def pRatio : P Ratio := do
  let _pct ← pNat
  let share ← pInt
  let vals ← counted pBytes
  pure ⟨share, vals⟩

def idxByKeyOf : List Ratio → Nat → List (Bytes × Nat)
  | [], _ => []
  | r :: rs, i => r.vals.map (fun v => (v, i)) ++ idxByKeyOf rs (i + 1)

def pRule : P Rule := do
  let limit ← pInt
  let k ← tok
  let kind ← match k with
    | "c" => pure Kind.count
    | "s" => pure Kind.size
    | _ => failure
  let conds ← counted pPair
  let dfield ← pBytes
  let ratios ← counted pRatio
  let defShare ← pInt
  -- parseLimitDistribution: no field → the zero value
  let distr : Distr := if dfield = [] then Distr.empty
    else ⟨dfield, idxByKeyOf ratios 0, ratios.map (·.share), defShare, true⟩
  pure ⟨conds, limit, kind, distr⟩

inductive COp
  | ev (e : Ev)
  | x (ticks : Nat)

def pOp : P COp := do
  let t ← tok
  if t = "E" then do
    let key ← pBytes
    let ts ← pInt
    let now ← pInt
    let size ← pInt
    let fields ← counted pPair
    pure (COp.ev ⟨key, ts, now, size, fields⟩)
  else if t.startsWith "X" then
    match (t.drop 1).toNat? with
    | some n => pure (COp.x n)
    | none => failure
  else failure

structure Case where
  cfg : Cfg
  ops : List COp

def pCase : P Case := do
  let count ← pNat
  let interval ← pInt
  let _exp ← pNat
  let rules ← counted pRule
  let ops ← counted pOp
  pure ⟨⟨count, interval, rules⟩, ops⟩

/-! rendering -/

def ltBytes : Bytes → Bytes → Bool
  | [], [] => false
  | [], _ :: _ => true
  | _ :: _, [] => false
  | a :: as, b :: bs => if a < b then true else if b < a then false else ltBytes as bs

def insertSorted (kv : Bytes × Lim) : List (Bytes × Lim) → List (Bytes × Lim)
  | [] => [kv]
  | x :: t => if ltBytes kv.1 x.1 then kv :: x :: t else x :: insertSorted kv t

def sortLims (l : List (Bytes × Lim)) : List (Bytes × Lim) := l.foldr insertSorted []

def encLim (kv : Bytes × Lim) : String :=
  let ncols := match kv.2.b with
    | r :: _ => r.length
    | [] => 0
  unwords ([Hex.enc kv.1, toString kv.2.minID, toString kv.2.maxID, toString kv.2.b.length, toString ncols]
    ++ kv.2.b.flatten.map toString)

def encShares (rs : List Rule) : String :=
  unwords (toString rs.length :: rs.map (fun r =>
    unwords (toString r.distr.defLimit :: toString r.distr.limits.length :: r.distr.limits.map toString)))

def panicStr : Panic → String
  | .bounds => "panic:bounds"
  | .nilDeref => "panic:nil"
  | .other => "panic:other"

/-- keys deleted by the i-th `X` op, read from the implementation's `x:` tokens -/
def xKeys (t : String) : Option (List Bytes) :=
  if t.startsWith "x:" then
    let body := (t.drop 2).toString
    if body = "" then some [] else (body.splitOn ",").mapM Hex.dec?
  else none

def encX (ks : List Bytes) : String := "x:" ++ ",".intercalate (ks.map Hex.enc)

/-- model ops of a case, with the observed deletions substituted for the `X` ops -/
def toOps : List COp → List (List Bytes) → List Op
  | [], _ => []
  | .ev e :: t, xs => Op.ev e :: toOps t xs
  | .x _ :: t, ks :: xs => ks.map Op.expire ++ toOps t xs
  | .x _ :: t, [] => toOps t []

/-- run the model op by op (the same `step` the theorems are about), rendering result tokens;
    returns the tokens, the final state, and whether a panic ended the run -/
def runCase (cfg : Cfg) : State → List COp → List (List Bytes) → List String × State × Bool
  | s, [], _ => ([], s, false)
  | s, .ev e :: t, xs =>
    match step cfg s (.ev e) with
    | .error p => ([panicStr p], s, true)
    | .ok sr =>
      let r := runCase cfg sr.1 t xs
      ((if sr.2 == Res.pass then "p" else "d") :: r.1, r.2)
  | s, .x _ :: t, xs =>
    let ks := match xs with
      | k :: _ => k
      | [] => []
    let s' := ks.foldl (fun st k =>
      match step cfg st (.expire k) with
      | .ok sr => sr.1
      | .error _ => st) s
    let r := runCase cfg s' t xs.tail
    (encX ks :: r.1, r.2)

/-- observed answers of the implementation: one per event op, `none` once it panicked / ran out -/
def implObs : List COp → List String → Option (List (Ev × Bool))
  | [], _ => some []
  | .ev e :: t, r :: rs =>
    if r = "p" then (implObs t rs).map ((e, true) :: ·)
    else if r = "d" then (implObs t rs).map ((e, false) :: ·)
    else none
  | .x _ :: t, _ :: rs => implObs t rs
  | _ :: _, [] => none

def hasX : List COp → Bool
  | [] => false
  | .x _ :: _ => true
  | .ev _ :: t => hasX t

def verdictStr : SpecC16.Verdict → String
  | .ok => "ok"
  | .outOfScope => "ok"
  | .overLimit => "fail:over-limit"
  | .rejectedUnderLimit => "fail:rejected-under-limit"

/-- tokens between `R` and `S` (or the end) -/
def resultToks (impl : List String) : List String :=
  ((impl.dropWhile (· ≠ "R")).drop 1).takeWhile (· ≠ "S")

def handle (cmd : String) (args impl : List String) : Option (String × String) :=
  if cmd ≠ "c16.run" then none else
  match pCase.run args with
  | none => none
  | some (c, rest) =>
    if rest ≠ [] then none else
    let rtoks := resultToks impl
    let xs := rtoks.filterMap xKeys
    let r := runCase c.cfg State.init c.ops xs
    let dump := if r.2.2 then [] else
      ["S", toString r.2.1.lims.length] ++ (sortLims r.2.1.lims).map encLim
    let m := unwords (["H", encShares c.cfg.rules, "R"] ++ r.1 ++ dump)
    let p := match implObs c.ops rtoks with
      | some obs => verdictStr (SpecC16.verdict c.cfg obs (!hasX c.ops))
      | none =>
        -- the implementation panicked: outside the property's scope only for buckets_count = 0
        if c.cfg.count = 0 then "ok" else "fail:panic"
    some (m, p)

end FileD.DrvC16
