/-
  Driver glue for C03. Case line:
    c03.hist <mode> <workers> <buf> <procs> <kill> <nlines> (<id> <streamhex> <linehex>)… <nsteps> <step>… | <records…> lost <n> (<id> <cls>)…
  The implementation result is the observed trace. The records are replayed through
  `FileRestart.step?`: every record becomes one or a few model ops (a `readTurn` whose chunk is
  the next bytes of the file, a `deliver`/`ack`/`commit` of the matching event, …); what the
  implementation *observed* (PassEvent results, sequence numbers, ids, saved offsets, idleness) must
  be what the model computes, otherwise the replay stops with `reject@<index> <record>`.
  Saves are not logged: the offsets file found after a kill is matched against the job's offsets
  after each step (a `save` op is inserted where they agree).
  M = the records (when every one was accepted) + the lost-line summary computed by the Spec oracle.
-/
import FileD.Prelude.Tok
import FileD.Model.FileRestart
import FileD.Spec.C03
namespace FileD.DrvC03
open FileD Tok FileD.FileRestart FileD.SpecC03

/-! ### parsing -/

def parseTable : Nat → List String → Option (Table × List String)
  | 0, ts => some ([], ts)
  | n+1, a :: b :: c :: ts => do
    let id ← nat? a
    let st ← bytes? b
    let d ← bytes? c
    let (rest, r) ← parseTable n ts
    pure ((id, st, d) :: rest, r)
  | _, _ => none

def parseOffs : Nat → List String → Option (Offsets × List String)
  | 0, ts => some ([], ts)
  | n+1, a :: b :: ts => do
    let st ← bytes? a
    let o ← nat? b
    let (rest, r) ← parseOffs n ts
    pure ((st, o) :: rest, r)
  | _, _ => none

/-- records up to the `lost` summary; returns (records, summary tokens) -/
def parseRecs : Nat → List String → List Rec × List String
  | 0, ts => ([.bad "fuel"], ts)
  | fuel+1, ts =>
    let one (r : Rec) (rest : List String) := let (rs, tl) := parseRecs fuel rest; (r :: rs, tl)
    match ts with
    | [] => ([], [])
    | "lost" :: rest => ([], "lost" :: rest)
    | "up" :: rest => one .up rest
    | "scan" :: rest => one .scan rest
    | "idle" :: rest => one .idle rest
    | "stuck" :: rest => one .stuck rest
    | "crash" :: rest => one .crash rest
    | "died" :: rest => one .died rest
    | "new" :: a :: rest => match nat? a with | some f => one (.new f) rest | none => ([.bad "new"], [])
    | "disc" :: a :: rest => match nat? a with | some f => one (.disc f) rest | none => ([.bad "disc"], [])
    | "trunc" :: a :: rest => match nat? a with | some f => one (.trunc f) rest | none => ([.bad "trunc"], [])
    | "away" :: a :: rest => match nat? a with | some f => one (.away f) rest | none => ([.bad "away"], [])
    | "reuse" :: a :: rest => match nat? a with | some f => one (.reuse f) rest | none => ([.bad "reuse"], [])
    | "back" :: a :: rest => match nat? a with | some f => one (.back f) rest | none => ([.bad "back"], [])
    | "gone" :: a :: rest => match nat? a with | some f => one (.gone f) rest | none => ([.bad "gone"], [])
    | "app" :: a :: b :: rest =>
      match nat? a, bytes? b with | some f, some d => one (.app f d) rest | _, _ => ([.bad "app"], [])
    | "ren" :: a :: b :: rest =>
      match nat? a, nat? b with | some f, some g => one (.ren f g) rest | _, _ => ([.bad "ren"], [])
    | "eof" :: a :: b :: rest =>
      match nat? a, nat? b with | some f, some o => one (.eof f o) rest | _, _ => ([.bad "eof"], [])
    | "in" :: a :: b :: c :: rest =>
      match nat? a, nat? b, bool? c with
      | some f, some o, some p => one (.inp f o p) rest | _, _, _ => ([.bad "in"], [])
    | "com" :: a :: b :: c :: rest =>
      match nat? a, nat? b, nat? c with
      | some f, some o, some id => one (.com f o id) rest | _, _, _ => ([.bad "com"], [])
    | "ack" :: a :: b :: c :: rest =>
      match nat? a, nat? b, nat? c with
      | some f, some o, some id => one (.ack f o id) rest | _, _, _ => ([.bad "ack"], [])
    | "out" :: a :: b :: c :: d :: rest =>
      match nat? a, nat? b, nat? c, nat? d with
      | some f, some o, some q, some id => one (.out f o q id) rest | _, _, _, _ => ([.bad "out"], [])
    | "saved" :: a :: b :: rest =>
      match nat? a, nat? b with
      | some f, some n =>
        match parseOffs n rest with
        | some (o, r) => one (.saved f o) r
        | none => ([.bad "saved"], [])
      | _, _ => ([.bad "saved"], [])
    | t :: _ => ([.bad t], [])

def renderRec : Rec → String
  | .new f => s!"new {f}" | .app f b => s!"app {f} {Hex.enc b}" | .ren f g => s!"ren {f} {g}"
  | .trunc f => s!"trunc {f}" | .away f => s!"away {f}" | .gone f => s!"gone {f}" | .reuse f => s!"reuse {f}"
  | .back f => s!"back {f}" | .up => "up" | .disc f => s!"disc {f}" | .scan => "scan"
  | .inp f o p => s!"in {f} {o} {ofBool p}" | .out f o q id => s!"out {f} {o} {q} {id}"
  | .ack f o id => s!"ack {f} {o} {id}" | .com f o id => s!"com {f} {o} {id}" | .eof f n => s!"eof {f} {n}"
  | .idle => "idle" | .stuck => "stuck" | .crash => "crash" | .died => "died"
  | .saved f o => unwords (s!"saved {f} {o.length}" :: o.map (fun p => s!"{Hex.enc p.1} {p.2}"))
  | .bad t => s!"bad:{t}"

def recName : Rec → String
  | .new _ => "new" | .app _ _ => "app" | .ren _ _ => "ren" | .trunc _ => "trunc" | .away _ => "away"
  | .gone _ => "gone" | .reuse _ => "reuse" | .back _ => "back" | .up => "up"
  | .disc _ => "disc" | .scan => "scan" | .inp _ _ _ => "in" | .out _ _ _ _ => "out" | .ack _ _ _ => "ack"
  | .com _ _ _ => "com" | .eof _ _ => "eof" | .idle => "idle" | .stuck => "stuck" | .crash => "crash"
  | .died => "died" | .saved _ _ => "saved" | .bad _ => "bad"

/-! ### replay -/

def insertOff (x : Stream × Nat) : Offsets → Offsets
  | [] => [x]
  | y :: ys => if x.1 < y.1 ∨ x.1 = y.1 then x :: y :: ys else y :: insertOff x ys

def sortOffs (o : Offsets) : Offsets := o.foldr insertOff []

structure R where
  s    : State
  inos : List Nat
  obs  : List (Nat × Offsets)     -- the offsets file found after the kill that ends this run
  ackedRun : List Ev := []        -- events acked in this run (`State.acked` spans all runs)
  away : List Nat := []           -- files that left the watched directory
  released : List Nat := []       -- away files whose job maintenance was seen to have released; the
                                  -- model's `forget` is applied as soon as nothing of the file is in flight

def savedPrefix : List Rec → List (Nat × Offsets)
  | .saved f o :: rest => (f, sortOffs o) :: savedPrefix rest
  | _ => []

/-- the offsets file observed after the next crash (the `saved` records that follow it) -/
def lookahead : List Rec → List (Nat × Offsets)
  | [] => []
  | .crash :: rest => savedPrefix rest
  | _ :: rest => lookahead rest

/-- insert `save` ops wherever a job's offsets equal the snapshot observed after the kill -/
def autoSave (cfg : Cfg) (r : R) : R :=
  r.obs.foldl (fun r (f, o) =>
    match r.s.jobs f with
    | some j => if sortOffs j.offsets == o then
        match step? cfg r.s (.save f) with | some s' => { r with s := s' } | none => r
      else r
    | none => r) r

/-- apply the pending releases that have become enabled -/
def settle (cfg : Cfg) (r : R) : R :=
  r.released.foldl (fun r f =>
    match step? cfg r.s (.forget f) with
    | some s' => { r with s := s', released := r.released.filter (· != f) }
    | none => r) r

def app1 (cfg : Cfg) (r : R) (op : Op) : Option R :=
  (step? cfg r.s op).map fun s' => settle cfg (autoSave cfg { r with s := s' })

/-- truncation detection (`processEOF`) when the file is shorter than the job's offset -/
def prepare (cfg : Cfg) (r : R) (f : Nat) : Option R := do
  let fl ← r.s.files f
  let j ← r.s.jobs f
  if j.w.curOffset > fl.content.length then app1 cfg r (.readTurn f []) else pure r

def readUpto (cfg : Cfg) (r : R) (f upto : Nat) : Option R := do
  let fl ← r.s.files f
  let j ← r.s.jobs f
  if upto < j.w.curOffset || upto > fl.content.length then none
  else app1 cfg r (.readTurn f [(fl.content.drop j.w.curOffset).take (upto - j.w.curOffset)])

def persistedOk (r : R) : Bool :=
  r.inos.all fun f =>
    (r.s.persisted f).map sortOffs == (r.obs.find? (·.1 == f)).map (·.2)

/-- events that are acked, still in flight and the oldest of their stream (candidates for a commit
    whose `com` record was not written because the process died inside `Commit`) -/
def dangling (r : R) : List Ev :=
  r.s.inflight.filter fun e => r.ackedRun.contains e && decide (oldest r.s e)

def stepRec (cfg : Cfg) (t : Table) (r : R) (rest : List Rec) : Rec → Option R
  | .new f => (app1 cfg r (.create f f)).map fun r => { r with inos := r.inos ++ [f] }
  | .app f b =>
    if b.getLast? = some NL then app1 cfg r (.append f b) else app1 cfg r (.appendPartial f b)
  | .ren f g => (app1 cfg r (.renameRotate f (1000 + g) g)).map fun r => { r with inos := r.inos ++ [g] }
  | .trunc f => app1 cfg r (.truncate f)
  | .away f => some { r with away := f :: r.away }
  -- the file is deleted and its inode number is taken by a new, empty file staged outside the watched
  -- directory: for file.d (jobs and offsets are keyed by the inode) the same source with new content
  | .reuse f => (app1 cfg r (.truncate f)).map fun r => { r with away := f :: r.away }
  | .back f => some { r with away := r.away.filter (· != f) }
  | .gone f =>
    -- maintenance released the job of a file whose name is gone: everything on the file must have
    -- been read (no complete line left), else the job would have been resumed
    match r.s.jobs f with
    | none => some r
    | some _ => do
      let r ← prepare cfg r f
      let fl ← r.s.files f
      let before := r.s.inLog
      let r ← readUpto cfg r f fl.content.length
      if r.s.inLog == before then pure (settle cfg { r with released := f :: r.released }) else none
  | .up => (app1 cfg { r with obs := lookahead rest } .restart)
  | .disc f => app1 cfg r (.discover f)
  | .scan => app1 cfg r .scanDone
  | .inp f off pass => do
    let r ← prepare cfg r f
    let before := r.s.inLog
    let r ← readUpto cfg r f off
    if r.s.inLog == before ++ [(f, off, pass)] then pure r else none
  | .eof f size => do
    let r ← prepare cfg r f
    let fl ← r.s.files f
    if fl.content.length ≠ size then none
    let before := r.s.inLog
    let r ← readUpto cfg r f size
    let j ← r.s.jobs f
    if r.s.inLog == before && j.w.curOffset == size then pure r else none
  | .out f off seq id => do
    let e ← r.s.inflight.find? fun e =>
      e.ino == f && e.off == off && e.seq == seq && idOf t e.data == some id && !r.s.delivered.contains e
    app1 cfg r (.deliver e)
  | .ack f off id => do
    let e ← r.s.delivered.find? fun e =>
      e.ino == f && e.off == off && idOf t e.data == some id && !r.ackedRun.contains e
    (app1 cfg r (.ack e)).map fun r => { r with ackedRun := e :: r.ackedRun }
  | .com f off id => do
    let e ← (dangling r).find? fun e => e.ino == f && e.off == off && idOf t e.data == some id
    let r ← app1 cfg r (.commit e)
    if r.s.panicked then none else pure r
  | .idle =>
    if r.s.up && !r.s.panicked &&
       r.inos.all (fun f => match r.s.files f, r.s.jobs f with
          | some fl, some j => j.w.curOffset == fl.content.length
          | some _, none => r.away.contains f
          | _, _ => false) &&
       r.s.inflight.all (fun e => r.s.delivered.contains e)
    then some r else none
  | .died =>
    -- the process died inside the Commit of an acked event
    (dangling r).findSome? fun e =>
      match step? cfg r.s (.commit e) with
      | some s' => if s'.panicked then some { r with s := s' } else none
      | none => none
  | .crash =>
    -- entries of files without a job are dropped by a save
    let r := r.inos.foldl (fun r f =>
      if (r.s.persisted f).isSome && (r.obs.find? (·.1 == f)).isNone && (r.s.jobs f).isNone then
        match step? cfg r.s (.saveAbsent f) with | some s' => { r with s := s' } | none => r
      else r) r
    let r? : Option R :=
      if persistedOk r then some r
      else (dangling r).findSome? fun e =>
        match app1 cfg r (.commit e) with
        | some r' => if persistedOk r' then some r' else none
        | none => none
    r?.bind fun r => (app1 cfg r .crash).map fun r => { r with ackedRun := [], released := [] }
  | .saved _ _ => some r
  | .stuck => none
  | .bad _ => none

def replay (cfg : Cfg) (t : Table) : R → Nat → List Rec → Option (Nat × Rec)
  | _, _, [] => none
  | r, i, rc :: rest =>
    match stepRec cfg t r rest rc with
    | some r' => replay cfg t r' (i + 1) rest
    | none => some (i, rc)

def renderLost (l : List (Option Nat × Nat)) : String :=
  unwords (s!"lost {l.length}" :: l.map fun (id, c) =>
    (match id with | some n => toString n | none => "-1") ++ " " ++ toString c)

def handle (cmd : String) (args impl : List String) : Option (String × String) :=
  if cmd ≠ "c03.hist" then none else
  match args with
  | _mode :: _w :: _b :: _p :: _kill :: nl :: rest => do
    let n ← nat? nl
    -- the harness could not observe the run (it says so itself): nothing to judge
    if impl == ["bad-harness"] then pure ("bad-harness", "ok") else
    let (t, _) ← parseTable n rest
    let (recs, _summary) := parseRecs (impl.length + 1) impl
    let cfg := cfgOf t
    let lostS := renderLost (lost t (observe recs))
    let m := match replay cfg t ⟨init, [], [], [], [], []⟩ 0 recs with
      | none => unwords (recs.map renderRec ++ [lostS])
      | some (i, rc) => s!"reject@{i} {recName rc} {lostS}"
    pure (m, verdict t recs)
  | _ => none

end FileD.DrvC03
