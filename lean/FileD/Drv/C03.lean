/- Driver glue for C03: case lines `c03.<sub> <args…> | <impl…>` (stub until the property is built) -/
import FileD.Prelude.Tok
namespace FileD.DrvC03

def handle (_cmd : String) (_args _impl : List String) : Option (String × String) := none

end FileD.DrvC03
