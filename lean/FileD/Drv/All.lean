/- dispatch table of the driver: the prefix of the command token (before the first '.') selects
   the property's handler; the handler sees the full command token. -/
import FileD.Drv.C01
import FileD.Drv.C02
import FileD.Drv.C03
import FileD.Drv.C04
import FileD.Drv.C05
import FileD.Drv.C06
import FileD.Drv.C07
import FileD.Drv.C08
import FileD.Drv.C09
import FileD.Drv.C10
import FileD.Drv.C11
import FileD.Drv.C12
import FileD.Drv.C13
import FileD.Drv.C14
import FileD.Drv.C15
import FileD.Drv.C16
import FileD.Drv.C17
import FileD.Drv.C18
import FileD.Drv.C19
import FileD.Drv.C20
namespace FileD.Drv

def dispatch (cmd : String) (args impl : List String) : Option (String × String) :=
  match (cmd.splitOn ".").head? with
  | none => none
  | some pre =>
  match pre with
  -- c01.stream: the stream-level family of c04stream.go run under C01 (a lost event is passed by later commits)
  -- c01.retry: the retry family "Stop inside the back-off pause" of c09.go run under C01
  | "c01" => if cmd = "c01.stream" then DrvC04.handle "c04.stream" args impl
             else if cmd = "c01.retry" then DrvC09.handleTrace args impl
             else DrvC01.handle cmd args impl
  | "c02" => DrvC02.handle cmd args impl
  | "c03" => DrvC03.handle cmd args impl
  | "c04" => DrvC04.handle cmd args impl
  | "c05" => DrvC05.handle cmd args impl
  | "c06" => DrvC06.handle cmd args impl
  | "c07" => DrvC07.handle cmd args impl
  | "c08" => DrvC08.handle cmd args impl
  | "c09" => DrvC09.handle cmd args impl
  | "c10" => DrvC10.handle cmd args impl
  | "c11" => DrvC11.handle cmd args impl
  | "c12" => DrvC12.handle cmd args impl
  -- c13.chain: whole-pipeline chains of the real join and split plugins (harness c99_compose.go); the oracle is
  -- "the run goes idle, nothing is lost, nothing crashes" = the c04.run oracle of the C01 driver
  | "c13" => if cmd = "c13.chain" then DrvC01.handle "c04.run" args impl else DrvC13.handle cmd args impl
  | "c14" => DrvC14.handle cmd args impl
  | "c15" => DrvC15.handle cmd args impl
  | "c16" => DrvC16.handle cmd args impl
  | "c17" => DrvC17.handle cmd args impl
  | "c18" => DrvC18.handle cmd args impl
  | "c19" => DrvC19.handle cmd args impl
  | "c20" => DrvC20.handle cmd args impl
  | _ => none

end FileD.Drv
