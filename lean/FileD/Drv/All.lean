/- dispatch table of the driver: first token of a case line → handler -/
import FileD.Drv.C06
namespace FileD.Drv

def dispatch (cmd : String) (args impl : List String) : Option (String × String) :=
  match cmd with
  | "c06.turns" => DrvC06.handle args impl
  | _ => none

end FileD.Drv
