/-
  Driver glue for M3 (Model/Proc.lean): from a C01/C02 case and the boundary trace of the real
  pipeline, per stream: the items the processor took (get / gtm / lv tokens) with what the case
  says about each event, the operations M3 predicts for them, and the processor-side operations
  the trace shows (get, gtm, lv, fin:…:0 = hold, fin:…:1 = drop, prop, out).
-/
import FileD.Prelude.Tok
import FileD.Model.Proc
namespace FileD.DrvProc
open FileD FileD.Proc Tok
open FileD.StreamProc (Op)

/-- chain token list: v<i> scripted verdict action, j<f> real join on field m<f>, p<i> real split,
    c<i> scripted collapse-only action (collapses when char i of field "v" is 'C');
    suffix `:c` = the action has the match condition `k<position> = "y"` -/
def parseChain (s : String) : Option (List Act) :=
  if s = "-" then some [] else
  (s.splitOn ",").mapM fun t0 =>
    let t := (t0.splitOn ":").headD ""
    let n := (t.drop 1).toNat?
    if t.startsWith "v" then n.map Act.plain
    else if t.startsWith "j" then n.map Act.holder
    else if t.startsWith "p" then n.map (fun _ => Act.spawner)
    else if t.startsWith "c" then n.map Act.collapser
    else none

/-- text after the first occurrence of `pat` -/
def after? (s pat : String) : Option String :=
  match s.splitOn pat with
  | _ :: rest@(_ :: _) => some (pat.intercalate rest)
  | _ => none

/-- value of a string field `"name":"…"` of the event's JSON text (the generator's values need no escapes) -/
def strField (json name : String) : Option String :=
  (after? json ("\"" ++ name ++ "\":\"")).map fun r => (r.splitOn "\"").headD ""

def verdictOf (c : Char) : Verdict := if c = 'D' then .discard else if c = 'B' then .brk else .pass

def clsOf (v : Option String) : JCls :=
  match v with
  | none => .absent
  | some s => if s.startsWith "S" then .start else if s.startsWith "C" then .cont else .other

/-- chain positions that carry a match condition -/
def condPositions (s : String) : List Nat :=
  if s = "-" then [] else
  ((s.splitOn ",").zipIdx.filter (fun p => p.1.endsWith ":c")).map (·.2)

def specOf (conds : List Nat) (json : String) (seq : Nat) : EvSpec :=
  { seq := seq,
    skip := conds.filter fun p => strField json s!"k{p}" != some "y",
    kidSkip := conds,
    vs := ((strField json "v").getD "").toList.map verdictOf,
    cs := ((((strField json "v").getD "").toList.zipIdx.filter (fun p => p.1 = 'C')).map (·.2)),
    js := (List.range 4).map fun f => clsOf (strField json s!"m{f}"),
    kids := (json.splitOn "{\"c\":").length - 1 }

def asciiOf (b : Bytes) : String := String.ofList (b.map fun c => Char.ofNat c.toNat)

/-- (offset, stream index, JSON text) of the case's events; offsets as in Drv/C01 -/
def parseSpecs : Nat → List String → List (Nat × Nat) → Option (List (Nat × Nat × String))
  | 0, [], _ => some []
  | 0, _ :: _, _ => none
  | n+1, src :: stream :: spec :: rest, counts => do
    let s ← nat? src
    let k ← (stream.drop 1).toNat?
    let c := (counts.find? (·.1 == s)).map (·.2) |>.getD 0
    let counts' := (s, c + 1) :: counts.filter (·.1 != s)
    let more ← parseSpecs n rest counts'
    let b ← bytes? spec
    pure ((s * 100000 + 10 * (c + 1), s * 1000 + k, asciiOf b) :: more)
  | _, _, _ => none

def streamTok (s : String) : Option Nat :=
  match s.splitOn "." with
  | [src, st] => do
    let a ← nat? src
    let k ← (st.drop 1).toNat?
    pure (a * 1000 + k)
  | _ => none

inductive Seen
  | item (st : Nat) (it : Item) (op : Op)    -- something the processor took: an input of M3 and an operation
  | op (st : Nat) (o : Op)                   -- something the processor did
deriving Repr

/-- processor-side tokens of the trace -/
def seenOf (conds : List Nat) (specs : List (Nat × Nat × String)) (seqs : List (Nat × Nat)) (tok : String) : Option (Option Seen) :=
  let ev (o : String) : Option (Nat × Nat) := do
    let off ← nat? o
    let i ← specs.find? (·.1 == off)
    let q ← seqs.find? (·.1 == off)
    pure (i.2.1, q.2)
  match tok.splitOn ":" with
  | ["get", o, q] => do
    let off ← nat? o; let sq ← nat? q
    let i ← specs.find? (·.1 == off)
    pure (some (.item i.2.1 (.ev (specOf conds i.2.2 sq)) (.get sq)))
  | ["gtm", sk] => do pure (some (.item (← streamTok sk) .tmo .getTimeout))
  | ["lv", sk] => do pure (some (.item (← streamTok sk) .gap .leave))
  | ["out", o, _] => pure ((ev o).map fun p => .op p.1 (.out p.2))        -- children carry no stream offset
  | ["prop", o, _] => pure ((ev o).map fun p => .op p.1 (.propagate p.2))
  | ["fin", o, "0"] => pure ((ev o).map fun p => .op p.1 (.hold p.2))
  | ["fin", o, "1"] => pure ((ev o).map fun p => .op p.1 (.drop p.2))
  | _ => pure none

def opStr : Op → String
  | .get q => s!"get:{q}" | .getTimeout => "gtm" | .leave => "lv" | .hold q => s!"hold:{q}"
  | .drop q => s!"drop:{q}" | .propagate q => s!"prop:{q}" | .out q => s!"out:{q}"
  | _ => "?"

/-- first difference between prediction and trace -/
def firstDiff : List Op → List Op → Nat → Option String
  | [], [], _ => none
  | a :: as, b :: bs, i => if a = b then firstDiff as bs (i + 1) else some s!"@{i} model={opStr a} trace={opStr b}"
  | a :: _, [], i => some s!"@{i} model={opStr a} trace=end"
  | [], b :: _, i => some s!"@{i} model=end trace={opStr b}"

/-- compare M3 with the trace, stream by stream; `none` = they agree -/
def compare (chain : String) (nev : Nat) (evToks : List String) (trace : List String) (seqs : List (Nat × Nat)) : Option String :=
  match parseChain chain, parseSpecs nev evToks [] with
  | some acts, some specs =>
    match trace.mapM (seenOf (condPositions chain) specs seqs) with
    | none => some "proc-bad-trace"
    | some seen =>
      let seen := seen.filterMap id
      let streams := (seen.map fun | .item st _ _ => st | .op st _ => st).eraseDups
      streams.findSome? fun st =>
        let ins := seen.filterMap fun | .item s it _ => if s = st then some it else none | _ => none
        let actual := seen.filterMap fun | .item s _ o => if s = st then some o else none | .op s o => if s = st then some o else none
        let (pred, why) := runProc acts ins
        match why with
        | some w =>
          if w = "eoi" then (firstDiff pred actual 0).map (fun d => s!"proc-mismatch st={st} {d}")
          else some s!"proc-halt st={st} {w}"
        | none => (firstDiff pred actual 0).map (fun d => s!"proc-mismatch st={st} {d}")
  | _, _ => some "proc-bad-case"

end FileD.DrvProc
