/- Driver glue for C13: case lines `c13.<sub> <args…> | <impl…>` (stub until the property is built) -/
import FileD.Prelude.Tok
namespace FileD.DrvC13

def handle (_cmd : String) (_args _impl : List String) : Option (String × String) := none

end FileD.DrvC13
