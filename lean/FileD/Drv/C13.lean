/-
  Driver glue for C13.
    c13.act <plugin> <cfg hex> <ps> <n> events… | cfg-rejected | <n> (<res> <status>)… <stability>
        no model column for un-modelled plugin bodies: M echoes the implementation's tokens,
        P is the property oracle SpecC13.actOk on them.
    c13.pipe <plugin> <cfg hex> <ps> <nl> <label>… <n> events… | in=<a> out=<k> <status>×k left=<m>
        the action inside a real pipeline; no model column either (M echoes), P = SpecC13.pipeOk
    c13.pipeout …same… | in=<a> out=0 left=<m>     with the real stdout output plugin
    c13.registry <n> <name>… | <n> <name>…          M = the names the generator has a grammar for
    c13.subst <nf> <filter>… <src hex> | ok <hex> | panic:<kind> | cfg-rejected
        filter: cut first|last <n> | trimto all|left|right <hex> | trim all|left|right <hex>
              | re <limit> <sep hex> <0|1> <ng> <g>… <re hex> <nsub> <nm> (<2(nsub+1) ints>)…
    c13.rename <preserve> <n> (<plen> <key>… <name>)… <JTree> | ok <JTree>
    c13.move allow <tlen> <key>… <nf> (<plen> <key>…)… <JTree> | ok <JTree>
    c13.move block <target key> <nb> <key>… <JTree> | ok <JTree>
    c13.mrule <isOr> <nRules> (<mode> <ci> <invert> <nVals> <value>…)… <data> <nLower> (<bytes> <lowered>)… | ok 0|1
        a mask's match rules through mask.Do, model = Model/MatchRule.lean (layout of c20.mr)
    c13.tok <mask 1..63> <data hex> | ok <hex>   hash normalizer with the by-bytes patterns of mask
    c13.utf8 <n> <src hex>×n | ok <hex>×n      (n fields of one event)
-/
import FileD.Prelude.Tok
import FileD.Spec.C13
import FileD.Model.Act.Subst
import FileD.Model.Act.Utf8Bytes
import FileD.Model.Act.HashTok
import FileD.Model.Act.Fields
import FileD.Model.MatchRule
import FileD.Drv.C20
import FileD.Prelude.JTree
namespace FileD.DrvC13
open FileD Tok

def okTok (b : Bool) : String := if b then "ok" else "fail"

def resTok : GoM Bytes → String
  | .ok b => "ok " ++ Hex.enc b
  | .error p => panicTok p

open Act.Subst in
def parseTrimMode (s : String) : Option TrimMode :=
  if s = "all" then some .all else if s = "left" then some .left else if s = "right" then some .right else none

def takeInts : Nat → List String → Option (List Int × List String)
  | 0, ts => some ([], ts)
  | _ + 1, [] => none
  | n + 1, t :: ts => do
    let i ← int? t
    let (r, rest) ← takeInts n ts
    pure (i :: r, rest)

def takeMatches (width : Nat) : Nat → List String → Option (List (List Int) × List String)
  | 0, ts => some ([], ts)
  | n + 1, ts => do
    let (m, r) ← takeInts width ts
    let (ms, r') ← takeMatches width n r
    pure (m :: ms, r')

open Act.Subst in
/-- one filter from the token stream; the Bool says whether validation accepts it -/
def parseFilter : List String → Option (Filter × Bool × List String)
  | "cut" :: m :: c :: r => do
    let n ← nat? c
    let mode ← if m = "first" then some CutMode.first else if m = "last" then some CutMode.last else none
    pure (.cut mode n, decide (n > 0), r)
  | "trimto" :: m :: h :: r => do
    let mode ← parseTrimMode m
    let cs ← bytes? h
    pure (.trimTo mode cs, true, r)
  | "trim" :: m :: h :: r => do
    let mode ← parseTrimMode m
    let cs ← bytes? h
    pure (.trim mode cs, true, r)
  | "re" :: _limit :: sep :: e :: r => do
    let sepB ← bytes? sep
    let eonm ← bool? e
    let (groups, r1) ← listOf nat? r
    match r1 with
    | _re :: ns :: nm :: r2 => do
      let nsub ← nat? ns
      let nmatch ← nat? nm
      let (ms, r3) ← takeMatches (2 * (nsub + 1)) nmatch r2
      -- cfg.VerifyGroupNumbers: unique, not more than the regexp has, each within 0..nsub
      let valid := groups.Nodup && decide (groups.length ≤ nsub) && groups.all (fun g => decide (g ≤ nsub))
      pure (.re groups sepB eonm ms, valid, r3)
    | _ => none
  | _ => none

open Act.Subst in
def parseFilters : Nat → List String → Option (List Filter × Bool × List String)
  | 0, ts => some ([], true, ts)
  | n + 1, ts => do
    let (f, v, r) ← parseFilter ts
    let (fs, vs, r') ← parseFilters n r
    pure (f :: fs, v && vs, r')

def handleSubst (args impl : List String) : Option (String × String) :=
  match args with
  | nf :: rest => do
    let n ← nat? nf
    let (fs, valid, r) ← parseFilters n rest
    match r with
    | [srcH] => do
      let src ← bytes? srcH
      let m := if valid then resTok (Act.Subst.run fs src) else "cfg-rejected"
      pure (m, okTok (SpecC13.coreOk impl))
    | _ => none
  | _ => none

def utf8One (src : Bytes) : Option String :=
  let cfg : Act.Utf8Bytes.Cfg := ⟨false, fun _ => true⟩
  match Act.Utf8Bytes.convert cfg src with
  | .ok none => some (Hex.enc src)
  | .ok (some b) => some (Hex.enc b)
  | .error _ => none

def handleUtf8 (args impl : List String) : Option (String × String) := do
  let (srcs, r) ← listOf bytes? args
  if r ≠ [] then none
  let outs := srcs.map utf8One
  let m := if outs.all Option.isSome then unwords ("ok" :: outs.filterMap id) else panicTok .bounds
  pure (m, okTok (SpecC13.coreOk impl))

/-- c13.tok <mask> <data hex>: bit (p-1) of mask enables pattern p -/
def handleTok (args impl : List String) : Option (String × String) :=
  match args with
  | [mk, dh] => do
    let mask ← nat? mk
    let data ← bytes? dh
    let has : Nat → Bool := fun p => p ≥ 1 && (mask >>> (p - 1)) % 2 == 1
    pure (resTok (Act.HashTok.normalize has data), okTok (SpecC13.coreOk impl))
  | _ => none

def takePath (ts : List String) : Option (List Bytes × List String) := listOf bytes? ts

def takePairs : Nat → List String → Option (List (List Bytes × Bytes) × List String)
  | 0, ts => some ([], ts)
  | n + 1, ts => do
    let (p, r) ← takePath ts
    match r with
    | nm :: r1 => do
      let name ← bytes? nm
      let (ps, r2) ← takePairs n r1
      pure ((p, name) :: ps, r2)
    | [] => none

def takePaths : Nat → List String → Option (List (List Bytes) × List String)
  | 0, ts => some ([], ts)
  | n + 1, ts => do
    let (p, r) ← takePath ts
    let (ps, r2) ← takePaths n r
    pure (p :: ps, r2)

def treeTok (t : JTree) : String := "ok " ++ t.enc

def handleRename (args impl : List String) : Option (String × String) :=
  match args with
  | pv :: nn :: rest => do
    let preserve ← bool? pv
    let n ← nat? nn
    let (pairs, r) ← takePairs n rest
    let (tree, r2) ← JTree.parse? r
    if r2 ≠ [] then none
    pure (treeTok (Act.Fields.rename preserve pairs tree), okTok (SpecC13.coreOk impl))
  | _ => none

def handleMove (args impl : List String) : Option (String × String) :=
  match args with
  | "allow" :: rest => do
    let (target, r) ← takePath rest
    match r with
    | nn :: r1 => do
      let n ← nat? nn
      let (fields, r2) ← takePaths n r1
      let (tree, r3) ← JTree.parse? r2
      if r3 ≠ [] then none
      let m := match Act.Fields.moveAllow target fields tree with
        | .ok t => treeTok t
        | .error p => panicTok p
      pure (m, okTok (SpecC13.coreOk impl))
    | [] => none
  | "block" :: tk :: nn :: rest => do
    let tkey ← bytes? tk
    let n ← nat? nn
    let (blocked, r) ← (Tok.listOf bytes? (toString n :: rest))
    let (tree, r2) ← JTree.parse? r
    if r2 ≠ [] then none
    pure (treeTok (Act.Fields.moveBlock tkey blocked tree), okTok (SpecC13.coreOk impl))
  | _ => none

/-- c13.mrule: a mask's match rules (cfg/matchrule) through mask.Do; same layout as c20.mr, the
    model is Model/MatchRule.lean with the (bytes, lowered) table as the `bytes.ToLower` oracle -/
def handleMrule (args impl : List String) : Option (String × String) :=
  match args with
  | isOr :: nr :: rest => do
    let isOr ← bool? isOr
    let n ← nat? nr
    let (rules, r1) ← DrvC20.parseRules n rest
    match r1 with
    | data :: nl :: r2 =>
      let raw ← bytes? data
      let k ← nat? nl
      let (tbl, r3) ← DrvC20.parsePairs k r2
      if r3 ≠ [] then none
      let lower : Bytes → Bytes := fun b => match DrvC20.lookupLower tbl b with | some l => l | none => b
      let m := if !(rules.all (DrvC20.lowerCovered tbl · raw)) then "oracle-miss" else
        match MatchRule.rsMatch lower isOr rules raw with
        | .ok b => "ok " ++ ofBool b
        | .error p => panicTok p
      pure (m, okTok (SpecC13.coreOk impl))
    | _ => none
  | _ => none

def handle (cmd : String) (args impl : List String) : Option (String × String) :=
  if cmd = "c13.act" then
    some (unwords impl, okTok (SpecC13.actOk impl))
  else if cmd = "c13.pipe" ∨ cmd = "c13.pipeout" then
    some (unwords impl, okTok (SpecC13.pipeOk impl))
  else if cmd = "c13.registry" then
    some (unwords args, okTok (args == impl))
  else if cmd = "c13.subst" then handleSubst args impl
  else if cmd = "c13.utf8" then handleUtf8 args impl
  else if cmd = "c13.tok" then handleTok args impl
  else if cmd = "c13.mrule" then handleMrule args impl
  else if cmd = "c13.rename" then handleRename args impl
  else if cmd = "c13.move" then handleMove args impl
  else none

end FileD.DrvC13
