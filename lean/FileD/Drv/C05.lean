/- Driver glue for C05: case lines `c05.<sub> <args…> | <impl…>` (stub until the property is built) -/
import FileD.Prelude.Tok
namespace FileD.DrvC05

def handle (_cmd : String) (_args _impl : List String) : Option (String × String) := none

end FileD.DrvC05
