/-
  Driver glue for C05.
    c05.gated <std|lowmem> <cap> <nreaders> <script…> | <blocks…>     (same format as c04.pool)
-/
import FileD.Prelude.Tok
import FileD.Drv.PoolTrace
import FileD.Spec.C05
namespace FileD.DrvC05
open FileD

def handleGated (args impl : List String) : Option (String × String) := do
  let (m, bs, _, cap) ← Drv.PoolTrace.run args impl
  if m = "bad-impl" then pure (m, "bad-impl") else
  pure (m, if SpecC05.holds cap bs then "ok" else "fail")

def handle (cmd : String) (args impl : List String) : Option (String × String) :=
  if cmd = "c05.gated" then handleGated args impl
  else none

end FileD.DrvC05
