/-
  Driver glue for C05.
    c05.gated <std|lowmem> <cap> <nreaders> <script…> | <blocks…>     (same format as c04.pool)
-/
import FileD.Prelude.Tok
import FileD.Drv.PoolTrace
import FileD.Spec.C05
import FileD.Model.Life
import FileD.Prelude.TS
namespace FileD.DrvC05
open FileD

def handleGated (args impl : List String) : Option (String × String) := do
  let (m, bs, _, cap) ← Drv.PoolTrace.run args impl
  if m = "bad-impl" then pure (m, "bad-impl") else
  pure (m, if SpecC05.holds cap bs then "ok" else "fail")

/-! c05.free <kind> <cap> <n> <iters> <seed> | g<r>.<e> b<r> u<n> … [wedged] max <m> end <inUse> <waiters> -/

def parseFree : Nat → List String → Option (List SpecC05.FOp)
  | _, [] => some []
  | 0, _ => none
  | _ + 1, ["max", m, "end", a, w] => do pure [.maxHeld (← Tok.nat? m), .fin (← Tok.nat? a) (← Tok.nat? w)]
  | k + 1, t :: ts => do
    let rest ← parseFree k ts
    if t = "wedged" then pure (.wedged :: rest) else
    match t.toList with
    | 'g' :: cs =>
      match (String.ofList cs).splitOn "." with
      | [r, e] => pure (.got (← Tok.nat? r) (← Tok.int? e) :: rest)
      | _ => none
    | 'b' :: cs => pure (.back (← Tok.nat? (String.ofList cs)) :: rest)
    | 'u' :: cs => pure (.sample (← Tok.nat? (String.ofList cs)) :: rest)
    | _ => none

def replayFree (cap slack : Nat) (ops : List SpecC05.FOp) : String × Bool :=
  let rec go (p : SpecC05.APool) (i : Nat) (acc : List String) : List SpecC05.FOp → String × Bool
    | [] => (Tok.unwords acc.reverse, true)
    | op :: rest =>
      match p.step? op with
      | none => (Tok.unwords (acc.reverse ++ [s!"reject@{i}", op.render]), false)
      | some p' => go p' (i + 1) (op.render :: acc) rest
  go { cap := cap, slack := slack } 0 [] ops

def handleFree (args impl : List String) : Option (String × String) :=
  match args with
  | kind :: cap :: n :: _ => do
    let cap ← Tok.nat? cap
    let n ← Tok.nat? n
    let slack := if kind = "std" then n else 0
    match parseFree (impl.length + 1) impl with
    | none => pure ("bad-impl", "bad-impl")
    | some ops =>
      let (m, ok) := replayFree cap slack ops
      pure (m, if ok ∧ ops.getLast?.any (fun o => match o with | .fin .. => true | _ => false) then "ok" else "fail")
  | _ => none

/-! c05.pipe <kind> <cap> <parallel> <nsrc> <k>… | e <off> <k> <fins…> ; … maxok <b> end <inUse> <waiters> -/

def kindOf (k : String) : Option Life.Kind :=
  if k = "p" then some .pass else if k = "d" ∨ k = "q" then some .discard else if k = "h" then some .hold
  else if k = "x" then some .decErr else if k = "r" then some .refused else if k = "s" then some .split else none

/-- the model's prediction: run every event's canonical script through Life.step? (capacity
    permitting one at a time) and print what the finalize trace point would have shown -/
def predictPipe (cap : Nat) (kinds : List Life.Kind) (letters : List String) : Option String := do
  let idx := List.range kinds.length
  let ops := (idx.zip kinds).flatMap (fun (i, k) => Life.script i k)
  let s ← TS.run Life.step? (Life.init cap kinds) ops
  let evs := (idx.zip (s.evs.zip letters)).map fun (i, e, kl) =>
    Tok.unwords (["e", toString ((i + 1) * 10), kl] ++ e.fins.map toString ++ [";"])
  pure (Tok.unwords (evs ++ ["maxok", "1", "end", toString s.inUse, "0"]))

/-- property on the observation alone -/
def pipeVerdict (impl : List String) : Bool :=
  let rec go : Nat → List String → Bool
    | 0, _ => false
    | _ + 1, ["maxok", b, "end", a, w] => b == "1" && a == "0" && w == "0"
    | k + 1, "e" :: _off :: kd :: ts =>
      let fins := ts.takeWhile (· ≠ ";")
      let rest := (ts.dropWhile (· ≠ ";")).drop 1
      SpecC05.pipeEventOk kd (fins.filterMap String.toNat?) && fins.all (·.toNat?.isSome) && go k rest
    | _ + 1, _ => false
  go (impl.length + 1) impl

def handlePipe (args impl : List String) : Option (String × String) :=
  match args with
  | _kind :: cap :: _par :: _nsrc :: ks => do
    let cap ← Tok.nat? cap
    let kinds ← ks.mapM kindOf
    let m ← predictPipe cap kinds ks
    pure (m, if pipeVerdict impl then "ok" else "fail")
  | _ => none

/-- c05.chain <kind> <cap> <order> <k>… : same observation and oracle, two actions in the chain -/
def handleChain (args impl : List String) : Option (String × String) :=
  match args with
  | _kind :: cap :: _order :: ks => do
    let cap ← Tok.nat? cap
    let kinds ← ks.mapM kindOf
    let m ← predictPipe cap kinds ks
    pure (m, if pipeVerdict impl then "ok" else "fail")
  | _ => none

def handle (cmd : String) (args impl : List String) : Option (String × String) :=
  if cmd = "c05.gated" then handleGated args impl
  else if cmd = "c05.free" then handleFree args impl
  else if cmd = "c05.pipe" then handlePipe args impl
  else if cmd = "c05.chain" then handleChain args impl
  -- the same runs through an output built on the real Batcher: <batch size> <workers> precede the kinds;
  -- the batcher's commit finalizes EVERY event that entered the batch (regular and child-parent)
  else if cmd = "c05.bpipe" then
    match args with
    | k :: c :: par :: nsrc :: _bs :: _bw :: ks => handlePipe (k :: c :: par :: nsrc :: ks) impl
    | _ => none
  else if cmd = "c05.bchain" then
    match args with
    | k :: c :: ord :: _bs :: _bw :: ks => handleChain (k :: c :: ord :: ks) impl
    | _ => none
  else none

end FileD.DrvC05
