/- Driver glue for C02: same pipeline trace as C01 (see Drv/C01.lean), order/once/conservation oracle -/
import FileD.Drv.C01
namespace FileD.DrvC02

def handle (cmd : String) (args impl : List String) : Option (String × String) :=
  if cmd = "c02.run" ∨ cmd = "c02.proc" then FileD.DrvC01.handle cmd args impl else none

end FileD.DrvC02
