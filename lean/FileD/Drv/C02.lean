/- Driver glue for C02: case lines `c02.<sub> <args…> | <impl…>` (stub until the property is built) -/
import FileD.Prelude.Tok
namespace FileD.DrvC02

def handle (_cmd : String) (_args _impl : List String) : Option (String × String) := none

end FileD.DrvC02
