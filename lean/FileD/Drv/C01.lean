/-
  Driver glue for C01 and C02 (they share the pipeline trace):
    c01.run / c02.run / c02.proc <procs> <cap> <lowmem> <bcount> <workers> <retry> <dq> <failpat> <dqfailpat>
            <chain> <jitter> <nsrc> <nev> (<src> s<k> <spec-hex>)…  |  <trace tokens…> <idle|stuck>
  The model replays the M1 ops of the trace (Core.step?) and echoes the trace when every step
  is enabled, `reject@<i> <token>` otherwise; P is the Spec oracle on the trace itself.
-/
import FileD.Prelude.Tok
import FileD.Model.Core
import FileD.Model.StreamProc
import FileD.Spec.C01
import FileD.Drv.Proc
namespace FileD.DrvC01
open FileD FileD.Core Tok

structure EvInfo where
  off : Nat
  st  : Nat
deriving Repr

/-- events of the case: offsets are src*100000 + 10*(index within source + 1), stream index src*1000+k -/
def parseEvents : Nat → List String → List (Nat × Nat) → Option (List EvInfo)
  | 0, [], _ => some []
  | 0, _ :: _, _ => none
  | n+1, src :: stream :: _spec :: rest, counts => do
    let s ← nat? src
    let k ← (stream.drop 1).toNat?
    let c := (counts.find? (·.1 == s)).map (·.2) |>.getD 0
    let counts' := (s, c + 1) :: counts.filter (·.1 != s)
    let more ← parseEvents n rest counts'
    pure (⟨s * 100000 + 10 * (c + 1), s * 1000 + k⟩ :: more)
  | _, _, _ => none

def evOf (infos : List EvInfo) (seqs : List (Nat × Nat)) (off : Nat) : Option Ev := do
  let i ← infos.find? (·.off == off)
  let q ← seqs.find? (·.1 == off)
  pure ⟨i.st, q.2, off⟩

/-- child id token `c<parentOffset>.<index>` -/
def kidTok (infos : List EvInfo) (seqs : List (Nat × Nat)) (s : String) : Option Kid :=
  if s.startsWith "c" then
    match ((s.drop 1).toString).splitOn "." with
    | [po, ix] => do
      let p ← evOf infos seqs (← po.toNat?)
      pure (p, ← ix.toNat?)
    | _ => none
  else none

def parseOffs (infos : List EvInfo) (seqs : List (Nat × Nat)) (s : String) : Option (List Ev) :=
  if s = "" then some [] else ((s.splitOn ",").filter (fun t => !t.startsWith "c")).mapM fun t => do evOf infos seqs (← nat? t)

def parseKids (infos : List EvInfo) (seqs : List (Nat × Nat)) (s : String) : Option (List Kid) :=
  if s = "" then some [] else ((s.splitOn ",").filter (fun t => t.startsWith "c")).mapM (kidTok infos seqs)

def isDQ (s : String) : Option Bool := if s = "M" then some false else if s = "D" then some true else none

/-- one trace token → M1 op (none = token of the stream/processor layer, not an M1 step) -/
def tokOp (infos : List EvInfo) (seqs : List (Nat × Nat)) (tok : String) : Option (Option Op) :=
  match tok.splitOn ":" with
  | ["put", o, q] => do
    let off ← nat? o; let seq ← nat? q
    let i ← infos.find? (·.off == off)
    pure (some (.accept ⟨i.st, seq, off⟩))
  | ["fin", o, f] => do
    let off ← nat? o
    match f with
    | "1" => pure (some (.drop (← evOf infos seqs off)))
    | "3" => pure (some (.commit (← evOf infos seqs off)))
    | _ => pure none
  | ["add", o, b] =>
    if o.startsWith "c" then do
      let kid ← kidTok infos seqs o
      pure (some (.addKid kid.1 kid.2))
    else do pure (some (.add (← isDQ b) (← evOf infos seqs (← nat? o))))
  | ["spk", o, _p] => do
    let kid ← kidTok infos seqs o
    pure (some (.spawn kid.1 kid.2))
  | ["seal", k, b] => do pure (some (.sealB (← isDQ b) (← nat? k)))
  | ["bcm", k, b] => do pure (some (.bcommit (← isDQ b) (← nat? k)))
  | ["send", b, k, r, offs] => do
    let evs ← parseOffs infos seqs offs
    if r = "ok" then pure (some (.sendOk (← isDQ b) (← nat? k) evs))
    else pure (some (.sendFail (← isDQ b) (← nat? k) evs))
  | ["giveup", b, k, offs] => do pure (some (.giveUp (← isDQ b) (← nat? k) (← parseOffs infos seqs offs)))
  | _ => pure none

/-- offsets ↦ seq from the `put` tokens -/
def seqsOf (trace : List String) : List (Nat × Nat) :=
  trace.filterMap fun t =>
    match t.splitOn ":" with
    | ["put", o, q] => match o.toNat?, q.toNat? with
      | some a, some b => some (a, b)
      | _, _ => none
    | _ => none

def toOps (infos : List EvInfo) (trace : List String) : Option (List (String × Op)) :=
  let seqs := seqsOf trace
  let rec go : List String → Option (List (String × Op))
    | [] => some []
    | t :: ts => do
      let o ← tokOp infos seqs t
      let rest ← go ts
      -- a successful send (or the error callback) also finishes the children it carried (observation ops for the oracle)
      let acks : List (String × Op) := match t.splitOn ":" with
        | ["send", _, _, "ok", offs] => ((parseKids infos seqs offs).getD []).map (fun kid => (t, Op.kidAck kid.1 kid.2))
        | ["giveup", _, _, offs] => ((parseKids infos seqs offs).getD []).map (fun kid => (t, Op.kidAck kid.1 kid.2))
        | _ => []
      match o with
      | some op => pure ((t, op) :: acks ++ rest)
      | none => pure rest
  go trace

def replay (hasDQ : Bool) (ops : List (String × Op)) : Option (Nat × String) :=
  let rec go (s : State) (i : Nat) : List (String × Op) → Option (Nat × String)
    | [] => none
    | (t, op) :: rest =>
      match step? s op with
      | none => some (i, t)
      | some s' => go s' (i + 1) rest
  go (init hasDQ) 0 ops

/-! M2: per-stream projection of the trace, replayed through StreamProc.step? -/

/-- stream index of a `src.sK` token -/
def streamTok (s : String) : Option Nat :=
  match s.splitOn "." with
  | [src, st] => do
    let a ← nat? src
    let k ← (st.drop 1).toNat?
    pure (a * 1000 + k)
  | _ => none

def stOfOff (infos : List EvInfo) (off : Nat) : Option Nat := (infos.find? (·.off == off)).map (·.st)

/-- (stream, op) pairs of the stream/processor layer; time-out gets are logged as `gtm:S` -/
def toStreamOps (infos : List EvInfo) : List String → Option (List (String × Nat × StreamProc.Op))
  | [] => some []
  | t :: ts =>
    match t.splitOn ":" with
    | ["put", o, q] => do
      let st ← stOfOff infos (← nat? o); let r ← toStreamOps infos ts
      pure ((t, st, .put (← nat? q)) :: r)
    | ["get", o, q] => do
      let st ← stOfOff infos (← nat? o); let r ← toStreamOps infos ts
      pure ((t, st, .get (← nat? q)) :: r)
    | ["gtm", sk] => do let st ← streamTok sk; let r ← toStreamOps infos ts; pure ((t, st, .getTimeout) :: r)
    | ["scm", o, q] => do
      let off ← nat? o
      let st ← stOfOff infos off; let r ← toStreamOps infos ts
      pure ((t, st, .commit (← nat? q)) :: r)
    | ["chg", sk] => do let st ← streamTok sk; let r ← toStreamOps infos ts; pure ((t, st, .charge) :: r)
    | ["pop", sk] => do let st ← streamTok sk; let r ← toStreamOps infos ts; pure ((t, st, .pop) :: r)
    | ["att", sk] => do let st ← streamTok sk; let r ← toStreamOps infos ts; pure ((t, st, .attach) :: r)
    | ["lv", sk] => do let st ← streamTok sk; let r ← toStreamOps infos ts; pure ((t, st, .leave) :: r)
    | ["det", sk] => do let st ← streamTok sk; let r ← toStreamOps infos ts; pure ((t, st, .detach) :: r)
    | ["tmo", sk] => do let st ← streamTok sk; let r ← toStreamOps infos ts; pure ((t, st, .timeout) :: r)
    | ["out", o, _p] => do
      let off ← nat? o
      let r ← toStreamOps infos ts
      match stOfOff infos off with
      | some st => pure ((t, st, .out off) :: r)      -- seq filled in by `resolve`
      | none => pure r                                  -- child events (offset 0) are not stream events
    | ["prop", o, _p] => do
      let off ← nat? o; let r ← toStreamOps infos ts
      match stOfOff infos off with
      | some st => pure ((t, st, .propagate off) :: r)
      | none => pure r                                  -- a held child event re-injected: not a stream event
    | ["fin", o, f] => do
      let off ← nat? o; let r ← toStreamOps infos ts
      match stOfOff infos off, f with
      | some st, "0" => pure ((t, st, .hold off) :: r)
      | some st, "1" => pure ((t, st, .drop off) :: r)
      | _, _ => pure r
    | _ => toStreamOps infos ts

/-- ops logged with an offset are rewritten to the event's sequence number -/
def resolve (seqs : List (Nat × Nat)) : StreamProc.Op → Option StreamProc.Op
  | .out off => (seqs.find? (·.1 == off)).map (fun p => .out p.2)
  | .propagate off => (seqs.find? (·.1 == off)).map (fun p => .propagate p.2)
  | .hold off => (seqs.find? (·.1 == off)).map (fun p => .hold p.2)
  | .drop off => (seqs.find? (·.1 == off)).map (fun p => .drop p.2)
  | op => some op

/-- replay every stream's projection; first rejected token, if any -/
def replayStreams (seqs : List (Nat × Nat)) (ops : List (String × Nat × StreamProc.Op)) : Option String :=
  let rec go (states : List (Nat × StreamProc.SS)) : List (String × Nat × StreamProc.Op) → Option String
    | [] => none
    | (t, st, op) :: rest =>
      let s := (states.find? (·.1 == st)).map (·.2) |>.getD {}
      match resolve seqs op with
      | none => some t
      | some op' =>
        match StreamProc.step? s op' with
        | none => some t
        | some s' =>
          if s'.panicked then some t else go ((st, s') :: states.filter (·.1 != st)) rest
  go [] ops

/-- finalize notifies the input (`icm`) before it releases the stream (`scm`): the first `scm` token of an
event whose finalization asked for the notification (`fin:o:3`) but whose `icm` has not been seen yet -/
def releaseOrder (trace : List String) : Option String :=
  let rec go (pending : List String) : List String → Option String
    | [] => none
    | t :: ts =>
      match t.splitOn ":" with
      | ["fin", o, f] => if f = "3" ∨ f = "2" then go (o :: pending) ts else go pending ts
      | ["icm", o] => go (pending.filter (· != o)) ts
      | ["scm", o, _] => if pending.contains o then some t else go pending ts
      | _ => go pending ts
  go [] trace

def handle (cmd : String) (args impl : List String) : Option (String × String) :=
  match args with
  | _procs :: _cap :: _lowmem :: _bcount :: _workers :: _retry :: dq :: _fp :: _dfp :: chain :: _jit :: _nsrc :: nev :: rest => do
    let hasDQ ← bool? dq
    let n ← nat? nev
    let infos ← parseEvents n rest []
    match impl.reverse with
    | [] => none
    | last :: revTrace =>
      if last ≠ "idle" ∧ last ≠ "stuck" then
        -- harness-level failure token (panic:…, bad-case…): nothing to replay
        some (unwords impl, "fail:harness:0:0")
      else
      let trace := revTrace.reverse
      if cmd = "c02.proc" then
        -- processor logic only: M3's prediction against the processor-side operations of the trace
        match DrvProc.compare chain n rest trace (seqsOf trace) with
        | some d => some (d, "ok")
        | none => some (unwords impl, "ok")
      else
      match toOps infos trace with
      | none => some ("bad-trace", "fail:bad-trace:0:0")
      | some ops =>
        let m := match replay hasDQ ops with
          | some (i, t) => s!"reject@{i} {t}"
          | none =>
            match toStreamOps infos trace with
            | none => "bad-stream-trace"
            | some sops =>
              match replayStreams (seqsOf trace) sops with
              | some t => s!"reject-stream {t}"
              | none =>
                match releaseOrder trace with
                | some t => s!"reject-release {t}"
                | none =>
                -- M3: the processor's own logic predicts what it does with the events it took
                match DrvProc.compare chain n rest trace (seqsOf trace) with
                | some d => d
                | none => unwords impl
        let opl := ops.map (·.2)
        let p :=
          if cmd = "c01.run" then SpecC01.verdict (SpecC01.frontier hasDQ opl)
          else if cmd = "c04.run" then
            -- liveness only: every accepted event was finalized (commit or drop) and the run went idle
            match (SpecC01.order hasDQ (last = "idle") opl).bad with
            | some ("lost", e, _) => s!"fail:lost:{e.off}:{e.off}"
            | _ => "ok"
          else SpecC01.verdict (SpecC01.order hasDQ (last = "idle") opl)
        let p := if last = "stuck" ∧ p = "ok" ∧ (cmd = "c02.run" ∨ cmd = "c04.run") then "fail:stuck:0:0" else p
        some (m, p)
  | _ => none

end FileD.DrvC01
