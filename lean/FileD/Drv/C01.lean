/-
  Driver glue for C01 and C02 (they share the pipeline trace):
    c01.run / c02.run <procs> <cap> <lowmem> <bcount> <workers> <retry> <dq> <failpat> <dqfailpat>
            <chain> <jitter> <nsrc> <nev> (<src> s<k> <spec-hex>)…  |  <trace tokens…> <idle|stuck>
  The model replays the M1 ops of the trace (Core.step?) and echoes the trace when every step
  is enabled, `reject@<i> <token>` otherwise; P is the Spec oracle on the trace itself.
-/
import FileD.Prelude.Tok
import FileD.Model.Core
import FileD.Spec.C01
namespace FileD.DrvC01
open FileD FileD.Core Tok

structure EvInfo where
  off : Nat
  st  : Nat
deriving Repr

/-- events of the case: offsets are src*100000 + 10*(index within source + 1), stream index src*1000+k -/
def parseEvents : Nat → List String → List (Nat × Nat) → Option (List EvInfo)
  | 0, [], _ => some []
  | 0, _ :: _, _ => none
  | n+1, src :: stream :: _spec :: rest, counts => do
    let s ← nat? src
    let k ← (stream.drop 1).toNat?
    let c := (counts.find? (·.1 == s)).map (·.2) |>.getD 0
    let counts' := (s, c + 1) :: counts.filter (·.1 != s)
    let more ← parseEvents n rest counts'
    pure (⟨s * 100000 + 10 * (c + 1), s * 1000 + k⟩ :: more)
  | _, _, _ => none

def evOf (infos : List EvInfo) (seqs : List (Nat × Nat)) (off : Nat) : Option Ev := do
  let i ← infos.find? (·.off == off)
  let q ← seqs.find? (·.1 == off)
  pure ⟨i.st, q.2, off⟩

def parseOffs (infos : List EvInfo) (seqs : List (Nat × Nat)) (s : String) : Option (List Ev) :=
  if s = "" then some [] else (s.splitOn ",").mapM fun t => do evOf infos seqs (← nat? t)

def isDQ (s : String) : Option Bool := if s = "M" then some false else if s = "D" then some true else none

/-- one trace token → M1 op (none = token of the stream/processor layer, not an M1 step) -/
def tokOp (infos : List EvInfo) (seqs : List (Nat × Nat)) (tok : String) : Option (Option Op) :=
  match tok.splitOn ":" with
  | ["put", o, q] => do
    let off ← nat? o; let seq ← nat? q
    let i ← infos.find? (·.off == off)
    pure (some (.accept ⟨i.st, seq, off⟩))
  | ["fin", o, f] => do
    let off ← nat? o
    match f with
    | "1" => pure (some (.drop (← evOf infos seqs off)))
    | "3" => pure (some (.commit (← evOf infos seqs off)))
    | _ => pure none
  | ["add", o, b] => do pure (some (.add (← isDQ b) (← evOf infos seqs (← nat? o))))
  | ["seal", k, b] => do pure (some (.sealB (← isDQ b) (← nat? k)))
  | ["bcm", k, b] => do pure (some (.bcommit (← isDQ b) (← nat? k)))
  | ["send", b, k, r, offs] => do
    let evs ← parseOffs infos seqs offs
    if r = "ok" then pure (some (.sendOk (← isDQ b) (← nat? k) evs))
    else pure (some (.sendFail (← isDQ b) (← nat? k) evs))
  | ["giveup", b, offs] => do pure (some (.giveUp (← isDQ b) (← parseOffs infos seqs offs)))
  | _ => pure none

/-- offsets ↦ seq from the `put` tokens -/
def seqsOf (trace : List String) : List (Nat × Nat) :=
  trace.filterMap fun t =>
    match t.splitOn ":" with
    | ["put", o, q] => match o.toNat?, q.toNat? with
      | some a, some b => some (a, b)
      | _, _ => none
    | _ => none

def toOps (infos : List EvInfo) (trace : List String) : Option (List (String × Op)) :=
  let seqs := seqsOf trace
  let rec go : List String → Option (List (String × Op))
    | [] => some []
    | t :: ts => do
      let o ← tokOp infos seqs t
      let rest ← go ts
      match o with
      | some op => pure ((t, op) :: rest)
      | none => pure rest
  go trace

def replay (hasDQ : Bool) (ops : List (String × Op)) : Option (Nat × String) :=
  let rec go (s : State) (i : Nat) : List (String × Op) → Option (Nat × String)
    | [] => none
    | (t, op) :: rest =>
      match step? s op with
      | none => some (i, t)
      | some s' => go s' (i + 1) rest
  go (init hasDQ) 0 ops

def handle (cmd : String) (args impl : List String) : Option (String × String) :=
  match args with
  | _procs :: _cap :: _lowmem :: _bcount :: _workers :: _retry :: dq :: _fp :: _dfp :: _chain :: _jit :: _nsrc :: nev :: rest => do
    let hasDQ ← bool? dq
    let n ← nat? nev
    let infos ← parseEvents n rest []
    match impl.reverse with
    | [] => none
    | last :: revTrace =>
      if last ≠ "idle" ∧ last ≠ "stuck" then
        -- harness-level failure token (panic:…, bad-case…): nothing to replay
        some (unwords impl, "fail:harness:0:0")
      else
      let trace := revTrace.reverse
      match toOps infos trace with
      | none => some ("bad-trace", "fail:bad-trace:0:0")
      | some ops =>
        let m := match replay hasDQ ops with
          | none => unwords impl
          | some (i, t) => s!"reject@{i} {t}"
        let opl := ops.map (·.2)
        let p :=
          if cmd = "c01.run" then SpecC01.verdict (SpecC01.frontier hasDQ opl)
          else SpecC01.verdict (SpecC01.order hasDQ (last = "idle") opl)
        let p := if last = "stuck" ∧ p = "ok" ∧ cmd = "c02.run" then "fail:stuck:0:0" else p
        some (m, p)
  | _ => none

end FileD.DrvC01
