/- Driver glue for C01: case lines `c01.<sub> <args…> | <impl…>` (stub until the property is built) -/
import FileD.Prelude.Tok
namespace FileD.DrvC01

def handle (_cmd : String) (_args _impl : List String) : Option (String × String) := none

end FileD.DrvC01
