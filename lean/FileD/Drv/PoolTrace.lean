/- Parser and replay glue for gated pool traces (`c04.pool`, `c05.gated`). -/
import FileD.Prelude.Tok
import FileD.Model.PoolRun
namespace FileD.Drv.PoolTrace
open FileD FileD.Pool Tok

def parseOp (t : String) : Option MOp :=
  if t = "h" then some .hb else
  match t.toList with
  | c :: ds =>
    match (String.ofList ds).toNat? with
    | none => none
    | some r =>
      if c = 'g' then some (.get r false) else if c = 'G' then some (.get r true)
      else if c = 'r' then some (.rel r) else if c = 'b' then some (.back r)
      else if c = 'k' then some (.mark r) else none
  | [] => none

/-- the groups after the op token -/
def parseRest (b : Block) : Nat → List String → Option Block
  | 0, _ => none
  | _ + 1, [] => none
  | k + 1, "o" :: r :: "got" :: e :: ts => do
    let r ← nat? r; let e ← int? e
    parseRest { b with obs := b.obs ++ [(r, .got e)] } k ts
  | k + 1, "o" :: r :: st :: ts => do
    let r ← nat? r
    let st ← (if st = "gate" then some Status.gate else if st = "wait" then some .wait
              else if st = "spin" then some .spin else none)
    parseRest { b with obs := b.obs ++ [(r, st)] } k ts
  | k + 1, "dup" :: ts => parseRest { b with dup := true } k ts
  | k + 1, "unsettled" :: ts => parseRest { b with unsettled := true } k ts
  | k + 1, "s" :: d :: ts => parseRest { b with slots := some d } k ts
  | _ + 1, ["i", a, w, c] => do
    let a ← nat? a; let w ← nat? w; let c ← nat? c
    pure { b with inUse := a, sw := w, cw := c }
  | _ + 1, _ => none

def splitSemi : List String → List String → List (List String)
  | [], cur => if cur.isEmpty then [] else [cur.reverse]
  | t :: ts, cur => if t = ";" then cur.reverse :: splitSemi ts [] else splitSemi ts (t :: cur)

def parseBlocks (impl : List String) : Option (List Block) :=
  (splitSemi impl []).mapM fun toks =>
    match toks with
    | op :: rest => do
      let op ← parseOp op
      parseRest { op := op, obs := [], inUse := 0, sw := 0, cw := 0 } (rest.length + 1) rest
    | [] => none

/-- replay on the low-memory model: rendered blocks, or the index of the first op not enabled -/
def replayLM (c : LM.Cfg) (hb : Bool) (n : Nat) (bs : List Block) : String :=
  let rec go (m : LM.MS) (i : Nat) (acc : List String) : List Block → String
    | [] => unwords acc.reverse
    | b :: rest =>
      match LM.block? c hb m b with
      | none => unwords (acc.reverse ++ [s!"reject@{i}", b.op.render])
      | some m' => go m' (i + 1) ((LM.observe m' b).render :: acc) rest
  go { s := LM.init n } 0 [] bs

def replayStd (hb : Bool) (cap n : Nat) (bs : List Block) : String :=
  let rec go (m : Std.MS) (i : Nat) (acc : List String) : List Block → String
    | [] => unwords acc.reverse
    | b :: rest =>
      match Std.block? hb m b with
      | none => unwords (acc.reverse ++ [s!"reject@{i}", b.op.render])
      | some m' => go m' (i + 1) ((Std.observe m' b).render :: acc) rest
  go { s := Std.init cap n } 0 [] bs

/-- the configuration of the low-memory pool that mirrors /repo (after the `fix:` commit) -/
def repoCfg (cap : Nat) : LM.Cfg := { cap := cap, hbNeg := false }

/-- args: kind cap n script… ; returns (model rendering, parsed blocks, isStd, cap) -/
def run (args impl : List String) : Option (String × List Block × Bool × Nat) :=
  match args with
  | kind :: cap :: n :: _ => do
    let cap ← nat? cap; let n ← nat? n
    if cap = 0 then none
    let hb := !(kind.endsWith "-nohb")
    let kind := if hb then kind else (kind.dropEnd 5).toString
    match parseBlocks impl with
    | none => pure ("bad-impl", [], kind = "std", cap)
    | some bs =>
      if kind = "std" then pure (replayStd hb cap n bs, bs, true, cap)
      else if kind = "lowmem" then pure (replayLM (repoCfg cap) hb n bs, bs, false, cap)
      else none
  | _ => none

end FileD.Drv.PoolTrace
