/- Parser / printer of Stream trace tokens (vocabulary of Model/Stream.lean) and the replay. -/
import FileD.Prelude.Tok
import FileD.Prelude.TS
import FileD.Model.Stream
namespace FileD.Drv.StreamTrace
open FileD FileD.Stream Tok

def parseOps : Nat → List String → Option (List Op)
  | _, [] => some []
  | 0, _ => none
  | k + 1, "put" :: s :: o :: q :: ts => do
    let r ← parseOps k ts; pure (.put (← nat? s) (← nat? o) (← nat? q) :: r)
  | k + 1, "charge" :: s :: ts => do let r ← parseOps k ts; pure (.charge (← nat? s) :: r)
  | k + 1, "pop" :: p :: s :: ts => do let r ← parseOps k ts; pure (.pop (← nat? p) (← nat? s) :: r)
  | k + 1, "park" :: p :: ts => do let r ← parseOps k ts; pure (.park (← nat? p) :: r)
  | k + 1, "attach" :: p :: s :: ts => do let r ← parseOps k ts; pure (.attach (← nat? p) (← nat? s) :: r)
  | k + 1, "get" :: p :: s :: o :: q :: t :: ts => do
    let r ← parseOps k ts
    pure (.get (← nat? p) (← nat? s) (← nat? o) (← nat? q) (← bool? t) :: r)
  | k + 1, "leave" :: p :: s :: ts => do let r ← parseOps k ts; pure (.leave (← nat? p) (← nat? s) :: r)
  | k + 1, "detach" :: s :: ts => do let r ← parseOps k ts; pure (.detach (← nat? s) :: r)
  | k + 1, "commit" :: s :: q :: ts => do let r ← parseOps k ts; pure (.commit (← nat? s) (← nat? q) :: r)
  | k + 1, "stale" :: s :: q :: ts => do let r ← parseOps k ts; pure (.stale (← nat? s) (← nat? q) :: r)
  | k + 1, "bwait" :: p :: s :: ts => do let r ← parseOps k ts; pure (.bwait (← nat? p) (← nat? s) :: r)
  | k + 1, "timeout" :: s :: ts => do let r ← parseOps k ts; pure (.timeout (← nat? s) :: r)
  | _ + 1, _ => none

def render : Op → String
  | .put s o q => s!"put {s} {o} {q}"
  | .charge s => s!"charge {s}"
  | .pop p s => s!"pop {p} {s}"
  | .park p => s!"park {p}"
  | .attach p s => s!"attach {p} {s}"
  | .get p s o q k => s!"get {p} {s} {o} {q} {ofBool k}"
  | .leave p s => s!"leave {p} {s}"
  | .detach s => s!"detach {s}"
  | .commit s q => s!"commit {s} {q}"
  | .stale s q => s!"stale {s} {q}"
  | .bwait p s => s!"bwait {p} {s}"
  | .timeout s => s!"timeout {s}"

/-- the trace as the model accepts it: every token when every step is enabled and no
    Panicf state was entered, else the accepted prefix and `reject@i` / `panic@i` -/
def replay (init : St) (ops : List Op) : String :=
  let rec go (st : St) (i : Nat) (acc : List String) : List Op → String
    | [] => if acc.isEmpty then "-" else unwords acc.reverse
    | op :: rest =>
      match step? st op with
      | none => unwords (acc.reverse ++ [s!"reject@{i}", render op])
      | some st' =>
        if st'.panicked || st'.toPanic then unwords (acc.reverse ++ [s!"panic@{i}", render op])
        else go st' (i + 1) (render op :: acc) rest
  go init 0 [] ops

end FileD.Drv.StreamTrace
