/-
  Driver glue for C19. Case lines (all byte strings hex, `-` = empty):

    event   := <kind> <src> <enc> <nroute> <route…>          kind 0 regular, 1 child, 2 child-parent
    batches := <nb> (<nev> event…)…          script := <ns> <status…>

    c19.file   <lim> batches                                          | <nb> <written>…
    c19.gelf   <lim> <failfirst> <host> <short> <defshort> <full> <ts> <level> batches   | <nb> <written>…
    c19.kafka  <lim> <bsz> <deftopic> <usefield> <topicfield> batches | <nb> (<nrec> (<topic> <value>)…)…
    c19.http   <raw> <rawfield> <split> <lim> script batches          | A
    c19.es     <split> <lim> <op> <format> <time> <nvals> <val…> script batches   | A
    c19.splunk <lim> <ncf> (<from> <to> <keyq>)… script batches       | A
    c19.loki   <lim> <labelsjson> <nlab> (<k> <v>)… <tsfield> <msgfield> script batches   | A
      A := <nb> (<nattempts> (<ok|err> <nreq> (<status> <body>)…)…)…

  `src` (the JSON text the event is decoded from) and the field-name configuration are used by
  the harness only; the model works on the oracle values `enc` / `route`.
-/
import FileD.Prelude.Tok
import FileD.Model.Payload
import FileD.Spec.C19
namespace FileD.DrvC19
open FileD Tok Payload SpecC19

abbrev P (α : Type) := List String → Option (α × List String)

def pNat : P Nat | t :: ts => (nat? t).map (·, ts) | [] => none
def pBool : P Bool | t :: ts => (bool? t).map (·, ts) | [] => none
def pBytes : P Bytes | t :: ts => (bytes? t).map (·, ts) | [] => none

def pCount {α} (p : P α) : Nat → P (List α)
  | 0, ts => some ([], ts)
  | n + 1, ts => do
    let (x, r) ← p ts
    let (xs, r') ← pCount p n r
    pure (x :: xs, r')

def pList {α} (p : P α) : P (List α) := fun ts => do
  let (n, r) ← pNat ts
  pCount p n r

def pEv : P Ev := fun ts => do
  let (k, r) ← pNat ts
  let (_src, r) ← pBytes r
  let (enc, r) ← pBytes r
  let (route, r) ← pList pBytes r
  pure (⟨k, enc, route⟩, r)

def pBatches : P (List (List Ev)) := pList (pList pEv)

/-- observed attempts: `<ok|err> <nreq> (<status> <body>)…` -/
def pReq : P (Nat × Bytes) := fun ts => do
  let (s, r) ← pNat ts
  let (b, r) ← pBytes r
  pure ((s, b), r)

def pAttempt : P (Bool × List (Nat × Bytes)) := fun ts =>
  match ts with
  | v :: r => do
    let ok ← if v = "ok" then some true else if v = "err" then some false else none
    let (reqs, r) ← pList pReq r
    pure ((ok, reqs), r)
  | [] => none

def pObsHttp : P (List (List (Bool × List (Nat × Bytes)))) := pList (pList pAttempt)

def encAttempt (a : Attempt) : String :=
  unwords ((if a.ok then "ok" else "err") :: toString a.reqs.length ::
    a.reqs.flatMap (fun q => [toString q.status, Hex.enc q.body]))

def encHttp (r : GoM (List (List Attempt))) : String :=
  match r with
  | .error p => panicTok p
  | .ok bs => unwords (toString bs.length :: bs.map (fun ats => unwords (toString ats.length :: ats.map encAttempt)))

def encWritten (l : List Bytes) : String := unwords (toString l.length :: l.map Hex.enc)

/-- property verdict for the http-like sinks -/
def verdictHttp {F : Type} (split : Bool) (okStatus : Nat → Bool) (unframe : Bytes → Option (List F))
    (matchEv : Ev → F → Bool) (batches : List (List Ev)) (impl : List String) : String :=
  match impl with
  | t :: _ => if t.startsWith "panic" then "fail" else
    match pObsHttp impl with
    | some (obs, []) =>
      if obs.length ≠ batches.length then "fail" else
      let okAll := (batches.zip obs).all (fun (b, ats) =>
        -- the batch is retried until an attempt is committed; every attempt is judged
        ats.all (fun (ok, reqs) =>
          holdsAttempt split okStatus matchEv b ok (reqs.map (fun (s, body) => ⟨s, unframe body⟩))))
      if okAll then "ok" else "fail"
    | _ => "bad-impl"
  | [] => "bad-impl"

def verdictWritten (sep : UInt8) (doc : Ev → Bytes) (batches : List (List Ev)) (impl : List String) : String :=
  match impl with
  | t :: _ => if t.startsWith "panic" then "fail" else
    match pList pBytes impl with
    | some (obs, []) =>
      if obs.length ≠ batches.length then "fail" else
      if (batches.zip obs).all (fun (b, o) => holdsSep sep doc b o) then "ok" else "fail"
    | _ => "bad-impl"
  | [] => "bad-impl"

def pRec : P (Bytes × Bytes) := fun ts => do
  let (t, r) ← pBytes ts
  let (v, r) ← pBytes r
  pure ((t, v), r)

def encKafka (r : GoM (List (List (Bytes × Bytes)))) : String :=
  match r with
  | .error p => panicTok p
  | .ok bs => unwords (toString bs.length ::
      bs.map (fun rs => unwords (toString rs.length :: rs.flatMap (fun (t, v) => [Hex.enc t, Hex.enc v]))))

def singleton (x : Option Bytes) : Option (List Bytes) := x.map ([·])

def handle (cmd : String) (args impl : List String) : Option (String × String) :=
  match cmd with
  | "c19.file" => do
    let (lim, r) ← pNat args
    let (bs, r) ← pBatches r
    if r ≠ [] then none
    pure (encWritten (fileRun lim none bs), verdictWritten NL (·.enc) bs impl)
  | "c19.gelf" => do
    let (lim, r) ← pNat args
    let (_failFirst, r) ← pBool r
    let (_, r) ← pCount pBytes 6 r
    let (bs, r) ← pBatches r
    if r ≠ [] then none
    pure (encWritten (gelfRun lim none bs), verdictWritten 0 gelfDoc bs impl)
  | "c19.kafka" => do
    let (lim, r) ← pNat args
    let (bsz, r) ← pNat r
    let (deft, r) ← pBytes r
    let (usef, r) ← pBool r
    let (_tf, r) ← pBytes r
    let (bs, r) ← pBatches r
    if r ≠ [] then none
    let kc : KCfg := ⟨bsz, deft, usef⟩
    let m := kafkaRun growDouble kc lim bs
    let p := match impl with
      | t :: _ =>
        if t.startsWith "panic" then
          -- a batch larger than batch_size cannot come out of the batcher: not a property failure
          (if bs.any (fun b => (deliverable b).length > bsz) then "ok" else "fail")
        else match pList (pList pRec) impl with
          | some (obs, []) =>
            if obs.length = bs.length && (bs.zip obs).all (fun (b, o) => holdsKafka kc b o) then "ok" else "fail"
          | _ => "bad-impl"
      | [] => "bad-impl"
    pure (encKafka m, p)
  | "c19.http" => do
    let (raw, r) ← pBool args
    let (_rf, r) ← pBytes r
    let (split, r) ← pBool r
    let (lim, r) ← pNat r
    let (sc, r) ← pList pNat r
    let (bs, r) ← pBatches r
    if r ≠ [] then none
    let m := httpLikeRun (httpOut raw split lim) none sc bs
    let p := verdictHttp split isOkStatus (unframeSep NL) (if raw then rawOk else frameOk (·.enc)) bs impl
    pure (encHttp m, p)
  | "c19.es" => do
    let (split, r) ← pBool args
    let (lim, r) ← pNat r
    let (op, r) ← pBytes r
    let (fmt, r) ← pBytes r
    let (tm, r) ← pBytes r
    let (vals, r) ← pList pBytes r
    let (sc, r) ← pList pNat r
    let (bs, r) ← pBatches r
    if r ≠ [] then none
    let c : EsCfg := ⟨op, fmt, tm, if vals = [] then [atTime] else vals⟩
    let m := httpLikeRun (esOut c split lim) none sc bs
    let p := verdictHttp split isOkStatus unframeES (esEventOk c) bs impl
    pure (encHttp m, p)
  | "c19.splunk" => do
    let (lim, r) ← pNat args
    let (cfs, r) ← pList (fun ts => do
      let (_f, r) ← pBytes ts
      let (_t, r) ← pBytes r
      let (kq, r) ← pBytes r
      pure ((⟨kq⟩ : CopyField), r)) r
    let (sc, r) ← pList pNat r
    let (bs, r) ← pBatches r
    if r ≠ [] then none
    let m := httpLikeRun (splunkOut cfs lim) none sc bs
    let p := verdictHttp false isOkStatus (fun b => unframeConcat (b.length + 1) b) (frameOk (splunkFrame cfs)) bs impl
    pure (encHttp m, p)
  | "c19.loki" => do
    let (_lim, r) ← pNat args
    let (labels, r) ← pBytes r
    let (_, r) ← pList (pCount pBytes 2) r
    let (_, r) ← pCount pBytes 2 r
    let (sc, r) ← pList pNat r
    let (bs, r) ← pBatches r
    if r ≠ [] then none
    let m := httpLikeRun (lokiOut labels) none sc bs
    let entryOf (e : Ev) : Bytes := match lokiEv e with | some l => lokiEntry l | none => []
    let p := verdictHttp false (· = 204) (unframeLoki labels) (frameOk entryOf) bs impl
    pure (encHttp m, p)
  | _ => none

end FileD.DrvC19
