/- Driver glue for C19: case lines `c19.<sub> <args…> | <impl…>` (stub until the property is built) -/
import FileD.Prelude.Tok
namespace FileD.DrvC19

def handle (_cmd : String) (_args _impl : List String) : Option (String × String) := none

end FileD.DrvC19
