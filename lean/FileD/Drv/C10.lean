/- Driver glue for C10: case lines `c10.<sub> <args…> | <impl…>` (stub until the property is built) -/
import FileD.Prelude.Tok
namespace FileD.DrvC10

def handle (_cmd : String) (_args _impl : List String) : Option (String × String) := none

end FileD.DrvC10
