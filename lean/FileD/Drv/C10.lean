/-
  Driver glue for C10. Case lines (all numbers decimal, signed where the Go type is signed):

  c10.pack  <index> <partition> <offset> <epoch>
            | <sourceID> <index'> <partition'> <assembledOffset> <markOffset> <markEpoch>
      real assembleSourceID / disassembleSourceID / assembleOffset / disassembleOffset against the
      regenerated Gen.KafkaPack definitions; P = round trip (Spec.packOk) when the inputs are in the
      property's range.

  c10.marks <ntopics> <nrec> (<topic> <part> <offset> <epoch>)… <ncommit> <i>…
            | <ncommit> (<k> (<topic> <part> <epoch> <offset>)*k)…      or  panic:<kind>
      real Plugin.Commit on events carrying the packed values, offline kgo client; after each commit
      the client's MarkedOffsets (sorted). Model: commitPacked (Gen functions + max-keeping mark).
      P: Spec.verdict after each commit (consumed = all records, finished = committed so far).

  c10.start <ntopics> <name>… <nrec> (<name> <part> <offset> <epoch>)… <ncommit> <i>…
            | <nrec> (<sourceID> <offset>)… <ncommit> (<k> (<name> <part> <epoch> <offset>)*k)…
      the real Start (topic ids) → Assigned → consume → Commit path; topic list with duplicates, topics
      and marks by name id. Model: topicID (last position wins) / Topics[index] / commitStarted.

  c10.stop  <ntopics> <name>… <nrec> (<name> <part> <offset> <epoch>)… <nfinish> <i>…
            | <nrec> (<sourceID> <offset>)… <regress> <k> (<name> <part> <epoch> <offset>)*k
      real Start, real group join / fetch against an in-process broker, real Commit of the finish list,
      real Stop; the offsets the broker holds afterwards. Model: the marks. P: Spec.verdict on them.

  c10.live  <procs> <ntopics> <name>… <nrec> (<name> <part> <offset> <epoch> <kind>)… <nfinish> <i>…
            | <nrec> (<sourceID> <offset> <accepted>)…sorted <nacked> <i>… <k> marks… <regress> <k> committed…
      real pipeline + real plugin + group broker; kind 1 / 2 = tombstone / malformed JSON, refused by In:
      no event, no mark. Marks before the stop and offsets the broker holds after it.

  c10.pipe  <procs> <async> <capacity> <ntopics> <nrec> (<topic> <part> <offset> <epoch> <discard>)… <nchoice> <c>…
            | <nops> op…   with op = in <i> <stream> <sourceID> <offset> | out <i> | drop <i>
                                     | ack <i> <k> (<topic> <part> <epoch> <offset>)*k
      observed trace of the real pipeline in spread mode; replayed through KafkaCommit.step?.
-/
import FileD.Prelude.Tok
import FileD.Model.KafkaCommit
import FileD.Spec.C10
namespace FileD.DrvC10
open FileD Tok FileD.KafkaCommit

def parseRecs (extra : Nat) : Nat → List String → Option (List (Rec × List String) × List String)
  | 0, ts => some ([], ts)
  | n+1, t :: p :: o :: e :: ts => do
    let r : Rec := ⟨← int? t, ← int? p, ← int? o, ← int? e⟩
    let ex := ts.take extra
    if ex.length ≠ extra then none
    let (rest, r') ← parseRecs extra n (ts.drop extra)
    pure ((r, ex) :: rest, r')
  | _, _ => none

def insertMark (x : TP × EO) : Marks → Marks
  | [] => [x]
  | y :: ys =>
    if x.1.1 < y.1.1 ∨ (x.1.1 = y.1.1 ∧ x.1.2 ≤ y.1.2) then x :: y :: ys else y :: insertMark x ys

def sortMarks (m : Marks) : Marks := m.foldr insertMark []

/-- `MarkedOffsets` leaves out heads equal to the committed offset; offline the committed offset is
    the zero value, so a head (epoch 0, offset 0) is not listed. -/
def visible (m : Marks) : Marks := (sortMarks m).filter fun x => x.2 ≠ (0, 0)

def encMarks (m : Marks) : String :=
  let v := visible m
  unwords (toString v.length :: v.flatMap fun x => [toString x.1.1, toString x.1.2, toString x.2.1, toString x.2.2])

def parseMarks : Nat → List String → Option (Marks × List String)
  | 0, ts => some ([], ts)
  | n+1, t :: p :: e :: o :: ts => do
    let x : TP × EO := ((← int? t, ← int? p), (← int? e, ← int? o))
    let (rest, r) ← parseMarks n ts
    pure (x :: rest, r)
  | _, _ => none

/-- `<k> marks…` -/
def parseMarkList (ts : List String) : Option (Marks × List String) :=
  match ts with
  | k :: rest => do parseMarks (← nat? k) rest
  | [] => none

def recInRange (r : Rec) : Bool := SpecC10.inRange r.topic r.part r.offset r.epoch

/-! ### c10.pack -/

def handlePack (args impl : List String) : Option (String × String) :=
  match args with
  | [a, b, c, d] => do
    let index ← int? a; let part ← int? b; let offset ← int? c; let epoch ← int? d
    let r : Rec := ⟨index, part, offset, epoch⟩
    let sid := packSourceID r
    let ip := Gen.KafkaPack.disassembleSourceID sid
    let asm := packOffset r
    let eo := Gen.KafkaPack.disassembleOffset asm
    let m := unwords [toString sid.toNat, toString ip.1.toInt, toString ip.2.toInt, toString asm.toInt,
                      toString eo.Offset.toInt, toString eo.Epoch.toInt]
    let p :=
      if !(SpecC10.inRange index part offset epoch) then "ok" else
      match impl with
      | [_, i', p', _, mo, me] =>
        match int? i', int? p', int? mo, int? me with
        | some i', some p', some mo, some me =>
          if SpecC10.packOk index part offset epoch i' p' mo me then "ok" else "fail:roundtrip"
        | _, _, _, _ => "bad-impl"
      | _ => if (impl.head?.getD "").startsWith "panic" then "fail:panic" else "bad-impl"
    pure (m, p)
  | _ => none

/-! ### c10.marks -/

/-- model of the commit sequence on packed values; `none` = `Topics[index]` out of range (Go panic) -/
def marksModel (ntopics : Nat) (recs : List Rec) : Marks → List Nat → Option (List Marks)
  | _, [] => some []
  | m, i :: is => do
    let r ← recs[i]?
    let sid := packSourceID r
    let idx := (Gen.KafkaPack.disassembleSourceID sid).1.toInt
    if idx < 0 ∨ idx ≥ ntopics then none
    let m' := commitPacked m sid (packOffset r)
    let rest ← marksModel ntopics recs m' is
    pure (m' :: rest)

/-- verdicts after each commit of the implementation's observed marks.
    The `Own` clause of the oracle ranges over every CONSUMED record (`List.range recs.length`), as the
    property says ("at most one past a record it has consumed, its own topic / partition / epoch");
    that the code only ever marks ACKNOWLEDGED records is the theorem `mark_at_most_one_past_consumed`
    and the correspondence with the model, not a demand of the oracle. -/
def marksVerdicts (recs : List Rec) : List Nat → List Nat → List String → List String
  | _, [], _ => []
  | done, i :: is, ts =>
    let done' := i :: done
    match parseMarkList ts with
    | some (obs, rest) => SpecC10.verdict recs done' (List.range recs.length) obs :: marksVerdicts recs done' is rest
    | none => ["bad-impl"]

def handleMarks (args impl : List String) : Option (String × String) :=
  match args with
  | nt :: nr :: rest => do
    let ntopics ← nat? nt
    let n ← nat? nr
    let (rs, r1) ← parseRecs 0 n rest
    let recs := rs.map (·.1)
    let (order, r2) ← listOf nat? r1
    if r2 ≠ [] then none
    if order.any (· ≥ recs.length) then none
    let m := match marksModel ntopics recs [] order with
      | some ms => unwords (toString ms.length :: ms.map encMarks)
      | none => "panic:bounds"
    let allIn := recs.all recInRange && recs.all (fun r => r.topic < ntopics)
    let p := match impl with
      | k :: irest =>
        if k.startsWith "panic" then (if allIn then "fail:panic" else "ok") else
        if nat? k ≠ some order.length then "bad-impl" else
        if allIn then SpecC10.firstBad (marksVerdicts recs [] order irest) else "ok"
      | [] => "bad-impl"
    pure (m, p)
  | _ => none

/-! ### c10.pipe -/

inductive TOp
  | tin (i sid : Nat) (psid : Nat) (poff : Int)
  | tout (i : Nat)
  | tdrop (i : Nat)
  | tack (i : Nat) (obs : Marks)

def parseOps : Nat → List String → Option (List TOp × List String)
  | 0, ts => some ([], ts)
  | n+1, "in" :: i :: s :: a :: b :: ts => do
    let op := TOp.tin (← nat? i) (← nat? s) (← nat? a) (← int? b)
    let (rest, r) ← parseOps n ts
    pure (op :: rest, r)
  | n+1, "out" :: i :: ts => do
    let op := TOp.tout (← nat? i)
    let (rest, r) ← parseOps n ts
    pure (op :: rest, r)
  | n+1, "drop" :: i :: ts => do
    let op := TOp.tdrop (← nat? i)
    let (rest, r) ← parseOps n ts
    pure (op :: rest, r)
  | n+1, "ack" :: i :: ts => do
    let i ← nat? i
    let (obs, r0) ← parseMarkList ts
    let (rest, r) ← parseOps n r0
    pure (TOp.tack i obs :: rest, r)
  | _, _ => none

def opName : TOp → String
  | .tin .. => "in" | .tout .. => "out" | .tdrop .. => "drop" | .tack .. => "ack"

/-- replay the observed trace through `step?`; prints the trace with the model's marks, or the
    first op the model does not enable -/
def replay (c : Cfg) (caseRecs : List Rec) : State → Nat → List TOp → List String → String
  | _, _, [], acc => unwords acc.reverse
  | s, k, op :: ops, acc =>
    let rej := unwords (acc.reverse ++ [s!"reject@{k}", opName op])
    match op with
    | .tin i sid psid poff =>
      match caseRecs[i]? with
      | some r =>
        if i ≠ s.recs.length ∨ psid ≠ (packSourceID r).toNat ∨ poff ≠ (packOffset r).toInt then rej else
        match step? c s (.consume r sid) with
        | some s' => replay c caseRecs s' (k+1) ops
            (toString poff :: toString psid :: toString sid :: toString i :: "in" :: acc)
        | none => rej
      | none => rej
    | .tout i =>
      match step? c s (.take i) with
      | some s' => replay c caseRecs s' (k+1) ops (toString i :: "out" :: acc)
      | none => rej
    | .tdrop i =>
      match step? c s (.drop i) with
      | some s' => replay c caseRecs s' (k+1) ops (toString i :: "drop" :: acc)
      | none => rej
    | .tack i _ =>
      match step? c s (.ack i) with
      | some s' => replay c caseRecs s' (k+1) ops (encMarks s'.marks :: toString i :: "ack" :: acc)
      | none => rej

/-- the oracle follows the trace's own bookkeeping (independent of what the model enables) -/
def pipeVerdicts (caseRecs : List Rec) : List Rec → List Nat → List Nat → List TOp → List String
  | _, _, _, [] => []
  | recs, fin, ack, op :: ops =>
    match op with
    | .tin i _ _ _ =>
      match caseRecs[i]? with
      | some r => pipeVerdicts caseRecs (recs ++ [r]) fin ack ops
      | none => ["bad-impl"]
    | .tout _ => pipeVerdicts caseRecs recs fin ack ops
    | .tdrop i => pipeVerdicts caseRecs recs (i :: fin) ack ops
    | .tack i obs =>
      SpecC10.verdict recs (i :: fin) (List.range recs.length) obs :: pipeVerdicts caseRecs recs (i :: fin) (i :: ack) ops

def handlePipe (args impl : List String) : Option (String × String) :=
  match args with
  | pr :: _async :: _cap :: _nt :: nr :: rest => do
    let procs ← nat? pr
    let n ← nat? nr
    let (rs, _) ← parseRecs 1 n rest
    let caseRecs := rs.map (·.1)
    match impl with
    | k :: irest =>
      match nat? k with
      | some nops =>
        match parseOps nops irest with
        | some (ops, []) =>
          let c : Cfg := ⟨procs, false⟩
          let m := unwords [toString nops, replay c caseRecs (init c) 0 ops []]
          pure (m, SpecC10.firstBad (pipeVerdicts caseRecs [] [] [] ops))
        | _ => pure ("bad-impl", "bad-impl")
      | none => pure ("no-model-for-failed-run", if k.startsWith "panic" then "fail:panic" else "bad-impl")
    | [] => pure ("bad-impl", "bad-impl")
  | _ => none

/-! ### c10.start -/

/-- model of the started plugin: source id per record, then marks after each commit -/
def startModel (topics : List Int) (recs : List Rec) (order : List Nat) : Option String := do
  let sids ← recs.mapM (startedSourceID topics)
  let packed := sids.zip (recs.map packOffset)
  let rec go : Marks → List Nat → Option (List Marks)
    | _, [] => some []
    | m, i :: is => do
      let (sid, off) ← packed[i]?
      let m' ← commitStarted topics m sid off
      let rest ← go m' is
      pure (m' :: rest)
  let ms ← go [] order
  pure (unwords ([toString recs.length] ++ packed.flatMap (fun x => [toString x.1.toNat, toString x.2.toInt])
      ++ [toString ms.length] ++ ms.map encMarks))

/-- skip `2 * n` tokens (the source id / offset pairs `In` received) -/
def handleStart (args impl : List String) : Option (String × String) := do
  let (topics, r0) ← listOf int? args
  match r0 with
  | nr :: rest =>
    let n ← nat? nr
    let (rs, r1) ← parseRecs 0 n rest
    let recs := rs.map (·.1)
    let (order, r2) ← listOf nat? r1
    if r2 ≠ [] then none
    if order.any (· ≥ recs.length) then none
    let m := (startModel topics recs order).getD "panic:bounds"
    -- the oracle: records named by topic NAME; the index range does not matter here
    let allIn := recs.all (fun r => SpecC10.inRange 0 r.part r.offset r.epoch && topics.contains r.topic)
                 && decide (topics.length < 2 ^ 48)
    let p := match impl with
      | k :: irest =>
        if k.startsWith "panic" then (if allIn then "fail:panic" else "ok") else
        if nat? k ≠ some recs.length then "bad-impl" else
        match irest.drop (2 * recs.length) with
        | kc :: mrest =>
          if nat? kc ≠ some order.length then "bad-impl" else
          if allIn then SpecC10.firstBad (marksVerdicts recs [] order mrest) else "ok"
        | [] => "bad-impl"
      | [] => "bad-impl"
    pure (m, p)
  | [] => none

/-! ### c10.stop -/

/-- model of start … finish … Stop: source id per record, no lowered commit, and the broker ends up
    holding exactly the marks (`CommitMarkedOffsets` commits every marked head) -/
def stopModel (topics : List Int) (recs : List Rec) (finish : List Nat) : Option String := do
  let sids ← recs.mapM (startedSourceID topics)
  let packed := sids.zip (recs.map packOffset)
  let rec go : Marks → List Nat → Option Marks
    | m, [] => some m
    | m, i :: is => do
      let (sid, off) ← packed[i]?
      let m' ← commitStarted topics m sid off
      go m' is
  let m ← go [] finish
  pure (unwords ([toString recs.length] ++ packed.flatMap (fun x => [toString x.1.toNat, toString x.2.toInt])
      ++ ["0", encMarks m]))

def handleStop (args impl : List String) : Option (String × String) := do
  let (topics, r0) ← listOf int? args
  match r0 with
  | nr :: rest =>
    let n ← nat? nr
    let (rs, r1) ← parseRecs 0 n rest
    let recs := rs.map (·.1)
    let (finish, r2) ← listOf nat? r1
    if r2 ≠ [] then none
    if finish.any (· ≥ recs.length) then none
    let m := (stopModel topics recs finish).getD "panic:bounds"
    let allIn := recs.all (fun r => SpecC10.inRange 0 r.part r.offset r.epoch && topics.contains r.topic)
                 && decide (topics.length < 2 ^ 48)
    -- the oracle: what the broker holds after Stop, against consumed = all records, finished = the list
    let p := match impl with
      | k :: irest =>
        if k.startsWith "panic" then (if allIn then "fail:panic" else "ok") else
        if nat? k ≠ some recs.length then "bad-impl" else
        match irest.drop (2 * recs.length) with
        | regress :: mrest =>
          match parseMarkList mrest with
          | some (obs, []) =>
            if !allIn then "ok" else
            if regress ≠ "0" then "fail:regress" else SpecC10.verdict recs finish (List.range recs.length) obs
          | _ => "bad-impl"
        | [] => "bad-impl"
      | [] => "bad-impl"
    pure (m, p)
  | [] => none

/-! ### c10.live -/

def insertIn (x : Nat × Int × Bool) : List (Nat × Int × Bool) → List (Nat × Int × Bool)
  | [] => [x]
  | y :: ys => if x.1 < y.1 ∨ (x.1 = y.1 ∧ x.2.1 ≤ y.2.1) then x :: y :: ys else y :: insertIn x ys

/-- model of the live run, replaying the observed acknowledgement order `acked` (a finish-listed
    record may stay queued inside the pipeline, so which records were acknowledged is part of the
    observed trace; it must be a duplicate-free list of finish-listed ordinary records).
    A record of kind ≠ 0 (tombstone, malformed JSON) is refused by `In`: no event, no
    acknowledgement, **no mark** — it is finished (dropped at the input), and the marks of its
    partition are those of the acknowledged ordinary records only. -/
def liveModel (topics : List Int) (recs : List (Rec × Nat)) (finish acked : List Nat) : Option String := do
  let sids ← recs.mapM (fun x => startedSourceID topics x.1)
  let packed := sids.zip (recs.map fun x => packOffset x.1)
  let rec go : Marks → List Nat → List Nat → Option Marks
    | m, _, [] => some m
    | m, seen, i :: is => do
      if seen.contains i ∨ !(finish.contains i) then none
      let (sid, off) ← packed[i]?
      let m' ← commitStarted topics m sid off
      go m' (i :: seen) is
  let ins := (packed.zip (recs.map fun x => x.2 == 0)).map fun x => (x.1.1.toNat, x.1.2.toInt, x.2)
  let sorted := ins.foldr insertIn []
  let pre := [toString recs.length] ++ sorted.flatMap (fun x => [toString x.1, toString x.2.1, ofBool x.2.2])
  match go [] [] acked with
  | some m => pure (unwords (pre ++ [toString acked.length] ++ acked.map toString ++ [encMarks m, "0", encMarks m]))
  | none => pure (unwords (pre ++ ["reject-acked"]))

def handleLive (args impl : List String) : Option (String × String) :=
  match args with
  | _procs :: args' => do
    let (topics, r0) ← listOf int? args'
    match r0 with
    | nr :: rest =>
      let n ← nat? nr
      let (rs, r1) ← parseRecs 1 n rest
      let recsK ← rs.mapM fun x => do
        let k ← nat? (← x.2.head?)
        pure (x.1, k)
      let recs := recsK.map (·.1)
      let (finish, r2) ← listOf nat? r1
      if r2 ≠ [] then none
      if finish.any (fun i => match recsK[i]? with | some (_, 0) => false | _ => true) then none
      let allIn := recs.all (fun r => SpecC10.inRange 0 r.part r.offset r.epoch && topics.contains r.topic)
                   && decide (topics.length < 2 ^ 48)
      -- finished = acknowledged ordinary records + the records refused at the input
      let refused := (List.range recsK.length).filter fun i =>
        match recsK[i]? with | some (_, 0) => false | _ => true
      match impl with
      | k :: irest =>
        if k.startsWith "panic" then pure ("no-model-for-failed-run", if allIn then "fail:panic" else "ok") else
        if nat? k ≠ some recs.length then pure ("bad-impl", "bad-impl") else
        match listOf nat? (irest.drop (3 * recs.length)) with
        | some (acked, r3) =>
          let m := (liveModel topics recsK finish acked).getD "panic:bounds"
          let fin := acked ++ refused
          let p := match parseMarkList r3 with
            | some (before, regress :: mrest) =>
              match parseMarkList mrest with
              | some (after, []) =>
                if !allIn then "ok" else
                if regress ≠ "0" then "fail:regress" else
                SpecC10.firstBad [SpecC10.verdict recs fin (List.range recs.length) before,
                                  SpecC10.verdict recs fin (List.range recs.length) after]
              | _ => "bad-impl"
            | _ => "bad-impl"
          pure (m, p)
        | none => pure ("bad-impl", "bad-impl")
      | [] => pure ("bad-impl", "bad-impl")
    | [] => none
  | [] => none

def handle (cmd : String) (args impl : List String) : Option (String × String) :=
  match cmd with
  | "c10.pack" => handlePack args impl
  | "c10.marks" => handleMarks args impl
  | "c10.pipe" => handlePipe args impl
  | "c10.start" => handleStart args impl
  | "c10.stop" => handleStop args impl
  | "c10.live" => handleLive args impl
  | _ => none

end FileD.DrvC10
