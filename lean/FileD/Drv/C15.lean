/- Driver glue for C15: case lines `c15.<sub> <args…> | <impl…>` (stub until the property is built) -/
import FileD.Prelude.Tok
namespace FileD.DrvC15

def handle (_cmd : String) (_args _impl : List String) : Option (String × String) := none

end FileD.DrvC15
