/-
  Driver glue for C15. Case lines (tokens; trees in JTree prefix form, bytes hex):

    c15.join <negate> <max> <startRe> <contRe> <npath> <key>… <n> item…
        item = T <tag> | E <tag> <startOK> <contOK> <tree>
    c15.jt <max> <ntpl> (<name> <negate>)… <npath> <key>… <n> item…
        item = T <tag> | E <tag> <starts: ntpl bits> <conts: ntpl bits> <tree>
    result (both) = call… <end>
        call = R <res> <nprop> (<tag> <tree>)… (N | E <tag> <tree>)
        end  = ok | panic:<kind>

    c15.k8s <split> <max> <cutOff> <cutField|-> <n> item…
        item = T <tag> | E <tag> <size> <A|N|S> <frag> <raw JSON text of the value|->
    result = (R <res> (N 0 | L <escaped log> <cut>) <exceeded>)… (ok | panic:<kind> | fatal)

    c15.pipe <nprocs> <negate> <max> <startRe> <contRe> <chain> <nstreams> (<src> <name> <n> item…)…
        chain = string over {v, j}: scripted verdict actions around the real join
        item = P | E <id> <startOK> <contOK> <tree>
    result = <ncalls> call… <nstreams> (<nout> <tree>…)… (ok | stuck)
        call = <instance> (T <tag> | E <id>) R <res> <nprop> (<tag> <tree>)… (N | E <tag> <tree>)
    (a real pipeline run: calls of all join instances in one global order, then what arrived at
     the output per stream; tag = index of the stream in the case)

    c15.ascii <helper>            | 256 answers of the real ascii helper for bytes 0..255
    c15.tpl <value>               | start / continue of go_panic, cs_exception, go_data_race (6 bits)

  The regular expressions (`c15.join`) and template names (`c15.jt`) are for the harness only:
  the model sees the oracle bits the harness computed with them.
-/
import FileD.Prelude.Tok
import FileD.Model.Join
import FileD.Spec.C15
import FileD.Model.K8sMultiline
import FileD.Spec.C15K8s
import FileD.Model.JoinTemplates
import FileD.Spec.C15Templates
namespace FileD.DrvC15
open FileD Tok FileD.Join

abbrev P (α : Type) := List String → Option (α × List String)

def pNat : P Nat | t :: r => (nat? t).map (·, r) | [] => none
def pBool : P Bool | t :: r => (bool? t).map (·, r) | [] => none
def pBytes : P Bytes | t :: r => (bytes? t).map (·, r) | [] => none
def pTree : P JTree := JTree.parse?

def pMany {α} (p : P α) : Nat → P (List α)
  | 0, ts => some ([], ts)
  | n+1, ts => do
    let (x, r) ← p ts
    let (xs, r') ← pMany p n r
    pure (x :: xs, r')

def pCounted {α} (p : P α) : P (List α) := fun ts => do
  let (n, r) ← pNat ts
  pMany p n r

def pItem : P In
  | "T" :: r => do
    let (t, r) ← pNat r
    pure (.timeout t, r)
  | "E" :: r => do
    let (t, r) ← pNat r
    let (s, r) ← pBool r
    let (c, r) ← pBool r
    let (tr, r) ← pTree r
    pure (.ev ⟨t, tr, s, c⟩, r)
  | _ => none

def pTItem (ntpl : Nat) : P TIn
  | "T" :: r => do
    let (t, r) ← pNat r
    pure (.timeout t, r)
  | "E" :: r => do
    let (t, r) ← pNat r
    let (ss, r) ← pMany pBool ntpl r
    let (cs, r) ← pMany pBool ntpl r
    let (tr, r) ← pTree r
    pure (.ev ⟨t, tr, ss, cs⟩, r)
  | _ => none

def pOEv : P OEv := fun ts => do
  let (t, r) ← pNat ts
  let (tr, r) ← pTree r
  pure (⟨t, tr⟩, r)

def pRes : P Res
  | "pass" :: r => some (.pass, r)
  | "collapse" :: r => some (.collapse, r)
  | "discard" :: r => some (.discard, r)
  | "hold" :: r => some (.hold, r)
  | "break" :: r => some (.brk, r)
  | _ => none

def pOut : P Out
  | "R" :: r => do
    let (res, r) ← pRes r
    let (ps, r) ← pCounted pOEv r
    match r with
    | "N" :: r => pure (⟨res, ps, none⟩, r)
    | "E" :: r => do
      let (o, r) ← pOEv r
      pure (⟨res, ps, some o⟩, r)
    | _ => none
  | _ => none

/-- the implementation's calls up to the end marker; `panicked` = the marker is not `ok` -/
def pImpl : Nat → List String → Option (List Out × Bool)
  | _, ["ok"] => some ([], false)
  | _, [t] => if t.startsWith "panic:" || t == "changed" then some ([], true) else none
  | 0, _ => none
  | fuel+1, ts => do
    let (o, r) ← pOut ts
    let (os, p) ← pImpl fuel r
    pure (o :: os, p)

def encOEv (o : OEv) : String := unwords [toString o.tag, o.root.enc]

def encOut (o : Out) : String :=
  unwords (["R", o.res.tok, toString o.prop.length] ++ o.prop.map encOEv ++
    [match o.self with | none => "N" | some s => "E " ++ encOEv s])

def encTrace (outs : List Out) (fin : GoM α) : String :=
  unwords (outs.map encOut ++ [match fin with | .ok _ => "ok" | .error p => panicTok p])

/-! ### k8s -/

def pKItem : P K8s.In
  | "T" :: r => do
    let (t, r) ← pNat r
    pure (.timeout t, r)
  | "E" :: r => do
    let (t, r) ← pNat r
    let (sz, r) ← pNat r
    match r with
    | kind :: r => do
      let (frag, r) ← pBytes r
      match r with
      | _raw :: r =>
        match kind with
        | "A" => pure (.ev ⟨t, sz, .absent⟩, r)
        | "N" => pure (.ev ⟨t, sz, .nonString⟩, r)
        | "S" => pure (.ev ⟨t, sz, .str frag⟩, r)
        | _ => none
      | [] => none
    | [] => none
  | _ => none

def pKOut : P K8s.Out
  | "R" :: r => do
    let (res, r) ← pRes r
    match r with
    | "N" :: _ :: r => do
      let (ex, r) ← pBool r
      pure (⟨res, none, false, ex⟩, r)
    | "L" :: r => do
      let (l, r) ← pBytes r
      let (cut, r) ← pBool r
      let (ex, r) ← pBool r
      pure (⟨res, some l, cut, ex⟩, r)
    | _ => none
  | _ => none

/-- calls up to the end marker; `ended` = the marker is not `ok` (panic or process exit) -/
def pKImpl : Nat → List String → Option (List K8s.Out × Bool)
  | _, ["ok"] => some ([], false)
  | _, [t] => if t.startsWith "panic:" || t == "fatal" || t == "changed" then some ([], true) else none
  | 0, _ => none
  | fuel+1, ts => do
    let (o, r) ← pKOut ts
    let (os, p) ← pKImpl fuel r
    pure (o :: os, p)

def encKOut (o : K8s.Out) : String :=
  unwords (["R", o.res.tok] ++
    (match o.log with
     | none => ["N", "0"]
     | some l => ["L", Hex.enc l, ofBool o.cut]) ++ [ofBool o.exceeded])

/-! ### real-pipeline traces -/

/-- the events of the case: id ↦ event (tag = stream index) -/
def pPipeItem (tag : Nat) : P (Option (Nat × Ev))
  | "P" :: r => some (none, r)
  | "E" :: r => do
    let (id, r) ← pNat r
    let (s, r) ← pBool r
    let (c, r) ← pBool r
    let (tr, r) ← pTree r
    pure (some (id, ⟨tag, tr, s, c⟩), r)
  | _ => none

def pPipeStreams : Nat → Nat → P (List (List (Nat × Ev)))
  | 0, _, ts => some ([], ts)
  | n+1, tag, ts => do
    let (_, r) ← pNat ts
    let (_, r) ← pBytes r
    let (items, r) ← pCounted (pPipeItem tag) r
    let (rest, r) ← pPipeStreams n (tag + 1) r
    pure (items.filterMap id :: rest, r)

structure PCall where
  inst : Nat
  inp  : In
  id   : Option Nat
  out  : Out

def lookupEv (evs : List (Nat × Ev)) (id : Nat) : Option Ev :=
  (evs.find? (·.1 == id)).map (·.2)

def pPCall (evs : List (Nat × Ev)) : P PCall := fun ts => do
  let (inst, r) ← pNat ts
  match r with
  | "T" :: r => do
    let (t, r) ← pNat r
    let (o, r) ← pOut r
    pure (⟨inst, .timeout t, none, o⟩, r)
  | "E" :: r => do
    let (id, r) ← pNat r
    let e ← lookupEv evs id
    let (o, r) ← pOut r
    pure (⟨inst, .ev e, some id, o⟩, r)
  | _ => none

def pTrees : P (List JTree) := pCounted pTree

def encIn (c : PCall) : String :=
  match c.inp, c.id with
  | .timeout t, _ => s!"T {t}"
  | .ev _, some id => s!"E {id}"
  | .ev _, none => "E ?"

/-- replay the calls in their global order, one join state per instance -/
def replay (cfg : Cfg) : List (Nat × St) → List PCall → List String × Bool
  | _, [] => ([], true)
  | sts, c :: r =>
    let st := ((sts.find? (·.1 == c.inst)).map (·.2)).getD St.init
    match step cfg st c.inp with
    | .error p => ([toString c.inst, encIn c, panicTok p], false)
    | .ok (st', o) =>
      let (rest, ok) := replay cfg ((c.inst, st') :: sts.filter (·.1 != c.inst)) r
      (toString c.inst :: encIn c :: encOut o :: rest, ok)

def treesEq : List JTree → List JTree → Bool
  | [], [] => true
  | a :: as, b :: bs => a.toToks == b.toToks && treesEq as bs
  | _, _ => false

def instances (calls : List PCall) : List Nat := (calls.map (·.inst)).eraseDups

def streamIds (calls : List PCall) (tag : Nat) : List Nat :=
  calls.filterMap (fun c => if SpecC15.tagOf c.inp == tag then c.id else none)

/-- STABILITY AFTER HAND-OVER. The spec says which value an output event carries; an output
    encodes the event whenever it likes (a batching output: in its worker, after later runs were
    processed by the same plugin instance), so that value is a property of the event for as long
    as the output holds it. The harness therefore reads every handed-over event a second time at
    the end of the case and ends the result with `changed` when the two readings differ. -/
def changed (impl : List String) : Bool := impl.getLast? == some "changed"

def handle (cmd : String) (args impl : List String) : Option (String × String) :=
  match cmd with
  | "c15.join" => do
    let (neg, r) ← pBool args
    let (max, r) ← pNat r
    let (_, r) ← pBytes r
    let (_, r) ← pBytes r
    let (path, r) ← pCounted pBytes r
    let (items, r) ← pCounted pItem r
    if r ≠ [] then none
    let cfg : Cfg := ⟨path, max, neg⟩
    let t := run cfg St.init items
    let m := encTrace t.outs t.fin
    let p := match pImpl (impl.length + 1) impl with
      | some (outs, panicked) =>
        if changed impl then "fail:changed"
        else if SpecC15.holds cfg items outs panicked then "ok" else "fail"
      | none => "bad-impl"
    pure (m, p)
  | "c15.jt" => do
    let (max, r) ← pNat args
    let (ntpl, r) ← pNat r
    let (tplsN, r) ← pMany (fun ts => do
        let (name, r) ← pBytes ts
        let (n, r) ← pBool r
        pure ((name, n), r)) ntpl r
    let tpls := tplsN.map (·.2)
    let (path, r) ← pCounted pBytes r
    let (items, r) ← pCounted (pTItem ntpl) r
    if r ≠ [] then none
    let tcfg : TCfg := ⟨path, max, tpls⟩
    let t := trun tcfg TSt.init items
    let m := encTrace t.outs t.fin
    -- the classifier bits of the case were computed by the REAL template functions; the oracle
    -- recomputes them with the modelled template functions (Model/JoinTemplates.lean):
    --   fail:classifier the real plugin's output is not the run-grouping spec under the modelled
    --                   classifier and the real classifier bits differ from the modelled ones
    --                   (e.g. it split a run the modelled classifier says is one maximal run)
    --   fail            same bits, output still not the spec
    -- a differing bit that does not change this sequence's output is left to c15.tpl / c15.ascii
    let models := tplsN.map (fun (name, _) => JoinTemplates.template? name)
    let known := models.all (·.isSome) && (models.zip tpls).all (fun (mt, neg) =>
      match mt with
      | some tp => tp.negate == neg
      | none => false)
    let rebit : TIn → TIn
      | .timeout t => .timeout t
      | .ev e =>
        match JTree.dig e.root path with
        | none => .ev e
        | some node =>
          let v := asString node
          .ev { e with starts := models.map (fun mt => match mt with | some tp => tp.start v | none => false),
                       conts := models.map (fun mt => match mt with | some tp => tp.cont v | none => false) }
    let mitems := items.map rebit
    let sameBits := (items.zip mitems).all (fun (a, b) =>
      match a, b with
      | .ev x, .ev y => x.starts == y.starts && x.conts == y.conts
      | _, _ => true)
    let p := match pImpl (impl.length + 1) impl with
      | some (outs, panicked) =>
        if changed impl then "fail:changed"
        else if !known then "fail:classifier"
        else if !SpecC15.holds tcfg.join (SpecC15.resolve tcfg (-1) mitems) outs panicked then
          (if sameBits then "fail" else "fail:classifier")
        else "ok"
      | none => "bad-impl"
    pure (m, p)
  | "c15.ascii" =>
    -- correspondence only: the modelled literal class against the real helper, all 256 bytes
    match args with
    | [name] => do
      let model ← JoinTemplates.helperTable name
      pure (unwords (model.map toString), "ok")
    | _ => none
  | "c15.tpl" => do
    -- correspondence only: the modelled template functions against the real ones
    let (v, r) ← pBytes args
    if r ≠ [] then none
    let bits := [JoinTemplates.goPanicStartCheck v, JoinTemplates.goPanicContinueCheck v,
                 JoinTemplates.sharpStartCheck v, JoinTemplates.sharpContinueCheck v,
                 JoinTemplates.goDataRaceStartCheck v, JoinTemplates.goDataRaceFinishCheck v]
    pure (unwords (bits.map ofBool), "ok")
  | "c15.k8s" => do
    let (split, r) ← pNat args
    let (max, r) ← pNat r
    let (cutOff, r) ← pBool r
    let (field, r) ← pBytes r
    let (items, r) ← pCounted pKItem r
    if r ≠ [] then none
    let cfg : K8s.Cfg := ⟨(split : Nat), max, cutOff, !field.isEmpty⟩
    let t := K8s.run cfg K8s.St.init items
    let m := unwords (t.outs.map encKOut ++ [match t.fin with | .ok _ => "ok" | .error p => panicTok p])
    let p := match pKImpl (impl.length + 1) impl with
      | some (outs, ended) =>
        if changed impl then "fail:changed"
        else if !SpecC15K8s.holds cfg items outs ended then "fail"
        else if max == 0 && SpecC15K8s.contentOut outs ++ (SpecC15K8s.finalLine cfg SpecC15K8s.Line.empty items).content
            != SpecC15K8s.contentIn items then "loss"
        else "ok"
      | none => "bad-impl"
    pure (m, p)
  | "c15.pipe" => do
    let (_, r) ← pNat args
    let (neg, r) ← pBool r
    let (max, r) ← pNat r
    let (_, r) ← pBytes r
    let (_, r) ← pBytes r
    let (chain, r) ← (match r with | c :: r => some (c.toList, r) | [] => none)
    let (ns, r) ← pNat r
    let (streams, r) ← pPipeStreams ns 0 r
    if r ≠ [] then none
    let cfg : Cfg := ⟨[str "log"], max, neg⟩
    let evs := streams.flatten
    -- the chain: scripted verdict actions `v` around the real join `j`; position k discards an
    -- event iff character k of its "v" field is 'D'
    let jpos := (chain.findIdx? (fun c => c == 'j' || c == 'J')).getD 0
    -- `J`: the join has the match condition k = "y". An IDLE join is skipped by an event that
    -- fails it (the event goes on unchanged, no run starts); a BUSY join gets every event of its
    -- stream and classifies it by its patterns alone (processor.doActions)
    let cond := chain.contains 'J'
    let condOK (root : JTree) : Bool := !cond || (match JTree.dig root [str "k"] with
      | some n => n.isStr && asString n == str "y"
      | none => false)
    let verdict (root : JTree) : Bytes := match JTree.dig root [str "v"] with
      | some n => asString n
      | none => []
    let passes (root : JTree) (lo hi : Nat) : Bool :=
      (List.range chain.length).all (fun k =>
        !(lo ≤ k && k < hi && chain[k]? == some 'v' && (verdict root)[k]? == some 68))
    let upPass (root : JTree) := passes root 0 jpos
    let downPass (root : JTree) := passes root (jpos + 1) chain.length
    let (calls, r) ← pCounted (pPCall evs) impl
    let (nso, r) ← pNat r
    let (outs, r) ← pMany pTrees nso r
    -- `stuck`: the run did not come to rest in time (e.g. a run was never closed)
    let fin ← match r with
      | ["ok"] => some "ok"
      | ["stuck"] => some "stuck"
      | ["panic"] => some "panic"
      | ["changed"] => some "changed"
      | _ => none
    -- model: every instance replayed through Join.step; outputs per stream from the spec
    let (toks, ok) := replay cfg [] calls
    let tags := List.range ns
    let perStream := tags.map (fun t => calls.filterMap (fun c => if SpecC15.tagOf c.inp == t then some c.inp else none))
    -- what must arrive at the output per stream, VALUE and ORDER: the run-grouping spec of the
    -- calls the join saw for that stream (time-outs where they were observed), minus the events
    -- a later verdict action discards (a joined event carries the verdict of its start line)
    -- per stream: the events no earlier action discards, in read order, with the observed
    -- time-outs put after the event they followed; an event that fails the condition while no
    -- run is open is neutralised (neither start nor continuation: it passes, nothing else happens)
    let tmoAfter (t : Nat) : List (Option Nat) :=
      ((calls.filter (fun c => SpecC15.tagOf c.inp == t)).foldl (fun (acc : Option Nat × List (Option Nat)) c =>
        match c.id with
        | some id => (some id, acc.2)
        | none => (acc.1, acc.2 ++ [acc.1])) (none, [])).2
    let simulate (t : Nat) (evs : List (Nat × Ev)) : List In × List Nat :=
      let tmos := tmoAfter t
      let lead := (tmos.filter (·.isNone)).map (fun _ => In.timeout t)
      let r := (evs.filter (fun e => upPass e.2.root)).foldl
        (fun (acc : List In × List Nat × Bool) (e : Nat × Ev) =>
          let (items, seen, busy) := acc
          let vis := condOK e.2.root || busy
          let item : In := if vis then .ev e.2 else .ev { e.2 with startOK := false, contOK := cfg.negate }
          let busy1 := SpecC15.busyAfter cfg busy item
          let ts := (tmos.filter (· == some e.1)).map (fun _ => In.timeout t)
          (items ++ [item] ++ ts, if vis then seen ++ [e.1] else seen, if ts.isEmpty then busy1 else false))
        (lead, [], false)
      (r.1, r.2.1)
    let sims := (tags.zip streams).map (fun (t, evs) => simulate t evs)
    -- what must arrive at the output per stream, VALUE and ORDER: the run-grouping spec of that
    -- sequence minus the events a later verdict action discards (a joined event carries the
    -- verdict of its start line)
    let specOuts := sims.map (fun sim => ((SpecC15.spec cfg sim.1).map (·.root)).filter downPass)
    let m := if ok then
        unwords ([toString calls.length] ++ toks ++ [toString ns] ++
          specOuts.map (fun o => unwords (toString o.length :: o.map JTree.enc)) ++ [fin])
      else unwords ([toString calls.length] ++ toks)
    -- property oracle on the observed trace
    let views := (instances calls).map (fun i => (calls.filter (·.inst == i)).map (·.inp))
    let hyps := views.all (fun v => SpecC15.coherent cfg none v && SpecC15.timely cfg false v)
    -- the join sees, per stream and in read order, exactly the events no earlier action discards
    -- and that satisfy its condition or arrive while it is busy
    let order := (tags.zip sims).all (fun (t, sim) => streamIds calls t == sim.2)
    let outsOK := nso == ns && (outs.zip specOuts).all (fun (a, b) => treesEq a b)
    let p := if fin == "panic" then "fail:panic"
             else if fin == "changed" then "fail:changed"
             else if !outsOK then "fail:output"
             else if !hyps then "fail:hypothesis" else if !order then "fail:order"
             else if fin != "ok" then "fail:stuck"
             else "ok"
    pure (m, p)
  | _ => none

end FileD.DrvC15
