/-
  Driver glue for C15. Case lines (tokens; trees in JTree prefix form, bytes hex):

    c15.join <negate> <max> <startRe> <contRe> <npath> <key>… <n> item…
        item = T <tag> | E <tag> <startOK> <contOK> <tree>
    c15.jt <max> <ntpl> (<name> <negate>)… <npath> <key>… <n> item…
        item = T <tag> | E <tag> <starts: ntpl bits> <conts: ntpl bits> <tree>
    result (both) = call… <end>
        call = R <res> <nprop> (<tag> <tree>)… (N | E <tag> <tree>)
        end  = ok | panic:<kind>

    c15.k8s <split> <max> <cutOff> <cutField|-> <n> item…
        item = T <tag> | E <tag> <size> <A|N|S> <frag> <raw JSON text of the value|->
    result = (R <res> (N 0 | L <escaped log> <cut>) <exceeded>)… (ok | panic:<kind> | fatal)

  The regular expressions (`c15.join`) and template names (`c15.jt`) are for the harness only:
  the model sees the oracle bits the harness computed with them.
-/
import FileD.Prelude.Tok
import FileD.Model.Join
import FileD.Spec.C15
import FileD.Model.K8sMultiline
import FileD.Spec.C15K8s
namespace FileD.DrvC15
open FileD Tok FileD.Join

abbrev P (α : Type) := List String → Option (α × List String)

def pNat : P Nat | t :: r => (nat? t).map (·, r) | [] => none
def pBool : P Bool | t :: r => (bool? t).map (·, r) | [] => none
def pBytes : P Bytes | t :: r => (bytes? t).map (·, r) | [] => none
def pTree : P JTree := JTree.parse?

def pMany {α} (p : P α) : Nat → P (List α)
  | 0, ts => some ([], ts)
  | n+1, ts => do
    let (x, r) ← p ts
    let (xs, r') ← pMany p n r
    pure (x :: xs, r')

def pCounted {α} (p : P α) : P (List α) := fun ts => do
  let (n, r) ← pNat ts
  pMany p n r

def pItem : P In
  | "T" :: r => do
    let (t, r) ← pNat r
    pure (.timeout t, r)
  | "E" :: r => do
    let (t, r) ← pNat r
    let (s, r) ← pBool r
    let (c, r) ← pBool r
    let (tr, r) ← pTree r
    pure (.ev ⟨t, tr, s, c⟩, r)
  | _ => none

def pTItem (ntpl : Nat) : P TIn
  | "T" :: r => do
    let (t, r) ← pNat r
    pure (.timeout t, r)
  | "E" :: r => do
    let (t, r) ← pNat r
    let (ss, r) ← pMany pBool ntpl r
    let (cs, r) ← pMany pBool ntpl r
    let (tr, r) ← pTree r
    pure (.ev ⟨t, tr, ss, cs⟩, r)
  | _ => none

def pOEv : P OEv := fun ts => do
  let (t, r) ← pNat ts
  let (tr, r) ← pTree r
  pure (⟨t, tr⟩, r)

def pRes : P Res
  | "pass" :: r => some (.pass, r)
  | "collapse" :: r => some (.collapse, r)
  | "discard" :: r => some (.discard, r)
  | "hold" :: r => some (.hold, r)
  | "break" :: r => some (.brk, r)
  | _ => none

def pOut : P Out
  | "R" :: r => do
    let (res, r) ← pRes r
    let (ps, r) ← pCounted pOEv r
    match r with
    | "N" :: r => pure (⟨res, ps, none⟩, r)
    | "E" :: r => do
      let (o, r) ← pOEv r
      pure (⟨res, ps, some o⟩, r)
    | _ => none
  | _ => none

/-- the implementation's calls up to the end marker; `panicked` = the marker is not `ok` -/
def pImpl : Nat → List String → Option (List Out × Bool)
  | _, ["ok"] => some ([], false)
  | _, [t] => if t.startsWith "panic:" then some ([], true) else none
  | 0, _ => none
  | fuel+1, ts => do
    let (o, r) ← pOut ts
    let (os, p) ← pImpl fuel r
    pure (o :: os, p)

def encOEv (o : OEv) : String := unwords [toString o.tag, o.root.enc]

def encOut (o : Out) : String :=
  unwords (["R", o.res.tok, toString o.prop.length] ++ o.prop.map encOEv ++
    [match o.self with | none => "N" | some s => "E " ++ encOEv s])

def encTrace (outs : List Out) (fin : GoM α) : String :=
  unwords (outs.map encOut ++ [match fin with | .ok _ => "ok" | .error p => panicTok p])

/-! ### k8s -/

def pKItem : P K8s.In
  | "T" :: r => do
    let (t, r) ← pNat r
    pure (.timeout t, r)
  | "E" :: r => do
    let (t, r) ← pNat r
    let (sz, r) ← pNat r
    match r with
    | kind :: r => do
      let (frag, r) ← pBytes r
      match r with
      | _raw :: r =>
        match kind with
        | "A" => pure (.ev ⟨t, sz, .absent⟩, r)
        | "N" => pure (.ev ⟨t, sz, .nonString⟩, r)
        | "S" => pure (.ev ⟨t, sz, .str frag⟩, r)
        | _ => none
      | [] => none
    | [] => none
  | _ => none

def pKOut : P K8s.Out
  | "R" :: r => do
    let (res, r) ← pRes r
    match r with
    | "N" :: _ :: r => do
      let (ex, r) ← pBool r
      pure (⟨res, none, false, ex⟩, r)
    | "L" :: r => do
      let (l, r) ← pBytes r
      let (cut, r) ← pBool r
      let (ex, r) ← pBool r
      pure (⟨res, some l, cut, ex⟩, r)
    | _ => none
  | _ => none

/-- calls up to the end marker; `ended` = the marker is not `ok` (panic or process exit) -/
def pKImpl : Nat → List String → Option (List K8s.Out × Bool)
  | _, ["ok"] => some ([], false)
  | _, [t] => if t.startsWith "panic:" || t == "fatal" then some ([], true) else none
  | 0, _ => none
  | fuel+1, ts => do
    let (o, r) ← pKOut ts
    let (os, p) ← pKImpl fuel r
    pure (o :: os, p)

def encKOut (o : K8s.Out) : String :=
  unwords (["R", o.res.tok] ++
    (match o.log with
     | none => ["N", "0"]
     | some l => ["L", Hex.enc l, ofBool o.cut]) ++ [ofBool o.exceeded])

def handle (cmd : String) (args impl : List String) : Option (String × String) :=
  match cmd with
  | "c15.join" => do
    let (neg, r) ← pBool args
    let (max, r) ← pNat r
    let (_, r) ← pBytes r
    let (_, r) ← pBytes r
    let (path, r) ← pCounted pBytes r
    let (items, r) ← pCounted pItem r
    if r ≠ [] then none
    let cfg : Cfg := ⟨path, max, neg⟩
    let t := run cfg St.init items
    let m := encTrace t.outs t.fin
    let p := match pImpl (impl.length + 1) impl with
      | some (outs, panicked) => if SpecC15.holds cfg items outs panicked then "ok" else "fail"
      | none => "bad-impl"
    pure (m, p)
  | "c15.jt" => do
    let (max, r) ← pNat args
    let (ntpl, r) ← pNat r
    let (tpls, r) ← pMany (fun ts => do
        let (_, r) ← pBytes ts
        let (n, r) ← pBool r
        pure (n, r)) ntpl r
    let (path, r) ← pCounted pBytes r
    let (items, r) ← pCounted (pTItem ntpl) r
    if r ≠ [] then none
    let tcfg : TCfg := ⟨path, max, tpls⟩
    let t := trun tcfg TSt.init items
    let m := encTrace t.outs t.fin
    let p := match pImpl (impl.length + 1) impl with
      | some (outs, panicked) =>
        if SpecC15.holds tcfg.join (SpecC15.resolve tcfg (-1) items) outs panicked then "ok" else "fail"
      | none => "bad-impl"
    pure (m, p)
  | "c15.k8s" => do
    let (split, r) ← pNat args
    let (max, r) ← pNat r
    let (cutOff, r) ← pBool r
    let (field, r) ← pBytes r
    let (items, r) ← pCounted pKItem r
    if r ≠ [] then none
    let cfg : K8s.Cfg := ⟨(split : Nat), max, cutOff, !field.isEmpty⟩
    let t := K8s.run cfg K8s.St.init items
    let m := unwords (t.outs.map encKOut ++ [match t.fin with | .ok _ => "ok" | .error p => panicTok p])
    let p := match pKImpl (impl.length + 1) impl with
      | some (outs, ended) =>
        if !SpecC15K8s.holds cfg items outs ended then "fail"
        else if max == 0 && SpecC15K8s.contentOut outs ++ (SpecC15K8s.finalLine cfg SpecC15K8s.Line.empty items).content
            != SpecC15K8s.contentIn items then "loss"
        else "ok"
      | none => "bad-impl"
    pure (m, p)
  | _ => none

end FileD.DrvC15
