/- Driver glue for C14: case lines `c14.<sub> <args…> | <impl…>` (stub until the property is built) -/
import FileD.Prelude.Tok
namespace FileD.DrvC14

def handle (_cmd : String) (_args _impl : List String) : Option (String × String) := none

end FileD.DrvC14
