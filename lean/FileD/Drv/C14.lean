/-
  Driver glue for C14. Case lines (byte strings hex, `-` empty, `~` a nil value):

    c14.doif <now> <oracle> <tree> E <event> | <0|1|err>
    c14.why.doif …same…                      | <0|1>      → M = which recorded shapes explain impl
    c14.match <mode> <invert> R <n> (<pat> <data> <0|1>)… <nconds> <cond>… E <event> | <0|1>

    <oracle> = L <n> (<in> <out>)…  R <n> (<pat> <data> <0|1>)…  X <n> <invalid pat>…
               C <n> (<data> <chars> <0|1>)…  T <n> (<fmt> <val> <0|1> <ns>)…  I <n> (<text> <int>)…
    <tree>   = f <eq|co|ca|pr|su|re> <cs> <sel> <npath> <p>… <nvals> <v>…
             | l <b|a|i> <sel> <npath> <p>… <lt|le|gt|ge|eq|ne> <int>
             | t <sel> <npath> <p>… <fmt> <cmp> <n|c> <const> <shift> <interval>
             | y <sel> <npath> <p>… <nvals> <v>…
             | and <n> <tree>… | or <n> <tree>… | not <n> <tree>…
    <cond>   = <sel> <npath> <p>… (r <pat> | s <val> | v <n> <val>…)
  `<sel>` is the configured field selector (used by the harness only; it checks that
  cfg.ParseFieldSelector(sel) = the path).
-/
import FileD.Prelude.Tok
import FileD.Prelude.JTree
import FileD.Model.DoIf
import FileD.Model.DoIfSt
import FileD.Model.MatchFields
import FileD.Spec.C14
namespace FileD.DrvC14
open FileD Tok FileD.DoIf FileD.MatchFields FileD.SpecC14

abbrev P (α : Type) := List String → Option (α × List String)

def tok : P String
  | [] => none
  | t :: ts => some (t, ts)

def pBytes : P Bytes := fun ts => do
  let (t, r) ← tok ts
  let b ← bytes? t
  pure (b, r)

def pNat : P Nat := fun ts => do
  let (t, r) ← tok ts
  let n ← nat? t
  pure (n, r)

def pInt : P Int := fun ts => do
  let (t, r) ← tok ts
  let n ← int? t
  pure (n, r)

def pBool : P Bool := fun ts => do
  let (t, r) ← tok ts
  let b ← bool? t
  pure (b, r)

def expect (s : String) : P Unit := fun ts => do
  let (t, r) ← tok ts
  if t = s then pure ((), r) else none

/-- n repetitions -/
def rep {α} (p : P α) : Nat → P (List α)
  | 0, ts => some ([], ts)
  | n+1, ts => do
    let (x, r) ← p ts
    let (xs, r') ← rep p n r
    pure (x :: xs, r')

def counted {α} (p : P α) : P (List α) := fun ts => do
  let (n, r) ← pNat ts
  rep p n r

def pOptBytes : P (Option Bytes) := fun ts => do
  let (t, r) ← tok ts
  if t = "~" then pure (none, r) else do
    let b ← bytes? t
    pure (some b, r)

/-! oracle tables -/

structure Tables where
  lower : List (Bytes × Bytes)
  re    : List (Bytes × Bytes × Bool)
  bad   : List Bytes
  cany  : List (Bytes × Bytes × Bool)
  time  : List (Bytes × Bytes × Option Int)
  ints  : List (Bytes × Int)

def pPair : P (Bytes × Bytes) := fun ts => do
  let (a, r) ← pBytes ts
  let (b, r) ← pBytes r
  pure ((a, b), r)

def pTriple : P (Bytes × Bytes × Bool) := fun ts => do
  let (a, r) ← pBytes ts
  let (b, r) ← pBytes r
  let (c, r) ← pBool r
  pure ((a, b, c), r)

def pTime : P (Bytes × Bytes × Option Int) := fun ts => do
  let (a, r) ← pBytes ts
  let (b, r) ← pBytes r
  let (ok, r) ← pBool r
  let (n, r) ← pInt r
  pure ((a, b, if ok then some n else none), r)

def pIntEntry : P (Bytes × Int) := fun ts => do
  let (a, r) ← pBytes ts
  let (n, r) ← pInt r
  pure ((a, n), r)

def pReTable : P (List (Bytes × Bytes × Bool)) := fun ts => do
  let (_, r) ← expect "R" ts
  counted pTriple r

def pTables : P Tables := fun ts => do
  let (_, r) ← expect "L" ts
  let (lo, r) ← counted pPair r
  let (re, r) ← pReTable r
  let (_, r) ← expect "X" r
  let (bad, r) ← counted pBytes r
  let (_, r) ← expect "C" r
  let (ca, r) ← counted pTriple r
  let (_, r) ← expect "T" r
  let (tm, r) ← counted pTime r
  let (_, r) ← expect "I" r
  let (it, r) ← counted pIntEntry r
  pure (⟨lo, re, bad, ca, tm, it⟩, r)

def find1 {β} (k : Bytes) : List (Bytes × β) → Option β
  | [] => none
  | (a, b) :: l => if a = k then some b else find1 k l

def find2 {β} (k1 k2 : Bytes) : List (Bytes × Bytes × β) → Option β
  | [] => none
  | (a, b, c) :: l => if a = k1 ∧ b = k2 then some c else find2 k1 k2 l

def reOf (tbl : List (Bytes × Bytes × Bool)) : Bytes → Bytes → Bool :=
  fun p d => match find2 p d tbl with | some b => b | none => false

/-- the oracle functions: table look-up; the harness guarantees that every query the code makes
    on this case is in the table (it recomputes the tables and rejects the case otherwise) -/
def Tables.oracle (t : Tables) : Oracle where
  lower b := match find1 b t.lower with | some r => r | none => b
  reMatch := reOf t.re
  reValid p := !t.bad.contains p
  containsAny d c := match find2 d c t.cany with | some b => b | none => false
  parseTime f v := match find2 f v t.time with | some r => r | none => none
  asInt x := match find1 x t.ints with | some n => n | none => 0

/-! rule tree -/

def pFOp : P FOp := fun ts => do
  let (t, r) ← tok ts
  match t with
  | "eq" => pure (.equal, r)
  | "co" => pure (.contains, r)
  | "ca" => pure (.containsAny, r)
  | "pr" => pure (.prefix, r)
  | "su" => pure (.suffix, r)
  | "re" => pure (.regex, r)
  | _ => none

def pCmp : P CmpOp := fun ts => do
  let (t, r) ← tok ts
  match t with
  | "lt" => pure (.lt, r)
  | "le" => pure (.le, r)
  | "gt" => pure (.gt, r)
  | "ge" => pure (.ge, r)
  | "eq" => pure (.eq, r)
  | "ne" => pure (.ne, r)
  | _ => none

/-- `<sel> <npath> <p>…` → path -/
def pPath : P (List Bytes) := fun ts => do
  let (_, r) ← pBytes ts
  counted pBytes r

def pTree : Nat → P Node
  | 0, _ => none
  | fuel+1, ts => do
    let (t, r) ← tok ts
    match t with
    | "f" =>
      let (op, r) ← pFOp r
      let (cs, r) ← pBool r
      let (path, r) ← pPath r
      let (vals, r) ← counted pOptBytes r
      pure (.field ⟨op, path, cs, vals⟩, r)
    | "l" =>
      let (k, r) ← tok r
      let kind ← (match k with | "b" => some LenKind.byte | "a" => some .array | "i" => some .int | _ => none)
      let (path, r) ← pPath r
      let (cmp, r) ← pCmp r
      let (v, r) ← pInt r
      pure (.lenCmp ⟨kind, path, cmp, v⟩, r)
    | "t" =>
      let (path, r) ← pPath r
      let (fmt, r) ← pBytes r
      let (cmp, r) ← pCmp r
      let (m, r) ← tok r
      let mode ← (match m with | "n" => some TsMode.now | "c" => some .const | _ => none)
      let (c, r) ← pInt r
      let (sh, r) ← pInt r
      let (iv, r) ← pInt r
      pure (.tsCmp ⟨path, fmt, cmp, mode, c, sh, iv⟩, r)
    | "y" =>
      let (path, r) ← pPath r
      let (vals, r) ← counted pBytes r
      pure (.checkType ⟨path, vals⟩, r)
    | "and" =>
      let (ops, r) ← counted (pTree fuel) r
      pure (.and ops, r)
    | "or" =>
      let (ops, r) ← counted (pTree fuel) r
      pure (.or ops, r)
    | "not" =>
      let (ops, r) ← counted (pTree fuel) r
      pure (.not ops, r)
    | _ => none

def pEvent : P JTree := fun ts => do
  let (_, r) ← expect "E" ts
  JTree.parse? r

structure DoIfCase where
  now : Int
  o   : Oracle
  n   : Node
  ev  : JTree

def pDoIf (args : List String) : Option DoIfCase := do
  let (now, r) ← pInt args
  let (tb, r) ← pTables r
  let (n, r) ← pTree (r.length + 1) r
  let (ev, r) ← pEvent r
  if r ≠ [] then none
  pure ⟨now, tb.oracle, n, ev⟩

def encRes (valid res : Bool) : String := if !valid then "err" else ofBool res

def relaxations : List (String × Relax) :=
  [("lower", ⟨true, false, false⟩), ("container", ⟨false, true, false⟩), ("escapes", ⟨false, false, true⟩),
   ("lower+container", ⟨true, true, false⟩), ("lower+escapes", ⟨true, false, true⟩),
   ("container+escapes", ⟨false, true, true⟩), ("lower+container+escapes", ⟨true, true, true⟩)]

def explain (c : DoIfCase) (res : Bool) : String :=
  if spec c.o c.now c.ev c.n == res then "spec" else
  match relaxations.find? (fun (_, r) => admitted r c.o c.now c.ev c.n res) with
  | some (name, _) => name
  | none => "unexplained"

def handleDoIf (args impl : List String) : Option (String × String) := do
  let c ← pDoIf args
  let v := valid c.o c.n
  let m := encRes v (checkSt c.o c.now c.ev c.n []).1
  let want := encRes v (spec c.o c.now c.ev c.n)
  let p := match impl with
    | [r] => if r = want then "ok" else if r = "0" ∨ r = "1" ∨ r = "err" then "fail" else "bad-impl"
    | _ => "bad-impl"
  pure (m, p)

def handleWhy (args impl : List String) : Option (String × String) := do
  let c ← pDoIf args
  match impl with
  | ["0"] => pure (explain c false, "ok")
  | ["1"] => pure (explain c true, "ok")
  | _ => pure ("unexplained", "ok")

/-! match_fields -/

def pMode : P Mode := fun ts => do
  let (t, r) ← tok ts
  match t with
  | "and" => pure (.and, r)
  | "default" => pure (.and, r)
  | "or" => pure (.or, r)
  | "and_prefix" => pure (.andPrefix, r)
  | "or_prefix" => pure (.orPrefix, r)
  | _ => none

def pCond : P Cond := fun ts => do
  let (path, r) ← pPath ts
  let (k, r) ← tok r
  match k with
  | "r" => let (p, r) ← pBytes r; pure (⟨path, [], some p⟩, r)
  | "s" => let (v, r) ← pBytes r; pure (⟨path, [v], none⟩, r)
  | "v" => let (vs, r) ← counted pBytes r; pure (⟨path, vs, none⟩, r)
  | _ => none

def handleMatch (args impl : List String) : Option (String × String) := do
  let (mode, r) ← pMode args
  let (inv, r) ← pBool r
  let (tbl, r) ← pReTable r
  let (conds, r) ← counted pCond r
  let (ev, r) ← pEvent r
  if r ≠ [] then none
  let re := reOf tbl
  let m := ofBool (isMatch re mode conds inv ev)
  let want := ofBool (specMatch re mode conds inv ev)
  let p := match impl with
    | [x] => if x = want then "ok" else if x = "0" ∨ x = "1" then "fail" else "bad-impl"
    | _ => "bad-impl"
  pure (m, p)

def handle (cmd : String) (args impl : List String) : Option (String × String) :=
  if cmd = "c14.doif" then handleDoIf args impl
  else if cmd = "c14.why.doif" then handleWhy args impl
  else if cmd = "c14.match" then handleMatch args impl
  else none

end FileD.DrvC14
