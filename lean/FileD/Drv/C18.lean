/-
  Driver glue for C18. Case lines (byte strings hex, trees in JTree prefix form):

    c18.parse  <sel>                      | <n> <seg>…                      cfg.ParseFieldSelector
    c18.rt     <n> <field>…               | <sel> <n> <seg>…                Parse(BuildFieldSelector(fields))
    c18.remove <n> <sel>… <tree>          | cfgerr
    c18.keep   <n> <sel>… <tree>          | ok <n> <perm>… <np> (<len> <seg>…)… <tree>
                                          | panic:<kind>
  `perm` is the permutation `sort.Slice` applied inside ParseNestedFields (oracle parameter: the harness
  re-runs sort.Slice with the same comparator on the same path lengths); the paths after it are the real
  `cfg.ParseNestedFields` result, the tree is the event after `Do` (as encoded by insane-json).

  The M column is the model result in the same form. When the verdict is not `ok` a last token
  `#<kind>` (order | arridx | other) is appended to M: the known-finding signatures in checks/p_C18.py
  read the kind from there (the check passes the M column, not the P column, to a signature).
-/
import FileD.Prelude.Tok
import FileD.Model.Fields
import FileD.Spec.C18
namespace FileD.DrvC18
open FileD Tok FileD.Fields FileD.SpecC18

def encSegs (p : List Bytes) : List String := toString p.length :: p.map Hex.enc

def encPaths (ps : List Path) : List String := toString ps.length :: ps.flatMap encSegs

def parseSegs (ts : List String) : Option (List Bytes × List String) := listOf bytes? ts

def isPerm (perm : List Nat) (n : Nat) : Bool :=
  perm.length == n && (List.range n).all (fun i => perm.contains i)

def applyPerm (perm : List Nat) (raw : List Path) : Option (List Path) :=
  perm.mapM (fun i => raw[i]?)

/-- identity-ish default when the implementation result carries no permutation: stable sort -/
def defaultSorted (raw : List Path) : List Path := sortLen raw

structure ImplRes where
  perm : List Nat
  tree : JTree

/-- `ok <n> <perm>… <np> (<len> <seg>…)… <tree>` -/
def parseImpl (impl : List String) : Option ImplRes :=
  match impl with
  | "ok" :: r => do
    let (perm, r1) ← listOf nat? r
    match r1 with
    | np :: r2 =>
      let n ← nat? np
      let rec skipPaths : Nat → List String → Option (List String)
        | 0, ts => some ts
        | k+1, ts => do
          let (_, r') ← parseSegs ts
          skipPaths k r'
      let r3 ← skipPaths n r2
      let (t, r4) ← JTree.parse? r3
      if r4 ≠ [] then none
      pure ⟨perm, t⟩
    | [] => none
  | _ => none

def withKind (m : String) (verdict : String) : String × String :=
  if verdict = "ok" then (m, "ok") else (m ++ " #" ++ verdict, "fail")

def handleSel (isKeep : Bool) (args impl : List String) : Option (String × String) := do
  let (sels, r) ← listOf bytes? args
  let (t, r') ← JTree.parse? r
  if r' ≠ [] then none
  if !uniq t then none                -- the property (and the model of keep_fields) is about unique keys
  match parsePaths sels with
  | .error _ =>
    -- Start would log.Fatal; nothing runs. Property: nothing to check.
    pure ("cfgerr", if impl = ["cfgerr"] then "ok" else "fail")
  | .ok raw =>
    let ir := parseImpl impl
    let sorted : Option (List Path × List Nat) :=
      match ir with
      | some x =>
        if isPerm x.perm raw.length then
          match applyPerm x.perm raw with
          | some s => if sortedLen s then some (s, x.perm) else none
          | none => none
        else none
      | none => some (defaultSorted raw, [])
    match sorted with
    | none => pure ("bad-sort-oracle", "fail")
    | some (s, perm) =>
      let norm := dedupe s
      let head := ["ok"] ++ (toString perm.length :: perm.map toString) ++ encPaths norm
      if isKeep then
        match keepFields norm t with
        | .error e => pure (withKind (panicTok e) (if ir.isSome then "other" else "other"))
        | .ok mt =>
          let m := unwords (head ++ mt.toToks)
          match ir with
          | some x => pure (withKind m (verdictKeep raw t x.tree))
          | none => pure (withKind m "other")
      else
        let mt := removeFields norm t
        let m := unwords (head ++ mt.toToks)
        match ir with
        | some x => pure (withKind m (verdictRemove raw norm t x.tree))
        | none => pure (withKind m "other")

def handle (cmd : String) (args impl : List String) : Option (String × String) :=
  match cmd with
  | "c18.parse" =>
    match args with
    | [s] => do
      let sel ← bytes? s
      -- correspondence only: the selector grammar has no independent spec
      pure (unwords (encSegs (parseFieldSelector sel)), "ok")
    | _ => none
  | "c18.rt" => do
    let (fields, r) ← listOf bytes? args
    if r ≠ [] then none
    let sel := buildFieldSelector fields
    let m := unwords (Hex.enc sel :: encSegs (parseFieldSelector sel))
    -- property: a selector built from field names parses back to exactly these names
    let p :=
      if validNames fields then
        match impl with
        | _ :: segs =>
          match parseSegs segs with
          | some (got, []) => if got == fields then "ok" else "fail"
          | _ => "fail"
        | [] => "fail"
      else "ok"
    pure (m, p)
  | "c18.remove" => handleSel false args impl
  | "c18.keep" => handleSel true args impl
  | _ => none

end FileD.DrvC18
