/- Driver glue for C18: case lines `c18.<sub> <args…> | <impl…>` (stub until the property is built) -/
import FileD.Prelude.Tok
namespace FileD.DrvC18

def handle (_cmd : String) (_args _impl : List String) : Option (String × String) := none

end FileD.DrvC18
