/-
  Driver glue for C06. Case line:
    c06.turns <max> <cut> <skip> <base> <bufsize> <nturns> (<nreads> <hex>…)… | <ncalls> (<off> <hex>)… <curOffset> <tailhex> <skip>
-/
import FileD.Prelude.Tok
import FileD.Model.Worker
import FileD.Spec.C06
import FileD.Model.WorkerPipe
namespace FileD.DrvC06
open FileD Tok

def parseTurns : Nat → List String → Option (List (List Bytes) × List String)
  | 0, ts => some ([], ts)
  | n+1, ts => do
    let (reads, r) ← listOf bytes? ts
    let (rest, r') ← parseTurns n r
    pure (reads :: rest, r')

def parseCalls : Nat → List String → Option (List (Nat × Bytes) × List String)
  | 0, ts => some ([], ts)
  | n+1, o :: d :: ts => do
    let off ← nat? o
    let data ← bytes? d
    let (rest, r) ← parseCalls n ts
    pure ((off, data) :: rest, r)
  | _, _ => none

def encCalls (cs : List (Nat × Bytes)) : String :=
  unwords (toString cs.length :: cs.flatMap (fun c => [toString c.1, Hex.enc c.2]))

/-- `c06.pipe`: same arguments as `c06.turns`; the real worker runs against the real Pipeline.In
    (decoder raw, same limit settings) and the result is what the pipeline's output received:
      <nevents> (<off> <messagehex>)… <curOffset> <tailhex> <skip> -/
def handlePipe (args impl : List String) : Option (String × String) :=
  match args with
  | mx :: cut :: sk :: bs :: _buf :: nt :: rest => do
    let max ← nat? mx
    let cutOff ← bool? cut
    let skip ← bool? sk
    let base ← nat? bs
    let n ← nat? nt
    let (ts, r) ← parseTurns n rest
    if r ≠ [] then none
    let cfg : Worker.Cfg := ⟨max, cutOff⟩
    let (job, out) := Worker.turns cfg ⟨base, [], skip⟩ ts
    let m := match WorkerPipe.deliver cfg out with
      | .error p => panicTok p
      | .ok evs => unwords [encCalls evs, toString job.curOffset, Hex.enc job.tail, ofBool job.skip]
    let p := match impl with
      | nc :: irest =>
        match nat? nc with
        | some k =>
          match parseCalls k irest with
          | some (evs, _) =>
            if SpecC06.pipeHolds cfg skip base (ts.flatten.flatten) evs then "ok" else "fail"
          | none => "bad-impl"
        | none => if nc.startsWith "panic" then "fail" else "bad-impl"
      | [] => "bad-impl"
    pure (m, p)
  | _ => none

def handle (cmd : String) (args impl : List String) : Option (String × String) :=
  if cmd = "c06.pipe" then handlePipe args impl else
  if cmd ≠ "c06.turns" then none else
  match args with
  | mx :: cut :: sk :: bs :: _buf :: nt :: rest => do
    let max ← nat? mx
    let cutOff ← bool? cut
    let skip ← bool? sk
    let base ← nat? bs
    let n ← nat? nt
    let (ts, r) ← parseTurns n rest
    if r ≠ [] then none
    let cfg : Worker.Cfg := ⟨max, cutOff⟩
    let (job, out) := Worker.turns cfg ⟨base, [], skip⟩ ts
    let m := unwords [encCalls out, toString job.curOffset, Hex.enc job.tail, ofBool job.skip]
    -- property oracle on the implementation's calls
    let p := match impl with
      | nc :: irest =>
        match nat? nc with
        | some k =>
          match parseCalls k irest with
          | some (calls, _) =>
            if SpecC06.holds cfg skip base (ts.flatten.flatten) calls then "ok" else "fail"
          | none => "bad-impl"
        | none => if nc.startsWith "panic" then "fail" else "bad-impl"
      | [] => "bad-impl"
    pure (m, p)
  | _ => none

end FileD.DrvC06
