/-
  Batch-pool conservation for Model/Batcher.lean (helper lemmas of Props/C08.lean):
  the `Workers` batches created by `NewBatcher` are, at every moment, either in `freeBatches`,
  the batch being filled, or sealed and not yet committed.  Hence `fullBatches` (capacity
  `Workers`) never holds more than `Workers` batches and the channel send done under `b.mu`
  by the repaired `trySendBatchAndUnlock` cannot block.
-/
import FileD.Model.Batcher
import FileD.Prelude.TS
namespace FileD.Batcher

def curCount (s : State) : Nat := if s.cur.isSome then 1 else 0

/-- free + being filled + sealed-uncommitted = Workers -/
def PoolInv (c : Cfg) (s : State) : Prop := s.free + curCount s + s.full.length = c.workers

theorem updBatch_length (k : Nat) (f : Batch → Batch) (l : List Batch) :
    (updBatch k f l).length = l.length := by
  induction l with
  | nil => rfl
  | cons b bs ih => simp only [updBatch]; split <;> simp [ih]

theorem getBatch_pool {s : State} {t0 : Nat} {b : Cur} {free : Nat}
    (h : getBatch s t0 = some (b, free)) : free + 1 = s.free + curCount s := by
  unfold getBatch at h
  unfold curCount
  cases hc : s.cur with
  | some b0 => simp [hc] at h; simp [h.2]
  | none =>
    simp only [hc] at h
    split at h
    · simp at h
    · simp at h; simp; omega

theorem init_pool (c : Cfg) : PoolInv c (init c) := by
  simp [PoolInv, init, curCount]

theorem step_pool (c : Cfg) (s s' : State) (op : Op) (hi : PoolInv c s)
    (hs : step? c s op = some s') : PoolInv c s' := by
  unfold PoolInv at *
  cases op with
  | add e t0 now =>
    simp only [step?] at hs
    split at hs; · simp at hs
    split at hs; · simp at hs; subst hs; exact hi
    split at hs; · simp at hs
    rename_i b free hg
    simp at hs; subst hs
    have := getBatch_pool hg
    simp [afterStatus, curCount] at *; omega
  | heartbeat t0 now =>
    simp only [step?] at hs
    split at hs; · simp at hs
    split at hs; · simp at hs; subst hs; exact hi
    split at hs; · simp at hs
    rename_i b free hg
    simp at hs; subst hs
    have := getBatch_pool hg
    simp [afterStatus, curCount] at *; omega
  | sealB =>
    simp only [step?] at hs
    split at hs; · simp at hs
    split at hs; · simp at hs
    rename_i b hc
    simp at hs; subst hs
    simp [curCount, hc] at *; omega
  | enqueue k =>
    simp only [step?] at hs
    split at hs; · simp at hs
    split at hs; · simp at hs
    split at hs
    · simp at hs; subst hs; simpa [curCount] using hi
    · simp at hs; subst hs; simpa [curCount, updBatch_length] using hi
  | sendStart k =>
    simp only [step?] at hs
    split at hs; · simp at hs
    split at hs
    · simp at hs; subst hs; simpa [curCount, updBatch_length] using hi
    · simp at hs
  | sendDone k keep =>
    simp only [step?] at hs
    split at hs; · simp at hs
    split at hs
    · simp at hs; subst hs; simpa [curCount, updBatch_length] using hi
    · simp at hs
  | commit k =>
    simp only [step?] at hs
    split at hs; · simp at hs
    rename_i b bs hf
    split at hs
    · simp at hs; subst hs; simp [curCount, hf] at *; omega
    · simp at hs
  | stop =>
    simp only [step?] at hs
    split at hs; · simp at hs
    simp at hs; subst hs; simpa [curCount] using hi

theorem reachable_pool (c : Cfg) (s : State) (hr : TS.Reachable (step? c) (init c) s) : PoolInv c s :=
  TS.invariant_reachable (step? c) (PoolInv c) (init c) (init_pool c)
    (fun s op s' => step_pool c s s' op) s hr

theorem flatMap_evs_le (m : Nat) (l : List Batch) (h : ∀ b ∈ l, b.evs.length ≤ m) :
    (l.flatMap (·.evs)).length ≤ l.length * m := by
  induction l with
  | nil => simp
  | cons b bs ih =>
    have h1 := h b (by simp)
    have h2 := ih (fun x hx => h x (by simp [hx]))
    simp only [List.flatMap_cons, List.length_append, List.length_cons, Nat.add_mul, Nat.one_mul]
    omega

end FileD.Batcher
