/- helper lemmas for C06 (worker model vs specLines) -/
import FileD.Model.Worker
import FileD.Spec.C06
namespace FileD.Worker
open FileD FileD.SpecC06

theorem specLines_cut {buf line rest} (h : cutLine buf = some (line, rest)) (off : Nat) (cur : Bytes) :
    specLines buf off cur = (off + line.length, cur ++ line) :: specLines rest (off + line.length) [] := by
  induction buf generalizing line rest off cur with
  | nil => simp [cutLine] at h
  | cons b bs ih =>
    simp only [cutLine] at h
    split at h
    · rename_i hb; simp at h; obtain ⟨rfl, rfl⟩ := h; simp [specLines, hb]
    · rename_i hb
      split at h
      · simp at h
      · rename_i l' r' h'
        simp at h; obtain ⟨rfl, rfl⟩ := h
        simp [specLines, hb, ih h', List.append_assoc, Nat.add_assoc, Nat.add_comm 1]

theorem specLines_nocut {buf} (h : cutLine buf = none) (off : Nat) (cur : Bytes) (more : Bytes) :
    specLines (buf ++ more) off cur = specLines more (off + buf.length) (cur ++ buf) := by
  induction buf generalizing off cur with
  | nil => simp
  | cons b bs ih =>
    simp only [cutLine] at h
    split at h
    · simp at h
    · rename_i hb
      split at h
      · rename_i h'
        simp [specLines, hb, ih h', List.append_assoc]; congr 1; omega
      · simp at h

theorem cut_append {buf line rest} (h : cutLine buf = some (line, rest)) (more : Bytes) :
    cutLine (buf ++ more) = some (line, rest ++ more) := by
  induction buf generalizing line rest with
  | nil => simp [cutLine] at h
  | cons b bs ih =>
    simp only [cutLine] at h
    split at h
    · rename_i hb; simp at h; obtain ⟨rfl, rfl⟩ := h; simp [cutLine, hb]
    · rename_i hb
      split at h
      · simp at h
      · rename_i l' r' h'
        simp at h; obtain ⟨rfl, rfl⟩ := h
        simp [cutLine, hb, ih h']

end FileD.Worker
