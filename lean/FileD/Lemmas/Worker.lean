/- helper lemmas for C06 (worker model vs specLines) -/
import FileD.Model.Worker
import FileD.Spec.C06
namespace FileD.Worker
open FileD FileD.SpecC06

theorem specLines_cut {buf line rest} (h : cutLine buf = some (line, rest)) (off : Nat) (cur : Bytes) :
    specLines buf off cur = (off + line.length, cur ++ line) :: specLines rest (off + line.length) [] := by
  induction buf generalizing line rest off cur with
  | nil => simp [cutLine] at h
  | cons b bs ih =>
    simp only [cutLine] at h
    split at h
    · rename_i hb; simp at h; obtain ⟨rfl, rfl⟩ := h; simp [specLines, hb]
    · rename_i hb
      split at h
      · simp at h
      · rename_i l' r' h'
        simp at h; obtain ⟨rfl, rfl⟩ := h
        simp [specLines, hb, ih h', List.append_assoc, Nat.add_assoc, Nat.add_comm 1]

theorem specLines_nocut {buf} (h : cutLine buf = none) (off : Nat) (cur : Bytes) (more : Bytes) :
    specLines (buf ++ more) off cur = specLines more (off + buf.length) (cur ++ buf) := by
  induction buf generalizing off cur with
  | nil => simp
  | cons b bs ih =>
    simp only [cutLine] at h
    split at h
    · simp at h
    · rename_i hb
      split at h
      · rename_i h'
        simp [specLines, hb, ih h', List.append_assoc]; congr 1; omega
      · simp at h

theorem cut_append {buf line rest} (h : cutLine buf = some (line, rest)) (more : Bytes) :
    cutLine (buf ++ more) = some (line, rest ++ more) := by
  induction buf generalizing line rest with
  | nil => simp [cutLine] at h
  | cons b bs ih =>
    simp only [cutLine] at h
    split at h
    · rename_i hb; simp at h; obtain ⟨rfl, rfl⟩ := h; simp [cutLine, hb]
    · rename_i hb
      split at h
      · simp at h
      · rename_i l' r' h'
        simp at h; obtain ⟨rfl, rfl⟩ := h
        simp [cutLine, hb, ih h']

/-! ### algebra of the spec -/

theorem specLines_append (a b : Bytes) (off : Nat) (cur : Bytes) :
    specLines (a ++ b) off cur
      = specLines a off cur ++ specLines b (off + a.length) (specTail a cur) := by
  induction a generalizing off cur with
  | nil => simp [specLines, specTail]
  | cons x xs ih =>
    by_cases hx : x = NL
    · simp [specLines, specTail, hx, ih, Nat.add_assoc, Nat.add_comm 1]
    · simp [specLines, specTail, hx, ih, Nat.add_assoc, Nat.add_comm 1]

theorem specTail_append (a b cur : Bytes) : specTail (a ++ b) cur = specTail b (specTail a cur) := by
  induction a generalizing cur with
  | nil => simp [specTail]
  | cons x xs ih => by_cases hx : x = NL <;> simp [specTail, hx, ih]

theorem specLines_length_le (a : Bytes) (off : Nat) (cur : Bytes) : (specLines a off cur).length ≤ a.length := by
  induction a generalizing off cur with
  | nil => simp [specLines]
  | cons x xs ih =>
    by_cases hx : x = NL
    · simp [specLines, hx]; exact ih _ _
    · simp [specLines, hx]; exact Nat.le_succ_of_le (ih _ _)

/-- shape of what `cutLine` returns: the line ends in its only newline and `buf = line ++ rest` -/
theorem cutLine_shape {buf line rest} (h : cutLine buf = some (line, rest)) :
    ∃ pre, line = pre ++ [NL] ∧ buf = line ++ rest ∧ NL ∉ pre := by
  induction buf generalizing line rest with
  | nil => simp [cutLine] at h
  | cons b bs ih =>
    simp only [cutLine] at h
    split at h
    · rename_i hb; simp at h; obtain ⟨rfl, rfl⟩ := h; exact ⟨[], by simp [hb]⟩
    · rename_i hb
      split at h
      · simp at h
      · rename_i l' r' h'
        simp at h; obtain ⟨rfl, rfl⟩ := h
        obtain ⟨pre, h1, h2, h3⟩ := ih h'
        refine ⟨b :: pre, by simp [h1], by simp [← h2], ?_⟩
        simp only [List.mem_cons, not_or]
        exact ⟨fun e => hb e.symm, h3⟩

theorem specLines_nocut_nil {buf} (h : cutLine buf = none) (off : Nat) (cur : Bytes) :
    specLines buf off cur = [] := by
  have := specLines_nocut h off cur []
  simpa [specLines] using this

theorem specTail_nocut {buf} (h : cutLine buf = none) (cur : Bytes) : specTail buf cur = cur ++ buf := by
  induction buf generalizing cur with
  | nil => simp [specTail]
  | cons b bs ih =>
    simp only [cutLine] at h
    split at h
    · simp at h
    · rename_i hb
      split at h
      · rename_i h'; simp [specTail, hb, ih h']
      · simp at h

theorem specTail_cut {buf line rest} (h : cutLine buf = some (line, rest)) (cur : Bytes) :
    specTail buf cur = specTail rest [] := by
  induction buf generalizing line rest cur with
  | nil => simp [cutLine] at h
  | cons b bs ih =>
    simp only [cutLine] at h
    split at h
    · rename_i hb; simp at h; obtain ⟨rfl, rfl⟩ := h; simp [specTail, hb]
    · rename_i hb
      split at h
      · simp at h
      · rename_i l' r' h'
        simp at h; obtain ⟨rfl, rfl⟩ := h
        simp [specTail, hb, ih h']

/-! ### the carry relation: what `accumBuf` knows about the current partial line `cur` -/

/-- `accum` (the model's `accumBuf`) versus the real partial line `cur` since the last newline.
    unlimited: equal. skip mode: equal, or both already over the limit (the worker stops
    accumulating). cut mode: same first `max` bytes, equal while it fits, at least `max` long
    once the line is over. -/
def Carry (cfg : Cfg) (accum cur : Bytes) : Prop :=
  if cfg.maxSize = 0 then accum = cur
  else if cfg.cutOff = true then
    accum.take cfg.maxSize = cur.take cfg.maxSize ∧ (cur.length ≤ cfg.maxSize → accum = cur) ∧
      (cfg.maxSize < cur.length → cfg.maxSize ≤ accum.length)
  else accum = cur ∨ (cfg.maxSize < accum.length ∧ cfg.maxSize < cur.length)

theorem Carry.refl (cfg : Cfg) (a : Bytes) : Carry cfg a a := by
  unfold Carry; split
  · rfl
  · split
    · exact ⟨rfl, fun _ => rfl, fun h => Nat.le_of_lt h⟩
    · exact Or.inl rfl

/-- the relation the oracle `holds` imposes between observed calls and spec lines -/
def Match (cfg : Cfg) (calls want : List (Nat × Bytes)) : Prop :=
  if cfg.maxSize = 0 then calls = want
  else if cfg.cutOff = true then allCut cfg.maxSize calls want = true
  else calls = want.filter (fits cfg.maxSize)

theorem allCut_append {max : Nat} {a b c d : List (Nat × Bytes)}
    (h1 : allCut max a b = true) (h2 : allCut max c d = true) : allCut max (a ++ c) (b ++ d) = true := by
  induction a generalizing b with
  | nil => cases b with
    | nil => simpa using h2
    | cons _ _ => simp [allCut] at h1
  | cons x xs ih => cases b with
    | nil => simp [allCut] at h1
    | cons y ys =>
      simp only [allCut, Bool.and_eq_true] at h1
      simp only [List.cons_append, allCut, Bool.and_eq_true]
      exact ⟨h1.1, ih h1.2⟩

theorem Match.nil (cfg : Cfg) : Match cfg [] [] := by
  unfold Match; split
  · rfl
  · split <;> simp [allCut]

theorem Match.append {cfg : Cfg} {a b c d : List (Nat × Bytes)}
    (h1 : Match cfg a b) (h2 : Match cfg c d) : Match cfg (a ++ c) (b ++ d) := by
  unfold Match at *
  split
  · rename_i h; simp only [h, ↓reduceIte] at h1 h2; rw [h1, h2]
  · rename_i h; simp only [h, ↓reduceIte] at h1 h2
    split
    · rename_i hc; simp only [hc, ↓reduceIte] at h1 h2; exact allCut_append h1 h2
    · rename_i hc; simp only [hc] at h1 h2; simp at h1 h2; rw [h1, h2, List.filter_append]

theorem filter_fits_single {max : Nat} (h : ¬ max = 0) (x : Nat × Bytes) :
    [x].filter (fits max) = if x.2.length ≤ max then [x] else [] := by
  have hm : (max == 0) = false := by simpa using h
  by_cases hx : x.2.length ≤ max <;> simp [List.filter, fits, hm, hx]

/-- one completed line: what the worker emits for it matches the spec line -/
theorem Match.line {cfg : Cfg} {accum cur pre : Bytes} (hc : Carry cfg accum cur) (off : Nat) :
    Match cfg (if over cfg accum.length (pre ++ [NL]).length = true then [] else [(off, accum ++ (pre ++ [NL]))])
      [(off, cur ++ (pre ++ [NL]))] := by
  unfold Match Carry at *
  split
  · rename_i h; simp only [h, ↓reduceIte] at hc; simp [over, h, hc]
  · rename_i h; simp only [h, ↓reduceIte] at hc
    split
    · rename_i hcut; simp only [hcut, ↓reduceIte] at hc
      obtain ⟨h1, h2, h3⟩ := hc
      simp only [over, hcut, Bool.not_true, Bool.and_false, Bool.false_and, Bool.false_eq_true, ↓reduceIte,
        allCut, cutOk, Bool.and_true, beq_self_eq_true, Bool.true_and]
      split
      · rename_i hl
        have : cur.length ≤ cfg.maxSize := by simp at hl; omega
        simp [h2 this]
      · rename_i hl
        simp only [List.length_append, List.length_cons, List.length_nil] at hl
        by_cases hcl : cur.length ≤ cfg.maxSize
        · rw [h2 hcl]; simp; omega
        · have hcl' : cfg.maxSize < cur.length := by omega
          have ha := h3 hcl'
          rw [List.take_append_of_le_length ha, List.take_append_of_le_length (Nat.le_of_lt hcl'), h1]
          simp [← List.append_assoc]; omega
    · rename_i hcut
      have hcut' : cfg.cutOff = false := by simpa using hcut
      simp only [hcut', Bool.false_eq_true, ↓reduceIte] at hc
      have hm : (cfg.maxSize != 0) = true := by simpa using h
      simp only [over, hm, hcut', Bool.not_false, Bool.and_true, Bool.true_and, decide_eq_true_eq]
      rw [filter_fits_single h]
      simp only [List.length_append, List.length_cons, List.length_nil] at *
      rcases hc with rfl | ⟨ha, hb⟩
      · by_cases hl : accum.length + (pre.length + (0 + 1)) > cfg.maxSize
        · rw [if_pos hl, if_neg (by omega)]
        · rw [if_neg hl, if_pos (by omega)]
      · rw [if_pos (by omega), if_neg (by omega)]

theorem Carry.afterRead {cfg : Cfg} {w : W} {c0 : Bytes} (hc : Carry cfg w.accum c0) (rem : Bytes) :
    Carry cfg (afterRead cfg w rem).accum (c0 ++ rem) := by
  unfold Carry Worker.afterRead at *
  split
  · rename_i h; simp only [h, ↓reduceIte] at hc; simp [h, hc]
  · rename_i h; simp only [h, ↓reduceIte] at hc
    have hm : (cfg.maxSize != 0) = true := by simpa using h
    split
    · rename_i hcut; simp only [hcut, ↓reduceIte] at hc
      obtain ⟨h1, h2, h3⟩ := hc
      simp only [hm, Bool.true_and, decide_eq_true_eq, hcut, Bool.not_true, Bool.false_eq_true, ↓reduceIte]
      split
      · rename_i hlen
        have hcl : cfg.maxSize < c0.length := by
          by_cases hh : c0.length ≤ cfg.maxSize
          · rw [h2 hh] at hlen; omega
          · omega
        refine ⟨?_, ?_, ?_⟩
        · rw [List.take_append_of_le_length (by simp; omega), List.take_take,
            List.take_append_of_le_length (Nat.le_of_lt hcl)]; simpa using h1
        · intro hh; simp at hh; omega
        · intro _; simp; omega
      · rename_i hlen
        by_cases hh : c0.length ≤ cfg.maxSize
        · rw [h2 hh]; exact ⟨rfl, fun _ => rfl, fun x => Nat.le_of_lt x⟩
        · have hcl : cfg.maxSize < c0.length := by omega
          have ha := h3 hcl
          refine ⟨?_, ?_, ?_⟩
          · rw [List.take_append_of_le_length ha, List.take_append_of_le_length (Nat.le_of_lt hcl)]; exact h1
          · intro hh2; simp at hh2; omega
          · intro _; simp; omega
    · rename_i hcut
      have hcut' : cfg.cutOff = false := by simpa using hcut
      simp only [hcut', Bool.false_eq_true, ↓reduceIte] at hc
      simp only [hm, Bool.true_and, decide_eq_true_eq, hcut', Bool.not_false, ↓reduceIte]
      split
      · rename_i hlen
        rcases hc with hc | ⟨ha, hb⟩
        · right; rw [← hc]; simp; omega
        · right; simp; omega
      · rename_i hlen
        rcases hc with hc | ⟨ha, hb⟩
        · left; simp [hc]
        · omega

theorem afterRead_fields (cfg : Cfg) (w : W) (rem : Bytes) :
    (afterRead cfg w rem).skip = w.skip ∧ (afterRead cfg w rem).scanned = w.scanned ∧
    (afterRead cfg w rem).out = w.out := by
  unfold Worker.afterRead; split
  · split <;> simp
  · simp

theorem isEmpty_app {α} (a b : List α) : (a ++ b).isEmpty = (a.isEmpty && b.isEmpty) := by
  cases a <;> simp

theorem dropFirst_append (s : Bool) (a b : List (Nat × Bytes)) :
    dropFirst s (a ++ b) = dropFirst s a ++ dropFirst (s && a.isEmpty) b := by
  cases s <;> cases a <;> simp [dropFirst]

/-! ### the invariant through `parseLoop`, `procRead`, `procReads`, `turn`, `turns` -/

/-- what one pass of the parsing loop over `buf` establishes, for every configuration:
    `cur` is the real partial line before `buf`, `Carry` ties it to `accumBuf`. -/
structure LoopPost (cfg : Cfg) (base : Nat) (buf : Bytes) (w : W) (cur : Bytes) (r : W × Bytes) : Prop where
  carry : ∃ c0, specTail buf cur = c0 ++ r.2 ∧ Carry cfg r.1.accum c0
  skip : r.1.skip = (w.skip && (specLines buf (base + w.scanned) cur).isEmpty)
  scanned : r.1.scanned = w.scanned + buf.length
  out : ∃ em, r.1.out = w.out ++ em ∧ Match cfg em (dropFirst w.skip (specLines buf (base + w.scanned) cur))

theorem parseLoop_post (cfg : Cfg) (base : Nat) (buf : Bytes) (w : W) (cur : Bytes)
    (hc : Carry cfg w.accum cur) : LoopPost cfg base buf w cur (parseLoop cfg base buf w) := by
  induction h : buf.length using Nat.strongRecOn generalizing buf w cur with
  | _ n ih =>
    unfold parseLoop
    split
    · rename_i hcut
      refine ⟨⟨cur, specTail_nocut hcut cur, hc⟩, ?_, rfl, ⟨[], by simp, ?_⟩⟩
      · simp [specLines_nocut_nil hcut]
      · rw [specLines_nocut_nil hcut]; cases w.skip <;> simpa [dropFirst] using Match.nil cfg
    · rename_i line rest hcut
      have hl := cutLine_length hcut
      obtain ⟨pre, hline, hbuf, _⟩ := cutLine_shape hcut
      have hlen : buf.length = line.length + rest.length := by rw [hbuf]; simp
      have hspec := specLines_cut hcut (base + w.scanned) cur
      have IH := ih rest.length (by omega) rest
        { accum := [], scanned := w.scanned + line.length, skip := false,
          out := if (w.skip || over cfg w.accum.length line.length) = true then w.out
                 else w.out ++ [(base + (w.scanned + line.length), w.accum ++ line)] }
        [] (Carry.refl cfg []) rfl
      obtain ⟨⟨c0, hc0, hc0'⟩, hskip, hscan, ⟨em, hem, hmatch⟩⟩ := IH
      refine ⟨⟨c0, by rw [specTail_cut hcut]; exact hc0, hc0'⟩, ?_, ?_, ?_⟩
      · rw [hskip, hspec]; simp
      · rw [hscan]; simp only; omega
      · simp only [dropFirst, Bool.false_eq_true, ↓reduceIte] at hmatch
        rw [hspec, hem]
        cases hs : w.skip
        · have hm1 := Match.line (pre := pre) hc (base + w.scanned + line.length)
          rw [← hline] at hm1
          have := Match.append hm1 hmatch
          refine ⟨_, ?_, by simpa [dropFirst, Nat.add_assoc] using this⟩
          by_cases ho : over cfg w.accum.length line.length = true
          · simp [ho]
          · simp [ho]
        · exact ⟨em, by simp, by simpa [dropFirst, Nat.add_assoc] using hmatch⟩

/-- the invariant carried from read to read (and from turn to turn) -/
structure ReadPost (cfg : Cfg) (base : Nat) (data : Bytes) (w : W) (cur : Bytes) (w' : W) : Prop where
  carry : Carry cfg w'.accum (specTail data cur)
  skip : w'.skip = (w.skip && (specLines data (base + w.scanned) cur).isEmpty)
  scanned : w'.scanned = w.scanned + data.length
  out : ∃ em, w'.out = w.out ++ em ∧ Match cfg em (dropFirst w.skip (specLines data (base + w.scanned) cur))

theorem procRead_post (cfg : Cfg) (base : Nat) (buf : Bytes) (w : W) (cur : Bytes)
    (hc : Carry cfg w.accum cur) : ReadPost cfg base buf w cur (procRead cfg base w buf) := by
  obtain ⟨⟨c0, h1, h2⟩, hs, hsc, ho⟩ := parseLoop_post cfg base buf w cur hc
  obtain ⟨f1, f2, f3⟩ := afterRead_fields cfg (parseLoop cfg base buf w).1 (parseLoop cfg base buf w).2
  unfold procRead
  exact ⟨by rw [h1]; exact Carry.afterRead h2 _, by rw [f1, hs], by rw [f2, hsc], by rw [f3]; exact ho⟩

theorem procReads_post (cfg : Cfg) (base : Nat) (cs : List Bytes) (w : W) (cur : Bytes)
    (hc : Carry cfg w.accum cur) : ReadPost cfg base cs.flatten w cur (procReads cfg base cs w) := by
  induction cs generalizing w cur with
  | nil =>
    refine ⟨by simpa [procReads, specTail] using hc, by simp [procReads, specLines], by simp [procReads],
      ⟨[], by simp [procReads], ?_⟩⟩
    cases w.skip <;> simpa [specLines, dropFirst] using Match.nil cfg
  | cons c cs ih =>
    obtain ⟨h1, h2, h3, ⟨em1, h4, h5⟩⟩ := procRead_post cfg base c w cur hc
    obtain ⟨g1, g2, g3, ⟨em2, g4, g5⟩⟩ := ih (procRead cfg base w c) (specTail c cur) h1
    simp only [procReads, List.flatten_cons]
    refine ⟨by rw [specTail_append]; exact g1, ?_, by rw [g3, h3]; simp; omega, ⟨em1 ++ em2, ?_, ?_⟩⟩
    · rw [g2, h2, h3, specLines_append, Nat.add_assoc]; simp [Bool.and_assoc, isEmpty_app]
    · rw [g4, h4, List.append_assoc]
    · rw [specLines_append, dropFirst_append]
      rw [h2, h3, ← Nat.add_assoc] at g5
      exact Match.append h5 g5

/-- one turn, every configuration: the job carried to the next turn and the calls made -/
structure TurnPost (cfg : Cfg) (job : Job) (data cur : Bytes) (r : Job × List (Nat × Bytes)) : Prop where
  offset : r.1.curOffset = job.curOffset + data.length
  carry : Carry cfg r.1.tail (specTail data cur)
  skip : r.1.skip = (job.skip && (specLines data job.curOffset cur).isEmpty)
  out : Match cfg r.2 (dropFirst job.skip (specLines data job.curOffset cur))

theorem turn_post (cfg : Cfg) (job : Job) (reads : List Bytes) (cur : Bytes)
    (hc : Carry cfg job.tail cur) : TurnPost cfg job reads.flatten cur (turn cfg job reads) := by
  obtain ⟨h1, h2, _, ⟨em, h4, h5⟩⟩ := procReads_post cfg job.curOffset reads ⟨job.tail, 0, job.skip, []⟩ cur hc
  simp only [Nat.add_zero, List.nil_append] at h2 h4 h5
  exact ⟨rfl, h1, h2, by simp only [turn]; rw [h4]; exact h5⟩

theorem turns_post (cfg : Cfg) (job : Job) (ts : List (List Bytes)) (cur : Bytes)
    (hc : Carry cfg job.tail cur) : TurnPost cfg job ts.flatten.flatten cur (turns cfg job ts) := by
  induction ts generalizing job cur with
  | nil =>
    refine ⟨by simp [turns], by simpa [turns, specTail] using hc, by simp [turns, specLines], ?_⟩
    cases job.skip <;> simpa [turns, specLines, dropFirst] using Match.nil cfg
  | cons t ts ih =>
    obtain ⟨h1, h2, h3, h4⟩ := turn_post cfg job t cur hc
    obtain ⟨g1, g2, g3, g4⟩ := ih (turn cfg job t).1 (specTail t.flatten cur) h2
    simp only [turns, List.flatten_cons, List.flatten_append]
    refine ⟨by rw [g1, h1]; simp; omega, by rw [specTail_append]; exact g2, ?_, ?_⟩
    · rw [g3, h3, h1, specLines_append]; simp [Bool.and_assoc, isEmpty_app]
    · rw [specLines_append, dropFirst_append]
      rw [h3, h1] at g4
      exact Match.append h4 g4

/-- the oracle of the check is the relation `Match` against the (first-line-dropped) spec -/
theorem holds_iff (cfg : Cfg) (skip : Bool) (base : Nat) (content : Bytes) (calls : List (Nat × Bytes)) :
    holds cfg skip base content calls = true ↔ Match cfg calls (dropFirst skip (specLines content base [])) := by
  unfold holds Match
  split
  · simp
  · split <;> simp

/-- `allCut` spelled out: same number of calls as spec lines, and call `i` is `cutOk` for line `i` -/
theorem allCut_iff {max : Nat} {a b : List (Nat × Bytes)} :
    allCut max a b = true ↔
      a.length = b.length ∧ ∀ (i : Nat) (h1 : i < a.length) (h2 : i < b.length), cutOk max a[i] b[i] = true := by
  induction a generalizing b with
  | nil => cases b <;> simp [allCut]
  | cons x xs ih => cases b with
    | nil => simp [allCut]
    | cons y ys =>
      simp only [allCut, Bool.and_eq_true, ih, List.length_cons, Nat.add_right_cancel_iff]
      constructor
      · rintro ⟨h0, hl, hi⟩
        refine ⟨hl, fun i h1 h2 => ?_⟩
        cases i with
        | zero => simpa using h0
        | succ j => simpa using hi j (by omega) (by omega)
      · rintro ⟨hl, hi⟩
        exact ⟨by simpa using hi 0 (by omega) (by omega), hl,
          fun i h1 h2 => by
            have := hi (i + 1) (by simp; omega) (by simp; omega)
            simpa only [List.getElem_cons_succ] using this⟩

theorem Carry.eq_of_fits {cfg : Cfg} {accum cur : Bytes} (hc : Carry cfg accum cur)
    (h : cfg.maxSize = 0 ∨ cur.length ≤ cfg.maxSize) : accum = cur := by
  unfold Carry at hc
  split at hc
  · exact hc
  · rename_i hm
    have hle : cur.length ≤ cfg.maxSize := by rcases h with h | h; exact absurd h hm; exact h
    split at hc
    · exact hc.2.1 hle
    · rcases hc with hc | ⟨_, hb⟩
      · exact hc
      · omega

/-- at a line boundary nothing is pending -/
theorem specTail_boundary {pre : Bytes} (h : pre = [] ∨ pre.getLast? = some NL) : specTail pre [] = [] := by
  rcases h with rfl | h
  · rfl
  · obtain ⟨init, rfl⟩ : ∃ init, pre = init ++ [NL] := by
      cases hp : pre.reverse with
      | nil => simp at hp; subst hp; simp at h
      | cons x xs =>
        have : pre = xs.reverse ++ [x] := by
          have := congrArg List.reverse hp; simpa using this
        subst this; simp at h; subst h; exact ⟨_, rfl⟩
    rw [specTail_append]; simp [specTail]

theorem cutOk_iff {max : Nat} {g w : Nat × Bytes} :
    cutOk max g w = true ↔
      g.1 = w.1 ∧ (w.2.length ≤ max → g.2 = w.2) ∧
      (max < w.2.length → max < g.2.length ∧ g.2.take max = w.2.take max ∧ g.2.getLast? = some NL) := by
  unfold cutOk
  by_cases h : w.2.length ≤ max
  · have : ¬ max < w.2.length := by omega
    simp [h, this]
  · have h' : max < w.2.length := by omega
    simp [h, h', and_assoc]

/-- every spec line ends in its newline -/
theorem specLines_getLast {c : Bytes} {off : Nat} {cur : Bytes} {x : Nat × Bytes}
    (h : x ∈ specLines c off cur) : x.2.getLast? = some NL := by
  induction c generalizing off cur with
  | nil => simp [specLines] at h
  | cons b bs ih =>
    by_cases hb : b = NL
    · simp only [specLines, hb, ↓reduceIte, List.mem_cons] at h
      rcases h with rfl | h
      · simp
      · exact ih h
    · simp only [specLines, hb, ↓reduceIte] at h; exact ih h

/-- after the pipeline's cut the event no longer depends on what the worker kept of the middle -/
theorem cutAtLimit_of_cutOk {max : Nat} {g w : Nat × Bytes} (h : cutOk max g w = true)
    (hw : w.2.getLast? = some NL) : cutAtLimit max g.2 = cutAtLimit max w.2 := by
  obtain ⟨_, h2, h3⟩ := cutOk_iff.mp h
  by_cases hl : w.2.length ≤ max
  · rw [h2 hl]
  · have hl' : max < w.2.length := by omega
    obtain ⟨a, b, c⟩ := h3 hl'
    simp [cutAtLimit, hl', a, b, c, hw]

end FileD.Worker
