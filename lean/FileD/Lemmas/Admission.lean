/-
  Helper lemmas for C20, admission part: `checkInputBytes` in closed form, and the model of
  `Pipeline.In` equals the declarative `SpecC20.admitRec`.
-/
import FileD.Model.Admission
import FileD.Spec.C20
namespace FileD.Admission
open FileD FileD.SpecC20

theorem idx0 (x : UInt8) (xs : Bytes) : GoSlice.idx? (x :: xs) 0 = .ok x := by
  simp [GoSlice.idx?]

theorem idxLast (b : Bytes) (h : b ≠ []) :
    ∃ l, GoSlice.idx? b ((b.length : Int) - 1) = .ok l ∧ b.getLast? = some l := by
  have hl : 0 < b.length := List.length_pos_iff.mpr h
  have hlt : b.length - 1 < b.length := by omega
  refine ⟨b[b.length - 1], ?_, ?_⟩
  · unfold GoSlice.idx?
    have : ¬ ((b.length : Int) - 1 < 0) := by omega
    have ht : ((b.length : Int) - 1).toNat = b.length - 1 := by omega
    simp [this, ht, List.getElem?_eq_getElem hlt]
  · rw [List.getLast?_eq_getElem?, List.getElem?_eq_getElem hlt]

theorem sliceTo_ok (b : Bytes) (m : Int) (h0 : 0 ≤ m) (h1 : m ≤ b.length) :
    GoSlice.sliceTo? b m = .ok (b.take m.toNat) := by
  simp [GoSlice.sliceTo?, GoSlice.slice?, h0, h1]

theorem endsNL_iff (b : Bytes) (l : UInt8) (h : b.getLast? = some l) : endsNL b = decide (l = NL) := by
  by_cases hl : l = NL <;> simp [endsNL, h, hl]

theorem not_empty_cons {x : UInt8} {xs : Bytes} (h : ¬ (x = NL ∧ ((x :: xs).length : Int) = 1)) :
    ¬ isEmptyRec (x :: xs) := by
  intro h'
  rcases h' with h' | h'
  · simp at h'
  · simp at h'; exact h ⟨h'.1, by simp [h'.2]⟩

/-- `checkInputBytes` in closed form (for a non-negative limit) -/
theorem checkInputBytes_spec (s : Settings) (b : Bytes) (hm : 0 ≤ s.maxEventSize) :
    checkInputBytes s b = .ok (
      if isEmptyRec b then (b, false, false)
      else if oversize s.maxEventSize b then
        (if s.cutOff = false then (b, false, false) else (specBytes s.maxEventSize b, true, true))
      else (b, false, true)) := by
  cases b with
  | nil => simp [checkInputBytes, isEmptyRec]
  | cons x xs =>
    have hne : (x :: xs) ≠ [] := by simp
    have hlen : ((x :: xs).length : Int) ≠ 0 := by simp; omega
    unfold checkInputBytes
    simp only [hlen, ↓reduceIte, idx0]
    by_cases hnl : x = NL ∧ ((x :: xs).length : Int) = 1
    · have hx : xs = [] := by
        have := hnl.2; simp at this; exact List.eq_nil_of_length_eq_zero (by omega)
      simp [hnl.1, hx, isEmptyRec]
    · have hemp : ¬ isEmptyRec (x :: xs) := not_empty_cons hnl
      rw [if_neg hnl, if_neg hemp]
      by_cases hov : oversize s.maxEventSize (x :: xs)
      · have hov' : s.maxEventSize ≠ 0 ∧ ((x :: xs).length : Int) > s.maxEventSize := hov
        rw [if_pos hov', if_pos hov]
        by_cases hc : s.cutOff = false
        · rw [if_pos hc, if_pos hc]
        · obtain ⟨l, hl1, hl2⟩ := idxLast (x :: xs) hne
          have hsl := sliceTo_ok (x :: xs) s.maxEventSize hm (by omega)
          rw [if_neg hc, if_neg hc, hl1, hsl]
          simp only [specBytes, if_pos hov, endsNL_iff _ _ hl2]
          by_cases hl : l = NL <;> simp [hl]
      · have hov' : ¬ (s.maxEventSize ≠ 0 ∧ ((x :: xs).length : Int) > s.maxEventSize) := hov
        rw [if_neg hov', if_neg hov]

theorem addMeta_nil (t : JTree) : addMeta t [] = t := by
  cases t <;> simp [addMeta]

theorem specBytes_of_not_oversize {m : Int} {b : Bytes} (h : ¬ oversize m b) : specBytes m b = b := by
  simp [specBytes, h]

theorem decodeEvent_spec (s : Settings) (decode : Bytes → Option JTree) (b : Bytes) (hb : b ≠ []) :
    decodeEvent s decode b = .ok (specDecode s decode b) := by
  unfold decodeEvent specDecode
  cases s.dec with
  | json => rfl
  | raw =>
    have hl : 0 < b.length := List.length_pos_iff.mpr hb
    have := sliceTo_ok b ((b.length : Int) - 1) (by omega) (by omega)
    have ht : ((b.length : Int) - 1).toNat = b.length - 1 := by omega
    simp [this, ht, rawEvent, List.dropLast_eq_take]

theorem specBytes_ne_nil {m : Int} {b : Bytes} (hb : ¬ isEmptyRec b) (hm : 0 ≤ m) :
    specBytes m b ≠ [] := by
  unfold specBytes
  split
  · rename_i hov
    intro h
    have h1 := List.append_eq_nil_iff.mp h
    have hov' : m ≠ 0 ∧ (b.length : Int) > m := hov
    have hz := List.take_eq_nil_iff.mp h1.1
    rcases hz with hz | hz
    · omega
    · exact hb (Or.inl hz)
  · intro h; exact hb (Or.inl h)

/-- the part of `admitRec` after the size checks, for decoder input `b` -/
def restOutcome (s : Settings) (decode : Bytes → Option JTree) (st : Antispam.State) (r : Rec)
    (b : Bytes) (cutoff : Bool) : Outcome :=
  if committed s r then .refused .committed
  else if decide (s.as.threshold ≥ 0) && (Antispam.isSpam s.as st (spamEv s r b)).1 then .refused .spam
  else
    match specDecode s decode b with
    | none => .refused .undecodable
    | some t =>
      if r.pass = false then .refused .notPassed
      else .delivered (addMark s cutoff (addMeta t r.md))

def restState (s : Settings) (st : Antispam.State) (r : Rec) (b : Bytes) : Antispam.State :=
  if s.as.threshold ≥ 0 ∧ ¬ committed s r then (Antispam.isSpam s.as st (spamEv s r b)).2 else st

theorem gate_spec (s : Settings) (st : Antispam.State) (r : Rec) (b : Bytes) :
    gate s st r b =
      (if committed s r then some .committed
       else if decide (s.as.threshold ≥ 0) && (Antispam.isSpam s.as st (spamEv s r b)).1 then some .spam
       else none,
       restState s st r b) := by
  unfold gate restState
  by_cases hthr : s.as.threshold ≥ 0
  · rw [if_pos hthr]
    by_cases hcm : committed s r
    · obtain ⟨_, o, ho, h1, h2⟩ := hcm
      have hcm' : committed s r := ⟨hthr, o, ho, h1, h2⟩
      simp [ho, h1, h2, hcm', byStream]
    · have hno : ¬ (byStream r.streamOff > 0 ∧ r.cur < byStream r.streamOff) := by
        intro h
        cases hso : r.streamOff with
        | none => simp [hso, byStream] at h
        | some o => simp [hso, byStream] at h; exact hcm ⟨hthr, o, hso, h.1, h.2⟩
      dsimp only
      rw [if_neg hno]
      simp [hcm, hthr]
  · have hcm : ¬ committed s r := fun h => hthr h.1
    simp [hthr, hcm]

theorem inRest_spec (s : Settings) (decode : Bytes → Option JTree) (st : Antispam.State) (r : Rec)
    (b : Bytes) (cutoff : Bool) (hb : b ≠ []) :
    inRest s decode st r b cutoff = .ok (restOutcome s decode st r b cutoff, restState s st r b) := by
  unfold inRest restOutcome
  rw [gate_spec, decodeEvent_spec s decode b hb]
  by_cases hcm : committed s r
  · simp [hcm]
  · by_cases hsp : (decide (s.as.threshold ≥ 0) && (Antispam.isSpam s.as st (spamEv s r b)).1) = true
    · simp only [hcm, ↓reduceIte, hsp]
    · simp only [hcm, ↓reduceIte, hsp]
      cases hd : specDecode s decode b with
      | none => simp
      | some t =>
        by_cases hp : r.pass = false
        · simp [hp]
        · cases hmd : r.md with
          | nil => simp [hp, addMeta_nil]
          | cons kv kvs => simp [hp]

/-- the model of `Pipeline.In` is the declarative admission spec -/
theorem inStep_eq_admit (s : Settings) (decode : Bytes → Option JTree) (st : Antispam.State) (r : Rec)
    (hm : 0 ≤ s.maxEventSize) :
    inStep s decode st r = .ok (admitRec s decode (bannedNow s st r) r, nextState s st r) := by
  unfold inStep
  rw [checkInputBytes_spec s r.data hm]
  by_cases hemp : isEmptyRec r.data
  · have : r.data = [] ∨ r.data = [NL] := hemp
    simp [hemp, admitRec, nextState, reachesAntispam, this]
  · have hemp' : ¬ (r.data = [] ∨ r.data = [NL]) := hemp
    have hne := specBytes_ne_nil (m := s.maxEventSize) hemp hm
    by_cases hov : oversize s.maxEventSize r.data
    · by_cases hc : s.cutOff = false
      · simp [hemp, hemp', hov, hc, admitRec, nextState, reachesAntispam]
      · have hct : s.cutOff = true := by cases h : s.cutOff <;> simp_all
        simp only [hemp, hov, hc, ↓reduceIte, Bool.true_eq_false]
        rw [inRest_spec _ _ _ _ _ _ hne]
        simp only [restOutcome, restState, admitRec, bannedNow, nextState, reachesAntispam, hemp, hov, hc,
          addMark, ↓reduceIte]
        by_cases hcm : committed s r
        · simp [hcm]
        · by_cases hthr : s.as.threshold ≥ 0 <;> simp [hcm, hthr] <;> rfl
    · have hsb := specBytes_of_not_oversize hov
      rw [hsb] at hne
      simp only [hemp, hov, ↓reduceIte, Bool.true_eq_false]
      rw [inRest_spec _ _ _ _ _ _ hne]
      simp only [restOutcome, restState, admitRec, bannedNow, nextState, reachesAntispam, hemp, hov, hsb,
        addMark, ↓reduceIte]
      by_cases hcm : committed s r
      · simp [hcm]
      · by_cases hthr : s.as.threshold ≥ 0 <;> simp [hcm, hthr] <;> rfl

end FileD.Admission
