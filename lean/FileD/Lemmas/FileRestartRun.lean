/-
  Helper lemmas for C03, part 5: one step and whole histories; the hypothesis "at every crash …".
-/
import FileD.Lemmas.FileRestartRead
import FileD.Prelude.TS
namespace FileD.FileRestart
open FileD FileD.SpecC06 FileD.SpecC03

theorem running_up {s : State} (h : running s = true) : s.up = true := by
  simp [running] at h; exact h.1

/-- ops of a run that is neither killed nor sees a truncation -/
def isLive : Op → Bool
  | .truncate _ => false
  | .crash => false
  | .restart => false
  | .forget _ => false
  | _ => true

/-- every live op preserves the invariant, for any notion of good events closed under later SeqIDs -/
theorem inv_step_live {cfg : Cfg} {G : Ev → Prop} {Ex : Nat → Prop} (hgu : GoodUp G) {s s' : State} {op : Op}
    (h : Inv cfg G Ex s) (hl : isLive op = true) (hs : step? cfg s op = some s') : Inv cfg G Ex s' := by
  cases op with
  | create i nm =>
    simp only [step?] at hs
    split at hs
    · cases hs
    · rename_i hf; cases hs; exact h.files_grow (filesGrow_upd_new hf _)
  | append i b =>
    simp only [step?] at hs
    split at hs
    · rename_i f hf
      split at hs
      · cases hs; exact h.files_grow (filesGrow_upd_append hf b)
      · cases hs
    · cases hs
  | appendPartial i b =>
    simp only [step?] at hs
    split at hs
    · rename_i f hf; cases hs; exact h.files_grow (filesGrow_upd_append hf b)
    · cases hs
  | renameRotate i nm k =>
    simp only [step?] at hs
    split at hs
    · rename_i f hf hk
      cases hs
      refine h.files_grow ((filesGrow_upd_name hf nm).trans (filesGrow_upd_new ?_ _))
      have : k ≠ i := by intro e; subst e; rw [hf] at hk; cases hk
      rw [upd_other _ _ this]; exact hk
    · cases hs
  | truncate i => simp [isLive] at hl
  | discover i =>
    simp only [step?] at hs
    split at hs
    · rename_i hr
      split at hs
      · rename_i f hf hj; cases hs; exact inv_addJob (running_up hr) hf hj h
      · cases hs
    · cases hs
  | scanDone =>
    simp only [step?] at hs
    split at hs
    · cases hs; exact inv_scanning false h
    · cases hs
  | readTurn i reads =>
    simp only [step?] at hs
    split at hs
    · split at hs
      · rename_i f j hf hj
        split at hs
        · rename_i hpre; cases hs; exact inv_readTurn hgu hf hj hpre h
        · cases hs
      · cases hs
    · cases hs
  | deliver e =>
    simp only [step?] at hs
    split at hs
    · cases hs; exact inv_delivered _ h
    · cases hs
  | ack e =>
    simp only [step?] at hs
    split at hs
    · cases hs; exact inv_ack e h
    · cases hs
  | commit e =>
    simp only [step?] at hs
    split at hs
    · rename_i hcond; cases hs; exact inv_commit hcond.2.1 hcond.2.2.1 hcond.2.2.2 h
    · cases hs
  | save i =>
    simp only [step?] at hs
    split at hs
    · rename_i hr
      split at hs
      · rename_i j hj; cases hs; exact inv_save (running_up hr) hj h
      · cases hs
    · cases hs
  | saveAbsent i =>
    simp only [step?] at hs
    split at hs
    · rename_i hr
      split at hs
      · cases hs; exact inv_saveAbsent (running_up hr) h
      · cases hs
    · cases hs
  | crash => simp [isLive] at hl
  | restart => simp [isLive] at hl
  | forget i => simp [isLive] at hl

/-- every op except `truncate` preserves the invariant (all events good); `crash` needs the
    coverage hypothesis -/
theorem inv_step {cfg : Cfg} {s s' : State} {op : Op} (h : Inv cfg allGood noEx s) (hnt : isTruncate op = false)
    (hc : op = .crash → CrashCovered cfg s) (hs : step? cfg s op = some s') : Inv cfg allGood noEx s' := by
  cases op with
  | truncate i => simp [isTruncate] at hnt
  | crash =>
    simp only [step?] at hs
    split at hs
    · cases hs; exact inv_crash (hc rfl) h
    · cases hs
  | restart =>
    simp only [step?] at hs
    split at hs
    · cases hs
    · rename_i hup; cases hs; exact inv_restart (by simpa using hup) h
  | forget i =>
    simp only [step?] at hs
    split at hs
    · rename_i hr
      split at hs
      · split at hs
        · rename_i hc
          cases hs
          exact inv_forget (by simp [running] at hr; exact hr.1.1) (by simp [noEx]) hc.2 h
        · cases hs
      · cases hs
    · cases hs
  | _ => exact inv_step_live goodUp_all h rfl hs

/-- `P` holds in every state of the run in which a `crash` op is executed -/
def AtCrashes (cfg : Cfg) (P : State → Prop) : State → List Op → Prop
  | _, [] => True
  | s, op :: ops =>
    (op = .crash → P s) ∧ ∀ s', step? cfg s op = some s' → AtCrashes cfg P s' ops

def NoTruncate (ops : List Op) : Prop := ∀ op ∈ ops, isTruncate op = false

theorem inv_run {cfg : Cfg} {ops : List Op} {s s' : State} (h : Inv cfg allGood noEx s) (hnt : NoTruncate ops)
    (hc : AtCrashes cfg (CrashCovered cfg) s ops) (hr : TS.run (step? cfg) s ops = some s') :
    Inv cfg allGood noEx s' := by
  induction ops generalizing s with
  | nil => simp [TS.run] at hr; subst hr; exact h
  | cons op ops ih =>
    simp only [TS.run] at hr
    cases hso : step? cfg s op with
    | none => simp [hso] at hr
    | some s1 =>
      simp [hso] at hr
      exact ih (inv_step h (hnt op (by simp)) hc.1 hso) (fun o ho => hnt o (List.mem_cons_of_mem _ ho))
        (hc.2 s1 hso) hr

/-- at an idle state every admitted complete line is covered by a good event that is acked or has
    been handed to the output -/
theorem inv_idle_covered {cfg : Cfg} {G : Ev → Prop} {Ex : Nat → Prop} {s : State} (h : Inv cfg G Ex s)
    (hi : Idle s) : ∀ i f l, s.files i = some f → l ∈ SpecC03.lines f → cfg.accept l.2 = true →
      CoversG G (s.acked ++ s.delivered) i l := by
  intro i f l hf hl hacc
  obtain ⟨_, _, hjobs, hinfl⟩ := hi
  obtain ⟨j, hj, hcur⟩ := hjobs i f hf
  obtain ⟨f', hf', hji⟩ := h.jobs i j hj
  rw [hf] at hf'; cases hf'
  rw [hcur, List.take_length] at hji
  rcases hji.handled l hl hacc with ⟨e, he, h3⟩ | ⟨e, he, h3⟩
  · exact ⟨e, List.mem_append_left _ he, h3⟩
  · exact ⟨e, List.mem_append_right _ (hinfl e he), h3⟩

theorem inv_idle_allDelivered {cfg : Cfg} {s : State} (h : Inv cfg allGood noEx s) (hi : Idle s) :
    AllDelivered cfg s :=
  fun i f l hf hl hacc => coversG_all.1 (inv_idle_covered h hi i f l hf hl hacc)

/-! ### single-stream files -/

/-- all complete lines of one file carry the same stream -/
def SingleStream (cfg : Cfg) (s : State) : Prop :=
  ∀ i f l l', s.files i = some f → l ∈ SpecC03.lines f → l' ∈ SpecC03.lines f →
    cfg.streamOf l.2 = cfg.streamOf l'.2

theorem oget_isSome_of_mem {p : Offsets} {st : Stream} {o : Nat} (h : (st, o) ∈ p) : (oget p st).isSome := by
  induction p with
  | nil => cases h
  | cons x xs ih =>
    obtain ⟨k, v⟩ := x
    simp only [oget]
    split
    · simp
    · rename_i hk
      rcases List.mem_cons.1 h with h | h
      · cases h; exact absurd rfl hk
      · exact ih h

theorem crashCovered_of_singleStream {cfg : Cfg} {s : State} (h : Inv cfg allGood noEx s)
    (hss : SingleStream cfg s) : CrashCovered cfg s := by
  intro i f p l hf hp hl _ _
  obtain ⟨f', hf', hne, _, hw⟩ := h.glob.pers i p (by simp [noEx]) hp
  rw [hf] at hf'; cases hf'
  obtain ⟨x, hx, _⟩ := minOff_mem hne
  obtain ⟨d, hd, hst⟩ := hw x hx
  have : cfg.streamOf l.2 = x.1 := by rw [← hst]; exact hss i f l (x.2, d) hf hl hd
  rw [this]; exact oget_isSome_of_mem hx

theorem inv_run_single {cfg : Cfg} {ops : List Op} {s s' : State} (h : Inv cfg allGood noEx s) (hnt : NoTruncate ops)
    (hc : AtCrashes cfg (SingleStream cfg) s ops) (hr : TS.run (step? cfg) s ops = some s') :
    Inv cfg allGood noEx s' := by
  induction ops generalizing s with
  | nil => simp [TS.run] at hr; subst hr; exact h
  | cons op ops ih =>
    simp only [TS.run] at hr
    cases hso : step? cfg s op with
    | none => simp [hso] at hr
    | some s1 =>
      simp [hso] at hr
      exact ih (inv_step h (hnt op (by simp)) (fun e => crashCovered_of_singleStream h (hc.1 e)) hso)
        (fun o ho => hnt o (List.mem_cons_of_mem _ ho)) (hc.2 s1 hso) hr

end FileD.FileRestart
